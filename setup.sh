#!/bin/bash
# Build the Coq development, extract the model, build the OCaml driver. Offline, from files on disk only.
set -e
cd "$(dirname "$0")"
./build.sh && tools/build_props.sh
