"""C16 - the shuffle sampler emits wrapped translations with separated pivots.

sample_from_continuum is run with NumPy's primitives recorded (record mode) or supplied (script mode).  The recorded draws are replayed in the
Gallina model (Sampler/Shuffle.v): the requested primitives and their parameters (segments offered to np.random.choice with their weights, bounds
given to np.random.uniform, annotator list) must be those the model expects, and the sampled continuum must be the model's.  Output-level facts
(non-empty, annotator count, copies of ground-truth annotators, pivots in bounds / whole in integer mode / pairwise >= half the average unit length
while segments remain) are checked directly as well.  _remove_pivot_segment is also compared alone on generated segment lists."""
from fractions import Fraction

import numpy as np

import gen
from common import rng_for, run_model, coq_eval, w_list, frac
from draws import Draws

RULE = ("reference continua from VERIF_SEED (2..5 annotators, 1..6 units, all patterns, empty annotators allowed) x ground-truth subsets (>= 2) x "
        "both pivot types x 3 recorded + 2 steered samples each (timelines below zero included; the whole stream also goes through the model's retry loop), the integer-truncation witness (script mode), and 200 direct comparisons of "
        "_remove_pivot_segment; non-trivial = >= 3 sampled annotators (several exclusion zones) or a wrapped unit; distinct by (reference, ground truth, "
        "pivot type, recorded draws)")
TRUSTED_BASE = ["Coq 8.16.1 kernel", "extraction (ExtrOcamlBasic only), ocaml/driver.ml", "harness/{common,gen,draws,c16}.py: wrappers around np.random.*",
                "the laws of np.random.choice / uniform are NumPy's (only their contracts are used: index of an offered item, value in [low, high))"]
ASSUMPTIONS = ["float64 arithmetic on times vs exact rationals: absolute tolerance 1e-9 on times and weights",
               "separation is claimed while available segments remain (the continuum is long enough)"]

TOL = Fraction(1, 10 ** 9)


def q(x):
    f = frac(x)
    return [f.numerator, f.denominator]


def near(a, b):
    return abs(frac(a) - frac(b)) <= TOL * max(1, abs(frac(a)), abs(frac(b)))


def parse_trace(out):
    steps, pos = [], 0
    while True:
        code = out[pos]
        pos += 1
        if code == 0:
            return steps, "stream-mismatch"
        if code == 2:
            return steps, out[pos]
        n = out[pos]
        pos += 1
        avail = []
        for _ in range(n):
            avail.append((Fraction(out[pos], out[pos + 1]), Fraction(out[pos + 2], out[pos + 3])))
            pos += 4
        pivot = Fraction(out[pos], out[pos + 1])
        flag = out[pos + 2]
        a = out[pos + 3]
        pos += 4
        m = out[pos]
        pos += 1
        units = []
        for _ in range(m):
            units.append((Fraction(out[pos], out[pos + 1]), Fraction(out[pos + 2], out[pos + 3]), out[pos + 4]))
            pos += 5
        steps.append({"avail": avail, "pivot": pivot, "from_avail": flag == 1, "annotator": a, "units": units})


def stream_from_log(log, gts):
    """group the recorded primitive calls of ONE pass into the model's stream; returns (stream wire, per-annotator records) or an error string"""
    st, recs, k = [], [], 0
    while k < len(log):
        e = log[k]
        rec = {}
        if e["name"] == "choice" and e["items"] and hasattr(e["items"][0], "start"):
            rec["segments"] = [(s.start, s.end) for s in e["items"]]
            rec["weights"] = e["p"]
            st.append([0, e["index"]])
            k += 1
            if k >= len(log) or log[k]["name"] != "uniform":
                return None, "segment choice not followed by uniform"
            u = log[k]
            rec["uniform_args"] = u["args"]
            rec["uniform"] = u["result"]
            st.append([1] + q(u["result"]))
            k += 1
        elif e["name"] == "uniform":
            rec["segments"] = []
            rec["uniform_args"] = e["args"]
            rec["uniform"] = e["result"]
            st.append([1] + q(e["result"]))
            k += 1
        else:
            return None, "unexpected primitive %s" % e["name"]
        if k >= len(log) or log[k]["name"] != "choice":
            return None, "pivot not followed by the annotator choice"
        c = log[k]
        rec["annotators"] = list(c["items"])
        rec["annotator_index"] = c["index"]
        rec["annotator_p"] = c["p"]
        st.append([0, c["index"]])
        k += 1
        recs.append(rec)
    return st, recs


def check_sample(rep, pa, desc, cont, gts, pivot_type, sample, log, labels_id):
    """returns list of (key, message)"""
    bad = []
    n_gt = len(gts)
    binf, bsup = cont.bounds
    dist = cont.avg_length_unit / 2
    # "half the average unit length": the library's statistic must be the mean duration of the reference's units
    durs = [frac(u.segment.end) - frac(u.segment.start) for _, u in cont]
    if not near(cont.avg_length_unit, sum(durs, Fraction(0)) / len(durs)):
        bad.append(("avg-length-unit", "avg_length_unit %r is not the mean unit duration %r" % (cont.avg_length_unit, float(sum(durs, Fraction(0)) / len(durs)))))
    if not sample:
        bad.append(("empty-sample", "the sampled continuum is empty"))
    anns = list(sample.annotators)
    if len(anns) != n_gt:
        bad.append(("annotator-count", "%d sampled annotators for %d ground-truth annotators" % (len(anns), n_gt)))
    if any(not e["main"] for e in log):
        bad.append(("draw-thread", "a primitive was drawn outside the calling thread"))
    # the last pass is the one that produced the sample (earlier passes only exist if they came out empty)
    st, recs = stream_from_log(log, gts)
    if st is None:
        bad.append(("primitive-sequence", recs))
        return bad, None
    npass = len(recs) // n_gt if n_gt else 0
    if len(recs) != npass * n_gt or npass < 1:
        bad.append(("primitive-sequence", "%d pivot draws for %d ground-truth annotators" % (len(recs), n_gt)))
        return bad, None
    last = recs[(npass - 1) * n_gt:]
    # the calls of the last pass only (3 per annotator drawn from segments, 2 when no segment was left)
    st_last, recs_last = stream_from_log(log[len(log) - sum(3 if r["segments"] else 2 for r in last):], gts)
    gt_units = [[(u.segment.start, u.segment.end, labels_id(u.annotation)) for u in cont[a]] for a in gts]
    head = [1, 1 if pivot_type == "int_pivot" else 0] + q(dist) + q(binf) + q(bsup) + \
        w_list(gt_units, lambda us: w_list(us, lambda u: q(u[0]) + q(u[1]) + [u[2]]))
    line = [600] + head + [n_gt] + w_list(st_last, lambda d: d)
    # the whole recorded stream through the model's retry loop: exactly the passes before the last one must have come out empty
    retry_line = [602] + head + [npass + 1] + w_list(st, lambda d: d)
    return bad, (line, recs_last, gt_units, dist, binf, bsup, retry_line, npass, len(st_last))


def compare_with_model(rep, desc, pivot_type, sample, out, recs, gt_units, dist, binf, bsup, gts, labels_id):
    bad = []
    steps, rest = parse_trace(out)
    if rest != 0:
        bad.append(("stream", "the model does not consume the recorded draws like the library (%r)" % (rest,)))
        return bad, steps
    pivots = []
    for i, (stp, r) in enumerate(zip(steps, recs)):
        # requested primitives: segments offered, their weights, uniform bounds, annotator list
        segs = r["segments"]
        if len(segs) != len(stp["avail"]) or any(not (near(a[0], b[0]) and near(a[1], b[1])) for a, b in zip(segs, stp["avail"])):
            bad.append(("available-segments", "annotator %d: segments offered to the pivot draw %r, model %r" % (i, segs, [(float(a), float(b)) for a, b in stp["avail"]])))
            break
        if segs:
            tot = sum((b - a for a, b in stp["avail"]), Fraction(0))
            if r["weights"] is None or any(not near(w, (b - a) / tot) for w, (a, b) in zip(r["weights"], stp["avail"])):
                bad.append(("segment-weights", "annotator %d: segment weights %r are not proportional to the lengths" % (i, r["weights"])))
        lo, hi = r["uniform_args"][0], r["uniform_args"][1]
        if segs:
            idx = None
            for k2, (a, b) in enumerate(stp["avail"]):
                if near(lo, a) and near(hi, b):
                    idx = k2
            if idx is None:
                bad.append(("uniform-bounds", "annotator %d: uniform(%r, %r) is not one of the available segments" % (i, lo, hi)))
        else:
            if not (near(lo, binf) and near(hi, bsup)):
                bad.append(("uniform-bounds", "annotator %d: no segment left but uniform(%r, %r) is not over the bounds" % (i, lo, hi)))
        if list(r["annotators"]) != list(gts) or r["annotator_p"] is not None:
            bad.append(("annotator-choice", "annotator %d: chosen among %r with p=%r, ground truth %r" % (i, r["annotators"], r["annotator_p"], gts)))
        # the sampled annotator is the model's
        name = "Sampled_annotation %d" % i
        try:
            got = sorted((u.segment.start, u.segment.end, labels_id(u.annotation)) for u in sample[name])
        except KeyError:
            bad.append(("annotator-name", "no annotator %r in the sample" % name))
            continue
        want = sorted((float(s), float(e), l) for s, e, l in stp["units"])
        want_set = sorted(set(want))
        if len(got) != len(want_set) or any(not (near(a[0], b[0]) and near(a[1], b[1]) and a[2] == b[2]) for a, b in zip(got, want_set)):
            bad.append(("translated-units", "annotator %d: units %r, model (pivot %r, source annotator %d) %r" % (i, got, float(stp["pivot"]), stp["annotator"], want_set)))
        pivots.append((stp["pivot"], stp["from_avail"]))
    # output-level facts about the pivots
    for i, (p, fa) in enumerate(pivots):
        if not (frac(binf) <= p <= frac(bsup)):
            bad.append(("pivot-out-of-bounds", "pivot %r outside the bounds (%r, %r)" % (float(p), binf, bsup)))
        if pivot_type == "int_pivot" and fa and p.denominator != 1:
            bad.append(("pivot-not-whole", "integer mode but pivot %r" % float(p)))
        if fa:
            lo, hi = recs[i]["uniform_args"][0], recs[i]["uniform_args"][1]
            import math
            holds_int = math.ceil(lo) <= hi
            for j in range(i):
                if abs(p - pivots[j][0]) < frac(dist) - TOL:
                    if pivot_type == "int_pivot" and not holds_int:
                        rep.gray += 1      # the chosen segment holds no whole number: separation and wholeness cannot both hold
                        continue
                    key = "int-pivots-too-close" if pivot_type == "int_pivot" else "pivots-too-close"
                    bad.append((key, "pivots %r and %r are closer than half the average unit length %r (%s)" % (float(pivots[j][0]), float(p), float(dist), pivot_type)))
    return bad, steps


def run(rep, tier, seed, pa):
    rng = rng_for(seed, "C16")
    nref = 40 if tier == "quick" else 400
    lines, metas = [], []
    retry_lines, retry_meta = [], []
    label_ids = {}
    shared = {}

    def labels_id(l):
        if l not in label_ids:
            label_ids[l] = len(label_ids)
        return label_ids[l]
    for ri in range(nref):
        n = rng.choice([2, 3, 3, 4, 5])
        sizes = gen.sizes_for(rng, n, 6, allow_empty=(ri % 5 == 0))
        units = gen.gen_units(rng, n, sizes, rng.choice(gen.PATTERNS), gen.LABEL_SETS["abc"])
        if sum(len(u) for u in units) == 0:
            continue
        if ri % 3 == 1:      # timelines below zero (int() truncates towards zero there, floor / ceil do not)
            off = max(e for us in units for (_, e, _) in us) + rng.choice([0.0, 4.0, 17.0])
            units = [[(s - off, e - off, l) for (s, e, l) in us] for us in units]
            rep.count("negative_timeline")
        cont = gen.build_continuum(pa, units)
        names = list(cont.annotators)
        gts = names if rng.random() < 0.5 or n < 3 else sorted(rng.sample(names, rng.randrange(2, n + 1)))
        if not any(len(cont[a]) for a in gts):
            continue
        for pivot_type in ("float_pivot", "int_pivot"):
            # one sampler object per pivot type, re-initialised on every reference: nothing of an earlier reference may leak
            sampler = shared.setdefault(pivot_type, pa.ShuffleContinuumSampler(pivot_type=pivot_type))
            sampler.init_sampling(cont, gts)
            nrec = 3 if tier == "quick" else 5
            for rep_i in range(nrec + 2):
                np.random.seed(rng.randrange(2 ** 31))
                desc = {"units": units, "ground_truth": list(gts), "pivot_type": pivot_type}
                policy = None
                if rep_i >= nrec:
                    # steered draws: every uniform lands in the last / first 2% of whatever interval the library offers (the corners where
                    # rounding a pivot can leave the chosen segment), annotator and segment choices stay random
                    def policy(name, args, n, _r=rng):
                        if name == "uniform" and len(args) >= 2 and args[1] > args[0]:
                            t = _r.choice([0.004, 0.017, 0.983, 0.996, 0.5])
                            return float(args[0] + (args[1] - args[0]) * t)
                        return None
                    rep.count("steered_samples")
                try:
                    with Draws(policy=policy) as dr:
                        sample = sampler.sample_from_continuum
                    log = dr.log
                except Exception as e:
                    rep.case()
                    rep.violation("sampler-raises:" + type(e).__name__, dict(desc, error=repr(e)), "sample_from_continuum raised %r" % (e,))
                    continue
                bad, pack = check_sample(rep, pa, desc, cont, list(gts), pivot_type, sample, log, labels_id)
                desc["draws"] = [(e["name"], e.get("index"), (float(e["result"]) if e["name"] != "choice" else None)) for e in log]
                for key, what in bad:
                    rep.violation(key, desc, what)
                if pack is not None:
                    lines.append(pack[0])
                    metas.append((desc, pivot_type, sample, pack[1:6], list(gts)))
                    retry_lines.append(pack[6])
                    retry_meta.append((desc, pack[7], pack[8]))
    outs = run_model(lines)
    for (desc, pivot_type, sample, (recs, gt_units, dist, binf, bsup), gts), out in zip(metas, outs):
        rep.count("pivot_type=" + pivot_type)
        rep.count("sampled_annotators=%d" % len(gts))
        if not isinstance(out, list) or out[:1] == [-1]:
            rep.case()
            rep.violation("model-error", desc, "model rejected the recorded run no-failing-input-found")
            continue
        bad, steps = compare_with_model(rep, desc, pivot_type, sample, out, recs, gt_units, dist, binf, bsup, gts, labels_id)
        rep.case(sample={"ground_truth": gts, "pivot_type": pivot_type, "pivots": [float(s["pivot"]) for s in steps], "dist": float(dist), "agree": not bad},
                 nontrivial_key=repr(desc) if len(gts) >= 3 else None)
        for key, what in bad:
            rep.violation(key, desc, what)
    # the retry loop: number of discarded passes and the point of the stream where the kept pass starts
    for (desc, npass, nlast), out in zip(retry_meta, run_model(retry_lines)):
        rep.count("passes=%d" % npass)
        if out != [1, npass - 1, nlast]:
            rep.violation("retry-loop", dict(desc, passes=npass, model=out),
                          "the library made %d passes; the model's retry loop says %r (1, discarded passes, draws of the kept pass = %d)" % (npass, out, nlast))
    # _remove_pivot_segment alone against the model
    from pyannote.core import Segment
    rlines, rmeta = [], []
    for _ in range(200 if tier == "quick" else 2000):
        k = rng.randrange(1, 5)
        pts = sorted(rng.sample(range(0, 400), 2 * k))
        segs = [(pts[2 * i] / 4.0, pts[2 * i + 1] / 4.0) for i in range(k)]
        rng.shuffle(segs)
        p = rng.randrange(-20, 420) / 4.0
        d = rng.choice([0.25, 1.0, 2.5, 7.75, 30.0])
        lib = pa.ShuffleContinuumSampler._remove_pivot_segment(p, [Segment(a, b) for a, b in segs], d)
        rlines.append([601, 1] + q(p) + q(d) + w_list(segs, lambda sg: q(sg[0]) + q(sg[1])))
        rmeta.append((p, d, segs, [(s.start, s.end) for s in lib]))
    for (p, d, segs, lib), out in zip(rmeta, run_model(rlines)):
        m = [(Fraction(out[1 + 4 * i], out[2 + 4 * i]), Fraction(out[3 + 4 * i], out[4 + 4 * i])) for i in range(out[0])]
        rep.count("remove_pivot_compared")
        if len(m) != len(lib) or any(frac(a) != c or frac(b) != e for (a, b), (c, e) in zip(lib, m)):
            rep.violation("remove-pivot", {"pivot": p, "dist": d, "segments": segs, "library": lib, "model": [(float(a), float(b)) for a, b in m]},
                          "_remove_pivot_segment(%r, %r, %r) = %r, model %r" % (p, segs, d, lib, [(float(a), float(b)) for a, b in m]))
    # script mode: the integer-truncation witness (two draws 37.2 then 39.7 with half average length 2.5)
    cont = pa.Continuum()
    for a in ("a", "b"):
        cont.add(a, Segment(0.0, 5.0), "A")
        cont.add(a, Segment(95.0, 100.0), "A")
    s = pa.ShuffleContinuumSampler(pivot_type="int_pivot")
    s.init_sampling(cont)
    script = [("choice", 0), ("uniform", 37.2), ("choice", 0), ("choice", 1), ("uniform", 39.7), ("choice", 0)]
    try:
        with Draws(script=script) as dr:
            smp = s.sample_from_continuum
        pv = [smp["Sampled_annotation %d" % i][0].segment.start for i in range(2)]
        rep.case(sample={"scripted": "int witness", "pivots": pv})
        rep.count("scripted_witness")
        if abs(pv[0] - pv[1]) < 2.5:
            rep.violation("int-pivots-too-close", {"script": script, "pivots": pv},
                          "scripted draws 37.2 then 39.7 (integer mode, half average length 2.5) give pivots %r" % (pv,))
    except Exception as e:
        rep.violation("script-raises", {"error": repr(e)}, "scripted witness raised %r no-failing-input-found" % (e,))
    # the mirrored witness below zero: draws -37.2 then -39.7 (int() truncates towards zero: -39 is inside the first pivot's exclusion zone)
    cont = pa.Continuum()
    for a in ("a", "b"):
        cont.add(a, Segment(-100.0, -95.0), "A")
        cont.add(a, Segment(-5.0, 0.0), "A")
    s = pa.ShuffleContinuumSampler(pivot_type="int_pivot")
    s.init_sampling(cont)
    script = [("choice", 0), ("uniform", -37.2), ("choice", 0), ("choice", 0), ("uniform", -39.7), ("choice", 0)]
    try:
        with Draws(script=script) as dr:
            smp = s.sample_from_continuum
        # every unit is moved by the pivot (no wrap here: all starts stay below the upper bound 0), so pivot = smallest start + 100
        pivots = [min(u.segment.start for u in smp["Sampled_annotation %d" % i]) + 100.0 for i in range(2)]
        rep.case(sample={"scripted": "negative int witness", "pivots": pivots})
        rep.count("scripted_witness")
        if abs(pivots[0] - pivots[1]) < 2.5:
            rep.violation("int-pivots-too-close", {"script": script, "pivots": pivots},
                          "scripted draws -37.2 then -39.7 (integer mode, half average length 2.5) give pivots %r" % (pivots,))
    except Exception as e:
        rep.violation("script-raises", {"error": repr(e)}, "scripted negative witness raised %r no-failing-input-found" % (e,))
    sample = [l for l in lines if len(l) < 600][:6]
    coq = coq_eval(sample)
    oc = run_model(sample)
    rep.extra["extraction_crosscheck"] = {"cases": len(sample), "agree": sum(1 for a, b in zip(oc, coq) if a == b)}
    if any(a != b for a, b in zip(oc, coq)):
        rep.violation("extraction", {}, "extracted model and vm_compute disagree no-failing-input-found")


def replay(rep, data, pa):
    print("  C16 replay: recorded draws %r" % (data.get("draws"),))
    units = data.get("units")
    if not units:
        return False
    units = [[tuple(u) for u in us] for us in units]
    cont = gen.build_continuum(pa, units)
    sampler = pa.ShuffleContinuumSampler(pivot_type=data["pivot_type"])
    sampler.init_sampling(cont, data["ground_truth"])
    script = []
    for name, idx, val in data["draws"]:
        script.append((name, idx if name == "choice" else val))
    with Draws(script=script) as dr:
        sample = sampler.sample_from_continuum
    ids = {}
    bad, pack = check_sample(rep, pa, data, cont, list(data["ground_truth"]), data["pivot_type"], sample, dr.log, lambda l: ids.setdefault(l, len(ids)))
    if pack is None:
        return False
    out = run_model([pack[0]])[0]
    bad2, _ = compare_with_model(rep, data, data["pivot_type"], sample, out, *pack[1:6], list(data["ground_truth"]), lambda l: ids.setdefault(l, len(ids)))
    for k, w in bad + bad2:
        print("  ", k, w)
    return not (bad or bad2)
