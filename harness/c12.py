"""C12 - gamma-cat and gamma-k follow their definition.

Alignment.gamma_k_disorder(d, category|None) on best / soft alignments and random partitions, and GammaResults.gamma_cat /
gamma_k recomputed from the stored alignments, are compared with the Gallina model (Gamma/GammaK.v: gk_loop, gamma_of,
gamma_cat_of) evaluated in exact rationals on the positional / categorical unit-to-unit values."""
from fractions import Fraction

import numpy as np

import gen
import alignchk as ac
from common import rng_for, run_model, coq_eval, w_list, frac, close, TAU2

RULE = ("per generated continuum (2..5 annotators, partial tuples, labelled): best alignment, soft alignment and a random partition x "
        "combined dissimilarities (alpha in {0,.5,1,3}, delta_empty in {.25,.5,1,2}, categorical component abs/lev/ord/num/pre) x category in "
        "{None, each label present, an absent label}: gamma_k_disorder vs gk_loop within 2^-15; each alignment again under a second dissimilarity, and the "
        "random partition once more after a unit was moved between two of its unitary alignments through the n_tuple setter; plus gamma_cat / gamma_k of compute_gamma "
        "results (3..13 samples) recomputed by the model from the stored alignments; TypeError for non-combined dissimilarities; "
        "non-trivial = at least one considered real-real pair and one unit/empty pair; distinct by (alignment, dissimilarity, category)")
TRUSTED_BASE = ["Coq 8.16.1 kernel", "extraction (ExtrOcamlBasic only), ocaml/driver.ml", "harness/{common,gen,alignchk,c12}.py",
                "positional_dissim.d / categorical_dissim.d values are inputs of the model (their formulas: C04)"]
ASSUMPTIONS = ["domain of the headline theorem: alignments with at least one considered pair of real units (DESIGN 6); the conventional values "
               "outside it are characterised exactly and compared too", "relative tolerance 2^-15"]


def q(x):
    f = frac(x)
    return [f.numerator, f.denominator]


def encode_alignment(al, dissim, catid):
    """al: pygamma Alignment -> wire of list ua"""
    out = [len(al.unitary_alignments)]
    for ua in al.unitary_alignments:
        units = [u for _, u in ua.n_tuple]
        out += w_list(units, lambda u: [0] if u is None else [1, catid(u.annotation)])
        pv = []
        for i in range(len(units)):
            for j in range(i + 1, len(units)):
                u1, u2 = units[i], units[j]
                if u1 is None or u2 is None:
                    pv.append((Fraction(0), Fraction(0)))
                else:
                    pv.append((frac(dissim.positional_dissim.d(u1, u2)), frac(dissim.categorical_dissim.d(u1, u2))))
        out += w_list(pv, lambda p: q(p[0]) + q(p[1]))
    return out


def tuples_of(al):
    return [[(a, None if u is None else (u.segment.start, u.segment.end, u.annotation)) for a, u in ua.n_tuple] for ua in al.unitary_alignments]


def gk_line(al, dissim, category, catid):
    return [210] + q(dissim.alpha) + q(dissim.delta_empty) + ([0] if category is None else [1, catid(category)]) + encode_alignment(al, dissim, catid)


def random_partition_alignment(pa, rng, cont):
    from pygamma_agreement.alignment import Alignment, UnitaryAlignment
    names = list(cont.annotators)
    pools = {a: list(cont[a]) for a in names}
    for a in pools:
        rng.shuffle(pools[a])
    uas = []
    while any(pools.values()):
        t = [(a, pools[a].pop()) if pools[a] and rng.random() < 0.7 else (a, None) for a in names]
        if any(u is not None for _, u in t):
            rng.shuffle(t)        # the order in which annotators are listed inside a unitary alignment is arbitrary
            uas.append(UnitaryAlignment(t))
    return Alignment(uas, cont)


def run(rep, tier, seed, pa):
    ac.install_backend_hooks()
    rng = rng_for(seed, "C12")
    ncases = 70 if tier == "quick" else 700
    cases = ac.random_cases(rng, ncases, tier, unlabelled_share=0.0, kmax={2: 5, 3: 4, 4: 3, 5: 2}, kinds=["comb"])
    lines, metas = [], []
    for case in cases:
        cont = gen.build_continuum(pa, case["units"])
        dissim = gen.make_dissim(pa, case["spec"])
        labels = sorted(set(l for us in case["units"] for (_, _, l) in us))
        ids = {l: i for i, l in enumerate(labels + ["__absent__"])}
        catid = lambda l: ids[l]
        try:
            als = [("best", cont.get_best_alignment(dissim)), ("soft", cont.get_best_soft_alignment(dissim)),
                   ("random", random_partition_alignment(pa, rng, cont))]
        except Exception as e:
            rep.case()
            rep.violation("alignment-raises:" + type(e).__name__, {"units": case["units"], "dissim": case["spec"], "error": repr(e)}, "alignment computation raised %r" % (e,))
            continue
        # metamorphic: re-listing the slots of every tuple of the best alignment must not change the value (C12 slot-order theorem)
        from pygamma_agreement.alignment import Alignment, UnitaryAlignment
        relisted = Alignment([UnitaryAlignment(rng.sample(ua.n_tuple, len(ua.n_tuple))) for ua in als[0][1].unitary_alignments], cont)
        for category in [None] + labels[:1]:
            a, b = als[0][1].gamma_k_disorder(dissim, category), relisted.gamma_k_disorder(dissim, category)
            if not close(a, b, TAU2):
                rep.violation("slot-order", {"units": case["units"], "dissim": case["spec"], "category": category, "values": [float(a), float(b)]},
                              "gamma_k_disorder changes when the slots of the unitary alignments are re-listed: %r vs %r" % (float(a), float(b)))
        # every alignment object is also evaluated with a SECOND combined dissimilarity (other alpha / delta_empty), and then again with
        # the first one: the value must be a function of (alignment, dissimilarity, category) only, not of earlier calls
        spec2 = ("comb", {0.0: 1.0, 0.5: 3.0, 1.0: 0.5, 3.0: 1.0}[case["spec"][1]], 1.0, {0.25: 2.0, 0.5: 1.0, 1.0: 0.5, 2.0: 0.25}.get(case["spec"][3], 1.0)) + tuple(case["spec"][4:])
        dissim2 = gen.make_dissim(pa, spec2)
        plan = [(kind, al, dissim, case["spec"]) for kind, al in als] + [(kind + "/2nd-dissimilarity", al, dissim2, spec2) for kind, al in als] + \
               [(kind + "/1st-again", al, dissim, case["spec"]) for kind, al in als[:1]]
        for kind, al, dissim, spec_used in plan:
            for category in [None] + labels + ["__absent__"]:
                try:
                    v = al.gamma_k_disorder(dissim, category)
                except Exception as e:
                    rep.case()
                    rep.violation("gamma_k_disorder-raises", {"units": case["units"], "dissim": case["spec"], "category": category, "error": repr(e)},
                                  "gamma_k_disorder raised %r" % (e,))
                    continue
                lines.append(gk_line(al, dissim, category, catid))
                metas.append((dict(case, spec=spec_used, first_spec=case["spec"], tuples_now=tuples_of(al)), kind, category, v, al))
        # the SAME alignment object re-aligned in place through the public n_tuple setter (a unit moved from one unitary alignment to a free slot
        # of another: still a partition, other numbers of real units) and evaluated again: the value must follow the alignment as it is now
        ral = als[2][1]
        ral_before = tuples_of(ral)
        moved = False
        uas = list(ral.unitary_alignments)
        for i, ua in enumerate(uas):
            real = [(k, a, u) for k, (a, u) in enumerate(ua.n_tuple) if u is not None]
            if len(real) < 2:
                continue
            k, a, u = rng.choice(real)
            for j, ub in enumerate(uas):
                slot = [k2 for k2, (a2, u2) in enumerate(ub.n_tuple) if a2 == a and u2 is None]
                if j != i and slot:
                    t1 = list(ua.n_tuple)
                    t1[k] = (a, None)
                    t2 = list(ub.n_tuple)
                    t2[slot[0]] = (a, u)
                    ua.n_tuple = t1
                    ub.n_tuple = t2
                    moved = True
                    break
            if moved:
                break
        if moved:
            for category in [None] + labels:
                v = ral.gamma_k_disorder(dissim, category)
                lines.append(gk_line(ral, dissim, category, catid))
                metas.append((dict(case, tuples_before=ral_before, tuples_now=tuples_of(ral)), "random/re-aligned-in-place", category, v, ral))
    outs = run_model(lines)
    for (case, kind, category, v, al), out in zip(metas, outs):
        ok = isinstance(out, list) and len(out) == 3
        model = Fraction(out[0], out[1]) if ok else None
        real = ok and out[2] == 1
        has_empty = any(u is None for ua in al.unitary_alignments for _, u in ua.n_tuple)
        rep.count("alignment=" + kind)
        rep.count("category=" + ("none" if category is None else ("absent" if category == "__absent__" else "present")))
        rep.count("domain=" + ("real-pair" if real else "degenerate"))
        rep.case(sample={"alignment": kind, "dissim": case["spec"], "category": category, "library": float(v), "model": float(model) if ok else out},
                 nontrivial_key=(repr(case["units"]), case["spec"], kind, category) if (real and has_empty) else None)
        if not ok or not close(v, model, TAU2):
            rep.violation("gamma_k_disorder", {"units": case["units"], "dissim": case["spec"], "alignment_kind": kind, "category": category,
                                               "first_dissim": case.get("first_spec"), "tuples": case.get("tuples_now"), "tuples_before": case.get("tuples_before"),
                                               "library": float(v), "model": str(model)},
                          "gamma_k_disorder(%r) = %r but the weighted-mean definition gives %r" % (category, float(v), float(model) if ok else out))
    # refused for dissimilarities that are not the combined one
    cont = gen.build_continuum(pa, cases[0]["units"])
    for spec in [("pos", 1.0), ("abs", 1.0), ("cat", 1.0, "lev", "abc", "sorted")]:
        d = gen.make_dissim(pa, spec)
        for f in (lambda: cont.get_best_alignment(gen.make_dissim(pa, ("pos", 1.0))).gamma_k_disorder(d, None),):
            try:
                f()
                rep.violation("not-refused", {"dissim": spec}, "gamma_k_disorder accepted a non-combined dissimilarity")
            except TypeError:
                rep.count("refused_non_combined")
            except Exception as e:
                rep.violation("not-refused", {"dissim": spec, "error": repr(e)}, "gamma_k_disorder raised %r instead of TypeError" % (e,))
    # GammaResults.gamma_cat / gamma_k / gamma from the stored alignments
    ngam = 12 if tier == "quick" else 100
    glines, gmetas = [], []
    for case in cases[:ngam]:
        cont = gen.build_continuum(pa, case["units"])
        if sum(1 for us in case["units"] if us) < 2:
            continue
        dissim = gen.make_dissim(pa, case["spec"])
        np.random.seed(rng.randrange(10 ** 6))
        try:
            res = cont.compute_gamma(dissim, n_samples=rng.choice([3, 4, 5, 11, 13]), sampler=pa.ShuffleContinuumSampler())     # also counts that are not a multiple of a round batch size
        except Exception as e:
            rep.count("compute_gamma_raised:" + type(e).__name__)
            continue
        labels = sorted(cont.categories)
        for category in [None] + labels:
            obs = res.best_alignment.gamma_k_disorder(dissim, category)
            ch = [a.gamma_k_disorder(dissim, category) for a in res.chance_alignments]
            mean = sum(frac(c) for c in ch) / len(ch)
            if category is not None and mean == 0 and obs != 0:
                rep.count("gamma_k_zero_expected_skipped")
                continue
            try:
                lib = res.gamma_cat if category is None else res.gamma_k(category)
            except Exception as e:
                rep.violation("gamma_cat-raises", {"units": case["units"], "dissim": case["spec"], "category": category, "error": repr(e)},
                              "gamma_cat / gamma_k raised %r" % (e,))
                continue
            glines.append([211] + q(obs) + w_list(ch, q))
            gmetas.append((case, category, lib, float(res.gamma), res))
    gouts = run_model(glines)
    for (case, category, lib, g, res), out in zip(gmetas, gouts):
        gk = Fraction(out[0], out[1])
        gc = Fraction(out[2], out[3])
        model = gc if category is None else gk
        rep.count("gamma_family_compared")
        rep.case(sample={"gamma_family": "gamma_cat" if category is None else "gamma_k(%s)" % category, "library": float(lib), "model": float(model)})
        if not close(lib, model, TAU2 * 4):
            rep.violation("gamma-cat-k", {"units": case["units"], "dissim": case["spec"], "category": category, "library": float(lib), "model": str(model)},
                          "gamma_cat/gamma_k = %r but 1 - observed/mean(chance) = %r" % (float(lib), float(model)))
        if frac(lib) > 1:
            rep.violation("gamma-above-1", {"units": case["units"], "dissim": case["spec"], "category": category, "library": float(lib)}, "gamma-cat/k above 1")
    sample = [l for l in lines if len(l) < 300][:8]
    coq = coq_eval(sample)
    oc = run_model(sample)
    rep.extra["extraction_crosscheck"] = {"cases": len(sample), "agree": sum(1 for a, b in zip(oc, coq) if a == b)}
    if any(a != b for a, b in zip(oc, coq)):
        rep.violation("extraction", {}, "extracted model and vm_compute disagree no-failing-input-found")


def replay(rep, data, pa):
    """rebuilds the recorded alignment (through the same history: evaluated under the first dissimilarity, re-aligned in place) and compares
    gamma_k_disorder with the model again; then the best and soft alignments of the recorded continuum for every category"""
    ac.install_backend_hooks()
    from pyannote.core import Segment
    from pygamma_agreement.alignment import Alignment, UnitaryAlignment
    Unit = pa.continuum.Unit
    units = [[tuple(u) for u in us] for us in data["units"]]
    spec = tuple(data["dissim"])
    cont = gen.build_continuum(pa, units)
    dissim = gen.make_dissim(pa, spec)
    labels = sorted(set(l for us in units for (_, _, l) in us))
    ids = {l: i for i, l in enumerate(labels + ["__absent__"])}
    ok = True

    def mk(tuples):
        return [[(a, None if u is None else Unit(Segment(u[0], u[1]), u[2])) for a, u in t] for t in tuples]

    def compare(al, d, category, what):
        v = al.gamma_k_disorder(d, category)
        out = run_model([gk_line(al, d, category, lambda l: ids[l])])[0]
        m = Fraction(out[0], out[1])
        if not close(v, m, TAU2):
            print("  %s, category %r: library %r model %r" % (what, category, float(v), float(m)))
            return False
        return True
    if data.get("tuples"):
        start = data.get("tuples_before") or data["tuples"]
        al = Alignment([UnitaryAlignment(t) for t in mk(start)], cont)
        if data.get("first_dissim") and tuple(data["first_dissim"]) != spec:
            first = gen.make_dissim(pa, tuple(data["first_dissim"]))
            for category in [None] + labels:
                al.gamma_k_disorder(first, category)          # the earlier calls of the history
        if data.get("tuples_before"):
            for category in [None] + labels:
                al.gamma_k_disorder(dissim, category)         # queried once before being re-aligned in place
            for ua, t in zip(al.unitary_alignments, mk(data["tuples"])):
                ua.n_tuple = t
        ok = compare(al, dissim, data.get("category"), "recorded alignment (%s)" % data.get("alignment_kind")) and ok
    for al in (cont.get_best_alignment(dissim), cont.get_best_soft_alignment(dissim)):
        for category in [None] + labels + ["__absent__"]:
            ok = compare(al, dissim, category, "best / soft alignment") and ok
    return ok
