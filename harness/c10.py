"""C10 - the fast alignment terminates with a valid, never-better-than-optimal alignment.

get_fast_alignment is run under a watchdog with get_first_window and the window's get_best_alignment recorded.  The extracted model
(Fast/Model.v) replays the loop with the recorded window alignments as oracle answers; window, limit and chosen unitary alignments of every
iteration, and the final alignment, must coincide.  The result is judged by the verified partition checker, its disorder by the exact sums,
compared with the best alignment (>=, and = when the window covers the whole continuum), and the job dispatch of fast-mode gamma is observed."""
from fractions import Fraction

import numpy as np

import gen
import alignchk as ac
from align import Inst
from common import rng_for, run_model, coq_eval, w_list, w_tuple, frac, close, TAU2

RULE = ("continua from VERIF_SEED (2..4 annotators, 1..5 units each, patterns incl. nested / long overlapping / intgrid / containers (a long unit holding later units of its annotator) / timelines below zero, empty annotators, plus the "
        "non-termination witness of the unrepaired loop) x window sizes 1..ceil(units/annotators)+1 x dissimilarities; per-iteration trace "
        "validation against the model; non-trivial = at least two iterations, or an iteration where no unitary alignment ended before the limit "
        "(repaired choice used); distinct by (units, dissimilarity, window size)")
TRUSTED_BASE = ["Coq 8.16.1 kernel", "extraction (ExtrOcamlBasic only), ocaml/driver.ml", "harness/{common,align,alignchk,gen,c10}.py: the recording wrappers "
                "around Continuum.get_first_window / get_best_alignment, unit numbering and ranks", "the window's best alignment is an oracle (judged by C01/C02)"]
ASSUMPTIONS = ["the cost estimate inside measure_best_window_size is not modelled, only the dispatch on the stored window size",
               "20 s watchdog per call; relative tolerance 2^-15"]


class Trace:
    def __init__(self, pa):
        self.pa = pa
        self.active = False
        self.windows = []
        self.aligns = []

    def install(self):
        C = self.pa.Continuum
        if getattr(C, "_pga_c10", False):
            return
        tr = self
        ofw, oba = C.get_first_window, C.get_best_alignment

        def gfw(self_, *a, **k):
            r = ofw(self_, *a, **k)
            if TRACE[0] is not None and TRACE[0].active:
                TRACE[0].windows.append(r)
            return r

        def gba(self_, *a, **k):
            r = oba(self_, *a, **k)
            if TRACE[0] is not None and TRACE[0].active:
                TRACE[0].aligns.append(r)
            return r
        C.get_first_window, C.get_best_alignment = gfw, gba
        C._pga_c10 = True


TRACE = [None]


def unit_key(u):
    return (u.segment.start, u.segment.end, u.annotation is not None, u.annotation or "")


def build_model_line(I, dissim, w, oracle, repaired=True):
    """I: Inst of the continuum. oracle: list of alignments, each a list of index tuples (None where the unit is not in the continuum)"""
    units = [(a, i, u) for a, (_, us) in enumerate(I.ann) for i, u in enumerate(us)]
    ids = {(a, i): k for k, (a, i, u) in enumerate(units)}
    order = sorted(set(unit_key(u) for _, _, u in units))
    rank = {k: r for r, k in enumerate(order)}
    vals = [frac(dissim.d(u, v)) for _, _, u in units for _, _, v in units]
    thr = frac(dissim.delta_empty * I.n)
    times = [frac(u.segment.start) for _, _, u in units] + [frac(u.segment.end) for _, _, u in units]
    from common import dyadic_exp
    k = max([dyadic_exp(v) for v in vals + [thr] + times] + [0])
    sc = 2 ** k
    z = lambda v: (frac(v) * sc).numerator
    N = len(units)
    line = [500, 1 if repaired else 0, w, z(thr)]
    line += w_list(I.ann, lambda au: w_list([(I.ann.index(au), i) for i in range(len(au[1]))],
                                            lambda ai: [ids[ai], z(au[1][ai[1]].segment.start), z(au[1][ai[1]].segment.end), rank[unit_key(au[1][ai[1]])]]))
    line += w_list(range(N), lambda i: w_list([z(vals[i * N + j]) for j in range(N)]))
    line += w_list(oracle, lambda al: w_list(al, lambda t: w_list(list(enumerate(t)), lambda av: [0] if av[1] == I.sizes[av[0]] else [1, ids[(av[0], av[1])]])))
    return line, ids, sc


def parse_trace(out):
    """-> list of (window ids, xl, chosen tuples as lists of option id), end code, leftover ids"""
    its, pos = [], 0
    while True:
        code = out[pos]
        pos += 1
        if code == 0:
            return its, 0, []
        if code == 2:
            n = out[pos]
            return its, 2, out[pos + 1: pos + 1 + n]
        n = out[pos]
        win = out[pos + 1: pos + 1 + n]
        pos += 1 + n
        xl = out[pos]
        pos += 1
        nch = out[pos]
        pos += 1
        ch = []
        for _ in range(nch):
            m = out[pos]
            pos += 1
            t = []
            for _ in range(m):
                if out[pos] == 0:
                    t.append(None)
                    pos += 1
                else:
                    t.append(out[pos + 1])
                    pos += 2
            ch.append(t)
        its.append((win, xl, ch))


WITNESS = [[(0.0, 1.0, "A"), (2.0, 3.0, "A")], [(0.0, 50.0, "A"), (2.125, 3.125, "A")]]


def run(rep, tier, seed, pa):
    ac.install_backend_hooks()
    tr = Trace(pa)
    tr.install()
    rng = rng_for(seed, "C10")
    cases = ac.random_cases(rng, 70 if tier == "quick" else 700, tier, unlabelled_share=0.1, kmax={2: 5, 3: 4, 4: 3, 5: 2})
    for c in cases:
        if rng.random() < 0.5:
            c["pattern"] = rng.choice(["nested", "intgrid", "random"])
            n = len(c["units"])
            c["units"] = gen.gen_units(rng, n, [max(1, len(u)) for u in c["units"]], c["pattern"], gen.LABEL_SETS[c["labelset"]], c["unlabelled"])
    # containers: the unit that ends last is a long one holding later-starting units of its own annotator, the other annotators' units lie
    # elsewhere (the window head then contains the last-ending unit long before the last window)
    for k in range(8 if tier == "quick" else 60):
        n = rng.choice([2, 2, 3])
        L = rng.choice([64.0, 100.0, 200.0])
        inner = sorted(rng.sample(range(int(L * 0.6), int(L) - 2), rng.randrange(2, 5)))
        units = [[(0.0, L, "A")] + [(float(x), float(x) + 1.0, rng.choice(["A", "B"])) for x in inner]]
        for a in range(1, n):
            st = sorted(rng.sample(range(2, int(L * 0.75)), rng.randrange(1, 3)))
            units.append([(float(x), float(x) + 2.0, rng.choice(["A", "B"])) for x in st])
        rng.shuffle(units)
        cases.append({"units": [sorted(u) for u in units], "spec": rng.choice([("pos", 1.0), ("comb", 1.0, 1.0, 1.0, "abs", "abc", "asis")]),
                      "pattern": "containers", "unlabelled": False})
    # timelines below zero (bounds that start from 0.0 are wrong there)
    for c in cases:
        if rng.random() < 0.2 and sum(len(u) for u in c["units"]):
            off = max(e for us in c["units"] for (_, e, _) in us) + rng.choice([0.0, 8.0])
            c["units"] = [[(s - off, e - off, l) for (s, e, l) in us] for us in c["units"]]
            c["pattern"] += "-negative"
    cases.insert(0, {"units": WITNESS, "spec": ("comb", 1.0, 1.0, 1.0, "abs", "abc", "asis"), "pattern": "witness", "unlabelled": False})
    cases.insert(1, {"units": [[(0.0, 100.0, "A"), (80.0, 81.0, "A"), (90.0, 91.0, "A"), (95.0, 96.0, "A")], [(70.0, 72.0, "A")]],
                     "spec": ("pos", 1.0), "pattern": "containers", "unlabelled": False})
    jobs = []
    for case in cases:
        n = len(case["units"])
        total = sum(len(u) for u in case["units"])
        if total == 0 or sum(1 for u in case["units"]) < 2:
            continue
        wmax = -(-total // n) + 1
        ws = sorted(set([1, wmax, rng.randrange(1, wmax + 1)])) if tier == "quick" else list(range(1, wmax + 1))
        for w in ws:
            jobs.append((case, w))
    lines, metas = [], []
    part_items = []
    oracle_checks = []
    objs = [(gen.build_continuum(pa, case["units"]), gen.make_dissim(pa, case["spec"])) for case, w in jobs]
    TRACE[0] = tr

    def work(k):
        cont, dissim = objs[k]
        tr.windows, tr.aligns, tr.active = [], [], True
        f = cont.get_fast_alignment(dissim, jobs[k][1])
        tr.active = False
        f.continuum = None
        return f, list(tr.windows), list(tr.aligns)
    fouts = ac.map_forked(work, range(len(jobs)), 20)
    for (case, w), (cont, dissim), fo in zip(jobs, objs, fouts):
        data = {"units": case["units"], "dissim": case["spec"], "window": w}
        if fo[0] == "timeout":
            rep.case()
            rep.violation("does-not-terminate", data, "get_fast_alignment did not return within 20 s (window size %d)" % w)
            continue
        if fo[0] == "err":
            rep.case()
            rep.violation("raises:" + fo[1], dict(data, error=fo[2]), "get_fast_alignment raised %s: %s" % (fo[1], fo[2]))
            continue
        fast, windows, aligns = fo[1]
        fast.continuum = cont
        I = Inst(cont, dissim)
        res = {"error": None, "I": I, "alignment": fast, "tuples": [I.index_tuple(ua.n_tuple) for ua in fast.unitary_alignments],
               "slots_ok": all(len(ua.n_tuple) == I.n for ua in fast.unitary_alignments), "disorder": fast.disorder, "mode": "fast-w%d" % w}
        part_items.append((case, res, w, cont, dissim))
        oracle = [[I.index_tuple(ua.n_tuple) for ua in al.unitary_alignments] for al in aligns]
        if any(t is None for al in oracle for t in al) or len(windows) != len(aligns):
            rep.case()
            rep.violation("trace-malformed", data, "recorded trace cannot be expressed over the continuum's units")
            continue
        line, ids, sc = build_model_line(I, dissim, w, oracle)
        lines.append(line)
        metas.append((case, w, I, ids, sc, windows, res))
        # hypothesis of the theorems: every oracle answer is a partition of ITS window (verified checker)
        for (wcont, _), al in zip(windows, aligns):
            J = Inst.shape_only(wcont)
            wt = [J.index_tuple(ua.n_tuple) for ua in al.unitary_alignments]
            oracle_checks.append((data, [3] + w_list(J.sizes) + w_list(wt if all(t is not None for t in wt) else [], w_tuple)))
    for (data, _), o in zip(oracle_checks, run_model([l for _, l in oracle_checks])):
        rep.count("oracle_answers_judged")
        if o != [1]:
            rep.violation("window-alignment-not-a-partition", data, "the best alignment of a window is not a partition of the window (hypothesis of the C10 theorems)")
    outs = run_model(lines, limit=60)
    for (case, w, I, ids, sc, windows, res), out in zip(metas, outs):
        data = {"units": case["units"], "dissim": case["spec"], "window": w}
        rep.count("pattern=" + case["pattern"])
        rep.count("window=%s" % ("1" if w == 1 else "full" if w * I.n >= I.nunits else "mid"))
        if not isinstance(out, list) or out == [-1]:
            rep.case()
            rep.violation("model-error", dict(data, out=str(out)[:200]), "model could not replay the trace no-failing-input-found")
            continue
        its, code, left = parse_trace(out)
        bad = []
        names = [a for a, _ in I.ann]
        if code != 0:
            bad.append(("iterations", "the library stopped after %d iterations but the model still has units %r" % (len(windows), left)))
        if len(its) != len(windows):
            bad.append(("iterations", "%d iterations recorded, %d in the model" % (len(windows), len(its))))
        fallback_used = False
        model_final = []
        for k, ((win, xl, ch), (wcont, wxl)) in enumerate(zip(its, windows)):
            lib_win = sorted(ids[(names.index(a), I.ann[names.index(a)][1].index(u))] for a, u in wcont)
            if sorted(win) != lib_win:
                bad.append(("window", "iteration %d: window units %r, model %r" % (k, lib_win, sorted(win))))
                break
            if frac(wxl) * sc != xl:
                bad.append(("x_limit", "iteration %d: x_limit %r, model %r" % (k, float(wxl), float(Fraction(xl, sc)))))
                break
            if not ch:
                bad.append(("no-progress", "iteration %d takes no unitary alignment" % k))
                break
            model_final += ch
        inv = {v: k for k, v in ids.items()}
        lib_final = [[None if v == I.sizes[a] else ids[(a, v)] for a, v in enumerate(t)] for t in res["tuples"]] if all(t is not None for t in res["tuples"]) else None
        if not bad and lib_final != model_final:
            bad.append(("final-alignment", "final unitary alignments %r, model %r" % (lib_final, model_final)))
        nontriv = len(its) >= 2
        rep.case(sample={"sizes": I.sizes, "dissim": case["spec"], "window": w, "iterations": len(its), "agree": not bad},
                 nontrivial_key=(repr(case["units"]), case["spec"], w) if nontriv else None)
        for key, what in bad:
            rep.violation(key, data, what)
    # validity, disorder, relation to the optimum
    facts = ac.judge_many(rep, [(c, r) for (c, r, w, cont, dissim) in part_items], part=True, want_optimal=False, prefix="fast:")
    sums = run_model([[8] + r["I"].wire() + w_list(r["tuples"], w_tuple) for (c, r, w, cont, dissim), f in zip(part_items, facts) if f["valid"]])
    k = 0
    for (case, r, w, cont, dissim), f in zip(part_items, facts):
        if not f["valid"]:
            continue
        I = r["I"]
        exact = ac.exact_disorder(I, sums[k][0])
        k += 1
        data = {"units": case["units"], "dissim": case["spec"], "window": w}
        if not close(r["disorder"], exact, TAU2):
            rep.violation("reported-disorder", dict(data, reported=float(r["disorder"]), exact=str(exact)), "reported fast disorder %r, exact disorder of its units %r" % (float(r["disorder"]), float(exact)))
        try:
            best = cont.get_best_alignment(dissim).disorder
        except Exception as e:
            rep.violation("best-alignment-raises:" + type(e).__name__, dict(data, error=repr(e)), "get_best_alignment raised %r" % (e,))
            continue
        if frac(r["disorder"]) < frac(best) - TAU2 * max(1, frac(best)):
            rep.violation("below-optimum", dict(data, fast=float(r["disorder"]), best=float(best)), "fast disorder %r is lower than the best alignment's %r" % (float(r["disorder"]), float(best)))
        if w * I.n >= I.nunits and not close(r["disorder"], best, TAU2):
            rep.violation("full-window-not-optimal", dict(data, fast=float(r["disorder"]), best=float(best)), "window covers the continuum but fast disorder %r != best %r" % (float(r["disorder"]), float(best)))
    # job dispatch of fast-mode gamma
    from pygamma_agreement.continuum import _compute_fast_alignment_job
    for case in cases[1:8]:
        cont = gen.build_continuum(pa, case["units"])
        if sum(1 for u in case["units"] if u) < 1:
            continue
        dissim = gen.make_dissim(pa, case["spec"])
        for bws in (np.inf, 1, 2):
            cont.best_window_size = bws
            TRACE[0] = tr

            def djob():
                tr.windows, tr.aligns, tr.active = [], [], True
                _compute_fast_alignment_job(dissim, cont)
                tr.active = False
                return len(tr.windows) > 0
            try:
                used_fast = ac.run_forked(20, djob)
            except ac.Watchdog:
                rep.violation("does-not-terminate", {"units": case["units"], "dissim": case["spec"], "window": str(bws)}, "fast-mode job did not return within 20 s")
                continue
            except ac.ForkedError as e:
                rep.violation("job-raises", {"units": case["units"], "dissim": case["spec"], "best_window_size": str(bws), "error": str(e)}, "fast job raised %s" % (e,))
                continue
            rep.count("dispatch_checked")
            if used_fast != (bws != np.inf):
                rep.violation("job-dispatch", {"units": case["units"], "dissim": case["spec"], "best_window_size": str(bws)},
                              "fast-mode job used the %s algorithm with best_window_size = %s" % ("windowed" if used_fast else "exact", bws))
    # the window size fast-mode gamma measures for itself (continua large enough for a finite one): it must be a window size the theorems cover
    # (an integer >= 1, below the largest number of units of an annotator, or infinity = exact route), and the job run with it ends in a partition
    big_lines, big_meta = [], []
    for bi in range(3 if tier == "quick" else 12):
        n = rng.choice([5, 5, 4])
        units = gen.gen_units(rng, n, [rng.randrange(10, 15) if n == 5 else rng.randrange(13, 17) for _ in range(n)], rng.choice(["perturbed", "perturbed", "random"]), gen.LABEL_SETS["abc"])
        spec = rng.choice([("pos", 1.0), ("comb", 1.0, 1.0, 1.0, "abs", "abc", "asis")])
        cont = gen.build_continuum(pa, units)
        dissim = gen.make_dissim(pa, spec)
        data = {"units": units, "dissim": spec, "window": "measured"}
        rep.case(sample={"measured_window_for": [len(u) for u in units]})
        try:
            cont.measure_best_window_size(dissim)
            bws = cont.best_window_size
            fast = ac.run_forked(120, _compute_fast_alignment_job, dissim, cont)
        except ac.Watchdog:
            rep.violation("does-not-terminate", data, "fast-mode job with the measured window size did not return within 120 s")
            continue
        except Exception as e:
            rep.violation("job-raises", dict(data, error=repr(e)), "measuring the window size / the fast job raised %r" % (e,))
            continue
        rep.count("measured_window=" + ("inf" if bws == np.inf else "finite"))
        mx = max(len(u) for u in units)
        if not (bws == np.inf or (float(bws) == int(bws) and 1 <= int(bws) <= max(2, mx) - 1)):
            rep.violation("measured-window", dict(data, best_window_size=str(bws)), "measured window size %r is not an integer in [1, %d] nor infinity" % (bws, max(2, mx) - 1))
            continue
        data["window"] = str(bws)
        I = Inst(cont, dissim)
        fast.continuum = cont
        big_lines.append(ac.sizes_line(3, I, [I.index_tuple(ua.n_tuple) for ua in fast.unitary_alignments]))
        big_meta.append(data)
    for data, out in zip(big_meta, run_model(big_lines)):
        if out != [1]:
            rep.violation("not-a-partition", data, "fast-mode job with the measured window size %s: result is not a partition of the units (verified checker: %r)" % (data["window"], out))
    sample = [l for l in lines if len(l) < 1200][:6]
    coq = coq_eval(sample)
    oc = run_model(sample)
    rep.extra["extraction_crosscheck"] = {"cases": len(sample), "agree": sum(1 for a, b in zip(oc, coq) if a == b)}
    if any(a != b for a, b in zip(oc, coq)):
        rep.violation("extraction", {}, "extracted model and vm_compute disagree no-failing-input-found")


def replay(rep, data, pa):
    ac.install_backend_hooks()
    units = [[tuple(u) for u in us] for us in data["units"]]
    cont = gen.build_continuum(pa, units)
    dissim = gen.make_dissim(pa, tuple(data["dissim"]))
    w = data["window"]
    if isinstance(w, str):
        # the size fast-mode gamma measures for itself: measured again, checked against the range the theorems cover, then the job is run
        from pygamma_agreement.continuum import _compute_fast_alignment_job
        cont.measure_best_window_size(dissim)
        bws = cont.best_window_size
        mx = max(len(u) for u in units)
        print("  measured window size: %s" % (bws,))
        if not (bws == np.inf or (float(bws) == int(bws) and 1 <= int(bws) <= max(2, mx) - 1)):
            return False
        try:
            fast = ac.run_forked(120, _compute_fast_alignment_job, dissim, cont)
        except ac.Watchdog:
            print("  does not terminate within 120 s")
            return False
        fast.continuum = cont
    else:
        try:
            fast = ac.run_forked(20, cont.get_fast_alignment, dissim, w)
        except ac.Watchdog:
            print("  does not terminate within 20 s")
            return False
    I = Inst(cont, dissim)
    tuples = [I.index_tuple(ua.n_tuple) for ua in fast.unitary_alignments]
    out = run_model([ac.sizes_line(3, I, tuples)])[0]
    best = cont.get_best_alignment(dissim).disorder
    print("  partition: %r, fast disorder %r, best %r" % (out, float(fast.disorder), float(best)))
    return out == [1] and frac(fast.disorder) >= frac(best) - TAU2 * max(1, frac(best))
