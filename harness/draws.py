"""Recording / scripting of NumPy's global random primitives (np.random.{normal,uniform,choice,random,randint}).
The library looks these names up at call time, so wrapping the module attributes needs no repository change.

record mode: the real generator runs; every call is logged (name, exact arguments, returned value, index for choice, thread).
script mode: the harness supplies the returned values (for choice: the index).
policy mode: a callback (name, args, n_items) -> value / index / None decides each draw while it is asked for (None = let the real generator draw);
             used to steer draws to the edges of whatever interval the library offers at that moment."""
import threading

import numpy as np

NAMES = ["normal", "uniform", "choice", "random", "randint"]


class Draws:
    def __init__(self, script=None, policy=None, lenient=False):
        self.script = list(script) if script is not None else None
        self.policy = policy
        self.lenient = lenient        # replay mode: when the script runs out or asks for another primitive, the real generator takes over
        self.log = []
        self._orig = {}

    def __enter__(self):
        for n in NAMES:
            self._orig[n] = getattr(np.random, n)
            setattr(np.random, n, self._wrap(n))
        return self

    def __exit__(self, *a):
        for n in NAMES:
            setattr(np.random, n, self._orig[n])

    def _next(self, name):
        if not self.script:
            if self.lenient:
                self.script = None
                return None
            raise RuntimeError("draw script exhausted at %s" % name)
        kind, val = self.script.pop(0)
        if kind != name:
            if self.lenient:
                self.script = None
                return None
            raise RuntimeError("draw script expected %s, library asked for %s" % (kind, name))
        return val

    def _wrap(self, name):
        orig = self._orig[name]
        rec = self

        def f(*a, **k):
            entry = {"name": name, "thread": threading.current_thread().name, "main": threading.current_thread() is threading.main_thread()}
            if name == "choice":
                arr = a[0] if a else k.get("a")
                p = k.get("p", a[3] if len(a) > 3 else None)
                seq = list(range(arr)) if isinstance(arr, (int, np.integer)) else list(arr)
                entry["n"] = len(seq)
                plist = None if p is None else [float(x) for x in (list(p.values()) if isinstance(p, dict) else list(p))]
                entry["p"] = plist
                entry["items"] = seq
                forced = rec.policy(name, None, len(seq)) if rec.policy is not None else None
                idx = rec._next(name) if rec.script is not None else None
                if idx is not None and rec.lenient and (idx >= len(seq) or (plist is not None and plist[idx] <= 0.0)):
                    idx = None      # replay mode: the recorded outcome is impossible under the law the library asks for NOW - the real generator decides
                if idx is not None:
                    res = seq[idx]
                elif forced is not None:
                    idx = int(forced)
                    res = seq[idx]
                else:
                    # draw an INDEX with the real generator so that the result is identifiable even when items repeat
                    idx = int(orig(len(seq), p=None if plist is None else np.asarray(plist, dtype=float)))
                    res = seq[idx]
                entry["index"] = idx
                entry["result"] = res
                rec.log.append(entry)
                return res
            entry["args"] = [x for x in a] + [k[x] for x in sorted(k)]
            forced = rec.policy(name, entry["args"], None) if rec.policy is not None else None
            res = rec._next(name) if rec.script is not None else None
            if res is not None:
                pass
            elif forced is not None:
                res = forced
            else:
                res = orig(*a, **k)
            entry["result"] = res
            rec.log.append(entry)
            return res
        return f
