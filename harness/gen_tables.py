#!/usr/bin/env python3
"""Fail-closed translator: regenerates coq/gen/CliGen.v from the CURRENT source text of pygamma_agreement/cli_apps.py (AST only, no import).
Extracted: the argparse option table (flags, dest, default, choices, action), the string literals `args.cat_dissim` is compared with and the class
each branch constructs, the keyword wiring of CombinedCategoricalDissimilarity(...) and compute_gamma(...), the sampler switch, the seeding.
An unsupported construct raises: the build then fails, which the checks report as a broken proof obligation."""
import ast
import os
import sys

REPO = os.environ.get("VERIF_REPO", "/repo")
VERIF = os.path.dirname(os.path.dirname(os.path.abspath(__file__)))
SRC = os.path.join(REPO, "pygamma_agreement", "cli_apps.py")
OUT = os.path.join(VERIF, "coq", "gen", "CliGen.v")


class Unsupported(Exception):
    pass


def lit(node):
    if isinstance(node, ast.Constant):
        return node.value
    if isinstance(node, ast.Set):
        return sorted(lit(e) for e in node.elts)
    if isinstance(node, ast.List):
        return [lit(e) for e in node.elts]
    if isinstance(node, ast.Name):
        return "<name:%s>" % node.id
    raise Unsupported("literal expected at line %d: %s" % (node.lineno, ast.dump(node)[:80]))


def coq_str(s):
    return '"' + str(s).replace('"', '""') + '"'


def attr_of_args(node):
    """args.<name> -> name"""
    if isinstance(node, ast.Attribute) and isinstance(node.value, ast.Name) and node.value.id == "args":
        return node.attr
    return None


def main():
    tree = ast.parse(open(SRC).read())
    options = []
    for st in tree.body:
        if isinstance(st, ast.Expr) and isinstance(st.value, ast.Call) and isinstance(st.value.func, ast.Attribute) and st.value.func.attr == "add_argument":
            call = st.value
            flags = [lit(a) for a in call.args]
            kw = {k.arg: k.value for k in call.keywords}
            longs = [f for f in flags if f.startswith("--")]
            dest = (longs[0][2:] if longs else flags[0].lstrip("-")).replace("-", "_")
            action = lit(kw["action"]) if "action" in kw else "store"
            default = lit(kw["default"]) if "default" in kw else (False if action == "store_true" else None)
            choices = lit(kw["choices"]) if "choices" in kw else []
            options.append((flags, dest, action, default, choices))
    if not options:
        raise Unsupported("no add_argument call found")
    fn = [n for n in tree.body if isinstance(n, ast.FunctionDef) and n.name == "pygamma_cmd"]
    if len(fn) != 1:
        raise Unsupported("pygamma_cmd not found")
    fn = fn[0]
    # shape understood by this translator: inside the loop over the input files, directly in its body,
    #     cat_dissim = None ; if args.cat_dissim == <lit>: cat_dissim = <Class>(continuum.categories) [elif ...]
    # (the categorical dissimilarity is rebuilt for every file from that file's categories). Anything else is unsupported.
    loops = [n for n in ast.walk(fn) if isinstance(n, ast.For) and isinstance(n.iter, ast.Name) and n.iter.id == "input_files"]
    if len(loops) != 1:
        raise Unsupported("expected exactly one loop over input_files")
    body = loops[0].body
    idx_none = [k for k, st in enumerate(body) if isinstance(st, ast.Assign) and len(st.targets) == 1 and isinstance(st.targets[0], ast.Name)
                and st.targets[0].id == "cat_dissim" and isinstance(st.value, ast.Constant) and st.value.value is None]
    idx_if = [k for k, st in enumerate(body) if isinstance(st, ast.If) and isinstance(st.test, ast.Compare) and attr_of_args(st.test.left) == "cat_dissim"]
    if len(idx_none) != 1 or len(idx_if) != 1 or idx_if[0] != idx_none[0] + 1:
        raise Unsupported("the per-file construction `cat_dissim = None; if args.cat_dissim == ...` is not directly in the loop over the input files")
    chain = body[idx_if[0]]
    while True:
        for b in chain.body:
            if not (isinstance(b, ast.Assign) and isinstance(b.value, ast.Call) and len(b.value.args) == 1
                    and ast.unparse(b.value.args[0]) == "continuum.categories"):
                raise Unsupported("a cat_dissim branch does not build its dissimilarity from continuum.categories (line %d)" % b.lineno)
        if len(chain.orelse) == 1 and isinstance(chain.orelse[0], ast.If):
            chain = chain.orelse[0]
        elif not chain.orelse:
            break
        else:
            raise Unsupported("unexpected else branch in the cat_dissim chain")
    branches, comb, gamma, sampler_switch, seeded, readers = [], None, None, None, None, []
    for node in ast.walk(fn):
        if isinstance(node, ast.If):
            t = node.test
            # if args.cat_dissim == "<literal>": cat_dissim = <Class>(...)
            if isinstance(t, ast.Compare) and attr_of_args(t.left) == "cat_dissim" and len(t.ops) == 1 and isinstance(t.ops[0], ast.Eq):
                val = lit(t.comparators[0])
                cls = None
                for b in node.body:
                    if isinstance(b, ast.Assign) and isinstance(b.value, ast.Call) and isinstance(b.value.func, ast.Name):
                        cls = b.value.func.id
                if cls is None:
                    raise Unsupported("cat_dissim branch without constructor at line %d" % node.lineno)
                branches.append((val, cls))
            elif attr_of_args(t) == "mathet_sampler":
                for b in node.body:
                    if isinstance(b, ast.Assign) and isinstance(b.value, ast.Call) and isinstance(b.value.func, ast.Name):
                        sampler_switch = b.value.func.id
            elif isinstance(t, ast.Compare) and attr_of_args(t.left) == "seed" and isinstance(t.ops[0], ast.IsNot):
                for b in node.body:
                    if isinstance(b, ast.Expr) and isinstance(b.value, ast.Call) and ast.unparse(b.value.func) == "np.random.seed" and attr_of_args(b.value.args[0]) == "seed":
                        seeded = True
            elif isinstance(t, ast.Compare) and attr_of_args(t.left) == "format":
                readers.append(lit(t.comparators[0]))
        if isinstance(node, ast.Call):
            name = ast.unparse(node.func)
            if name == "CombinedCategoricalDissimilarity":
                comb = [(k.arg, attr_of_args(k.value) or ("<var:%s>" % ast.unparse(k.value))) for k in node.keywords]
            elif name.endswith(".compute_gamma"):
                gamma = [(k.arg, attr_of_args(k.value) or ("<lit:%s>" % ast.unparse(k.value))) for k in node.keywords]
            elif name.endswith("from_csv"):
                readers.append("from_csv:" + ",".join("%s=%s" % (k.arg, attr_of_args(k.value)) for k in node.keywords))
    if comb is None or gamma is None:
        raise Unsupported("constructor / compute_gamma call not found")
    out = ["(* GENERATED by harness/gen_tables.py from %s - do not edit. *)" % os.path.relpath(SRC, REPO),
           "From Coq Require Import List String Bool.", "Import ListNotations.", "Local Open Scope string_scope.", "",
           "(* (flags, dest, action, default as text, choices) *)",
           "Definition options : list (list string * string * string * string * list string) := ["]
    out.append(";\n".join("  ([%s], %s, %s, %s, [%s])" % ("; ".join(coq_str(f) for f in flags), coq_str(dest), coq_str(action), coq_str(default),
                                                          "; ".join(coq_str(c) for c in choices)) for flags, dest, action, default, choices in options))
    out.append("].")
    out.append("(* literal compared with args.cat_dissim -> class constructed; no branch taken = the default (absolute) *)")
    out.append("Definition cat_dissim_branches : list (string * string) := [%s]." % "; ".join("(%s, %s)" % (coq_str(a), coq_str(b)) for a, b in branches))
    out.append("(* keyword -> source of its value *)")
    out.append("Definition combined_wiring : list (string * string) := [%s]." % "; ".join("(%s, %s)" % (coq_str(a), coq_str(b)) for a, b in comb))
    out.append("Definition compute_gamma_wiring : list (string * string) := [%s]." % "; ".join("(%s, %s)" % (coq_str(a), coq_str(b)) for a, b in gamma))
    out.append("Definition mathet_sampler_class : option string := %s." % ("Some " + coq_str(sampler_switch) if sampler_switch else "None"))
    out.append("Definition seeds_numpy : bool := %s." % ("true" if seeded else "false"))
    out.append("Definition readers : list string := [%s]." % "; ".join(coq_str(r) for r in readers))
    text = "\n".join(out) + "\n"
    os.makedirs(os.path.dirname(OUT), exist_ok=True)
    if not os.path.exists(OUT) or open(OUT).read() != text:
        with open(OUT, "w") as f:
            f.write(text)


def frac_str(x):
    from fractions import Fraction
    f = Fraction(float(x))
    return "(%d # %d)" % (f.numerator, f.denominator)


def gen_consts():
    """coq/gen/ConstGen.v: numeric constants of the source the theorems depend on (buffer sizes, confidence, precision levels, CST factors)"""
    dsrc = ast.parse(open(os.path.join(REPO, "pygamma_agreement", "dissimilarity.py")).read())
    c0 = g = None
    for node in ast.walk(dsrc):
        if isinstance(node, ast.FunctionDef) and node.name == "_get_all_valid_alignments":
            for st in ast.walk(node):
                if isinstance(st, ast.Assign) and len(st.targets) == 1 and isinstance(st.targets[0], ast.Name):
                    nm = st.targets[0].id
                    if nm == "chunk_size" and isinstance(st.value, ast.Constant) and c0 is None:
                        c0 = st.value.value
                    if nm == "add_size" and isinstance(st.value, ast.BinOp) and isinstance(st.value.op, ast.FloorDiv) \
                            and isinstance(st.value.left, ast.Name) and st.value.left.id == "chunk_size" and isinstance(st.value.right, ast.Constant):
                        g = st.value.right.value
    if not isinstance(c0, int) or not isinstance(g, int):
        raise Unsupported("chunk_size = <int> / add_size = chunk_size // <int> not found in _get_all_valid_alignments")
    csrc = ast.parse(open(os.path.join(REPO, "pygamma_agreement", "continuum.py")).read())
    conf, levels = None, None
    for node in ast.walk(csrc):
        if isinstance(node, ast.Assign) and len(node.targets) == 1 and isinstance(node.targets[0], ast.Name):
            if node.targets[0].id == "confidence" and isinstance(node.value, ast.Constant):
                conf = node.value.value
            if node.targets[0].id == "PRECISION_LEVEL" and isinstance(node.value, ast.Dict):
                levels = [(lit(k), lit(v)) for k, v in zip(node.value.keys, node.value.values)]
    if conf is None or not levels:
        raise Unsupported("confidence / PRECISION_LEVEL not found in continuum.py")
    tsrc = ast.parse(open(os.path.join(REPO, "pygamma_agreement", "cst.py")).read())
    factors = {}
    for node in ast.walk(tsrc):
        if isinstance(node, ast.ClassDef) and node.name == "CorpusShufflingTool":
            for st in node.body:
                if isinstance(st, ast.Assign) and isinstance(st.targets[0], ast.Name) and st.targets[0].id.endswith("_FACTOR") and isinstance(st.value, ast.Constant):
                    factors[st.targets[0].id] = st.value.value
    if set(factors) != {"SHIFT_FACTOR", "SPLIT_FACTOR", "FALSE_POS_FACTOR"}:
        raise Unsupported("CST factors not found: %r" % (factors,))
    out = ["(* GENERATED by harness/gen_tables.py from the current sources - do not edit. *)",
           "From Coq Require Import List String NArith QArith.", "Import ListNotations.", "",
           "(* dissimilarity.py, _get_all_valid_alignments: initial buffer capacity and growth divisor *)",
           "Definition chunk_size : N := %d%%N." % c0, "Definition growth_divisor : N := %d%%N." % g,
           "(* continuum.py, compute_gamma *)", "Definition confidence : Q := %s." % frac_str(conf),
           "Definition precision_levels : list (string * Q) := [%s]." % "; ".join("(%s%%string, %s)" % (coq_str(k), frac_str(v)) for k, v in levels),
           "(* cst.py, CorpusShufflingTool *)"] + ["Definition %s : Q := %s." % (k.lower(), frac_str(v)) for k, v in sorted(factors.items())]
    text = "\n".join(out) + "\n"
    outp = os.path.join(VERIF, "coq", "gen", "ConstGen.v")
    if not os.path.exists(outp) or open(outp).read() != text:
        with open(outp, "w") as f:
            f.write(text)


if __name__ == "__main__":
    try:
        main()
        gen_consts()
    except Unsupported as e:
        sys.stderr.write("gen_tables: unsupported construct: %s\n" % e)
        sys.exit(3)
