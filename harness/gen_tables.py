#!/usr/bin/env python3
"""Fail-closed translator: regenerates coq/gen/CliGen.v from the CURRENT source text of pygamma_agreement/cli_apps.py (AST only, no import).
Extracted: the argparse option table (flags, dest, default, choices, action), the string literals `args.cat_dissim` is compared with and the class
each branch constructs, the keyword wiring of CombinedCategoricalDissimilarity(...) and compute_gamma(...), the sampler switch, the seeding.
An unsupported construct raises: the build then fails, which the checks report as a broken proof obligation."""
import ast
import os
import sys

REPO = os.environ.get("VERIF_REPO", "/repo")
VERIF = os.path.dirname(os.path.dirname(os.path.abspath(__file__)))
SRC = os.path.join(REPO, "pygamma_agreement", "cli_apps.py")
OUT = os.path.join(VERIF, "coq", "gen", "CliGen.v")


class Unsupported(Exception):
    pass


def lit(node):
    if isinstance(node, ast.Constant):
        return node.value
    if isinstance(node, ast.Set):
        return sorted(lit(e) for e in node.elts)
    if isinstance(node, ast.List):
        return [lit(e) for e in node.elts]
    if isinstance(node, ast.Name):
        return "<name:%s>" % node.id
    raise Unsupported("literal expected at line %d: %s" % (node.lineno, ast.dump(node)[:80]))


def coq_str(s):
    return '"' + str(s).replace('"', '""') + '"'


def attr_of_args(node):
    """args.<name> -> name"""
    if isinstance(node, ast.Attribute) and isinstance(node.value, ast.Name) and node.value.id == "args":
        return node.attr
    return None


def main():
    tree = ast.parse(open(SRC).read())
    options = []
    for st in tree.body:
        if isinstance(st, ast.Expr) and isinstance(st.value, ast.Call) and isinstance(st.value.func, ast.Attribute) and st.value.func.attr == "add_argument":
            call = st.value
            flags = [lit(a) for a in call.args]
            kw = {k.arg: k.value for k in call.keywords}
            longs = [f for f in flags if f.startswith("--")]
            dest = (longs[0][2:] if longs else flags[0].lstrip("-")).replace("-", "_")
            action = lit(kw["action"]) if "action" in kw else "store"
            default = lit(kw["default"]) if "default" in kw else (False if action == "store_true" else None)
            choices = lit(kw["choices"]) if "choices" in kw else []
            options.append((flags, dest, action, default, choices))
    if not options:
        raise Unsupported("no add_argument call found")
    fn = [n for n in tree.body if isinstance(n, ast.FunctionDef) and n.name == "pygamma_cmd"]
    if len(fn) != 1:
        raise Unsupported("pygamma_cmd not found")
    fn = fn[0]
    branches, comb, gamma, sampler_switch, seeded, readers = [], None, None, None, None, []
    for node in ast.walk(fn):
        if isinstance(node, ast.If):
            t = node.test
            # if args.cat_dissim == "<literal>": cat_dissim = <Class>(...)
            if isinstance(t, ast.Compare) and attr_of_args(t.left) == "cat_dissim" and len(t.ops) == 1 and isinstance(t.ops[0], ast.Eq):
                val = lit(t.comparators[0])
                cls = None
                for b in node.body:
                    if isinstance(b, ast.Assign) and isinstance(b.value, ast.Call) and isinstance(b.value.func, ast.Name):
                        cls = b.value.func.id
                if cls is None:
                    raise Unsupported("cat_dissim branch without constructor at line %d" % node.lineno)
                branches.append((val, cls))
            elif attr_of_args(t) == "mathet_sampler":
                for b in node.body:
                    if isinstance(b, ast.Assign) and isinstance(b.value, ast.Call) and isinstance(b.value.func, ast.Name):
                        sampler_switch = b.value.func.id
            elif isinstance(t, ast.Compare) and attr_of_args(t.left) == "seed" and isinstance(t.ops[0], ast.IsNot):
                for b in node.body:
                    if isinstance(b, ast.Expr) and isinstance(b.value, ast.Call) and ast.unparse(b.value.func) == "np.random.seed" and attr_of_args(b.value.args[0]) == "seed":
                        seeded = True
            elif isinstance(t, ast.Compare) and attr_of_args(t.left) == "format":
                readers.append(lit(t.comparators[0]))
        if isinstance(node, ast.Call):
            name = ast.unparse(node.func)
            if name == "CombinedCategoricalDissimilarity":
                comb = [(k.arg, attr_of_args(k.value) or ("<var:%s>" % ast.unparse(k.value))) for k in node.keywords]
            elif name.endswith(".compute_gamma"):
                gamma = [(k.arg, attr_of_args(k.value) or ("<lit:%s>" % ast.unparse(k.value))) for k in node.keywords]
            elif name.endswith("from_csv"):
                readers.append("from_csv:" + ",".join("%s=%s" % (k.arg, attr_of_args(k.value)) for k in node.keywords))
    if comb is None or gamma is None:
        raise Unsupported("constructor / compute_gamma call not found")
    out = ["(* GENERATED by harness/gen_tables.py from %s - do not edit. *)" % os.path.relpath(SRC, REPO),
           "From Coq Require Import List String Bool.", "Import ListNotations.", "Local Open Scope string_scope.", "",
           "(* (flags, dest, action, default as text, choices) *)",
           "Definition options : list (list string * string * string * string * list string) := ["]
    out.append(";\n".join("  ([%s], %s, %s, %s, [%s])" % ("; ".join(coq_str(f) for f in flags), coq_str(dest), coq_str(action), coq_str(default),
                                                          "; ".join(coq_str(c) for c in choices)) for flags, dest, action, default, choices in options))
    out.append("].")
    out.append("(* literal compared with args.cat_dissim -> class constructed; no branch taken = the default (absolute) *)")
    out.append("Definition cat_dissim_branches : list (string * string) := [%s]." % "; ".join("(%s, %s)" % (coq_str(a), coq_str(b)) for a, b in branches))
    out.append("(* keyword -> source of its value *)")
    out.append("Definition combined_wiring : list (string * string) := [%s]." % "; ".join("(%s, %s)" % (coq_str(a), coq_str(b)) for a, b in comb))
    out.append("Definition compute_gamma_wiring : list (string * string) := [%s]." % "; ".join("(%s, %s)" % (coq_str(a), coq_str(b)) for a, b in gamma))
    out.append("Definition mathet_sampler_class : option string := %s." % ("Some " + coq_str(sampler_switch) if sampler_switch else "None"))
    out.append("Definition seeds_numpy : bool := %s." % ("true" if seeded else "false"))
    out.append("Definition readers : list string := [%s]." % "; ".join(coq_str(r) for r in readers))
    text = "\n".join(out) + "\n"
    os.makedirs(os.path.dirname(OUT), exist_ok=True)
    if not os.path.exists(OUT) or open(OUT).read() != text:
        with open(OUT, "w") as f:
            f.write(text)


if __name__ == "__main__":
    try:
        main()
    except Unsupported as e:
        sys.stderr.write("gen_tables: unsupported construct: %s\n" % e)
        sys.exit(3)
