#!/usr/bin/env python3
"""Fail-closed translator: regenerates coq/gen/CliGen.v from the CURRENT source text of pygamma_agreement/cli_apps.py (AST only, no import).
Extracted: the argparse option table (flags, dest, default, choices, action), the string literals `args.cat_dissim` is compared with and the class
each branch constructs, the keyword wiring of CombinedCategoricalDissimilarity(...) and compute_gamma(...), the sampler switch, the seeding.
An unsupported construct raises: the build then fails, which the checks report as a broken proof obligation."""
import ast
import os
import sys

REPO = os.environ.get("VERIF_REPO", "/repo")
VERIF = os.path.dirname(os.path.dirname(os.path.abspath(__file__)))
SRC = os.path.join(REPO, "pygamma_agreement", "cli_apps.py")
OUT = os.path.join(VERIF, "coq", "gen", "CliGen.v")


class Unsupported(Exception):
    pass


def lit(node):
    if isinstance(node, ast.Constant):
        return node.value
    if isinstance(node, ast.Set):
        return sorted(lit(e) for e in node.elts)
    if isinstance(node, ast.List):
        return [lit(e) for e in node.elts]
    if isinstance(node, ast.Name):
        return "<name:%s>" % node.id
    raise Unsupported("literal expected at line %d: %s" % (node.lineno, ast.dump(node)[:80]))


def coq_str(s):
    return '"' + str(s).replace('"', '""') + '"'


def attr_of_args(node):
    """args.<name> -> name"""
    if isinstance(node, ast.Attribute) and isinstance(node.value, ast.Name) and node.value.id == "args":
        return node.attr
    return None


def main():
    tree = ast.parse(open(SRC).read())
    options = []
    for st in tree.body:
        if isinstance(st, ast.Expr) and isinstance(st.value, ast.Call) and isinstance(st.value.func, ast.Attribute) and st.value.func.attr == "add_argument":
            call = st.value
            flags = [lit(a) for a in call.args]
            kw = {k.arg: k.value for k in call.keywords}
            longs = [f for f in flags if f.startswith("--")]
            dest = (longs[0][2:] if longs else flags[0].lstrip("-")).replace("-", "_")
            action = lit(kw["action"]) if "action" in kw else "store"
            default = lit(kw["default"]) if "default" in kw else (False if action == "store_true" else None)
            choices = lit(kw["choices"]) if "choices" in kw else []
            options.append((flags, dest, action, default, choices))
    if not options:
        raise Unsupported("no add_argument call found")
    fn = [n for n in tree.body if isinstance(n, ast.FunctionDef) and n.name == "pygamma_cmd"]
    if len(fn) != 1:
        raise Unsupported("pygamma_cmd not found")
    fn = fn[0]
    # shape understood by this translator: inside the loop over the input files, directly in its body,
    #     cat_dissim = None ; if args.cat_dissim == <lit>: cat_dissim = <Class>(continuum.categories) [elif ...]
    # (the categorical dissimilarity is rebuilt for every file from that file's categories). Anything else is unsupported.
    loops = [n for n in ast.walk(fn) if isinstance(n, ast.For) and isinstance(n.iter, ast.Name) and n.iter.id == "input_files"]
    if len(loops) != 1:
        raise Unsupported("expected exactly one loop over input_files")
    body = loops[0].body
    idx_none = [k for k, st in enumerate(body) if isinstance(st, ast.Assign) and len(st.targets) == 1 and isinstance(st.targets[0], ast.Name)
                and st.targets[0].id == "cat_dissim" and isinstance(st.value, ast.Constant) and st.value.value is None]
    idx_if = [k for k, st in enumerate(body) if isinstance(st, ast.If) and isinstance(st.test, ast.Compare) and attr_of_args(st.test.left) == "cat_dissim"]
    if len(idx_none) != 1 or len(idx_if) != 1 or idx_if[0] != idx_none[0] + 1:
        raise Unsupported("the per-file construction `cat_dissim = None; if args.cat_dissim == ...` is not directly in the loop over the input files")
    chain = body[idx_if[0]]
    while True:
        for b in chain.body:
            if not (isinstance(b, ast.Assign) and isinstance(b.value, ast.Call) and len(b.value.args) == 1
                    and ast.unparse(b.value.args[0]) == "continuum.categories"):
                raise Unsupported("a cat_dissim branch does not build its dissimilarity from continuum.categories (line %d)" % b.lineno)
        if len(chain.orelse) == 1 and isinstance(chain.orelse[0], ast.If):
            chain = chain.orelse[0]
        elif not chain.orelse:
            break
        else:
            raise Unsupported("unexpected else branch in the cat_dissim chain")
    branches, comb, gamma, sampler_switch, seeded, readers = [], None, None, None, None, []
    for node in ast.walk(fn):
        if isinstance(node, ast.If):
            t = node.test
            # if args.cat_dissim == "<literal>": cat_dissim = <Class>(...)
            if isinstance(t, ast.Compare) and attr_of_args(t.left) == "cat_dissim" and len(t.ops) == 1 and isinstance(t.ops[0], ast.Eq):
                val = lit(t.comparators[0])
                cls = None
                for b in node.body:
                    if isinstance(b, ast.Assign) and isinstance(b.value, ast.Call) and isinstance(b.value.func, ast.Name):
                        cls = b.value.func.id
                if cls is None:
                    raise Unsupported("cat_dissim branch without constructor at line %d" % node.lineno)
                branches.append((val, cls))
            elif attr_of_args(t) == "mathet_sampler":
                for b in node.body:
                    if isinstance(b, ast.Assign) and isinstance(b.value, ast.Call) and isinstance(b.value.func, ast.Name):
                        sampler_switch = b.value.func.id
            elif isinstance(t, ast.Compare) and attr_of_args(t.left) == "seed" and isinstance(t.ops[0], ast.IsNot):
                for b in node.body:
                    if isinstance(b, ast.Expr) and isinstance(b.value, ast.Call) and ast.unparse(b.value.func) == "np.random.seed" and attr_of_args(b.value.args[0]) == "seed":
                        seeded = True
            elif isinstance(t, ast.Compare) and attr_of_args(t.left) == "format":
                readers.append(lit(t.comparators[0]))
        if isinstance(node, ast.Call):
            name = ast.unparse(node.func)
            if name == "CombinedCategoricalDissimilarity":
                comb = [(k.arg, attr_of_args(k.value) or ("<var:%s>" % ast.unparse(k.value))) for k in node.keywords]
            elif name.endswith(".compute_gamma"):
                gamma = [(k.arg, attr_of_args(k.value) or ("<lit:%s>" % ast.unparse(k.value))) for k in node.keywords]
            elif name.endswith("from_csv"):
                readers.append("from_csv:" + ",".join("%s=%s" % (k.arg, attr_of_args(k.value)) for k in node.keywords))
    if comb is None or gamma is None:
        raise Unsupported("constructor / compute_gamma call not found")
    out = ["(* GENERATED by harness/gen_tables.py from %s - do not edit. *)" % os.path.relpath(SRC, REPO),
           "From Coq Require Import List String Bool.", "Import ListNotations.", "Local Open Scope string_scope.", "",
           "(* (flags, dest, action, default as text, choices) *)",
           "Definition options : list (list string * string * string * string * list string) := ["]
    out.append(";\n".join("  ([%s], %s, %s, %s, [%s])" % ("; ".join(coq_str(f) for f in flags), coq_str(dest), coq_str(action), coq_str(default),
                                                          "; ".join(coq_str(c) for c in choices)) for flags, dest, action, default, choices in options))
    out.append("].")
    out.append("(* literal compared with args.cat_dissim -> class constructed; no branch taken = the default (absolute) *)")
    out.append("Definition cat_dissim_branches : list (string * string) := [%s]." % "; ".join("(%s, %s)" % (coq_str(a), coq_str(b)) for a, b in branches))
    out.append("(* keyword -> source of its value *)")
    out.append("Definition combined_wiring : list (string * string) := [%s]." % "; ".join("(%s, %s)" % (coq_str(a), coq_str(b)) for a, b in comb))
    out.append("Definition compute_gamma_wiring : list (string * string) := [%s]." % "; ".join("(%s, %s)" % (coq_str(a), coq_str(b)) for a, b in gamma))
    out.append("Definition mathet_sampler_class : option string := %s." % ("Some " + coq_str(sampler_switch) if sampler_switch else "None"))
    out.append("Definition seeds_numpy : bool := %s." % ("true" if seeded else "false"))
    out.append("Definition readers : list string := [%s]." % "; ".join(coq_str(r) for r in readers))
    text = "\n".join(out) + "\n"
    os.makedirs(os.path.dirname(OUT), exist_ok=True)
    if not os.path.exists(OUT) or open(OUT).read() != text:
        with open(OUT, "w") as f:
            f.write(text)


def frac_str(x):
    from fractions import Fraction
    f = Fraction(float(x))
    return "(%d # %d)" % (f.numerator, f.denominator)


def gen_consts():
    """coq/gen/ConstGen.v: numeric constants of the source the theorems depend on (buffer sizes, confidence, precision levels, CST factors)"""
    dsrc = ast.parse(open(os.path.join(REPO, "pygamma_agreement", "dissimilarity.py")).read())
    c0 = g = None
    for node in ast.walk(dsrc):
        if isinstance(node, ast.FunctionDef) and node.name == "_get_all_valid_alignments":
            for st in ast.walk(node):
                if isinstance(st, ast.Assign) and len(st.targets) == 1 and isinstance(st.targets[0], ast.Name):
                    nm = st.targets[0].id
                    if nm == "chunk_size" and isinstance(st.value, ast.Constant) and c0 is None:
                        c0 = st.value.value
                    if nm == "add_size" and isinstance(st.value, ast.BinOp) and isinstance(st.value.op, ast.FloorDiv) \
                            and isinstance(st.value.left, ast.Name) and st.value.left.id == "chunk_size" and isinstance(st.value.right, ast.Constant):
                        g = st.value.right.value
    if not isinstance(c0, int) or not isinstance(g, int):
        raise Unsupported("chunk_size = <int> / add_size = chunk_size // <int> not found in _get_all_valid_alignments")
    csrc = ast.parse(open(os.path.join(REPO, "pygamma_agreement", "continuum.py")).read())
    conf, levels = None, None
    for node in ast.walk(csrc):
        if isinstance(node, ast.Assign) and len(node.targets) == 1 and isinstance(node.targets[0], ast.Name):
            if node.targets[0].id == "confidence" and isinstance(node.value, ast.Constant):
                conf = node.value.value
            if node.targets[0].id == "PRECISION_LEVEL" and isinstance(node.value, ast.Dict):
                levels = [(lit(k), lit(v)) for k, v in zip(node.value.keys, node.value.values)]
    if conf is None or not levels:
        raise Unsupported("confidence / PRECISION_LEVEL not found in continuum.py")
    tsrc = ast.parse(open(os.path.join(REPO, "pygamma_agreement", "cst.py")).read())
    factors = {}
    for node in ast.walk(tsrc):
        if isinstance(node, ast.ClassDef) and node.name == "CorpusShufflingTool":
            for st in node.body:
                if isinstance(st, ast.Assign) and isinstance(st.targets[0], ast.Name) and st.targets[0].id.endswith("_FACTOR") and isinstance(st.value, ast.Constant):
                    factors[st.targets[0].id] = st.value.value
    if set(factors) != {"SHIFT_FACTOR", "SPLIT_FACTOR", "FALSE_POS_FACTOR"}:
        raise Unsupported("CST factors not found: %r" % (factors,))
    out = ["(* GENERATED by harness/gen_tables.py from the current sources - do not edit. *)",
           "From Coq Require Import List String NArith QArith.", "Import ListNotations.", "",
           "(* dissimilarity.py, _get_all_valid_alignments: initial buffer capacity and growth divisor *)",
           "Definition chunk_size : N := %d%%N." % c0, "Definition growth_divisor : N := %d%%N." % g,
           "(* continuum.py, compute_gamma *)", "Definition confidence : Q := %s." % frac_str(conf),
           "Definition precision_levels : list (string * Q) := [%s]." % "; ".join("(%s%%string, %s)" % (coq_str(k), frac_str(v)) for k, v in levels),
           "(* cst.py, CorpusShufflingTool *)"] + ["Definition %s : Q := %s." % (k.lower(), frac_str(v)) for k, v in sorted(factors.items())]
    text = "\n".join(out) + "\n"
    outp = os.path.join(VERIF, "coq", "gen", "ConstGen.v")
    if not os.path.exists(outp) or open(outp).read() != text:
        with open(outp, "w") as f:
            f.write(text)


# ----------------------------------------------------------------------------------------------
# coq/genprops/DissimGen.v: the arithmetic of the built-in dissimilarities, translated expression by expression from dissimilarity.py

DISSIM_CLASSES = [("PositionalSporadicDissimilarity", "pos"), ("AbsoluteCategoricalDissimilarity", "abs"),
                  ("PrecomputedCategoricalDissimilarity", "table"), ("CombinedCategoricalDissimilarity", "comb")]
PARAM_TYPES = {"matrix": "list (list Q)", "categories": "list Z"}


class ExprTr:
    """Python expression (the sub-language the kernels use) -> Gallina text over Q.  mode 'arr': unit1 / unit2 are float arrays (list Q);
    mode 'obj': they are Unit objects (unitq).  Every name that is not a local or a unit becomes a parameter of the generated definition."""

    def __init__(self, mode, closure):
        self.mode, self.closure, self.params, self.locals = mode, closure, [], set()

    def param(self, name, ty="Q"):
        name = name.lstrip("_")
        ty = PARAM_TYPES.get(name, ty)
        for k, (n, t) in enumerate(self.params):
            if n == name:
                if t != ty:
                    raise Unsupported("parameter %s used at two types" % name)
                return name
        self.params.append((name, ty))
        return name

    def self_path(self, node):
        """self.a.b -> ['a', 'b'] ; None otherwise"""
        path = []
        while isinstance(node, ast.Attribute):
            path.append(node.attr)
            node = node.value
        if isinstance(node, ast.Name) and node.id == "self":
            return list(reversed(path))
        return None

    def unit(self, node):
        return node.id if isinstance(node, ast.Name) and node.id in ("unit1", "unit2") else None

    def fun_type(self):
        return "list Q -> list Q -> Q" if self.mode == "arr" else "unitq -> unitq -> Q"

    def label(self, node):
        """expression of type option Z (a unit's annotation)"""
        if isinstance(node, ast.Attribute) and node.attr == "annotation" and self.unit(node.value):
            return "(qc %s)" % node.value.id
        raise Unsupported("label expression expected at line %d: %s" % (node.lineno, ast.unparse(node)))

    def is_label(self, node):
        return isinstance(node, ast.Attribute) and node.attr == "annotation"

    def boolean(self, node):
        if isinstance(node, ast.Compare) and len(node.ops) == 1 and isinstance(node.ops[0], (ast.Eq, ast.NotEq)):
            l, r = node.left, node.comparators[0]
            if self.is_label(l) or self.is_label(r):
                b = "(cat_eqb %s %s)" % (self.label(l), self.label(r))
            else:
                b = "(Qeq_bool %s %s)" % (self.q(l), self.q(r))
            return b if isinstance(node.ops[0], ast.Eq) else "(negb %s)" % b
        raise Unsupported("comparison expected at line %d: %s" % (node.lineno, ast.unparse(node)))

    def index(self, node):
        """expression of type nat (a matrix index)"""
        if isinstance(node, ast.Call):
            f = ast.unparse(node.func)
            if f in ("np.int32", "int") and len(node.args) == 1:
                return "(Z.to_nat (Qfloor %s))" % self.q(node.args[0])
            sp = self.self_path(node.func)
            if sp and sp[-1] == "index" and len(sp) == 2 and len(node.args) == 1:
                return "(cat_index %s %s)" % (self.param(sp[0]), self.label(node.args[0]))
        raise Unsupported("index expression expected at line %d: %s" % (node.lineno, ast.unparse(node)))

    def q(self, node):
        if isinstance(node, ast.BinOp):
            op = {ast.Add: "+", ast.Sub: "-", ast.Mult: "*", ast.Div: "/"}.get(type(node.op))
            if op is None:
                raise Unsupported("operator at line %d: %s" % (node.lineno, ast.unparse(node)))
            return "(%s %s %s)" % (self.q(node.left), op, self.q(node.right))
        if isinstance(node, ast.UnaryOp) and isinstance(node.op, ast.USub):
            return "(- %s)" % self.q(node.operand)
        if isinstance(node, ast.Constant) and isinstance(node.value, (int, float)) and not isinstance(node.value, bool):
            return frac_str(node.value) if not float(node.value).is_integer() else ("%d" % int(node.value) if node.value >= 0 else "(-%d)" % int(-node.value))
        if isinstance(node, ast.IfExp):
            return "(if %s then %s else %s)" % (self.boolean(node.test), self.q(node.body), self.q(node.orelse))
        if isinstance(node, ast.Name):
            if node.id in self.locals:
                return node.id
            if node.id in self.closure:
                kind, name = self.closure[node.id]
                if kind == "fun":
                    raise Unsupported("function %s used as a number" % node.id)
                return self.param(name)
            raise Unsupported("unknown name %s at line %d" % (node.id, node.lineno))
        if isinstance(node, ast.Subscript):
            u = self.unit(node.value)
            if u and self.mode == "arr" and isinstance(node.slice, ast.Constant) and isinstance(node.slice.value, int) and 0 <= node.slice.value <= 3:
                return "(nth %d %s 0)" % (node.slice.value, u)
            if isinstance(node.slice, ast.Tuple) and len(node.slice.elts) == 2:
                base = node.value
                if isinstance(base, ast.Name) and base.id in self.closure and self.closure[base.id][0] == "val":
                    m = self.param(self.closure[base.id][1])
                elif self.self_path(base) and len(self.self_path(base)) == 1:
                    m = self.param(self.self_path(base)[0])
                else:
                    raise Unsupported("matrix expected at line %d" % node.lineno)
                if PARAM_TYPES.get(m) != "list (list Q)":
                    raise Unsupported("indexing something that is not the matrix at line %d" % node.lineno)
                return "(mget %s %s %s)" % (m, self.index(node.slice.elts[0]), self.index(node.slice.elts[1]))
            raise Unsupported("subscript at line %d: %s" % (node.lineno, ast.unparse(node)))
        if isinstance(node, ast.Attribute):
            sp = self.self_path(node)
            if sp and len(sp) == 1:
                return self.param(sp[0])
            if self.mode == "obj" and isinstance(node.value, ast.Attribute) and node.value.attr == "segment" and self.unit(node.value.value):
                acc = {"start": "qs", "end": "qe", "duration": "dur"}.get(node.attr)
                if acc:
                    return "(%s %s)" % (acc, node.value.value.id)
            raise Unsupported("attribute at line %d: %s" % (node.lineno, ast.unparse(node)))
        if isinstance(node, ast.Call):
            f = ast.unparse(node.func)
            if f in ("np.abs", "abs") and len(node.args) == 1:
                return "(Qabs %s)" % self.q(node.args[0])
            if f == "float" and len(node.args) == 1:
                return "(if %s then 1 else 0)" % self.boolean(node.args[0])
            args_are_units = len(node.args) == 2 and [self.unit(a) for a in node.args] == ["unit1", "unit2"] and not node.keywords
            if isinstance(node.func, ast.Name) and node.func.id in self.closure and self.closure[node.func.id][0] == "fun" and args_are_units:
                return "(%s unit1 unit2)" % self.param(self.closure[node.func.id][1], self.fun_type())
            sp = self.self_path(node.func)
            if sp and len(sp) == 2 and sp[1] in ("d", "d_mat") and args_are_units:
                return "(%s unit1 unit2)" % self.param(sp[0] + "_" + sp[1], self.fun_type())
            raise Unsupported("call at line %d: %s" % (node.lineno, ast.unparse(node)))
        raise Unsupported("expression at line %d: %s" % (node.lineno, ast.unparse(node)))

    def body(self, stmts):
        """[docstring] local = expr ... return expr  ->  let ... in expr"""
        out = []
        stmts = [st for st in stmts if not (isinstance(st, ast.Expr) and isinstance(st.value, ast.Constant) and isinstance(st.value.value, str))]
        for st in stmts[:-1]:
            if not (isinstance(st, ast.Assign) and len(st.targets) == 1 and isinstance(st.targets[0], ast.Name)):
                raise Unsupported("statement at line %d: %s" % (st.lineno, ast.unparse(st)[:60]))
            e = self.q(st.value)
            self.locals.add(st.targets[0].id)
            out.append("let %s := %s in" % (st.targets[0].id, e))
        if not stmts or not isinstance(stmts[-1], ast.Return) or stmts[-1].value is None:
            raise Unsupported("the body does not end with `return <expr>`")
        out.append(self.q(stmts[-1].value))
        return "\n    ".join(out)


def define(name, tr, unit_ty, text):
    ps = sorted(tr.params)
    return "Definition %s %s(unit1 unit2 : %s) : Q :=\n    %s." % (name, "".join("(%s : %s) " % p for p in ps), unit_ty, text), [n for n, _ in ps]


def gen_dissim():
    tree = ast.parse(open(os.path.join(REPO, "pygamma_agreement", "dissimilarity.py")).read())
    classes = {n.name: n for n in tree.body if isinstance(n, ast.ClassDef)}
    out = ["(* GENERATED by harness/gen_tables.py from pygamma_agreement/dissimilarity.py - do not edit.",
           "   <k>_d_mat: body of the kernel compile_d_mat() builds (units are float arrays [start; end; duration; category index]);",
           "   <k>_d: body of d() (units are objects).  Parameters = everything read from self / the closure, in alphabetical order. *)",
           "From Coq Require Import List ZArith QArith Qabs Qround Bool.", "From PGA Require Import Dissim.Model.", "Import ListNotations.",
           "Local Open Scope Q_scope.", ""]
    sigs = []
    for cname, k in DISSIM_CLASSES:
        if cname not in classes:
            raise Unsupported("class %s not found" % cname)
        meths = {n.name: n for n in classes[cname].body if isinstance(n, ast.FunctionDef)}
        if "compile_d_mat" not in meths or "d" not in meths:
            raise Unsupported("%s lacks compile_d_mat / d" % cname)
        # --- compile_d_mat: closure captures, then the inner kernel, then `return d_mat`
        closure, inner = {}, None
        body = [st for st in meths["compile_d_mat"].body if not (isinstance(st, ast.Expr) and isinstance(st.value, ast.Constant))]
        for st in body:
            if isinstance(st, ast.Assign) and len(st.targets) == 1 and isinstance(st.targets[0], ast.Name) and inner is None:
                path, node = [], st.value
                while isinstance(node, ast.Attribute):
                    path.append(node.attr)
                    node = node.value
                if not (isinstance(node, ast.Name) and node.id == "self") or not path:
                    raise Unsupported("closure capture at line %d is not self.<attr>" % st.lineno)
                path.reverse()
                if len(path) == 1:
                    closure[st.targets[0].id] = ("val", path[0])
                elif len(path) == 2 and path[1] == "d_mat":
                    closure[st.targets[0].id] = ("fun", path[0] + "_d_mat")
                else:
                    raise Unsupported("closure capture at line %d" % st.lineno)
            elif isinstance(st, ast.FunctionDef) and inner is None:
                if [a.arg for a in st.args.args] != ["unit1", "unit2"] or [ast.unparse(d) for d in st.decorator_list] != ["dissimilarity_dec"]:
                    raise Unsupported("kernel signature / decorator at line %d" % st.lineno)
                inner = st
            elif isinstance(st, ast.Return) and inner is not None and isinstance(st.value, ast.Name) and st.value.id == inner.name and st is body[-1]:
                pass
            else:
                raise Unsupported("statement in compile_d_mat at line %d: %s" % (st.lineno, ast.unparse(st)[:60]))
        if inner is None:
            raise Unsupported("no kernel in %s.compile_d_mat" % cname)
        tr = ExprTr("arr", closure)
        text, ps = define(k + "_d_mat", tr, "list Q", tr.body(inner.body))
        out += ["(* %s.compile_d_mat, line %d *)" % (cname, inner.lineno), text]
        sigs.append((k + "_d_mat", ps))
        # --- d
        dm = meths["d"]
        if [a.arg for a in dm.args.args] != ["self", "unit1", "unit2"]:
            raise Unsupported("signature of %s.d" % cname)
        tr = ExprTr("obj", {})
        text, ps = define(k + "_d", tr, "unitq", tr.body(dm.body))
        out += ["(* %s.d, line %d *)" % (cname, dm.lineno), text, ""]
        sigs.append((k + "_d", ps))
    # --- the array form of a unit: _build_arrays_continuum fills unit_array[unit_id][0..3]; _category_index
    ad = {n.name: n for n in classes["AbstractDissimilarity"].body if isinstance(n, ast.FunctionDef)}
    ci = ad.get("_category_index")
    body = [st for st in ci.body if not (isinstance(st, ast.Expr) and isinstance(st.value, ast.Constant))] if ci else []
    ok = (ci is not None and [a.arg for a in ci.args.args] == ["self", "categories", "annotation"] and len(body) == 2
          and isinstance(body[0], ast.If) and ast.unparse(body[0].test) == "annotation is None and self.categories is None" and not body[0].orelse
          and len(body[0].body) == 1 and ast.unparse(body[0].body[0]) == "return len(categories)" and ast.unparse(body[1]) == "return categories.index(annotation)")
    if not ok:
        raise Unsupported("_category_index does not have the shape `if annotation is None and self.categories is None: return len(categories)` / `return categories.index(annotation)`")
    out += ["(* AbstractDissimilarity._category_index, line %d; categories.index(None) raises when None is not a category: the model returns the list length there," % ci.lineno,
            "   and the theorems about it assume own_categories_none = true or a labelled unit *)",
            "Definition category_index (own_categories_none : bool) (categories : list Z) (annotation : option Z) : nat :=",
            "  if (match annotation with None => true | Some _ => false end) && own_categories_none then length categories",
            "  else match annotation with Some x => index_of x categories | None => length categories end.", ""]
    bc = ad.get("_build_arrays_continuum")
    fields = {}
    for node in ast.walk(bc) if bc else []:
        if isinstance(node, ast.Assign) and len(node.targets) == 1 and isinstance(node.targets[0], ast.Subscript):
            t = node.targets[0]
            if isinstance(t.value, ast.Subscript) and ast.unparse(t.value) == "unit_array[unit_id]" and isinstance(t.slice, ast.Constant):
                if t.slice.value in fields:
                    raise Unsupported("unit_array[unit_id][%r] assigned twice" % t.slice.value)
                fields[t.slice.value] = node.value
    if sorted(fields) != [0, 1, 2, 3]:
        raise Unsupported("_build_arrays_continuum does not fill unit_array[unit_id][0..3]")
    acc = {"unit.segment.start": "qs unit", "unit.segment.end": "qe unit", "unit.segment.duration": "dur unit",
           "self._category_index(categories, unit.annotation)": "inject_Z (Z.of_nat (category_index own_categories_none categories (qc unit)))"}
    cells = []
    for k in range(4):
        src = ast.unparse(fields[k])
        if src not in acc:
            raise Unsupported("unit_array[unit_id][%d] = %s" % (k, src))
        cells.append(acc[src])
    out += ["(* _build_arrays_continuum, line %d: the four cells of a unit's row *)" % bc.lineno,
            "Definition unit_row (own_categories_none : bool) (categories : list Z) (unit : unitq) : list Q :=\n  [%s]." % "; ".join(cells), ""]
    out.append("(* parameter lists, for the record: %s *)" % "; ".join("%s(%s)" % (n, ",".join(ps)) for n, ps in sigs))
    text = "\n".join(out) + "\n"
    # NOT under gen/: this file is compiled per check (C04), so that a source change making it ill-typed cannot break the common build
    os.makedirs(os.path.join(VERIF, "coq", "genprops"), exist_ok=True)
    outp = os.path.join(VERIF, "coq", "genprops", "DissimGen.v")
    if not os.path.exists(outp) or open(outp).read() != text:
        with open(outp, "w") as f:
            f.write(text)


GENERATORS = [("cli", None), ("const", None), ("dissim", None)]


if __name__ == "__main__":
    # each generator is fail-closed on its own: gen/STATUS gets one line `<name> ok|failed: <reason>`; the checks of the properties that depend on
    # a table refuse to pass when its line is not ok (cli: C20; const: C05 C07 C19; dissim: C04)
    status, rc = [], 0
    sys.modules.setdefault("gen_tables", sys.modules["__main__"])
    from gen_gamma import gen_gamma
    from gen_kernel import gen_kernel
    from gen_cont import gen_cont
    from gen_sampler import gen_sampler
    from gen_cst import gen_cst
    from gen_fast import gen_fast
    from gen_ilp import gen_ilp
    from gen_pool import gen_pool
    from gen_stat import gen_stat
    from gen_shapes import gen_shapes
    for name, f in (("cli", main), ("const", gen_consts), ("dissim", gen_dissim), ("gamma", gen_gamma), ("kernel", gen_kernel), ("cont", gen_cont), ("sampler", gen_sampler), ("cst", gen_cst), ("fast", gen_fast), ("ilp", gen_ilp), ("pool", gen_pool), ("stat", gen_stat), ("shapes", gen_shapes)):
        try:
            f()
            status.append("%s ok" % name)
        except Unsupported as e:
            status.append("%s failed: unsupported construct: %s" % (name, e))
            rc = 3
        except Exception as e:      # a source file that no longer parses, a missing file ...
            status.append("%s failed: %s: %s" % (name, type(e).__name__, e))
            rc = 3
    with open(os.path.join(VERIF, "coq", "gen", "STATUS"), "w") as f:
        f.write("\n".join(status) + "\n")
    sys.stderr.write("\n".join(l for l in status if not l.endswith(" ok")) + "\n" if rc else "")
    sys.exit(rc)
