"""C06 - seeded results are reproducible under any thread schedule (partial: native-code races and third-party allocator behaviour are
outside the model and covered only by the cross-schedule / cross-process comparison).

Trace validation + forced schedules: the thread pool of compute_gamma / gamma_cat / gamma_k is replaced by a recording executor that runs the
submitted jobs in a forced order on worker threads (FIFO at submit time, FIFO / LIFO / random permutation at collection time, first job delayed),
and by real pools of 1, 2 and 16 workers; np.random.* is recorded.  Checked: the event trace is a trace of the model (every draw on the
submitting thread, between consecutive submits, none inside a job; results collected in submission order), jobs do not modify their
arguments, and observed disorder, the sequence of chance disorders, gamma, gamma-cat, gamma-k are bit-identical across all schedules, across
repetition in one process, and across subprocesses with different PYTHONHASHSEED."""
import json
import os
import subprocess
import sys
import threading
import time
from concurrent.futures import Future, ThreadPoolExecutor

import numpy as np

import gen
from common import rng_for, VERIF
from draws import Draws

RULE = ("compute_gamma configurations from VERIF_SEED (continua 2..4 annotators, mode exact / fast / soft, sampler statistical / shuffle, n_samples 3..6, "
        "precision None or 0.15 - small enough to force a second batch of samples; plus fast-mode runs on continua of 4..5 annotators x 10..14 units, "
        "large enough for the windowed route) x 11 schedules (forced FIFO-now, FIFO, LIFO, 2 random permutations, delayed first job; real pools of 1, 2, 7, 16 "
        "workers on a machine reporting as many processors, 16 twice); attribute writes to the input continuum from worker threads are recorded "
        "+ repetition + subprocesses with PYTHONHASHSEED in {1, 2, random}; non-trivial = the result has >= 3 chance alignments and a gamma < 1; "
        "distinct by (configuration, schedule)")
TRUSTED_BASE = ["Coq 8.16.1 kernel (theorems of props/C06.v)", "harness/{common,gen,draws,c06}.py: the recording executor substituted for "
                "pygamma_agreement.continuum.ThreadPoolExecutor", "CPython's GIL semantics for the recording itself"]
ASSUMPTIONS = ["jobs are pure functions of (dissimilarity, continuum): checked by snapshots and by tracing attribute writes from worker threads, pinned as source "
               "text by C06_src_jobs_write_nothing, not proved of the Python code",
               "races inside native code running without the GIL cannot be exhibited by the model"]


class Fut(Future):
    """a real concurrent.futures.Future (so that any way of waiting on it works) whose job is run by the forced executor"""

    def __init__(self, ex, k, fn, args):
        Future.__init__(self)
        self.ex, self.k, self.fn, self.args = ex, k, fn, args

    def run(self):
        def target():
            self.ex.events.append(("run", self.k, threading.current_thread() is threading.main_thread()))
            try:
                self.set_result(self.fn(*self.args))
            except BaseException as e:   # noqa
                self.set_exception(e)
        t = threading.Thread(target=target, name="forced-worker-%d" % self.k)
        t.start()
        t.join()

    def result(self, timeout=None):
        self.ex.events.append(("result", self.k))
        if not self.done():
            self.ex.flush()
        return Future.result(self, timeout)


class ForcedExecutor:
    """stands for the ThreadPoolExecutor class: calling it returns itself; jobs run in a forced order on fresh worker threads.
    Pending jobs are run when a result is requested, or by a watcher thread once the submitting thread has been silent for 50 ms
    (so that code waiting in another way, e.g. concurrent.futures.as_completed, cannot dead-lock)."""

    def __init__(self, order, rng=None):
        self.order, self.rng = order, rng
        self._verif_cpu = 1
        self._max_workers = 1          # the attribute real executors carry: jobs here run one at a time, in the forced order
        self.events = []
        self.pending = []
        self.count = 0
        self.lock = threading.RLock()
        self.last = time.time()
        self.alive = True
        threading.Thread(target=self._watch, daemon=True).start()

    def _watch(self):
        while self.alive:
            time.sleep(0.02)
            if self.pending and time.time() - self.last > 0.05:
                self.flush()

    def __call__(self, *a, **k):
        return self

    def __enter__(self):
        return self

    def __exit__(self, *a):
        self.flush()
        return False

    def shutdown(self, *a, **k):
        self.flush()
        self.alive = False

    def submit(self, fn, *args):
        with self.lock:
            f = Fut(self, self.count, fn, args)
            self.events.append(("submit", self.count))
            self.count += 1
            self.last = time.time()
            if self.order == "fifo-now":
                f.run()
            else:
                self.pending.append(f)
            return f

    def flush(self):
        with self.lock:
            p, self.pending = self.pending, []
            if self.order == "lifo":
                p = list(reversed(p))
            elif self.order == "random":
                self.rng.shuffle(p)
            elif self.order == "delay-first" and p:
                p = p[1:] + p[:1]
            for f in p:
                f.run()


def snapshot(cont):
    return ([(a, u.segment.start, u.segment.end, u.annotation) for a, u in cont], list(cont.annotators), list(cont.categories), cont.bounds)


def real_pool(n):
    """stands for the ThreadPoolExecutor class: a real pool of n workers, on a machine that reports n processors"""
    f = lambda *a, **k: ThreadPoolExecutor(max_workers=n)
    f._verif_cpu = n
    return f


def run_config(pa, cfg, executor_factory, record=True):
    """returns (result tuple as hex strings, events, draw log, argument-unchanged?)"""
    cont = gen.build_continuum(pa, cfg["units"])
    dissim = gen.make_dissim(pa, tuple(cfg["dissim"]))
    sampler = pa.StatisticalContinuumSampler() if cfg["sampler"] == "stat" else pa.ShuffleContinuumSampler(pivot_type=cfg["sampler"])
    before = snapshot(cont)
    # attribute writes to the INPUT continuum from worker threads are recorded: a job that writes shared state another thread reads
    # (e.g. best_window_size, copied into every sample by copy_flush) makes the result depend on the schedule
    writes = []
    base = type(cont)

    class Traced(base):
        def __setattr__(self, k, v):
            if threading.current_thread() is not threading.main_thread():
                writes.append((k, threading.current_thread().name))
            base.__setattr__(self, k, v)
    cont.__class__ = Traced
    run_config.worker_writes = writes
    orig = pa.continuum.ThreadPoolExecutor
    ex = executor_factory()
    pa.continuum.ThreadPoolExecutor = ex
    # the library sizes its pool with os.cpu_count(): a run "with N workers" is a run on a machine that reports N (anything derived from that
    # number - not only the pool size - must leave the seeded results unchanged)
    orig_cpu = os.cpu_count
    ncpu = getattr(ex, "_verif_cpu", None)
    if ncpu is not None:
        os.cpu_count = lambda: ncpu
    np.random.seed(cfg["numpy_seed"])
    try:
        with Draws() as dr:
            # mark the position of every draw in the executor's event list
            gt = cfg.get("ground_truth")
            res = cont.compute_gamma(dissim, n_samples=cfg["n_samples"], precision_level=cfg["precision"], sampler=sampler,
                                     ground_truth_annotators=None if gt is None else list(gt),
                                     fast=(cfg["mode"] == "fast"), soft=(cfg["mode"] == "soft"))
            vals = [float(res.observed_disorder)] + [float(a.disorder) for a in res.chance_alignments] + [float(res.gamma)]
            if tuple(cfg["dissim"])[0] == "comb":
                vals.append(float(res.gamma_cat))
                for c in cont.categories:
                    try:
                        vals.append(float(res.gamma_k(c)))
                    except ZeroDivisionError:
                        vals.append(float("nan"))
    finally:
        pa.continuum.ThreadPoolExecutor = orig
        os.cpu_count = orig_cpu
        if hasattr(ex, "alive"):
            ex.alive = False
    cont.best_window_size = np.inf if cfg["mode"] != "fast" else cont.best_window_size
    after = snapshot(cont)
    return [v.hex() if v == v else "nan" for v in vals], getattr(ex, "events", None), dr.log, before == after, len(res.chance_alignments)


def validate_trace(events, log, n_first):
    """the forced executor's events + the draw log against the model's main-thread program"""
    bad = []
    if any(not e["main"] for e in log):
        bad.append(("draw-off-main-thread", "a random primitive was drawn on a worker thread"))
    subs = [e for e in events if e[0] == "submit"]
    res = [e for e in events if e[0] == "result"]
    if [e[1] for e in res if True] and [e[1] for e in res][:len(subs)] != sorted([e[1] for e in res][:len(subs)]):
        bad.append(("collection-order", "results are not collected in submission order: %r" % ([e[1] for e in res],)))
    if any(e[0] == "run" and e[2] for e in events):
        bad.append(("job-on-main-thread", "a job ran on the main thread in the forced executor"))
    return bad


def child_main():
    """subprocess entry: run one configuration with the real pool and print the result"""
    sys.path.insert(0, os.path.dirname(os.path.abspath(__file__)))
    import common
    pa = common.import_lib()
    cfg = json.loads(sys.argv[2])
    vals, _, _, _, _ = run_config(pa, cfg, lambda: (lambda *a, **k: ThreadPoolExecutor(max_workers=os.cpu_count())))
    print("RESULT " + json.dumps(vals))


def run(rep, tier, seed, pa):
    rng = rng_for(seed, "C06")
    ncfg = 8 if tier == "quick" else 60
    cfgs = []
    for ci in range(ncfg):
        n = rng.choice([2, 3, 3, 4])
        sizes = [rng.randrange(2, 6) for _ in range(n)]
        units = gen.gen_units(rng, n, sizes, rng.choice(["perturbed", "random", "disjoint"]), gen.LABEL_SETS["abc"])
        if any(len(u) == 0 for u in units):
            continue
        cfgs.append({"units": units, "dissim": list(rng.choice([("pos", 1.0), ("comb", 1.0, 1.0, 1.0, "abs", "abc", "asis"), ("comb", 0.5, 3.0, 0.5, "abs", "abc", "asis")])),
                     "mode": rng.choice(["exact", "exact", "fast", "soft"]), "sampler": rng.choice(["stat", "int_pivot", "float_pivot"]),
                     "n_samples": rng.choice([3, 4, 6]), "precision": rng.choice([None, 0.15, 0.15]), "numpy_seed": rng.randrange(2 ** 31),
                     "ground_truth": (sorted(rng.sample(gen.ANNOTATORS[:n], rng.randrange(2, n + 1)), reverse=True) if n >= 3 and rng.random() < 0.6 else None)})
    # fast mode only windows the continuum when it is large enough (4+ annotators with 10+ units each): smaller inputs take the exact route
    for bi in range(2 if tier == "quick" else 10):
        n = rng.choice([5, 5, 4])
        units = gen.gen_units(rng, n, [rng.randrange(10, 15) if n == 5 else rng.randrange(13, 17) for _ in range(n)], rng.choice(["perturbed", "perturbed", "random"]), gen.LABEL_SETS["abc"])
        if bi % 2 == 1:
            # unbalanced annotators: the samples of the statistical sampler then differ in size, so a window size measured per sample (instead of
            # inherited from the input) would differ from the input's
            units = gen.gen_units(rng, 5, [12, 12, 12, 12, 4], "perturbed", gen.LABEL_SETS["abc"])
        cfgs.append({"units": units, "dissim": list(rng.choice([("pos", 1.0), ("comb", 1.0, 1.0, 1.0, "abs", "abc", "asis")])), "mode": "fast",
                     "sampler": rng.choice(["stat", "int_pivot", "float_pivot"]), "n_samples": rng.choice([3, 4]), "precision": None,
                     "numpy_seed": rng.randrange(2 ** 31), "ground_truth": None, "windowed": True})
        if bi % 2 == 1:
            cfgs[-1]["sampler"] = "stat"
    # the configurations compared across processes come first: one with a ground-truth subset and the shuffle sampler, one plain
    with_gt = [c for c in cfgs if c["ground_truth"] and c["sampler"] != "stat"] or [c for c in cfgs if c["ground_truth"]]
    if with_gt:
        cfgs.remove(with_gt[0])
        cfgs.insert(0, with_gt[0])
    children = []
    for ci, cfg in enumerate(cfgs):
        schedules = [("fifo-now", lambda: ForcedExecutor("fifo-now")), ("fifo", lambda: ForcedExecutor("fifo")), ("lifo", lambda: ForcedExecutor("lifo")),
                     ("random-1", lambda: ForcedExecutor("random", rng_for(seed, "perm", ci, 1))), ("random-2", lambda: ForcedExecutor("random", rng_for(seed, "perm", ci, 2))),
                     ("delay-first", lambda: ForcedExecutor("delay-first")),
                     ("pool-1", lambda: real_pool(1)), ("pool-2", lambda: real_pool(2)), ("pool-7", lambda: real_pool(7)),
                     ("pool-16", lambda: real_pool(16)), ("pool-16-again", lambda: real_pool(16))]
        ref = None
        for name, fac in schedules:
            try:
                vals, events, log, unchanged, nchance = run_config(pa, cfg, fac)
            except Exception as e:
                rep.case()
                rep.violation("raises:" + type(e).__name__, dict(cfg, schedule=name, error=repr(e)), "compute_gamma raised %r under schedule %s" % (e, name))
                continue
            bad = []
            if events is not None:
                bad += validate_trace(events, log, cfg["n_samples"])
            if any(not e["main"] for e in log):
                bad.append(("draw-off-main-thread", "a random primitive was drawn on a worker thread"))
            if not unchanged:
                bad.append(("input-modified", "the input continuum changed during compute_gamma"))
            if run_config.worker_writes:
                bad.append(("input-written-by-worker", "a job running on a worker thread assigned attribute(s) %s of the input continuum" %
                            sorted(set(k for k, _ in run_config.worker_writes))))
            if ref is None:
                ref = (name, vals)
            elif vals != ref[1]:
                k = next((i for i, (a, b) in enumerate(zip(vals, ref[1])) if a != b), min(len(vals), len(ref[1])))
                bad.append(("schedule-dependent", "results differ between schedule %s and %s (first difference at value %d: %s vs %s; %d vs %d values)" % (
                    ref[0], name, k, ref[1][k] if k < len(ref[1]) else None, vals[k] if k < len(vals) else None, len(ref[1]), len(vals))))
            g = float.fromhex(vals[1 + nchance]) if vals[1 + nchance] != "nan" else 1.0
            rep.count("schedule=" + name)
            rep.count("mode=" + cfg["mode"] + ("-windowed" if cfg.get("windowed") else ""))
            rep.case(sample={"mode": cfg["mode"], "sampler": cfg["sampler"], "schedule": name, "values": len(vals), "gamma": g},
                     nontrivial_key=(json.dumps(cfg, sort_keys=True), name) if nchance >= 3 and g < 1 else None)
            for key, what in bad:
                rep.violation(key, dict(cfg, schedule=name), what)
        if ref is not None and ci < (2 if tier == "quick" else 8):
            children.append((cfg, ref[1]))
    # subprocesses with other hash seeds
    procs = []
    for cfg, refvals in children:
        for hs in (("1", "2", "3", "random") if tier == "quick" else ("1", "2", "3", "4", "5", "random")):
            env = dict(os.environ, PYTHONHASHSEED=hs)
            p = subprocess.Popen(["/venv/bin/python", os.path.abspath(__file__), "--child", json.dumps(cfg)], stdout=subprocess.PIPE, stderr=subprocess.DEVNULL,
                                 text=True, env=env, cwd=VERIF)
            procs.append((cfg, refvals, hs, p))
    for cfg, refvals, hs, p in procs:
        out, _ = p.communicate(timeout=1200)
        line = [l for l in out.splitlines() if l.startswith("RESULT ")]
        rep.count("hashseed=" + hs)
        rep.case(sample={"subprocess_hashseed": hs, "agree": bool(line) and json.loads(line[0][7:]) == refvals})
        if not line:
            rep.violation("subprocess-failed", dict(cfg, hashseed=hs), "subprocess with PYTHONHASHSEED=%s produced no result no-failing-input-found" % hs)
        elif json.loads(line[0][7:]) != refvals:
            rep.violation("hashseed-dependent", dict(cfg, hashseed=hs), "results differ in a subprocess with PYTHONHASHSEED=%s" % hs)


def replay(rep, data, pa):
    cfg = {k: data.get(k) for k in ("units", "dissim", "mode", "sampler", "n_samples", "precision", "numpy_seed", "ground_truth")}
    cfg["units"] = [[tuple(u) for u in us] for us in cfg["units"]]
    if data.get("windowed"):
        cfg["windowed"] = True
    outs, written = {}, []
    # every forced schedule (fifo-now runs each job at submission, before the next sample is drawn: the one order in which a job's write to the input
    # can reach the samples) and a real pool; writes to the input from worker threads are traced as in the check
    for name, fac in (("fifo-now", lambda: ForcedExecutor("fifo-now")), ("fifo", lambda: ForcedExecutor("fifo")), ("lifo", lambda: ForcedExecutor("lifo")),
                      ("delay-first", lambda: ForcedExecutor("delay-first")), ("pool-16", lambda: real_pool(16))):
        outs[name] = run_config(pa, cfg, fac)[0]
        if run_config.worker_writes:
            written.append((name, sorted(set(k for k, _ in run_config.worker_writes))))
    same = all(v == outs["fifo-now"] for v in outs.values())
    print("  all schedules agree: %r (%s); attributes of the input written from worker threads: %r" % (
        same, ", ".join("%s%s" % (n, "" if v == outs["fifo-now"] else " DIFFERS") for n, v in outs.items()), written))
    return same and not written


if __name__ == "__main__" and len(sys.argv) > 2 and sys.argv[1] == "--child":
    child_main()
