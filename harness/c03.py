"""C03 - disorder values follow the definition.

For alignments returned by the library (best, soft, fast) and hand-built ones (random partitions, slots listed in shuffled annotator order,
with or without an attached continuum) the five observation points - Alignment.disorder, [u.disorder], Alignment.compute_disorder(d),
UnitaryAlignment.compute_disorder(d), and the disorder a fresh Alignment computes lazily from the carried unitary disorders - are compared with the model: slots placed by row_of_ntuple, unitary disorder = ua_sum / C(n,2),
alignment disorder = sum / (units / annotators), all in exact arithmetic on the values of d()."""
from fractions import Fraction

import gen
import alignchk as ac
from align import Inst
from common import rng_for, run_model, coq_eval, w_list, frac, close, TAU2

RULE = ("continua from VERIF_SEED (2..5 annotators, empty annotators, all patterns) x every dissimilarity kind; alignments: best, soft, fast (window "
        "1..3), and 2 random partitions per case with shuffled slot order, attached or not to the continuum; every observation point compared "
        "within 2^-15; non-trivial = 4 or more annotators or a tuple with an empty slot; distinct by (units, dissimilarity, alignment kind)")
TRUSTED_BASE = ["Coq 8.16.1 kernel", "extraction (ExtrOcamlBasic only), ocaml/driver.ml", "harness/{common,align,alignchk,gen,c03}.py",
                "pair costs are those of dissimilarity.d() (C04)"]
ASSUMPTIONS = ["relative tolerance 2^-15", "hand-built alignments list every annotator exactly once per tuple (the domain of row_of_ntuple_perm)"]


def slots_wire(I, n_tuple, ranks):
    out = [len(n_tuple)]
    names = [a for a, _ in I.ann]
    for (ann, unit) in n_tuple:
        a = names.index(ann)
        out.append(ranks[ann])
        if unit is None:
            out.append(0)
        else:
            out += [1, I.ann[a][1].index(unit)]
    return out


def random_alignment(pa, rng, cont, attach):
    from pygamma_agreement.alignment import Alignment, UnitaryAlignment
    names = list(cont.annotators)
    pools = {a: list(cont[a]) for a in names}
    for a in pools:
        rng.shuffle(pools[a])
    uas = []
    while any(pools.values()):
        t = [(a, pools[a].pop()) if pools[a] and rng.random() < 0.7 else (a, None) for a in names]
        if any(u is not None for _, u in t):
            rng.shuffle(t)                      # slot order is arbitrary
            uas.append(UnitaryAlignment(t))
    return Alignment(uas, cont if attach else None)


def run(rep, tier, seed, pa):
    ac.install_backend_hooks()
    rng = rng_for(seed, "C03")
    cases = ac.random_cases(rng, 90 if tier == "quick" else 900, tier, unlabelled_share=0.15, kmax={2: 5, 3: 4, 4: 3, 5: 3})
    lines, metas = [], []
    conts = [(gen.build_continuum(pa, case["units"]), gen.make_dissim(pa, case["spec"])) for case in cases]
    conts_by_case = {id(case): c[0] for case, c in zip(cases, conts)}
    ws = [rng.choice([1, 2, 3]) for _ in cases]

    def fwork(k):
        f = conts[k][0].get_fast_alignment(conts[k][1], ws[k])
        f.continuum = None
        return f
    fouts = ac.map_forked(fwork, range(len(cases)), 60)
    fast_results = []
    for (cont, _), fo in zip(conts, fouts):
        if fo[0] == "ok":
            fo[1].continuum = cont
            fast_results.append(fo[1])
        else:
            fast_results.append(None)
    for ci, case in enumerate(cases):
        cont, dissim = conts[ci]
        if fast_results[ci] is None:
            rep.case()
            rep.violation("alignment-raises", {"units": case["units"], "dissim": case["spec"], "error": str(fouts[ci])}, "fast alignment did not return: %r" % (fouts[ci],))
            continue
        I = Inst(cont, dissim)
        ranks = {a: i for i, a in enumerate(sorted(cont.annotators))}
        als = []
        try:
            als.append(("best", cont.get_best_alignment(dissim), True))
            als.append(("soft", cont.get_best_soft_alignment(dissim), True))
            als.append(("fast", fast_results[ci], True))
        except (Exception, ac.Watchdog) as e:  # noqa
            rep.case()
            rep.violation("alignment-raises", {"units": case["units"], "dissim": case["spec"], "error": repr(e)}, "alignment computation raised %r" % (e,))
            continue
        for _ in range(2):
            attach = rng.random() < 0.5
            als.append(("hand-built" + ("+continuum" if attach else ""), random_alignment(pa, rng, cont, attach), attach))
        for kind, al, attached in als:
            if not al.unitary_alignments:
                continue
            lines.append([400] + I.wire() + w_list([ua.n_tuple for ua in al.unitary_alignments], lambda nt: slots_wire(I, nt, ranks)))
            metas.append((case, I, kind, al, attached, dissim))
    # second dissimilarity per case (positional with another delta_empty: defined on every continuum): model sums for every alignment under it
    lines2, keys2 = [], []
    for (case, I, kind, al, attached, dissim) in metas:
        if kind == "soft" or "second_dissim" in case and id(al) in case["second_out"]:
            continue
        if "second_dissim" not in case:
            case["second_dissim"] = gen.make_dissim(pa, ("pos", 2.0 if case["spec"][0] != "pos" or case["spec"][1] != 2.0 else 0.5))
            case["second_I"] = Inst(conts_by_case[id(case)], case["second_dissim"])
            case["second_out"] = {}
            case["second_line"] = True
        ranks2 = {a: i for i, a in enumerate(sorted(conts_by_case[id(case)].annotators))}
        lines2.append([400] + case["second_I"].wire() + w_list([ua.n_tuple for ua in al.unitary_alignments], lambda nt: slots_wire(case["second_I"], nt, ranks2)))
        keys2.append((case, id(al)))
    for (case, k_), out_ in zip(keys2, run_model(lines2)):
        case["second_out"][k_] = out_
    outs = run_model(lines)
    for (case, I, kind, al, attached, dissim), out in zip(metas, outs):
        total = out[0]
        k = out[1]
        pos, sums = 2, []
        for _ in range(k):
            ln = out[pos]
            sums.append(out[pos + 1 + ln])
            pos += 2 + ln
        n = I.n
        reals = [sum(1 for _, u in ua.n_tuple if u is not None) for ua in al.unitary_alignments]
        avg = Fraction(I.nunits, n) if attached else Fraction(sum(reals), n)
        ua_exact = [Fraction(s, I.scale) / I.c2n for s in sums]
        al_exact = sum(ua_exact, Fraction(0)) / avg
        data = {"units": case["units"], "dissim": case["spec"], "alignment_kind": kind,
                "tuples": [[(a, None if u is None else (u.segment.start, u.segment.end, u.annotation)) for a, u in ua.n_tuple] for ua in al.unitary_alignments]}
        rep.count("alignment=" + kind)
        rep.count("n=%d" % n)
        nontriv = n >= 4 or any(r < n for r in reals)
        obs = {}
        bad = []
        if kind in ("best", "soft", "fast"):
            obs["cached_disorder"] = float(al.disorder)
            if not close(al.disorder, al_exact, TAU2):
                bad.append(("cached-alignment-disorder", "cached disorder %r, definition %r" % (float(al.disorder), float(al_exact))))
            for ua, e in zip(al.unitary_alignments, ua_exact):
                if not close(ua.disorder, e, TAU2):
                    bad.append(("cached-unitary-disorder", "cached unitary disorder %r, definition %r" % (float(ua.disorder), float(e))))
                    break
        try:
            v = al.compute_disorder(dissim)
            obs["compute_disorder"] = float(v)
            if not close(v, al_exact, TAU2):
                bad.append(("compute_disorder", "compute_disorder %r, definition %r" % (float(v), float(al_exact))))
            if not close(al.disorder, al_exact, TAU2):
                bad.append(("disorder-after-compute", "disorder property %r after compute_disorder, definition %r" % (float(al.disorder), float(al_exact))))
            for ua, e in zip(al.unitary_alignments, ua_exact):
                if not close(ua.disorder, e, TAU2):
                    bad.append(("unitary-disorder-after-compute", "unitary disorder %r after compute_disorder, definition %r" % (float(ua.disorder), float(e))))
                    break
        except Exception as e:
            bad.append(("compute_disorder-raises", "compute_disorder raised %r" % (e,)))
        # a fresh Alignment built from the same unitary alignments (which now carry their disorders) without a disorder of its own: the
        # property computes it lazily from the carried values - the fifth route to the same number
        if not any(k.startswith("compute") or k.startswith("unitary-disorder") for k, _ in bad):
            try:
                from pygamma_agreement.alignment import Alignment as _Al, SoftAlignment as _SAl
                fresh = (_SAl if kind == "soft" else _Al)(list(al.unitary_alignments), continuum=al.continuum if attached else None, check_validity=False)
                v = fresh.disorder
                obs["lazy_disorder"] = float(v)
                if not close(v, al_exact, TAU2):
                    bad.append(("lazy-disorder", "disorder computed from the carried unitary disorders %r, definition %r" % (float(v), float(al_exact))))
            except Exception as e:
                bad.append(("lazy-disorder-raises", "Alignment(...).disorder raised %r" % (e,)))
        # the same alignment object recomputed with ANOTHER dissimilarity (it already carries a total and unitary disorders from the first one):
        # the returned total, the carried total and the carried unitary disorders must all be those of the new dissimilarity
        if kind != "soft" and not bad and case.get("second_line") is not None:
            d2, out2 = case["second_dissim"], case["second_out"].get(id(al))
            if out2 is not None:
                k2, pos2, sums2 = out2[1], 2, []
                for _ in range(k2):
                    ln2 = out2[pos2]
                    sums2.append(out2[pos2 + 1 + ln2])
                    pos2 += 2 + ln2
                I2 = case["second_I"]
                ua2 = [Fraction(s_, I2.scale) / I2.c2n for s_ in sums2]
                al2 = sum(ua2, Fraction(0)) / avg
                try:
                    v2 = al.compute_disorder(d2)
                    obs["recomputed_with_second_dissimilarity"] = float(v2)
                    if not close(v2, al2, TAU2):
                        bad.append(("recompute-other-dissimilarity", "compute_disorder(second dissimilarity) returned %r, definition %r" % (float(v2), float(al2))))
                    elif not close(al.disorder, al2, TAU2):
                        bad.append(("recompute-other-dissimilarity", "disorder property %r after recomputation with a second dissimilarity, definition %r" % (float(al.disorder), float(al2))))
                    elif any(not close(u.disorder, e2, TAU2) for u, e2 in zip(al.unitary_alignments, ua2)):
                        bad.append(("recompute-other-dissimilarity", "carried unitary disorders are not those of the second dissimilarity"))
                    al.compute_disorder(dissim)      # back to the first one for the checks below
                except Exception as e:
                    bad.append(("compute_disorder-raises", "compute_disorder(second dissimilarity) raised %r" % (e,)))
        # UnitaryAlignment.compute_disorder on each tuple
        for ua, e, r in zip(al.unitary_alignments, ua_exact, reals):
            try:
                v = ua.compute_disorder(dissim)
            except Exception as ex:
                bad.append(("unitary-compute-raises", "UnitaryAlignment.compute_disorder raised %r" % (ex,)))
                break
            if not close(v, e, TAU2):
                if r < n and close(v, e * n / r, TAU2):
                    bad.append(("UnitaryAlignment.compute_disorder:empty-slot", "UnitaryAlignment.compute_disorder = %r = definition %r x n/k (n=%d annotators, k=%d real units)" % (float(v), float(e), n, r)))
                else:
                    bad.append(("UnitaryAlignment.compute_disorder:other", "UnitaryAlignment.compute_disorder = %r, definition %r" % (float(v), float(e))))
                break
        rep.case(sample={"alignment": kind, "n": n, "dissim": case["spec"], "observed": obs, "definition": float(al_exact)},
                 nontrivial_key=(repr(case["units"]), case["spec"], kind, repr(data["tuples"])) if nontriv else None)
        for key, what in bad:
            rep.violation(key, data, what)
    sample = [l for l in lines if len(l) < 1500][:8]
    coq = coq_eval(sample)
    oc = run_model(sample)
    rep.extra["extraction_crosscheck"] = {"cases": len(sample), "agree": sum(1 for a, b in zip(oc, coq) if a == b)}
    if any(a != b for a, b in zip(oc, coq)):
        rep.violation("extraction", {}, "extracted model and vm_compute disagree no-failing-input-found")


def replay(rep, data, pa):
    from pyannote.core import Segment
    from pygamma_agreement.alignment import Alignment, UnitaryAlignment
    Unit = pa.continuum.Unit
    units = [[tuple(u) for u in us] for us in data["units"]]
    cont = gen.build_continuum(pa, units)
    dissim = gen.make_dissim(pa, tuple(data["dissim"]))
    I = Inst(cont, dissim)
    ranks = {a: i for i, a in enumerate(sorted(cont.annotators))}
    uas = [UnitaryAlignment([(a, None if u is None else Unit(Segment(u[0], u[1]), u[2])) for a, u in t]) for t in data["tuples"]]
    attached = "continuum" in data["alignment_kind"] or data["alignment_kind"] in ("best", "soft", "fast")
    al = Alignment(uas, cont if attached else None)
    out = run_model([[400] + I.wire() + w_list([ua.n_tuple for ua in uas], lambda nt: slots_wire(I, nt, ranks))])[0]
    k, pos, sums = out[1], 2, []
    for _ in range(k):
        ln = out[pos]
        sums.append(out[pos + 1 + ln])
        pos += 2 + ln
    reals = [sum(1 for _, u in ua.n_tuple if u is not None) for ua in uas]
    avg = Fraction(I.nunits, I.n) if attached else Fraction(sum(reals), I.n)
    ua_exact = [Fraction(s, I.scale) / I.c2n for s in sums]
    al_exact = sum(ua_exact, Fraction(0)) / avg
    ok = close(al.compute_disorder(dissim), al_exact, TAU2)
    for ua, e, r in zip(uas, ua_exact, reals):
        v = ua.compute_disorder(dissim)
        if not close(v, e, TAU2) and r < I.n and close(v, e * I.n / r, TAU2):
            print("  unitary: library %r = definition %r x n/k (the known finding UnitaryAlignment.compute_disorder:empty-slot, not counted)" % (float(v), float(e)))
            continue
        print("  unitary: library %r definition %r" % (float(v), float(e)))
        ok = ok and close(v, e, TAU2)
    return ok
