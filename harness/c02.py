"""C02 - the best alignment has minimal disorder among all partitions; pruning never changes the minimum."""
from fractions import Fraction

import alignchk as ac
from common import rng_for, close, TAU2, run_model

RULE = ("continua from VERIF_SEED small enough for the verified oracle (random up to 3x6, 4x4, 5x3 units in quick; plus a random sample of the "
        "exhaustive 2-annotator grid {0..3} x labels {A,B}), every built-in dissimilarity, alpha/beta incl. 0, delta_empty != 1, both "
        "back-ends; each returned alignment is (1) a partition by the verified checker, (2) its exact cost is certified minimal over ALL "
        "partitions by the verified budgeted search on the pruned candidates (theorem C02_certificate), (3) its reported disorder equals "
        "the exact one within 2^-15; non-trivial = the optimum uses at least one tuple with two real units and one unit is left with an "
        "empty partner or the cut removes a tuple; distinct by (units, dissimilarity, back-end)")
TRUSTED_BASE = ["Coq 8.16.1 kernel", "extraction (ExtrOcamlBasic only), ocaml/driver.ml", "harness/{common,align,alignchk,gen,c02}.py",
                "costs are those of dissimilarity.d() (agreement with kernels and formulas: C04)"]
ASSUMPTIONS = ["delta_empty >= 0", "comparison up to single-precision rounding: relative 2^-15 on sums"]


def run(rep, tier, seed, pa):
    ac.install_backend_hooks()
    rng = rng_for(seed, "C02")
    kmax = {2: 6, 3: 4, 4: 3, 5: 2} if tier == "quick" else {2: 9, 3: 7, 4: 5, 5: 3}
    cases = ac.random_cases(rng, 150 if tier == "quick" else 1500, tier, unlabelled_share=0.1, kmax=kmax)
    cases += ac.grid_cases(rng, 120 if tier == "quick" else 3000)
    results = ac.align_many(pa, [(case, "cbc" if k % 2 == 0 else "glpk-noimport", False) for k, case in enumerate(cases)])
    items = list(zip(cases, results))
    facts = ac.judge_many(rep, items, part=True, want_optimal=True, limit=20 if tier == "quick" else 40)
    # the SAME continuum and dissimilarity objects: aligned once (best alignment), edited in place (a unit moved, counts kept / an annotator
    # declared), then the best alignment asked again - it must be valid and minimal for the continuum as it is now
    pairs = [(c, ac.edited_case(rng, c)) for c in cases[:40 if tier == "quick" else 400]]
    pairs = [(c, a) for c, a in pairs if a is not None]
    for c, a in pairs:
        a["first_soft"] = False
    rres = ac.realign_many(pa, [(c, a, "cbc" if k % 2 == 0 else "glpk-noimport", False, False) for k, (c, a) in enumerate(pairs)])
    ac.judge_many(rep, [(a, r) for (c, a), r in zip(pairs, rres)], part=True, want_optimal=True, limit=20, prefix="re-aligned:")
    for (c, a), r in zip(pairs, rres):
        rep.count("re-aligned_after=" + a["edit"][0])
        rep.case(nontrivial_key=(repr(a["units"]), a["spec"], "re-aligned") if r["error"] is None else None)
    for (case, res), f in zip(items, facts):
        I = res.get("I")
        rep.count("backend=" + res["mode"])
        rep.count("pattern=" + case["pattern"])
        rep.count("kind=" + case["spec"][0])
        rep.count("certified" if f["optimal"] else ("refuted" if f["optimal"] is False else "undecided"))
        if I is not None:
            rep.count("n=%d" % I.n)
        nontriv = False
        if I is not None and res["tuples"] and all(t is not None for t in res["tuples"]):
            reals = [sum(1 for a, v in enumerate(t) if v < I.sizes[a]) for t in res["tuples"]]
            nontriv = f["optimal"] is True and max(reals) >= 2 and min(reals) < I.n
        if f.get("lib_exact_disorder") is not None:
            if not close(res["disorder"], f["lib_exact_disorder"], TAU2):
                rep.violation("reported-disorder", {"units": case["units"], "dissim": case["spec"], "mode": res["mode"],
                                                    "reported": float(res["disorder"]), "exact": str(f["lib_exact_disorder"])},
                              "reported disorder %r differs from the exact disorder of the returned alignment %r"
                              % (float(res["disorder"]), float(f["lib_exact_disorder"])))
        rep.case(sample={"sizes": I.sizes if I else None, "dissim": case["spec"], "backend": res["mode"], "alignment": res.get("tuples"),
                         "disorder": float(res["disorder"]) if res.get("disorder") is not None else None, "certified_minimal": f["optimal"]},
                 nontrivial_key=(repr(case["units"]), case["spec"], res["mode"]) if nontriv else None)
    # pruning as implemented: optimum over the pruned candidates == optimum over all real tuples (fn 5, modes 0 and 1) on tiny cases
    tiny = [(c, r) for (c, r) in items if r.get("I") is not None and r["I"].nunits <= 7][:40 if tier == "quick" else 300]
    a = run_model([ac.optimum_line(r["I"], True, 0) for c, r in tiny], limit=30)
    b = run_model([ac.optimum_line(r["I"], True, 1) for c, r in tiny], limit=30)
    same = 0
    for (c, r), x, y in zip(tiny, a, b):
        if isinstance(x, list) and isinstance(y, list) and x[:1] == [1] and y[:1] == [1]:
            same += 1
            if x[1] != y[1]:
                rep.violation("pruning", {"units": c["units"], "dissim": c["spec"], "pruned": x[1], "all": y[1]},
                              "optimum over the pruned candidates differs from the optimum over all tuples")
    rep.extra["pruned_vs_all_optima_compared"] = same


def replay(rep, data, pa):
    ac.install_backend_hooks()
    case, res = ac.replay_align(pa, data, soft=False)
    mode = res["mode"]
    f = ac.judge_many(rep, [(case, res)], part=True, want_optimal=True, limit=300)[0]
    if f.get("lib_exact_disorder") is not None and not close(res["disorder"], f["lib_exact_disorder"], TAU2):
        rep.violation("reported-disorder", {}, "reported disorder differs from exact")
    for key, path, what in rep.violations:
        print("  ", what)
    return not rep.violations
