#!/bin/bash
# regenerate the Coq tables from /repo's current source (fail-closed)
exec python3 "$(dirname "$0")/gen_tables.py"
