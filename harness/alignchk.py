"""Shared runner for the alignment properties C01, C02, C08, C11: runs the library's best / soft alignment under a
chosen MIP back-end and has the extracted verified checkers judge the result."""
import builtins
import signal
from fractions import Fraction

import gen
from align import Inst
from common import TAU2, frac, close, run_model, w_list, w_tuple

# ----------------------------------------------------------------------------------------------
# back-end control (no repository change: the library looks `cylp` up at call time)

_real_import = builtins.__import__
_state = {"mask_cylp": False, "cbc_fails": False, "log": []}


def _import(name, *a, **k):
    if _state["mask_cylp"] and (name == "cylp" or name.startswith("cylp.")):
        raise ImportError("cylp masked by the verification harness")
    return _real_import(name, *a, **k)


def install_backend_hooks():
    import cvxpy as cp
    if getattr(cp.Problem, "_pga_wrapped", False):
        return
    builtins.__import__ = _import
    orig = cp.Problem.solve

    def solve(self, *a, **k):
        s = k.get("solver")
        _state["log"].append(s)
        if _state["cbc_fails"] and s == cp.CBC:
            raise cp.SolverError("CBC failure injected by the verification harness")
        return orig(self, *a, **k)
    cp.Problem.solve = solve
    cp.Problem._pga_wrapped = True


def set_backend(mode):
    """mode: 'cbc' | 'glpk-noimport' | 'glpk-solvererror'"""
    _state["mask_cylp"] = mode == "glpk-noimport"
    _state["cbc_fails"] = mode == "glpk-solvererror"
    _state["log"] = []


def solvers_used():
    return list(_state["log"])


class Watchdog(BaseException):
    """not an Exception: library code catching `Exception` must not swallow it"""


def _alarm(signum, frame):
    raise Watchdog()


def run_forked(seconds, f, *a):
    """Run f(*a) in a forked child with a HARD time limit; the (picklable) result comes back through a pipe.
    A library call that never returns cannot be interrupted reliably from inside the interpreter (solver wrappers
    swallow exceptions), so non-termination is observed by killing the child."""
    import os
    import pickle
    import select
    import time
    r, w = os.pipe()
    pid = os.fork()
    if pid == 0:
        try:
            os.close(r)
            try:
                res = ("ok", f(*a))
            except BaseException as e:   # noqa
                res = ("err", type(e).__name__, str(e))
            try:
                data = pickle.dumps(res)
            except Exception as e:
                data = pickle.dumps(("err", "PicklingError", repr(e)))
            pos = 0
            while pos < len(data):
                pos += os.write(w, data[pos:pos + 65536])
        finally:
            os._exit(0)
    os.close(w)
    chunks = []
    deadline = time.time() + seconds
    timed_out = False
    while True:
        left = deadline - time.time()
        if left <= 0:
            timed_out = True
            break
        rd, _, _ = select.select([r], [], [], min(left, 1.0))
        if rd:
            b = os.read(r, 1 << 20)
            if not b:
                break
            chunks.append(b)
    os.close(r)
    if timed_out:
        try:
            os.kill(pid, 9)
        except OSError:
            pass
    os.waitpid(pid, 0)
    if timed_out:
        raise Watchdog()
    res = pickle.loads(b"".join(chunks)) if chunks else ("err", "ChildDied", "no result")
    if res[0] == "ok":
        return res[1]
    raise ForkedError(res[1], res[2])


def map_forked(fn, items, seconds):
    """Apply fn to every item inside forked children with a HARD per-item time limit.  One child handles as many items as it
    can (results are streamed back one by one); when an item exceeds the limit the child is killed, that item is reported as
    ("timeout",) and a new child continues with the rest.  Returns a list of ("ok", value) | ("err", name, msg) | ("timeout",)."""
    import os
    import pickle
    import select
    import struct
    import time
    items = list(items)
    out = [None] * len(items)
    start = 0
    while start < len(items):
        r, w = os.pipe()
        pid = os.fork()
        if pid == 0:
            try:
                os.close(r)
                for k in range(start, len(items)):
                    try:
                        res = ("ok", fn(items[k]))
                    except BaseException as e:   # noqa
                        res = ("err", type(e).__name__, str(e))
                    try:
                        data = pickle.dumps(res)
                    except Exception as e:
                        data = pickle.dumps(("err", "PicklingError", repr(e)))
                    data = struct.pack("<Q", len(data)) + data
                    pos = 0
                    while pos < len(data):
                        pos += os.write(w, data[pos:pos + 65536])
            finally:
                os._exit(0)
        os.close(w)
        buf = b""
        k = start
        deadline = time.time() + seconds
        dead = False
        while k < len(items):
            # complete frames in the buffer
            while len(buf) >= 8:
                n = struct.unpack("<Q", buf[:8])[0]
                if len(buf) < 8 + n:
                    break
                out[k] = pickle.loads(buf[8:8 + n])
                buf = buf[8 + n:]
                k += 1
                deadline = time.time() + seconds
            if k >= len(items):
                break
            left = deadline - time.time()
            if left <= 0:
                out[k] = ("timeout",)
                k += 1
                dead = True
                break
            rd, _, _ = select.select([r], [], [], min(left, 1.0))
            if rd:
                b = os.read(r, 1 << 20)
                if not b:            # child died without finishing
                    if k < len(items) and out[k] is None:
                        out[k] = ("err", "ChildDied", "the forked worker died")
                        k += 1
                    dead = True
                    break
                buf += b
        os.close(r)
        if dead:
            try:
                os.kill(pid, 9)
            except OSError:
                pass
        os.waitpid(pid, 0)
        start = k
    return out


class ForkedError(Exception):
    def __init__(self, name, msg):
        Exception.__init__(self, "%s: %s" % (name, msg))
        self.name, self.msg = name, msg


def with_watchdog(seconds, f, *a):
    old = signal.signal(signal.SIGALRM, _alarm)
    # fires at the deadline and then every second, in case one delivery is swallowed at a C extension boundary
    signal.setitimer(signal.ITIMER_REAL, seconds, 1.0)
    try:
        return f(*a)
    finally:
        signal.setitimer(signal.ITIMER_REAL, 0, 0)
        signal.signal(signal.SIGALRM, old)


# ----------------------------------------------------------------------------------------------

def random_cases(rng, count, tier, unlabelled_share=0.2, kmax=None, kinds=None, ns=None, patterns=None):
    kmax = kmax or {2: 6, 3: 5, 4: 4, 5: 3}
    cases = []
    pools = {}
    pool_size = 7 if tier == "quick" else 40
    while len(cases) < count:
        n = rng.choice(ns or [2, 2, 3, 3, 3, 4, 5])
        pattern = rng.choice(patterns or gen.PATTERNS)
        labelset = rng.choice(["abc", "words", "nums"])
        x = rng.random()
        unl = True if x < unlabelled_share / 2 else (0.35 if x < unlabelled_share else False)   # fully unlabelled / mixed / labelled
        sizes = gen.sizes_for(rng, n, kmax[n])
        units = gen.gen_units(rng, n, sizes, pattern, gen.LABEL_SETS[labelset], unl)
        if sum(len(u) for u in units) == 0:
            continue
        # dissimilarity objects cost ~0.7 s of numba compilation each: draw them from a bounded pool per (label set, labelled?)
        pool = pools.setdefault((labelset, bool(unl)), [])
        if len(pool) < pool_size:
            pool.append(gen.random_dissim_spec(rng, labelset, bool(unl), kinds=kinds))
            spec = pool[-1]
        else:
            spec = rng.choice(pool)
        cases.append({"units": units, "spec": spec, "pattern": pattern, "unlabelled": unl, "labelset": labelset})
    return cases


def grid_cases(rng, count):
    """2 annotators, <= 2 units each, segments on the grid {0,1,2,3}, labels A/B: a random sample of an exhaustive space"""
    segs = [(s, e, l) for s in range(4) for e in range(s + 1, 4) for l in ("A", "B")]
    cases = []
    for _ in range(count):
        units = []
        for a in range(2):
            k = rng.choice([0, 1, 1, 2, 2])
            units.append(sorted((float(s), float(e), l) for (s, e, l) in rng.sample(segs, k)))
        if sum(len(u) for u in units) == 0:
            continue
        spec = rng.choice([("pos", 1.0), ("comb", 1.0, 1.0, 1.0, "abs", "abc", "asis"), ("comb", 0.5, 1.0, 0.5, "abs", "abc", "asis"),
                           ("comb", 1.0, 0.0, 2.0, "abs", "abc", "asis"), ("abs", 1.0)])
        cases.append({"units": units, "spec": spec, "pattern": "grid", "unlabelled": False})
    return cases


def align_case(pa, case, mode, soft=False, timeout=60):
    """run the library; returns dict(cont, dissim, I, tuples (index form or None), disorder, uas, error)"""
    cont = gen.build_continuum(pa, case["units"])
    dissim = gen.make_dissim(pa, case["spec"])
    res = {"cont": cont, "dissim": dissim, "error": None}
    set_backend(mode)
    try:
        f = cont.get_best_soft_alignment if soft else cont.get_best_alignment

        def job():
            r = f(dissim)
            r.continuum = None          # the parent re-attaches its own continuum object
            return r, [str(x) for x in solvers_used()]
        al, res["solvers"] = run_forked(timeout, job)
        al.continuum = cont
    except Watchdog:
        res["error"] = "timeout after %ds" % timeout
        res["solvers"] = []
        return res
    except ForkedError as e:  # any exception is a failure to return
        res["error"] = "%s: %s" % (e.name, e.msg)
        res["solvers"] = []
        return res
    finally:
        set_backend("cbc")
    I = Inst(cont, dissim)
    res["I"] = I
    res["alignment"] = al
    res["tuples"] = [I.index_tuple(ua.n_tuple) for ua in al.unitary_alignments]
    res["slots_ok"] = all(len(ua.n_tuple) == I.n for ua in al.unitary_alignments)
    res["disorder"] = al.disorder
    res["ua_disorders"] = [ua.disorder for ua in al.unitary_alignments]
    return res


def align_many(pa, jobs, timeout=60):
    """jobs: list of (case, mode, soft).  Runs the library in forked workers (hard time limit per alignment); returns res dicts."""
    conts = []
    for case, mode, soft in jobs:
        conts.append((gen.build_continuum(pa, case["units"]), gen.make_dissim(pa, case["spec"])))

    def work(k):
        case, mode, soft = jobs[k]
        cont, dissim = conts[k]
        set_backend(mode)
        try:
            r = (cont.get_best_soft_alignment if soft else cont.get_best_alignment)(dissim)
            r.continuum = None
            return r, [str(x) for x in solvers_used()]
        finally:
            set_backend("cbc")
    outs = map_forked(work, range(len(jobs)), timeout)
    results = []
    for (case, mode, soft), (cont, dissim), o in zip(jobs, conts, outs):
        res = {"cont": cont, "dissim": dissim, "error": None, "mode": mode, "solvers": []}
        if o[0] == "timeout":
            res["error"] = "timeout after %ds" % timeout
        elif o[0] == "err":
            res["error"] = "%s: %s" % (o[1], o[2])
        else:
            al, res["solvers"] = o[1]
            al.continuum = cont
            I = Inst(cont, dissim)
            res["I"] = I
            res["alignment"] = al
            res["tuples"] = [I.index_tuple(ua.n_tuple) for ua in al.unitary_alignments]
            res["slots_ok"] = all(len(ua.n_tuple) == I.n for ua in al.unitary_alignments)
            res["disorder"] = al.disorder
            res["ua_disorders"] = [ua.disorder for ua in al.unitary_alignments]
        results.append(res)
    return results


def edited_case(rng, case):
    """an in-place edit of the continuum of `case` that keeps every annotator's number of units (one unit moved elsewhere), or declares one more
    annotator without units; returns the case after the edit (None when the continuum has no unit to move)"""
    units = [list(us) for us in case["units"]]
    after = dict(case)
    if rng.random() < 0.25 and len(units) < len(gen.ANNOTATORS):
        after["units"] = units + [[]]
        after["units_before"] = case["units"]
        after["edit"] = ("add_annotator",)
        return after
    cands = [a for a, us in enumerate(units) if us]
    if not cands:
        return None
    a = rng.choice(cands)
    k = rng.randrange(len(units[a]))
    s0, e0, l0 = units[a][k]
    if rng.random() < 0.25 and sum(len(us) for us in units) >= 2:
        units[a] = units[a][:k] + units[a][k + 1:]         # a unit removed, nothing added
        after["units"] = units
        after["units_before"] = case["units"]
        after["edit"] = ("remove", a, (s0, e0, l0))
        return after
    shift = rng.choice([-9.0, -2.5, 3.0, 11.0, 40.0])
    new = (s0 + shift, e0 + shift + rng.choice([0.0, 0.5, 2.0]), l0)
    if new in units[a]:
        return None
    units[a] = sorted(units[a][:k] + units[a][k + 1:] + [new], key=lambda t: (t[0], t[1], t[2] is not None, t[2] or ""))
    after["units"] = units
    after["units_before"] = case["units"]
    after["edit"] = ("move", a, (s0, e0, l0), new)
    return after


def realign_many(pa, jobs, timeout=90):
    """jobs: list of (case, case_after, mode, first_soft, second_soft).  In a forked worker: build the continuum of `case`, align it (first), apply
    the edit IN PLACE through the public API, align the same object again with the same dissimilarity object (second); the second alignment is
    returned and judged against the continuum as it is after the edit."""
    from pyannote.core import Segment

    def work(k):
        case, after, mode, s1, s2 = jobs[k]
        cont = gen.build_continuum(pa, case["units"])
        dissim = gen.make_dissim(pa, case["spec"])
        set_backend(mode)
        try:
            (cont.get_best_soft_alignment if s1 else cont.get_best_alignment)(dissim)
            ed = after["edit"]
            if ed[0] == "add_annotator":
                cont.add_annotator(gen.ANNOTATORS[len(case["units"])])
            elif ed[0] == "remove":
                cont.remove(gen.ANNOTATORS[ed[1]], pa.continuum.Unit(Segment(ed[2][0], ed[2][1]), ed[2][2]))
            else:
                _, a, old, new = ed
                name = gen.ANNOTATORS[a]
                cont.remove(name, pa.continuum.Unit(Segment(old[0], old[1]), old[2]))
                cont.add(name, Segment(new[0], new[1]), new[2])
            r = (cont.get_best_soft_alignment if s2 else cont.get_best_alignment)(dissim)
            r.continuum = None
            return r, [str(x) for x in solvers_used()]
        finally:
            set_backend("cbc")
    outs = map_forked(work, range(len(jobs)), timeout)
    results = []
    for (case, after, mode, s1, s2), o in zip(jobs, outs):
        cont = gen.build_continuum(pa, after["units"])
        dissim = gen.make_dissim(pa, after["spec"])
        res = {"cont": cont, "dissim": dissim, "error": None, "mode": mode, "solvers": []}
        if o[0] == "timeout":
            res["error"] = "timeout after %ds" % timeout
        elif o[0] == "err":
            res["error"] = "%s: %s" % (o[1], o[2])
        else:
            al, res["solvers"] = o[1]
            al.continuum = cont
            I = Inst(cont, dissim)
            res["I"] = I
            res["alignment"] = al
            try:
                res["tuples"] = [I.index_tuple(ua.n_tuple) for ua in al.unitary_alignments]
            except Exception as e:      # a unit of the alignment that the edited continuum does not hold
                res["tuples"] = None
                res["error"] = "alignment does not fit the edited continuum: %s: %s" % (type(e).__name__, e)
            res["slots_ok"] = all(len(ua.n_tuple) == I.n for ua in al.unitary_alignments)
            res["disorder"] = al.disorder
            res["ua_disorders"] = [ua.disorder for ua in al.unitary_alignments]
        results.append(res)
    return results


def replay_align(pa, data, soft):
    """the library result for a recorded case: through the recorded history when the record carries one (aligned, edited in place, aligned again)"""
    mode = data.get("mode") or "cbc"
    tup = lambda us: [[(u[0], u[1], u[2]) for u in x] for x in us]
    case = {"units": tup(data["units"]), "spec": tuple(data["dissim"]), "pattern": "replay", "unlabelled": False}
    if data.get("edit") is not None and data.get("units_before") is not None:
        ed = data["edit"]
        case["edit"] = tuple(ed[:2]) + tuple(tuple(x) for x in ed[2:]) if ed[0] in ("move", "remove") else tuple(ed)
        case["units_before"] = tup(data["units_before"])
        before = dict(case, units=case["units_before"])
        res = realign_many(pa, [(before, case, mode, bool(data.get("first_soft")), soft)])[0]
    else:
        res = align_case(pa, case, mode, soft=soft)
    res["mode"] = mode
    return case, res


def sizes_line(fn, I, tuples):
    return [fn] + w_list(I.sizes) + w_list(tuples, w_tuple)


def avg_units(I):
    return Fraction(I.nunits, I.n)


def exact_disorder(I, zsum):
    """alignment disorder from the exact scaled sum of pair costs"""
    return Fraction(zsum, I.scale) / I.c2n / avg_units(I)


def optimality_lines(I, tuples, part):
    """[fn 8 line (exact sum of the returned alignment)], later the certificate line built from its answer"""
    return [8] + I.wire() + w_list(tuples, w_tuple)


def certificate_line(I, part, bound_z, cs_mode=0):
    return [6] + I.wire() + [1 if part else 0, cs_mode, bound_z]


def optimum_line(I, part, cs_mode=0):
    return [5] + I.wire() + [1 if part else 0, cs_mode]


def judge_many(rep, items, part, want_optimal, limit=20, prefix=""):
    """items: list of (case, res).  Validity (partition / cover) and, if asked, optimality of each library result,
    decided by the extracted verified checkers in batches.  Returns one dict of facts per item."""
    facts = [{"valid": None, "optimal": None, "lib_sum": None} for _ in items]
    key = lambda k: prefix + k

    def rdata(case, res, **kw):
        d = {"units": case["units"], "dissim": case["spec"], "mode": res.get("mode"), "soft": not part}
        if case.get("edit") is not None:       # the continuum was aligned once before being edited in place (units = the continuum after the edit)
            d.update(edit=case["edit"], units_before=case.get("units_before"), first_soft=case.get("first_soft"))
        d.update(kw)
        return d
    stage = []
    for idx, (case, res) in enumerate(items):
        if res["error"] is not None:
            rep.violation(key("does-not-return:" + res["error"].split(":")[0]), rdata(case, res, error=res["error"]),
                          "alignment computation did not return: %s" % res["error"])
            facts[idx]["valid"] = False
            continue
        if not res["slots_ok"] or any(t is None for t in res["tuples"]):
            rep.violation(key("malformed-tuple"),
                          rdata(case, res, n_tuples=[[(a, str(u)) for a, u in ua.n_tuple] for ua in res["alignment"].unitary_alignments]),
                          "a unitary alignment has a missing / duplicated annotator slot or a unit foreign to the continuum")
            facts[idx]["valid"] = False
            continue
        stage.append(idx)
    outs = run_model([sizes_line(3 if part else 4, items[i][1]["I"], items[i][1]["tuples"]) for i in stage])
    stage2 = []
    for i, out in zip(stage, outs):
        case, res = items[i]
        facts[i]["valid"] = out == [1]
        if out != [1]:
            rep.violation(key("not-a-partition" if part else "not-a-cover"),
                          rdata(case, res, tuples=res["tuples"], sizes=res["I"].sizes, verdict=out),
                          "returned alignment is not a %s of the continuum's units (checker verdict %r)" % ("partition" if part else "cover", out))
        elif want_optimal:
            stage2.append(i)
    if not stage2:
        return facts
    sums = run_model([[8] + items[i][1]["I"].wire() + w_list(items[i][1]["tuples"], w_tuple) for i in stage2])
    certs = []
    for i, s in zip(stage2, sums):
        I = items[i][1]["I"]
        facts[i]["lib_sum"] = s[0]
        facts[i]["lib_exact_disorder"] = exact_disorder(I, s[0])
        facts[i]["tol"] = I.zfloor(TAU2 * max(1, Fraction(s[0], I.scale)))
        certs.append(certificate_line(I, part, s[0] - facts[i]["tol"]))
    couts = run_model(certs, limit=limit)
    stage3 = []
    for i, c in zip(stage2, couts):
        if c == [1]:
            facts[i]["optimal"] = True
        elif c == [0]:
            stage3.append(i)
        else:
            rep.skipped += 1
    oouts = run_model([optimum_line(items[i][1]["I"], part) for i in stage3], limit=limit)
    for i, opt in zip(stage3, oouts):
        case, res = items[i]
        I = res["I"]
        if isinstance(opt, list) and opt and opt[0] == 1:
            v = opt[1]
            if v < facts[i]["lib_sum"] - facts[i]["tol"]:
                facts[i]["optimal"] = False
                rep.violation(key("not-minimal"),
                              rdata(case, res, tuples=res["tuples"], lib_sum=str(Fraction(facts[i]["lib_sum"], I.scale)),
                                    optimum=str(Fraction(v, I.scale)), optimum_rows=opt[2:]),
                              "returned %s costs %s but the verified optimum is %s" % (
                                  "partition" if part else "cover", float(Fraction(facts[i]["lib_sum"], I.scale)), float(Fraction(v, I.scale))))
            else:
                facts[i]["optimal"] = True
        else:
            rep.skipped += 1
    return facts
