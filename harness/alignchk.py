"""Shared runner for the alignment properties C01, C02, C08, C11: runs the library's best / soft alignment under a
chosen MIP back-end and has the extracted verified checkers judge the result."""
import builtins
import signal
from fractions import Fraction

import gen
from align import Inst
from common import TAU2, frac, close, run_model, w_list, w_tuple

# ----------------------------------------------------------------------------------------------
# back-end control (no repository change: the library looks `cylp` up at call time)

_real_import = builtins.__import__
_state = {"mask_cylp": False, "cbc_fails": False, "log": []}


def _import(name, *a, **k):
    if _state["mask_cylp"] and (name == "cylp" or name.startswith("cylp.")):
        raise ImportError("cylp masked by the verification harness")
    return _real_import(name, *a, **k)


def install_backend_hooks():
    import cvxpy as cp
    if getattr(cp.Problem, "_pga_wrapped", False):
        return
    builtins.__import__ = _import
    orig = cp.Problem.solve

    def solve(self, *a, **k):
        s = k.get("solver")
        _state["log"].append(s)
        if _state["cbc_fails"] and s == cp.CBC:
            raise cp.SolverError("CBC failure injected by the verification harness")
        return orig(self, *a, **k)
    cp.Problem.solve = solve
    cp.Problem._pga_wrapped = True


def set_backend(mode):
    """mode: 'cbc' | 'glpk-noimport' | 'glpk-solvererror'"""
    _state["mask_cylp"] = mode == "glpk-noimport"
    _state["cbc_fails"] = mode == "glpk-solvererror"
    _state["log"] = []


def solvers_used():
    return list(_state["log"])


class Watchdog(Exception):
    pass


def _alarm(signum, frame):
    raise Watchdog()


def with_watchdog(seconds, f, *a):
    old = signal.signal(signal.SIGALRM, _alarm)
    signal.alarm(seconds)
    try:
        return f(*a)
    finally:
        signal.alarm(0)
        signal.signal(signal.SIGALRM, old)


# ----------------------------------------------------------------------------------------------

def random_cases(rng, count, tier, unlabelled_share=0.2, kmax=None, kinds=None):
    kmax = kmax or {2: 6, 3: 5, 4: 4, 5: 3}
    cases = []
    while len(cases) < count:
        n = rng.choice([2, 2, 3, 3, 3, 4, 5])
        pattern = rng.choice(gen.PATTERNS)
        labelset = rng.choice(["abc", "words", "nums"])
        unl = rng.random() < unlabelled_share
        sizes = gen.sizes_for(rng, n, kmax[n])
        units = gen.gen_units(rng, n, sizes, pattern, gen.LABEL_SETS[labelset], unl)
        if sum(len(u) for u in units) == 0:
            continue
        spec = gen.random_dissim_spec(rng, labelset, unl, kinds=kinds)
        cases.append({"units": units, "spec": spec, "pattern": pattern, "unlabelled": unl})
    return cases


def grid_cases(rng, count):
    """2 annotators, <= 2 units each, segments on the grid {0,1,2,3}, labels A/B: a random sample of an exhaustive space"""
    segs = [(s, e, l) for s in range(4) for e in range(s + 1, 4) for l in ("A", "B")]
    cases = []
    for _ in range(count):
        units = []
        for a in range(2):
            k = rng.choice([0, 1, 1, 2, 2])
            units.append(sorted((float(s), float(e), l) for (s, e, l) in rng.sample(segs, k)))
        if sum(len(u) for u in units) == 0:
            continue
        spec = rng.choice([("pos", 1.0), ("comb", 1.0, 1.0, 1.0, "abs", "abc", "asis"), ("comb", 0.5, 1.0, 0.5, "abs", "abc", "asis"),
                           ("comb", 1.0, 0.0, 2.0, "abs", "abc", "asis"), ("abs", 1.0)])
        cases.append({"units": units, "spec": spec, "pattern": "grid", "unlabelled": False})
    return cases


def align_case(pa, case, mode, soft=False, timeout=60):
    """run the library; returns dict(cont, dissim, I, tuples (index form or None), disorder, uas, error)"""
    cont = gen.build_continuum(pa, case["units"])
    dissim = gen.make_dissim(pa, case["spec"])
    res = {"cont": cont, "dissim": dissim, "error": None}
    set_backend(mode)
    try:
        f = cont.get_best_soft_alignment if soft else cont.get_best_alignment
        al = with_watchdog(timeout, f, dissim)
    except Watchdog:
        res["error"] = "timeout after %ds" % timeout
        return res
    except Exception as e:  # any exception is a failure to return
        res["error"] = "%s: %s" % (type(e).__name__, e)
        return res
    finally:
        res["solvers"] = solvers_used()
        set_backend("cbc")
    I = Inst(cont, dissim)
    res["I"] = I
    res["alignment"] = al
    res["tuples"] = [I.index_tuple(ua.n_tuple) for ua in al.unitary_alignments]
    res["slots_ok"] = all(len(ua.n_tuple) == I.n for ua in al.unitary_alignments)
    res["disorder"] = al.disorder
    res["ua_disorders"] = [ua.disorder for ua in al.unitary_alignments]
    return res


def sizes_line(fn, I, tuples):
    return [fn] + w_list(I.sizes) + w_list(tuples, w_tuple)


def avg_units(I):
    return Fraction(I.nunits, I.n)


def exact_disorder(I, zsum):
    """alignment disorder from the exact scaled sum of pair costs"""
    return Fraction(zsum, I.scale) / I.c2n / avg_units(I)


def optimality_lines(I, tuples, part):
    """[fn 8 line (exact sum of the returned alignment)], later the certificate line built from its answer"""
    return [8] + I.wire() + w_list(tuples, w_tuple)


def certificate_line(I, part, bound_z, cs_mode=0):
    return [6] + I.wire() + [1 if part else 0, cs_mode, bound_z]


def optimum_line(I, part, cs_mode=0):
    return [5] + I.wire() + [1 if part else 0, cs_mode]


def judge_many(rep, items, part, want_optimal, limit=20, prefix=""):
    """items: list of (case, res).  Validity (partition / cover) and, if asked, optimality of each library result,
    decided by the extracted verified checkers in batches.  Returns one dict of facts per item."""
    facts = [{"valid": None, "optimal": None, "lib_sum": None} for _ in items]
    key = lambda k: prefix + k

    def rdata(case, res, **kw):
        d = {"units": case["units"], "dissim": case["spec"], "mode": res.get("mode"), "soft": not part}
        d.update(kw)
        return d
    stage = []
    for idx, (case, res) in enumerate(items):
        if res["error"] is not None:
            rep.violation(key("does-not-return:" + res["error"].split(":")[0]), rdata(case, res, error=res["error"]),
                          "alignment computation did not return: %s" % res["error"])
            facts[idx]["valid"] = False
            continue
        if not res["slots_ok"] or any(t is None for t in res["tuples"]):
            rep.violation(key("malformed-tuple"),
                          rdata(case, res, n_tuples=[[(a, str(u)) for a, u in ua.n_tuple] for ua in res["alignment"].unitary_alignments]),
                          "a unitary alignment has a missing / duplicated annotator slot or a unit foreign to the continuum")
            facts[idx]["valid"] = False
            continue
        stage.append(idx)
    outs = run_model([sizes_line(3 if part else 4, items[i][1]["I"], items[i][1]["tuples"]) for i in stage])
    stage2 = []
    for i, out in zip(stage, outs):
        case, res = items[i]
        facts[i]["valid"] = out == [1]
        if out != [1]:
            rep.violation(key("not-a-partition" if part else "not-a-cover"),
                          rdata(case, res, tuples=res["tuples"], sizes=res["I"].sizes, verdict=out),
                          "returned alignment is not a %s of the continuum's units (checker verdict %r)" % ("partition" if part else "cover", out))
        elif want_optimal:
            stage2.append(i)
    if not stage2:
        return facts
    sums = run_model([[8] + items[i][1]["I"].wire() + w_list(items[i][1]["tuples"], w_tuple) for i in stage2])
    certs = []
    for i, s in zip(stage2, sums):
        I = items[i][1]["I"]
        facts[i]["lib_sum"] = s[0]
        facts[i]["lib_exact_disorder"] = exact_disorder(I, s[0])
        facts[i]["tol"] = I.zfloor(TAU2 * max(1, Fraction(s[0], I.scale)))
        certs.append(certificate_line(I, part, s[0] - facts[i]["tol"]))
    couts = run_model(certs, limit=limit)
    stage3 = []
    for i, c in zip(stage2, couts):
        if c == [1]:
            facts[i]["optimal"] = True
        elif c == [0]:
            stage3.append(i)
        else:
            rep.skipped += 1
    oouts = run_model([optimum_line(items[i][1]["I"], part) for i in stage3], limit=limit)
    for i, opt in zip(stage3, oouts):
        case, res = items[i]
        I = res["I"]
        if isinstance(opt, list) and opt and opt[0] == 1:
            v = opt[1]
            if v < facts[i]["lib_sum"] - facts[i]["tol"]:
                facts[i]["optimal"] = False
                rep.violation(key("not-minimal"),
                              rdata(case, res, tuples=res["tuples"], lib_sum=str(Fraction(facts[i]["lib_sum"], I.scale)),
                                    optimum=str(Fraction(v, I.scale)), optimum_rows=opt[2:]),
                              "returned %s costs %s but the verified optimum is %s" % (
                                  "partition" if part else "cover", float(Fraction(facts[i]["lib_sum"], I.scale)), float(Fraction(v, I.scale))))
            else:
                facts[i]["optimal"] = True
        else:
            rep.skipped += 1
    return facts
