"""C05 - gamma is 1 - observed/expected over the requested chance samples.

compute_gamma is run for every mode (exact / fast / soft), sampler (statistical, shuffle int / float pivot), precision (none, numeric, named),
n_samples >= 1 and ground-truth subsets, with the sampler's sample_from_continuum recorded.  Checked against the model (Gamma/GammaRun.v,
Gamma/GammaK.v) and the verified checkers: number of chance alignments = total_samples (the rule N_required = ceil((conf*CV/p)^2) evaluated
exactly), one fresh sample per chance alignment in draw order, each chance alignment a valid same-mode alignment OF ITS OWN continuum with the
matching disorder, observed disorder = same-mode alignment of the input, expected = mean, gamma = 1 - observed/expected <= 1, identical
annotators give gamma = 1."""
import ast
import os
from fractions import Fraction

import numpy as np

import gen
import alignchk as ac
from align import Inst
from common import rng_for, run_model, coq_eval, w_list, frac, close, TAU2, REPO

RULE = ("compute_gamma runs from VERIF_SEED: continua of 2..4 annotators x 2..6 units, labelled; mode in {exact, fast, soft}; sampler in {statistical, "
        "shuffle int_pivot, shuffle float_pivot}; precision in {None, 0.05..0.9, 'high','medium','low'}; n_samples 1..8; ground-truth subsets of size "
        ">= 2 or None; plus continua whose annotators made identical annotations; non-trivial = a precision level is given and the rule asks for a "
        "second batch, or a ground-truth subset is used; distinct by (units, mode, sampler, precision, n_samples, ground truth, numpy seed)")
TRUSTED_BASE = ["Coq 8.16.1 kernel", "extraction (ExtrOcamlBasic only), ocaml/driver.ml", "harness/{common,align,alignchk,gen,c05}.py: the recording wrapper around "
                "the sampler's sample_from_continuum property; constants (confidence 1.96, PRECISION_LEVEL) re-read from the current source",
                "validity of sampled continua and the laws of the draws are properties C15 / C16"]
ASSUMPTIONS = ["np.ceil of the float expression equals the exact ceiling unless the exact value is within 1e-9 of an integer (gray zone, counted)",
               "relative tolerance 2^-15 on disorders"]


def q(x):
    f = frac(x)
    return [f.numerator, f.denominator]


def source_constants():
    """confidence literal of compute_gamma, read from the current source (fail-closed)"""
    src = open(os.path.join(REPO, "pygamma_agreement", "continuum.py")).read()
    tree = ast.parse(src)
    conf = None
    for node in ast.walk(tree):
        if isinstance(node, ast.FunctionDef) and node.name == "compute_gamma":
            for st in ast.walk(node):
                if isinstance(st, ast.Assign) and len(st.targets) == 1 and isinstance(st.targets[0], ast.Name) \
                        and st.targets[0].id == "confidence" and isinstance(st.value, ast.Constant):
                    conf = st.value.value
    if conf is None:
        raise RuntimeError("translator: cannot find `confidence = <literal>` in compute_gamma")
    return float(conf)


class Recorder:
    """wraps the sample_from_continuum property of a sampler class: logs every sample object handed out"""

    def __init__(self, cls):
        self.cls = cls
        self.orig = cls.__dict__["sample_from_continuum"]
        self.log = []

    def __enter__(self):
        rec = self

        def getter(sampler):
            s = rec.orig.fget(sampler)
            rec.log.append(s)
            return s
        setattr(self.cls, "sample_from_continuum", property(getter))
        return self

    def __exit__(self, *a):
        setattr(self.cls, "sample_from_continuum", self.orig)


def same_mode_alignment(cont, dissim, mode):
    if mode == "soft":
        return cont.get_best_soft_alignment(dissim)
    if mode == "fast":
        if cont.best_window_size == np.inf:
            return cont.get_best_alignment(dissim)
        return cont.get_fast_alignment(dissim, cont.best_window_size)
    return cont.get_best_alignment(dissim)


def one_config(ctx, desc):
    """one compute_gamma run with the sampler recorded, and every clause checked on it (also what --replay re-runs)"""
    rep, pa, tier, conf, levels = ctx["rep"], ctx["pa"], ctx["tier"], ctx["conf"], ctx["levels"]
    rule_lines, rule_meta, check_items = ctx["rule_lines"], ctx["rule_meta"], ctx["check_items"]
    units, spec, mode, sname, prec = desc["units"], desc["dissim"], desc["mode"], desc["sampler"], desc["precision"]
    n_samples, gt, npseed = desc["n_samples"], desc["ground_truth"], desc["numpy_seed"]
    n = len(units)
    names = gen.ANNOTATORS[:n]
    identical = all(list(u) == list(units[0]) for u in units)       # every annotator holds the same units: gamma must be 1
    dissim = gen.make_dissim(pa, spec)
    if desc.get("edit") is not None:
        # history: the SAME continuum object was measured once (gamma with 1 sample, best and soft alignment), then a unit was moved in place;
        # the run under test is on the object as it is now - nothing computed before the edit may be reused
        from pyannote.core import Segment
        cont = gen.build_continuum(pa, [[tuple(u) for u in us] for us in desc["units_before"]])
        try:
            np.random.seed(npseed)
            cont.compute_gamma(dissim, n_samples=1, sampler=pa.ShuffleContinuumSampler())
            cont.get_best_soft_alignment(dissim)
            _, a, old, new = desc["edit"]
            cont.remove(gen.ANNOTATORS[a], pa.continuum.Unit(Segment(old[0], old[1]), old[2]))
            cont.add(gen.ANNOTATORS[a], Segment(new[0], new[1]), new[2])
        except Exception as e:
            rep.case()
            rep.violation("compute_gamma-raises:" + type(e).__name__, dict(desc, error=repr(e)), "the calls before the edit raised %r" % (e,))
            return
        rep.count("same_object_after_edit")
    else:
        cont = gen.build_continuum(pa, units)
    sampler = pa.StatisticalContinuumSampler() if sname == "stat" else pa.ShuffleContinuumSampler(pivot_type="int_pivot" if sname == "shuffle-int" else "float_pivot")
    if desc.get("sampler_preinitialised"):
        # the sampler handed to compute_gamma was already initialised on THIS continuum with every annotator as ground truth: the call's own
        # ground truth must prevail (the samples come from it)
        sampler.init_sampling(cont, None)
        rep.count("sampler_preinitialised_on_same_continuum")
    np.random.seed(npseed)
    try:
        with Recorder(type(sampler)) as rec:
            res = ac.with_watchdog(600, lambda: cont.compute_gamma(dissim, n_samples=n_samples, precision_level=prec,
                                                                   ground_truth_annotators=None if gt is None else __import__("sortedcontainers").SortedSet(gt),
                                                                   sampler=sampler, fast=(mode == "fast"), soft=(mode == "soft")))
            samples = list(rec.log)
    except (Exception, ac.Watchdog) as e:
        rep.case()
        rep.violation("compute_gamma-raises:" + type(e).__name__, dict(desc, error=repr(e)), "compute_gamma raised %r" % (e,))
        return
    rep.count("mode=" + mode)
    rep.count("sampler=" + sname)
    rep.count("precision=" + ("none" if prec is None else "named" if isinstance(prec, str) else "numeric"))
    rep.count("ground_truth=" + ("subset" if gt else "all"))
    bad = []
    chance = res.chance_alignments
    ds = [al.disorder for al in chance]
    p = None if prec is None else (levels[prec] if isinstance(prec, str) else prec)
    # (1) one fresh sample per chance alignment, in draw order
    if len(samples) != len(chance):
        bad.append(("samples-drawn", "%d samples drawn for %d chance alignments" % (len(samples), len(chance))))
    else:
        for k, (al, s) in enumerate(zip(chance, samples)):
            if al.continuum is not s:
                bad.append(("stale-sample", "chance alignment %d is not the alignment of the %d-th drawn sample" % (k, k)))
                break
        if len(set(id(s) for s in samples)) != len(samples) or any(s is cont for s in samples):
            bad.append(("shared-sample", "a sampled continuum object is handed out twice or is the input itself"))
    # (2) number of samples = the rule
    rule_lines.append([401] + q(conf) + ([0] if p is None else [1] + q(p)) + [n_samples] + w_list(ds[:n_samples], q))
    rule_meta.append((desc, len(chance), p))
    # (3) annotators of each sample come from the ground truth
    gts = gt if gt is not None else names
    for s in samples:
        if not s:
            bad.append(("empty-sample", "an empty continuum was sampled"))
            break
        if sname == "stat":
            if list(s.annotators) != sorted(gts):
                bad.append(("sample-annotators", "sample annotators %r, ground truth %r" % (list(s.annotators), gts)))
                break
        else:
            if len(s.annotators) != len(gts):
                bad.append(("sample-annotators", "%d sampled annotators for %d ground-truth annotators" % (len(s.annotators), len(gts))))
                break
            gt_sets = [sorted((round(u.segment.duration, 9), u.annotation) for u in cont[a]) for a in gts]
            for a in s.annotators:
                if sorted((round(u.segment.duration, 9), u.annotation) for u in s[a]) not in gt_sets:
                    bad.append(("sample-not-from-ground-truth", "sampled annotator %r is not a shifted copy of a ground-truth annotator" % a))
                    break
    # (4) observed = same-mode alignment of the input; expected = mean; gamma
    try:
        obs = same_mode_alignment(cont, dissim, mode).disorder
        if not close(res.observed_disorder, obs, TAU2):
            bad.append(("observed-disorder", "observed disorder %r, same-mode alignment of the input gives %r" % (float(res.observed_disorder), float(obs))))
    except Exception as e:
        bad.append(("observed-recompute-raises", repr(e)))
    mean = sum((frac(d) for d in ds), Fraction(0)) / len(ds)
    if not close(res.expected_disorder, mean, TAU2):
        bad.append(("expected-disorder", "expected disorder %r, mean of the chance disorders %r" % (res.expected_disorder, float(mean))))
    if mean == 0 and frac(res.observed_disorder) != 0:
        rep.count("expected_disorder_zero_skipped")      # gamma undefined: outside the statement
    else:
        g_exact = Fraction(1) if frac(res.observed_disorder) == 0 else 1 - frac(res.observed_disorder) / mean
        if not close(res.gamma, g_exact, TAU2 * 4):
            bad.append(("gamma-value", "gamma %r, 1 - observed/expected = %r" % (float(res.gamma), float(g_exact))))
        if frac(res.gamma) > 1:
            bad.append(("gamma-above-1", "gamma %r > 1" % float(res.gamma)))
        if identical and not close(res.gamma, 1, TAU2):
            bad.append(("identical-not-1", "identical annotators but gamma = %r" % float(res.gamma)))
    if res.n_samples != len(chance):
        bad.append(("n_samples", "n_samples property %r, %d chance alignments" % (res.n_samples, len(chance))))
    # (5) each chance alignment is a valid same-mode alignment of its own continuum with the matching disorder (checked below in batch)
    want_cls = "SoftAlignment" if mode == "soft" else "Alignment"
    for k, al in enumerate(chance):
        if type(al).__name__ != want_cls:
            bad.append(("chance-alignment-kind", "chance alignment %d is a %s, the requested mode (%s) produces %s" % (k, type(al).__name__, mode, want_cls)))
            break
    lim = 3 if tier == "quick" else 6
    picked = chance[:lim] + (chance[-lim:] if len(chance) > 2 * lim else chance[lim:])     # the head AND the tail (second batch)
    for al in picked:
        c2 = al.continuum
        if c2 is None or not c2:
            return
        I2 = Inst(c2, dissim)
        tuples = [I2.index_tuple(ua.n_tuple) for ua in al.unitary_alignments]
        r = {"error": None, "I": I2, "alignment": al, "tuples": tuples, "slots_ok": all(len(ua.n_tuple) == I2.n for ua in al.unitary_alignments),
             "disorder": al.disorder, "mode": "chance-" + mode}
        case = {"units": [[(u.segment.start, u.segment.end, u.annotation) for u in us] for _, us in I2.ann], "spec": spec}
        # "the same kind of alignment" in fast mode is decided by the window size measured on the INPUT: none (np.inf) = the exact route, so the
        # chance alignments must be optimal; a finite one = the windowed algorithm with THAT size on the sample (deterministic: recomputed here)
        kind = mode
        if mode == "fast":
            w_in = cont.best_window_size
            if w_in == np.inf:
                kind = "exact"
            else:
                try:
                    again = ac.run_forked(120, lambda c2=c2: float(c2.get_fast_alignment(dissim, w_in).disorder))
                    rep.count("chance_alignments_recomputed_with_the_input_window")
                    if not close(al.disorder, again, TAU2):
                        bad.append(("chance-not-same-mode", "fast mode measured window size %s on the input, but a chance alignment has disorder %r where the "
                                    "windowed algorithm with that size gives %r on its sample" % (w_in, float(al.disorder), again)))
                except (Exception, ac.Watchdog) as e:
                    bad.append(("chance-recompute-raises", repr(e)))
        check_items[kind].append((case, r))
    nontriv = (p is not None and len(chance) > n_samples) or gt is not None
    rep.case(sample={k: desc[k] for k in ("mode", "sampler", "precision", "n_samples", "ground_truth")} | {"chance_alignments": len(chance), "gamma": float(res.gamma)},
             nontrivial_key=repr(desc) if nontriv else None)
    for key, what in bad:
        rep.violation(key, desc, what)


def finish(ctx):
    rep, pa = ctx["rep"], ctx["pa"]
    rule_lines, rule_meta, check_items = ctx["rule_lines"], ctx["rule_meta"], ctx["check_items"]
    # the rule, decided by the model
    outs = run_model(rule_lines)
    for (desc, nchance, p), out in zip(rule_meta, outs):
        total = out[0]
        gray = False
        if p is not None:
            x = Fraction(out[3], out[4])
            gray = x != 0 and abs(x - round(x)) < Fraction(1, 10 ** 9)
        if gray:
            rep.gray += 1
            continue
        if total != nchance:
            rep.violation("sample-count", dict(desc, chance_alignments=nchance, model_total=total, model=out),
                          "%d chance alignments, the rule max(n_samples, ceil((conf*CV/precision)^2)) gives %d" % (nchance, total))
    # chance alignments judged by the verified checkers (partition / cover, exact disorder)
    for mode, items in check_items.items():
        if not items:
            continue
        facts = ac.judge_many(rep, items, part=(mode != "soft"), want_optimal=(mode != "fast"), limit=10, prefix="chance:")
        for (case, r), f in zip(items, facts):
            rep.count("chance_alignments_judged")
            if f.get("lib_exact_disorder") is not None and not close(r["disorder"], f["lib_exact_disorder"], TAU2):
                rep.violation("chance-disorder", {"units": case["units"], "dissim": case["spec"], "reported": float(r["disorder"]),
                                                  "exact": str(f["lib_exact_disorder"])}, "a chance alignment's disorder does not match its own units")


def run(rep, tier, seed, pa):
    ac.install_backend_hooks()
    rng = rng_for(seed, "C05")
    conf = source_constants()
    levels = dict(pa.continuum.PRECISION_LEVEL)
    rep.extra["source_constants"] = {"confidence": conf, "PRECISION_LEVEL": levels}
    nruns = 45 if tier == "quick" else 450
    rule_lines, rule_meta = [], []
    check_items = {"exact": [], "fast": [], "soft": []}
    ctx = {"rep": rep, "pa": pa, "tier": tier, "conf": conf, "levels": levels, "rule_lines": rule_lines, "rule_meta": rule_meta, "check_items": check_items}
    for ri in range(nruns):
        n = rng.choice([2, 3, 3, 4])
        sizes = [rng.randrange(2, 7 if n < 4 else 4) for _ in range(n)]
        identical = ri % 9 == 0
        units = gen.gen_units(rng, n, sizes, "identical" if identical else rng.choice(["perturbed", "random", "disjoint"]), gen.LABEL_SETS["abc"])
        if identical:
            units = [list(units[0]) for _ in range(n)]
        if any(len(u) == 0 for u in units):
            continue
        spec = gen.random_dissim_spec(rng, "abc", False, kinds=["pos", "comb", "comb"])
        if spec[0] == "comb" and spec[4] in ("num",):
            spec = spec[:4] + ("abs",) + spec[5:]
        mode = rng.choice(["exact", "exact", "fast", "soft"])
        sname = rng.choice(["stat", "shuffle-int", "shuffle-float"])
        windowed = ri % 15 == 7
        if windowed:
            # fast mode only takes its windowed route on a continuum that is large enough (4+ annotators x 10+ units); below, it is the exact route
            n = rng.choice([5, 5, 4])
            units = gen.gen_units(rng, n, [rng.randrange(10, 14) if n == 5 else rng.randrange(13, 17) for _ in range(n)], rng.choice(["perturbed", "perturbed", "random"]), gen.LABEL_SETS["abc"])
            mode, identical = "fast", False
        # named levels: "high" (1 %) asks for thousands of samples, so it is drawn rarely and only in thorough
        prec = rng.choice([None, None, 0.9, 0.5, 0.3, 0.2, 0.1, "low", "low", "medium"] if tier == "thorough" else [None, None, 0.9, 0.5, 0.3, 0.2, "low"])
        if tier == "thorough" and rng.random() < 0.02:
            prec = "high"
        n_samples = rng.choice([1, 2, 3, 5, 8])
        names = gen.ANNOTATORS[:n]
        gt = None
        if n >= 3 and rng.random() < 0.4:
            gt = sorted(rng.sample(names, rng.randrange(2, n)))
        npseed = rng.randrange(2 ** 31)
        desc = {"units": units, "dissim": spec, "mode": mode, "sampler": sname, "precision": prec, "n_samples": n_samples,
                "ground_truth": gt, "numpy_seed": npseed}
        if windowed:
            desc.update(precision=None, n_samples=3)
            rep.count("fast_mode_large_enough_to_be_windowed")
        if gt is not None and ri % 2 == 0:
            desc["sampler_preinitialised"] = True
        if ri % 5 == 4 and not windowed:
            after = ac.edited_case(rng, {"units": units, "spec": spec})
            if after is not None and after["edit"][0] == "move" and all(len(u) > 0 for u in after["units"]):
                desc.update(units=after["units"], units_before=units, edit=after["edit"])
        one_config(ctx, desc)
    finish(ctx)
    sample = [l for l in rule_lines][:6]
    coq = coq_eval(sample)
    oc = run_model(sample)
    rep.extra["extraction_crosscheck"] = {"cases": len(sample), "agree": sum(1 for a, b in zip(oc, coq) if a == b)}
    if any(a != b for a, b in zip(oc, coq)):
        rep.violation("extraction", {}, "extracted model and vm_compute disagree no-failing-input-found")


def replay(rep, data, pa):
    """re-runs the recorded configuration (same NumPy seed) through every clause of the check"""
    ac.install_backend_hooks()
    desc = {k: data.get(k) for k in ("units", "dissim", "mode", "sampler", "precision", "n_samples", "ground_truth", "numpy_seed", "units_before", "edit", "sampler_preinitialised")}
    if desc["edit"] is not None:
        desc["edit"] = (desc["edit"][0], desc["edit"][1], tuple(desc["edit"][2]), tuple(desc["edit"][3]))
    if desc["units"] is None:
        print("  C05 replay: this record carries no configuration (%s)" % (data.get("what"),))
        return False
    desc["units"] = [[tuple(u) for u in us] for us in desc["units"]]
    desc["dissim"] = tuple(desc["dissim"])
    ctx = {"rep": rep, "pa": pa, "tier": "quick", "conf": source_constants(), "levels": dict(pa.continuum.PRECISION_LEVEL),
           "rule_lines": [], "rule_meta": [], "check_items": {"exact": [], "fast": [], "soft": []}}
    one_config(ctx, desc)
    finish(ctx)
    for key, path, what in rep.violations:
        print("  (%s) %s" % (key, what[:300]))
    return not rep.violations
