"""Generators of continua and dissimilarities.  Every random choice comes from the rng handed in.
Times are small dyadic rationals (multiples of 1/64 below 2^10) so that they are exact in float32."""
from fractions import Fraction

GRID = 64


def _t(k):
    return k / GRID      # exact in binary floating point


PATTERNS = ["perturbed", "random", "identical", "nested", "disjoint", "samelabel", "intgrid", "staircase", "farapart", "longshort"]
LABEL_SETS = {
    "abc": ["A", "B", "C"],
    "words": ["cat", "cart", "dog", "do", "zebra"],
    "nums": ["1", "2", "3.5", "10", "7"],
    "one": ["A"],
}


def gen_units(rng, n, sizes, pattern, labels, unlabelled=False, span=40):
    """Returns a list (one entry per annotator) of lists of (start, end, label) with start < end."""
    units = []
    maxs = max(sizes) if sizes else 0

    # unlabelled: False / True, or a probability (mixed continua: some units labelled, some not)
    p_none = 1.0 if unlabelled is True else (0.0 if not unlabelled else float(unlabelled))

    def lab():
        return None if (p_none > 0 and rng.random() < p_none) else rng.choice(labels)

    if pattern in ("perturbed", "identical", "disjoint"):
        # a hidden reference track, each annotator perturbs it
        nref = max(maxs, 1)
        ref = []
        pos = rng.randrange(0, 4 * GRID)
        for _ in range(nref):
            dur = rng.randrange(GRID // 2, 6 * GRID)
            ref.append((pos, pos + dur, lab()))
            pos += dur + rng.randrange(0, 4 * GRID)
        for a in range(n):
            idx = sorted(rng.sample(range(nref), min(sizes[a], nref)))
            us = set()
            for i in idx:
                s, e, l = ref[i]
                if pattern == "perturbed":
                    s += rng.randrange(-GRID, GRID + 1)
                    e += rng.randrange(-GRID, GRID + 1)
                    if rng.random() < 0.3:
                        l = lab()
                elif pattern == "disjoint":
                    s += rng.randrange(0, GRID // 4)
                    e -= rng.randrange(0, GRID // 4)
                if e <= s:
                    e = s + GRID // 2
                us.add((s, e, l))
            units.append(us)
    elif pattern == "random":
        for a in range(n):
            us = set()
            while len(us) < sizes[a]:
                s = rng.randrange(0, span * GRID)
                e = s + rng.randrange(1, 8 * GRID)
                us.add((s, e, lab()))
            units.append(us)
    elif pattern == "nested":
        for a in range(n):
            us = set()
            while len(us) < sizes[a]:
                c = rng.randrange(10 * GRID, 20 * GRID)
                h = rng.choice([GRID // 2, GRID, 4 * GRID, 10 * GRID, 30 * GRID])
                us.add((c - h, c + h, lab()))
            units.append(us)
    elif pattern == "samelabel":
        # same segment several times within one annotator, differing by label only
        for a in range(n):
            us = set()
            segs = [(rng.randrange(0, 10 * GRID), rng.randrange(1, 4 * GRID)) for _ in range(max(1, sizes[a] // 2))]
            tries = 0
            while len(us) < sizes[a] and tries < 200:
                s, d = rng.choice(segs)
                us.add((s, s + d, lab()))
                tries += 1
                if tries > 50:
                    segs.append((rng.randrange(0, 10 * GRID), rng.randrange(1, 4 * GRID)))
            units.append(us)
    elif pattern == "staircase":
        # each annotator's copy of a reference unit is shifted by a multiple of ~0.9 durations: neighbours in the chain overlap, the ends of the
        # chain are far apart (a tuple is good only through its middle members; which annotators come first matters to order-dependent code)
        nref = max(maxs, 1)
        pos = 0
        order = list(range(n))
        rng.shuffle(order)
        ref = []
        for _ in range(nref):
            dur = rng.randrange(2 * GRID, 12 * GRID)
            ref.append((pos, dur, lab()))
            pos += dur * (n + 1)
        for a in range(n):
            us = set()
            for i in sorted(rng.sample(range(nref), min(sizes[a], nref))):
                p0, dur, l = ref[i]
                sh = (order[a] * dur * 9) // 10
                us.add((p0 + sh, p0 + sh + dur, l))
            units.append(us)
    elif pattern == "intgrid":
        # unit-length segments at small integer positions: positional dissimilarities are exact squares, so sums tie with the cut
        for a in range(n):
            us = set()
            tries = 0
            while len(us) < sizes[a] and tries < 100:
                p0 = rng.randrange(0, 7)
                us.add((p0 * GRID, (p0 + 1) * GRID, lab()))
                tries += 1
            units.append(us)
    elif pattern == "farapart":
        # gadgets of mutually DISTANT units (pairwise positional dissimilarity between 1 and 3 delta_empty: a short unit, a short unit 1.5 lengths
        # later, a long unit far to the right): grouping them still beats leaving them alone, so the optimum contains tuples whose pair sum is
        # a large fraction of the cut - candidates a tighter-than-documented cut would drop
        for a in range(n):
            us = set()
            for i in range(sizes[a]):
                base = i * 1024 * GRID
                kind = (a + i) % 3
                if kind == 0:
                    us.add((base, base + GRID, lab()))
                elif kind == 1:
                    dy = rng.randrange(-2 * GRID, 2 * GRID + 1)
                    us.add((base + 10 * GRID + dy, base + 40 * GRID + dy, lab()))
                else:
                    dx = rng.randrange(-GRID // 4, GRID // 4 + 1)
                    us.add((base + (3 * GRID) // 2 + dx, base + (5 * GRID) // 2 + dx, lab()))
            units.append(us)
    elif pattern == "longshort":
        # units of very different lengths: a short unit, and in another annotator a tiny unit just after it followed by a very long one that
        # starts later still but is CLOSER in the positional measure (a ratio of lengths) - "sorted by start" says nothing about closeness
        for a in range(n):
            us = set()
            g = 0
            while len(us) < sizes[a] and g < 8:
                base = g * 400 * GRID
                role = (a + g) % 2
                if role == 0:
                    dx = rng.randrange(0, GRID // 2 + 1)
                    us.add((base + 100 * GRID + dx, base + 102 * GRID + dx, lab()))
                else:
                    us.add((base + 105 * GRID, base + 105 * GRID + GRID // 4, lab()))
                    if len(us) < sizes[a]:
                        us.add((base + 105 * GRID + GRID // 2, base + 200 * GRID - rng.randrange(0, 8 * GRID), lab()))
                g += 1
            units.append(us)
    else:
        raise ValueError(pattern)
    return [sorted(((_t(s), _t(e), l) for (s, e, l) in us if e > s), key=lambda t: (t[0], t[1], t[2] is not None, t[2] or "")) for us in units]


ANNOTATORS = ["ann_a", "ann_b", "ann_c", "ann_d", "ann_e", "ann_f"]


def build_continuum(pa, units, names=None):
    from pyannote.core import Segment
    c = pa.Continuum()
    names = names or ANNOTATORS
    for a, us in enumerate(units):
        c.add_annotator(names[a])
        for (s, e, l) in us:
            c.add(names[a], Segment(s, e), l)
    return c


def sizes_for(rng, n, kmax, allow_empty=True):
    sizes = [rng.randrange(0 if allow_empty else 1, kmax + 1) for _ in range(n)]
    if sum(sizes) == 0:
        sizes[rng.randrange(n)] = 1
    return sizes


# ----------------------------------------------------------------------------------------------
# dissimilarities (cached: each new object costs 0.1-0.3 s of numba compilation)

_cache = {}

DE_VALUES = [0.25, 0.5, 1.0, 2.0, 0.1, 0.7, 1.1, 3.0]      # incl. values whose float32 image times C(n,2) is not a float32
AB_VALUES = [0.0, 0.5, 1.0, 3.0]


def make_dissim(pa, spec):
    """spec: ('pos', de) | ('abs', de) | ('comb', alpha, beta, de, catkind, labelset, order)
    catkind in abs / lev / ord / num / pre ; labelset a key of LABEL_SETS; order in sorted/reversed/asis"""
    if spec in _cache:
        return _cache[spec]
    kind = spec[0]
    if kind == "pos":
        d = pa.PositionalSporadicDissimilarity(delta_empty=spec[1])
    elif kind == "abs":
        d = pa.AbsoluteCategoricalDissimilarity(delta_empty=spec[1])
    elif kind == "cat":
        _, de, catkind, labelset, order = spec
        d = make_cat(pa, catkind, labelset, order, de)
    elif kind == "comb":
        _, alpha, beta, de, catkind, labelset, order = spec
        cat = None if catkind == "abs" else make_cat(pa, catkind, labelset, order, 1.0, fresh=True)
        d = pa.CombinedCategoricalDissimilarity(alpha=alpha, beta=beta, delta_empty=de, cat_dissim=cat)
    else:
        raise ValueError(spec)
    _cache[spec] = d
    return d


def ordered_labels(labelset, order):
    labels = list(LABEL_SETS[labelset])
    if order == "sorted":
        labels = sorted(labels)
    elif order == "reversed":
        labels = sorted(labels, reverse=True)
    return labels


def make_cat(pa, catkind, labelset, order, de, fresh=False):
    import numpy as np
    from sortedcontainers import SortedSet
    labels = ordered_labels(labelset, order)
    if catkind == "abs":
        return pa.AbsoluteCategoricalDissimilarity(delta_empty=de)
    if catkind == "lev":
        return pa.LevenshteinCategoricalDissimilarity(labels, delta_empty=de)
    if catkind == "ord":
        return pa.OrdinalCategoricalDissimilarity(labels, delta_empty=de)
    if catkind == "num":
        return pa.NumericalCategoricalDissimilarity(labels, delta_empty=de)
    if catkind == "pre":
        cats = SortedSet(labels)
        k = len(cats)
        m = np.zeros((k, k), dtype=np.float32)
        for i in range(k):
            for j in range(i):
                m[i, j] = m[j, i] = ((i * 7 + j * 3) % 8 + 1) / 8
        return pa.PrecomputedCategoricalDissimilarity(cats, m, delta_empty=de)
    raise ValueError(catkind)


def random_dissim_spec(rng, labelset, unlabelled=False, kinds=None):
    kinds = kinds or ["pos", "comb", "comb", "comb", "abs"]
    kind = rng.choice(kinds)
    de = rng.choice(DE_VALUES)
    if kind == "pos":
        return ("pos", de)
    if kind == "abs":
        return ("abs", de)
    alpha, beta = rng.choice(AB_VALUES), rng.choice(AB_VALUES)
    if alpha == 0 and beta == 0:
        alpha = 1.0
    if unlabelled:
        catkind = "abs"
    elif labelset == "nums":
        catkind = rng.choice(["abs", "num", "ord", "lev", "pre"])
    else:
        catkind = rng.choice(["abs", "lev", "ord", "pre"])
    order = rng.choice(["sorted", "reversed", "asis"])
    return ("comb", alpha, beta, de, catkind, labelset, order)
