"""C07 - candidate unitary alignments are exactly those under the n*delta_empty cut.

The library's valid_alignments(continuum) output (sorted into enumeration order) is judged by the verified merge
walk c07_check (CandProofs.c07_check_sound): duplicate-free, only real in-range tuples under the cut, every tuple
under the cut present, the all-null tuple absent, each reported disorder equal to the tuple's own.  Costs come
from the unit-to-unit function d(); a gray zone of relative width 2^-15 around the cut is don't-care."""
import numpy as np

import gen
from align import Inst, enum_key
from common import TAU2, frac, run_model, coq_eval, w_list, w_tuple, rng_for

RULE = ("continua generated from VERIF_SEED (patterns perturbed/random/identical/nested/disjoint/samelabel, 2..5 annotators, "
        "empty annotators, labelled and unlabelled) x every built-in dissimilarity, plus shapes whose candidate count sits on "
        "and next to every buffer-growth boundary (10000, 15000, 22500); a case is non-trivial when at least one tuple is cut "
        "and one non-singleton tuple is kept, or when the count crosses a growth boundary; distinct by (units, dissimilarity)")
TRUSTED_BASE = ["Coq 8.16.1 kernel, vm_compute for the extraction cross-check", "extraction (ExtrOcamlBasic only) and ocaml/driver.ml",
                "harness/{common,align,gen,c07}.py: exact float->rational encoding, sorting of the library output into enumeration order",
                "costs are taken from dissimilarity.d() (its agreement with the kernels and the formulas is property C04)"]
ASSUMPTIONS = ["delta_empty >= 0", "float32 rounding: reported disorders compared with relative tolerance 2^-15; tuples whose sum lies within that "
               "tolerance of the cut may fall either side"]


def boundary_shapes(tier):
    # (sizes, far_units): number of tuples incl. the all-null one = prod(s+1)
    shapes = [([99, 99], 0), ([99, 100], 0), ([98, 100], 0), ([99, 149], 0), ([149, 149], 0)]
    if tier == "thorough":
        shapes += [([99, 99], 1), ([99, 149], 1), ([149, 149], 1), ([160, 160], 0), ([30, 30, 30], 0), ([12, 12, 12, 12], 0),
                   ([7, 7, 7, 7, 7], 0), ([21, 21, 21], 0), ([9, 9, 9, 9], 0), ([5, 5, 5, 5, 5], 0), ([24, 24, 25], 0)]
    else:
        shapes += [([21, 21, 21], 0), ([9, 9, 9, 9], 0)]
    return shapes


def close_units(sizes, far=0):
    """mutually close units: every tuple passes the cut; `far` units of annotator 0 are moved far away"""
    units = []
    for a, s in enumerate(sizes):
        us = []
        for i in range(s):
            st = (i + a) / 64.0
            if a == 0 and i < far:
                st += 500.0
            us.append((st, st + 10.0, "A"))
        units.append(us)
    return units


def judge(rep, pa, units, spec, label, sample=True):
    cont = gen.build_continuum(pa, units)
    dissim = gen.make_dissim(pa, spec)
    dis, tuples = dissim.valid_alignments(cont)
    n = len(units)
    c2n = n * (n - 1) // 2
    lib = sorted(((list(int(v) for v in t), frac(d) * c2n) for t, d in zip(tuples, dis)), key=lambda p: enum_key(p[0]))
    I = Inst(cont, dissim, extra_values=[v for _, v in lib])
    cutv = I.cut
    gray = I.zfloor(TAU2 * max(1, cutv))
    tol = I.zfloor(TAU2 * max(1, cutv))
    if label == "exact-tie":
        gray = tol = 0       # every pair cost is an exactly representable dyadic number: the cut is decided exactly, ties included
    line = [1] + I.wire() + [gray, tol] + w_list(lib, lambda p: w_tuple(p[0]) + [I.z(p[1])])
    return cont, dissim, I, lib, line


def explain(I, lib, k):
    """enumeration position k -> the tuple there and what the two sides say"""
    radices = [s + 1 for s in I.sizes]
    t, r = [], k
    for s in radices:
        t.append(r % s)
        r //= s
    libmap = {tuple(p[0]): p[1] for p in lib}
    return {"tuple": t, "exact_sum": str(I.ua_sum(t)), "cut": str(I.cut), "library_lists_it": tuple(t) in libmap,
            "library_sum": str(libmap.get(tuple(t)))}


def run_cases(rep, pa, cases, limit=0):
    lines, meta = [], []
    for (units, spec, label, nontriv_hint) in cases:
        try:
            cont, dissim, I, lib, line = judge(rep, pa, units, spec, label)
        except Exception as e:
            rep.case()
            rep.violation("valid_alignments-raises:%s" % type(e).__name__,
                          {"units": units, "dissim": spec, "error": repr(e)}, "valid_alignments raised %r" % (e,))
            continue
        lines.append(line)
        meta.append((units, spec, label, I, lib))
    outs = run_model(lines, limit=limit)
    for (units, spec, label, I, lib), out in zip(meta, outs):
        ntuples = int(np.prod([s + 1 for s in I.sizes]))
        kept = len(lib)
        rep.count("n=%d" % I.n)
        rep.count("kind=" + spec[0])
        rep.count("pattern=" + label)
        nontriv = (kept < ntuples - 1 and kept > I.nunits) or ntuples >= 10000
        rep.case(sample={"sizes": I.sizes, "dissim": spec, "tuples": ntuples, "kept": kept, "verdict": out},
                 nontrivial_key=(repr(units), spec) if nontriv else None)
        if out == [0]:
            continue
        if out == "T" or (isinstance(out, str)):
            rep.skipped += 1
            continue
        if out[0] == 1:
            ex = explain(I, lib, out[1])
            rep.violation("candidates", {"units": units, "dissim": spec, "position": out[1], "explanation": ex},
                          "candidate list differs from the specification at enumeration position %d: %s" % (out[1], ex))
        else:
            rep.violation("decode", {"units": units, "dissim": spec, "out": out}, "model rejected the encoded case: %r" % (out,))
    return lines, outs


def run(rep, tier, seed, pa):
    rng = rng_for(seed, "C07")
    cases = []
    nrand = 150 if tier == "quick" else 1500
    kmax = {2: 7, 3: 5, 4: 4, 5: 3}
    for i in range(nrand):
        n = rng.choice([2, 2, 3, 3, 3, 4, 5])
        pattern = rng.choice(gen.PATTERNS)
        labelset = rng.choice(["abc", "words", "nums"])
        unl = False   # unlabelled units: exercised by C01
        sizes = gen.sizes_for(rng, n, kmax[n] + (2 if tier == "thorough" else 0))
        units = gen.gen_units(rng, n, sizes, pattern, gen.LABEL_SETS[labelset], unl)
        if sum(len(u) for u in units) == 0:
            continue
        spec = gen.random_dissim_spec(rng, labelset, unl)
        cases.append((units, spec, pattern, None))
    lines, outs = run_cases(rep, pa, cases)
    # extraction cross-check on a sample of the small cases
    sample = [(l, o) for l, o in zip(lines, outs) if len(l) < 4000][:25]
    coq = coq_eval([l for l, _ in sample])
    rep.extra["extraction_crosscheck"] = {"cases": len(sample), "agree": sum(1 for (l, o), c in zip(sample, coq) if o == c)}
    for (l, o), c in zip(sample, coq):
        if o != c:
            rep.violation("extraction", {"line": l, "ocaml": o, "coq": c}, "extracted model and vm_compute disagree no-failing-input-found")
    # combinations whose sum is EXACTLY the cut, in exact arithmetic on both sides (integer positions, costs that are small dyadic numbers):
    # they must be listed ("at most n * delta_empty"), and there is no gray zone to hide in
    ties = []
    for k in (0, 3, 10):
        for de in (1.0, 0.5, 2.0):
            # two annotators, adjacent unit-length units of one category, alpha = 2: cost 2 * ((1 + 1) / 2)^2 * de = 2 de = the cut
            ties.append(([[(float(k), float(k + 1), "A")], [(float(k + 1), float(k + 2), "A")]], ("comb", 2.0, 1.0, de, "abs", "abc", "asis"), "exact-tie", None))
            ties.append(([[(float(k), float(k + 1), "A"), (float(k + 5), float(k + 6), "B")], [(float(k + 1), float(k + 2), "A")]],
                         ("comb", 2.0, 1.0, de, "abs", "abc", "asis"), "exact-tie", None))
        # three annotators, positional: pair costs 4, 4, 1 (x de): sum 9 de = C(3,2) * 3 * de = the cut
        ties.append(([[(float(k), float(k + 1), "A")], [(float(k + 2), float(k + 3), "A")], [(float(k + 3), float(k + 6), "A")]], ("pos", 1.0), "exact-tie", None))
        ties.append(([[(float(k), float(k + 1), "A")], [(float(k + 2), float(k + 3), "A")], [(float(k + 3), float(k + 6), "A")]], ("pos", 0.5), "exact-tie", None))
    run_cases(rep, pa, ties)
    # buffer-growth boundaries
    big = []
    for sizes, far in boundary_shapes(tier):
        for spec in ([("pos", 1.0)] if tier == "quick" else [("pos", 1.0), ("comb", 1.0, 1.0, 1.0, "abs", "abc", "asis")]):
            big.append((close_units(sizes, far), spec, "boundary", None))
    run_cases(rep, pa, big)
    # the buffered model equals the plain one for the code's constants on small shapes (fn 9); constants from the source
    c0, g = source_constants()
    rep.extra["source_constants"] = {"chunk_size": c0, "growth_divisor": g}
    lines9 = []
    for (units, spec, label, _) in cases[:40]:
        cont = gen.build_continuum(pa, units)
        I = Inst(cont, gen.make_dissim(pa, spec))
        for (cc, gg) in ((c0, g), (2, 2), (3, 2), (4, 3)):
            lines9.append([9] + I.wire() + [cc, gg])
    for out in run_model(lines9):
        if out != [1]:
            rep.violation("buffer-model", {"out": out}, "buffered candidate model differs from the plain one no-failing-input-found")
    if g < 1 or c0 // g < 1:
        rep.violation("buffer-constants", {"chunk_size": c0, "divisor": g},
                      "hypothesis 1 <= c0 / g of candidates_buf_eq fails for the constants in the source no-failing-input-found")


def source_constants():
    """chunk_size and the growth divisor, read from the current source text (fail-closed)"""
    import ast
    import os
    from common import REPO
    src = open(os.path.join(REPO, "pygamma_agreement", "dissimilarity.py")).read()
    tree = ast.parse(src)
    c0 = g = None
    for node in ast.walk(tree):
        if isinstance(node, ast.FunctionDef) and node.name == "_get_all_valid_alignments":
            for st in ast.walk(node):
                if isinstance(st, ast.Assign) and len(st.targets) == 1 and isinstance(st.targets[0], ast.Name):
                    nm = st.targets[0].id
                    if nm == "chunk_size" and isinstance(st.value, ast.Constant) and c0 is None:
                        c0 = st.value.value
                    if nm == "add_size" and isinstance(st.value, ast.BinOp) and isinstance(st.value.op, ast.FloorDiv) \
                            and isinstance(st.value.right, ast.Constant):
                        g = st.value.right.value
    if c0 is None or g is None:
        raise RuntimeError("translator: cannot find chunk_size / add_size in _get_all_valid_alignments")
    return int(c0), int(g)


def replay(rep, data, pa):
    units = [[tuple(u) for u in us] for us in data["units"]]
    spec = tuple(data["dissim"])
    run_cases(rep, pa, [(units, spec, "replay", None)])
    for key, path, what in rep.violations:
        print("  ", what)
    return not rep.violations
