"""Shared machinery of the checks: locating /repo, running the extracted model, cross-checking the
extraction inside Coq, evidence / replay / known-findings handling.  Runs under /venv/bin/python."""
import hashlib
import json
import os
import random
import re
import shutil
import subprocess
import sys
import tempfile
import time
import warnings
from fractions import Fraction

VERIF = os.path.dirname(os.path.dirname(os.path.abspath(__file__)))
REPO = os.environ.get("VERIF_REPO", "/repo")
DRIVER = os.path.join(VERIF, "ocaml", "driver")
COQ = os.path.join(VERIF, "coq")
NPROC = min(16, os.cpu_count() or 4)

TAU1 = Fraction(1, 2 ** 17)   # tolerance for single float32 values
TAU2 = Fraction(1, 2 ** 15)   # tolerance for sums / quotients of several of them


def seed_from_env(default=20261001):
    try:
        return int(os.environ.get("VERIF_SEED", default))
    except ValueError:
        return default


def import_lib():
    """Import the library from the CURRENT working tree of the repository."""
    warnings.filterwarnings("ignore")
    os.environ.setdefault("NUMBA_DISABLE_PERFORMANCE_WARNINGS", "1")
    os.environ["PYGAMMA_AGREEMENT_VERIF"] = "1"
    if REPO in sys.path:
        sys.path.remove(REPO)
    sys.path.insert(0, REPO)
    import logging
    logging.disable(logging.CRITICAL)
    import pygamma_agreement  # noqa
    assert os.path.realpath(os.path.dirname(pygamma_agreement.__file__)) == \
        os.path.realpath(os.path.join(REPO, "pygamma_agreement")), pygamma_agreement.__file__
    return pygamma_agreement


# ----------------------------------------------------------------------------------------------
# exact numbers

def frac(x):
    """Exact rational value of a Python / NumPy float or int."""
    if isinstance(x, Fraction):
        return x
    if isinstance(x, int):
        return Fraction(x)
    return Fraction(float(x))


def dyadic_exp(fr):
    """k such that fr * 2^k is an integer (fr must be dyadic)."""
    d = fr.denominator
    assert d & (d - 1) == 0, "not dyadic: %r" % fr
    return d.bit_length() - 1


def close(x, y, tau):
    import math
    if not isinstance(x, Fraction) and not isinstance(y, Fraction):
        fx, fy = float(x), float(y)
        if not (math.isfinite(fx) and math.isfinite(fy)):     # inf / nan (e.g. a gamma with a zero expected disorder): only identical values agree
            return fx == fy or (math.isnan(fx) and math.isnan(fy))
    elif (not isinstance(x, Fraction) and not math.isfinite(float(x))) or (not isinstance(y, Fraction) and not math.isfinite(float(y))):
        return False
    x, y = frac(x), frac(y)
    return abs(x - y) <= tau * max(1, abs(x), abs(y))


# ----------------------------------------------------------------------------------------------
# running the extracted model

def _fmt(v):
    return ("-%x" % -v) if v < 0 else ("%x" % v)


def _parse_line(line):
    line = line.strip()
    if line == "T":
        return "T"
    if line.startswith("E"):
        return line
    return [int(t, 16) for t in line.split()]


def run_model(lines, limit=0, procs=None):
    """lines: list of int lists.  Returns, per line, an int list, 'T' (time limit) or 'E ...'."""
    if not lines:
        return []
    procs = procs or NPROC
    procs = max(1, min(procs, len(lines)))
    # contiguous chunks, balanced by size
    idx = sorted(range(len(lines)), key=lambda i: -len(lines[i]))
    chunks = [[] for _ in range(procs)]
    load = [0] * procs
    for i in idx:
        j = load.index(min(load))
        chunks[j].append(i)
        load[j] += len(lines[i]) + 50
    ps = []
    for ch in chunks:
        if not ch:
            continue
        f = tempfile.TemporaryFile("w+")
        for i in ch:
            f.write(" ".join(_fmt(v) for v in lines[i]))
            f.write("\n")
        f.flush()
        f.seek(0)
        p = subprocess.Popen(["bash", "-c", "ulimit -s unlimited 2>/dev/null; exec %s %d" % (DRIVER, limit)],
                             stdin=f, stdout=subprocess.PIPE, text=True)
        ps.append((ch, p, f))
    out = [None] * len(lines)
    for ch, p, f in ps:
        data, _ = p.communicate()
        f.close()
        res = data.split("\n")
        for k, i in enumerate(ch):
            out[i] = _parse_line(res[k]) if k < len(res) and res[k] != "" else "E driver died (rc=%s)" % p.returncode
    return out


def coq_eval(lines):
    """Evaluate the same lines with vm_compute inside Coq (cross-check of the extraction)."""
    if not lines:
        return []
    with tempfile.TemporaryDirectory(prefix="pgaverif_") as d:
        src = os.path.join(d, "cases.v")
        with open(src, "w") as f:
            f.write("From Coq Require Import List ZArith.\nFrom PGA Require Import Run.\nImport ListNotations.\n"
                    "Local Open Scope Z_scope.\nSet Printing Width 1000000.\nSet Printing Depth 10000000.\n")
            for i, l in enumerate(lines):
                f.write("Definition inp%d : list Z := [%s].\n" % (i, "; ".join("(%d)" % v for v in l)))
                f.write("Eval vm_compute in (%d, run_model inp%d).\n" % (i, i))
        r = subprocess.run(["bash", "-c", "ulimit -s unlimited 2>/dev/null; exec timeout 900 coqc -Q %s/theories PGA -Q %s/gen PGAgen %s"
                            % (COQ, COQ, src)], capture_output=True, text=True, cwd=d)
        if r.returncode != 0:
            raise RuntimeError("coqc cross-check failed: " + r.stderr[-2000:])
        outs = []
        for m in re.finditer(r"= \((\d+), \[(.*?)\]\)\s*:", r.stdout, re.S):
            body = m.group(2).strip()
            outs.append([int(t) for t in re.findall(r"-?\d+", body)])
        if len(outs) != len(lines):
            raise RuntimeError("coqc cross-check: parsed %d of %d results" % (len(outs), len(lines)))
        return outs


# wire helpers
def w_list(items, f=None):
    out = [len(items)]
    for it in items:
        out.extend(f(it) if f else [it])
    return out


def w_tuple(t):
    return [len(t)] + [int(v) for v in t]


# ----------------------------------------------------------------------------------------------
# proofs: re-check the property file with coqc on every run and collect Print Assumptions

def check_props(prop_id):
    """Make sure the development is built, then recompile props/<id>.v afresh (the kernel re-checks
    the property theorems against the compiled lemmas) and parse the Print Assumptions output."""
    t0 = time.time()
    info = {"file": "coq/props/%s.v" % prop_id, "theorems": [], "ok": False, "assumptions": {}, "log": ""}
    # one build at a time: checks of different properties may be started concurrently and share coq/ and ocaml/
    r = subprocess.run(["bash", "-c", "cd %s && flock -w 3000 .build.lock ./build.sh" % VERIF], capture_output=True, text=True)
    if r.returncode != 0:
        info["log"] = (r.stdout + r.stderr)[-3000:]
        info["wall_s"] = time.time() - t0
        return info
    # generated tables this property's theorems are stated over: the translator must have succeeded on the CURRENT source (fail-closed)
    needs = {"C20": ["cli"], "C09": ["dissim", "kernel"], "C02": ["ilp", "kernel"], "C01": ["ilp"], "C08": ["ilp"], "C11": ["ilp"], "C04": ["dissim"], "C05": ["const", "gamma", "pool", "shapes"], "C06": ["pool"], "C12": ["gamma"], "C07": ["const", "kernel"], "C03": ["kernel"], "C13": ["cont", "shapes"], "C14": ["shapes"], "C17": ["shapes"], "C18": ["shapes"], "C16": ["sampler", "shapes"], "C15": ["stat"], "C10": ["fast"], "C19": ["const", "cst", "shapes"]}.get(prop_id, [])
    st = os.path.join(COQ, "gen", "STATUS")
    lines = dict(l.strip().split(" ", 1) for l in open(st) if " " in l.strip()) if os.path.exists(st) else {}
    for g in needs:
        if lines.get(g) != "ok":
            info["log"] = "translator harness/gen_tables.py (%s table) failed on the current source: %s" % (g, lines.get(g, "no status"))
            info["failed_at"] = {"line": None, "statement": "every theorem over the '%s' translation (the translator does not recognise the current source: %s)" % (g, lines.get(g, "no status")[:200])}
            info["wall_s"] = time.time() - t0
            return info
    src = os.path.join(COQ, "props", prop_id + ".v")
    if not os.path.exists(src):
        info["log"] = "no property file"
        return info
    text = open(src).read()
    info["theorems"] = re.findall(r"^\s*(?:Theorem|Corollary)\s+([A-Za-z0-9_']+)", text, re.M)
    extras = {"C09": ["genprops/DissimGen.v", "genprops/KernelGen.v"], "C02": ["genprops/IlpGen.v", "genprops/KernelGen.v"], "C01": ["genprops/IlpGen.v"], "C08": ["genprops/IlpGen.v"], "C11": ["genprops/IlpGen.v"], "C04": ["genprops/DissimGen.v"], "C05": ["genprops/GammaGen.v", "genprops/PoolGen.v", "genprops/ShapesGen.v"], "C06": ["genprops/PoolGen.v"], "C12": ["genprops/GammaGen.v"],
              "C07": ["genprops/KernelGen.v"], "C03": ["genprops/KernelGen.v"], "C13": ["genprops/ContGen.v", "genprops/ShapesGen.v"], "C14": ["genprops/ShapesGen.v"], "C17": ["genprops/ShapesGen.v"], "C18": ["genprops/ShapesGen.v"], "C16": ["genprops/SamplerGen.v", "genprops/ShapesGen.v"], "C19": ["genprops/CstGen.v", "genprops/ShapesGen.v"], "C10": ["genprops/FastGen.v"], "C15": ["genprops/StatGen.v"]}.get(prop_id, [])     # regenerated definitions compiled with (and only with) this property
    info["generated"] = extras
    with tempfile.TemporaryDirectory(prefix="pgaverif_") as d:
        for e in extras:
            shutil.copy(os.path.join(COQ, e), d)
            r = subprocess.run(["timeout", "900", "coqc", "-Q", COQ + "/theories", "PGA", "-Q", COQ + "/gen", "PGAgen",
                                "-Q", d, "PGAprops", os.path.join(d, os.path.basename(e))], capture_output=True, text=True)
            if r.returncode != 0:
                info["log"] = "definitions regenerated from the source (%s) do not compile: %s" % (e, (r.stdout + r.stderr)[-2000:])
                info["failed_at"] = {"line": None, "statement": "every theorem over %s (the regenerated definitions are ill-typed)" % e}
                info["wall_s"] = time.time() - t0
                return info
        # a copy with Print Assumptions appended for EVERY theorem, so that none is overlooked
        tmp = os.path.join(d, prop_id + ".v")
        with open(tmp, "w") as f:
            f.write(text + "\n" + "".join("Print Assumptions %s.\n" % t for t in info["theorems"]))
        r = subprocess.run(["timeout", "900", "coqc", "-Q", COQ + "/theories", "PGA", "-Q", COQ + "/gen", "PGAgen",
                            "-Q", d, "PGAprops", tmp], capture_output=True, text=True)
    info["ok"] = r.returncode == 0
    info["log"] = (r.stdout + r.stderr)[-3000:] if r.returncode != 0 else ""
    if r.returncode != 0:
        # name the theorem whose proof no longer checks: the last Theorem / Lemma / Example starting at or before the reported line
        m = re.search(r'File "[^"]*", line (\d+)', r.stderr)
        if m:
            ln = int(m.group(1))
            name = None
            for k, line in enumerate(text.splitlines(), 1):
                mm = re.match(r"\s*(?:Theorem|Lemma|Corollary|Example|Definition|Fixpoint)\s+([A-Za-z0-9_']+)", line)
                if mm and k <= ln:
                    name = mm.group(1)
            info["failed_at"] = {"line": ln, "statement": name}
    # Print Assumptions output: either "Closed under the global context" or "Axioms:\n name : type"
    tail = r.stdout
    closed = len(re.findall(r"Closed under the global context", tail))
    axioms = sorted(set(re.findall(r"^([A-Za-z_][A-Za-z0-9_.']*)\s*:", tail, re.M)) - {"Axioms"}) if "Axioms:" in tail else []
    info["assumptions"] = {"closed_under_global_context": closed, "axioms": axioms}
    info["wall_s"] = round(time.time() - t0, 2)
    return info


# ----------------------------------------------------------------------------------------------
# findings, replays, evidence

def load_known_findings():
    """known_findings.txt lines:  finding: property=Cxx key=<signature> <text>   |   fixed: property=Cxx <commit> <text>"""
    kf = []
    p = os.path.join(VERIF, "known_findings.txt")
    if os.path.exists(p):
        for line in open(p):
            line = line.strip()
            m = re.match(r"finding:\s+property=(\S+)\s+key=(\S+)\s+(.*)", line)
            if m:
                kf.append({"property": m.group(1), "key": m.group(2), "text": m.group(3)})
    return kf


class Report:
    """Collects what a check run covered; prints VIOLATION / KNOWN-FINDING lines; writes the evidence."""

    def __init__(self, prop_id, tier, seed):
        self.prop_id, self.tier, self.seed = prop_id, tier, seed
        self.t0 = time.time()
        self.evaluations = 0
        self.nontrivial = set()
        self.samples = []
        self.violations = []       # (key, replay path)
        self.known_hits = {}
        self.dist = {}
        self.extra = {}
        self.assumptions = []
        self.known = [k for k in load_known_findings() if k["property"] == prop_id]
        self.proof = None
        self.gray = 0
        self.skipped = 0

    def count(self, name, k=1):
        self.dist[name] = self.dist.get(name, 0) + k

    def case(self, sample=None, nontrivial_key=None):
        self.evaluations += 1
        if nontrivial_key is not None:
            self.nontrivial.add(nontrivial_key)
        if sample is not None and len(self.samples) < 5:
            self.samples.append(sample)

    def violation(self, key, replay, what):
        """key: signature used to match known findings; replay: JSON-serialisable reproduction data."""
        for k in self.known:
            if k["key"] == key:
                if key not in self.known_hits:
                    self.known_hits[key] = k["text"]
                return False
        replay = dict(replay)
        replay.update({"property": self.prop_id, "key": key, "what": what, "seed": self.seed,
                       "repo": REPO, "how_to_replay": "./check %s --replay <this file>" % self.prop_id})
        h = hashlib.sha1(json.dumps(replay, sort_keys=True, default=str).encode()).hexdigest()[:10]
        path = os.path.join(VERIF, "replays", "%s-%s.json" % (self.prop_id, h))
        os.makedirs(os.path.dirname(path), exist_ok=True)
        with open(path, "w") as f:
            json.dump(replay, f, indent=1, default=str)
        # at most 20 are printed, at most 4 of one kind (so that every kind of failure found is visible); all replays are written
        if len(self.violations) < 20 and sum(1 for k, _, _ in self.violations if k == key) < 4:
            self.violations.append((key, path, what))
        self.violation_total = getattr(self, "violation_total", 0) + 1
        return True

    def finish(self, rule, trusted_base, assumptions, explanation=None):
        proof = self.proof or {"theorems": [], "ok": False, "assumptions": {}}
        nviol = len(self.violations)
        broken_proof = not proof.get("ok")
        if broken_proof and nviol == 0:
            # a proof obligation no longer checks and no failing input was found
            path = os.path.join(VERIF, "replays", "%s-proof.json" % self.prop_id)
            with open(path, "w") as f:
                json.dump({"property": self.prop_id, "broken": proof.get("file"), "theorem_that_no_longer_checks": (proof.get("failed_at") or {}).get("statement"),
                           "failed_at": proof.get("failed_at"), "generated_definitions": proof.get("generated"), "log": proof.get("log", "")}, f, indent=1)
            self.violations.append(("proof", path, "proof obligation %s no longer checks no-failing-input-found" % ((proof.get("failed_at") or {}).get("statement") or "(see replay file)")))
        obligations = len(proof.get("theorems", []))
        cov = {
            "evaluations": self.evaluations,
            "distinct_nontrivial": len(self.nontrivial),
            "rule": rule,
            "samples": self.samples or ["(no case generated)"],
            "obligations": max(1, obligations),
            "discharged": obligations if proof.get("ok") else 0,
            "checker_cmd": "./build.sh (translators harness/gen_*.py on the current source, coq_makefile + make of every .v, forbidden-vernacular scan, "
                           "extraction) ; in a scratch directory: coqc of the regenerated definitions this property uses, then "
                           "coqc -Q coq/theories PGA -Q coq/gen PGAgen -Q <scratch> PGAprops %s.v with Print Assumptions appended for every theorem" % self.prop_id,
            "regenerated_from_source": proof.get("generated", []),
            "trusted_base": trusted_base,
            "theorems": proof.get("theorems", []),
            "print_assumptions": proof.get("assumptions", {}),
            "input_distribution": self.dist,
            "gray_zone_items": self.gray,
            "skipped": self.skipped,
            "known_findings_hit": self.known_hits,
        }
        cov.update(self.extra)
        if explanation:
            cov["explanation"] = explanation
        ev = {"property_id": self.prop_id, "tier": self.tier, "seed": self.seed, "level": "proof",
              "coverage": cov, "assumptions": assumptions, "wall_s": round(time.time() - self.t0, 2),
              "violations": len(self.violations)}
        os.makedirs(os.path.join(VERIF, "evidence"), exist_ok=True)
        with open(os.path.join(VERIF, "evidence", self.prop_id + ".json"), "w") as f:
            json.dump(ev, f, indent=1, default=str)
        for key, text in self.known_hits.items():
            print("KNOWN-FINDING: property=%s %s" % (self.prop_id, text))
        for key, path, what in self.violations:
            tail = " no-failing-input-found" if key == "proof" or "no-failing-input-found" in what else ""
            print("VIOLATION property=%s replay=%s%s" % (self.prop_id, path, tail))
            print("  (%s) %s" % (key, what))
        print("%s %s: %d cases, %d non-trivial, %d violations, proof %s, %.1fs" % (
            self.prop_id, self.tier, self.evaluations, len(self.nontrivial), len(self.violations),
            "ok" if proof.get("ok") else "BROKEN", time.time() - self.t0))
        return 1 if self.violations else 0


def rng_for(seed, *names):
    h = hashlib.sha256(("%d/" % seed + "/".join(str(n) for n in names)).encode()).digest()
    return random.Random(int.from_bytes(h[:8], "big"))
