"""C04 - built-in dissimilarities compute their documented formula in both forms.

For every class and parameter choice the unit-to-unit function d(u1, u2) and the compiled array form (observed through
UnitaryAlignment([(a, u1), (b, u2)]).compute_disorder(d), which for two annotators is exactly the kernel value) are compared with
the exact-rational Gallina formula (Dissim/Model.v) built from the constructor arguments alone.

Besides this correspondence, the bodies of d() and of the compiled kernels (positional, absolute, table, combined), _category_index and the row
written by _build_arrays_continuum are translated from the current dissimilarity.py (harness/gen_tables.py -> coq/genprops/DissimGen.v) and the
C04_src_* theorems of props/C04.v are re-proved against the translation before the correspondence runs."""
import random
from fractions import Fraction

import numpy as np

from common import rng_for, run_model, coq_eval, w_list, frac, close, TAU1

RULE = ("dissimilarity objects from VERIF_SEED: positional, absolute, precomputed, Levenshtein, ordinal (with / without positions), numerical, "
        "combined (alpha, beta in {0,.5,1,3}; delta_empty in {.25,.5,1,2,3}; categorical component built with the same or a different delta_empty; "
        "user-supplied positional component), label lists of 1..300 categories in sorted / reversed / shuffled order, with extra unused labels; "
        "; every class default-constructed (documented defaults) x unit pairs on a dyadic grid (identical, nested, disjoint, unlabelled where the class allows). d() and the kernel value must equal "
        "the model formula within 2^-17 relative, be symmetric, non-negative and zero on identical units. non-trivial = both units real with "
        "different segments or categories; distinct by (object description, unit pair)")
TRUSTED_BASE = ["Coq 8.16.1 kernel", "extraction (ExtrOcamlBasic only), ocaml/driver.ml",
                "harness/gen_tables.py: fail-closed expression translator dissimilarity.py -> genprops/DissimGen.v (float32 operators read as exact rational ones)",
                "harness/{common,c04}.py: the model description is built from the constructor arguments, never from the object's internals"]
ASSUMPTIONS = ["float32 rounding of the kernels: relative tolerance 2^-17", "table-based categorical dissimilarities only on labels of their table",
               "ordinal dissimilarity without explicit positions: the supplied order of the labels IS their position (DESIGN 6)"]


def q(x):
    f = frac(x)
    return [f.numerator, f.denominator]


def cp(s):
    return [ord(c) for c in s]


class Desc:
    """a dissimilarity description: builds the library object and the model's wire form"""

    def __init__(self, kind, **kw):
        self.kind = kind
        self.kw = kw

    def __repr__(self):
        d = dict(self.kw)
        for k in ("labels", "universe", "p", "matrix"):
            if k in d and d[k] is not None and len(d[k]) > 6:
                d[k] = "%d items" % len(d[k])
        return "%s(%s)" % (self.kind, ", ".join("%s=%r" % kv for kv in sorted(d.items())))

    def labels(self):
        return self.kw.get("labels")

    def to_json(self):
        return {"kind": self.kind, "kw": {k: (v.to_json() if isinstance(v, Desc) else v) for k, v in self.kw.items()}}

    @staticmethod
    def from_json(j):
        if j is None:
            return None
        kw = {k: (Desc.from_json(v) if isinstance(v, dict) and "kind" in v else v) for k, v in j["kw"].items()}
        return Desc(j["kind"], **kw)

    def build(self, pa):
        from sortedcontainers import SortedSet
        k, kw = self.kind, self.kw
        if k == "pos":
            return pa.PositionalSporadicDissimilarity(delta_empty=kw["de"])
        if k == "abs":
            return pa.AbsoluteCategoricalDissimilarity(delta_empty=kw["de"])
        if k == "pre":
            cats = SortedSet(kw["labels"])
            return pa.PrecomputedCategoricalDissimilarity(cats, np.array(kw["matrix"], dtype=np.float32), delta_empty=kw["de"])
        if k == "lev":
            return pa.LevenshteinCategoricalDissimilarity(list(kw["labels"]), delta_empty=kw["de"])
        if k == "ord":
            return pa.OrdinalCategoricalDissimilarity(list(kw["labels"]), p=kw["p"], delta_empty=kw["de"])
        if k == "num":
            return pa.NumericalCategoricalDissimilarity(list(kw["labels"]), delta_empty=kw["de"])
        if k == "comb":
            pos = kw["pos"].build(pa) if kw["pos"] is not None else None
            cat = kw["cat"].build(pa) if kw["cat"] is not None else None
            return pa.CombinedCategoricalDissimilarity(alpha=kw["alpha"], beta=kw["beta"], delta_empty=kw["de"], pos_dissim=pos, cat_dissim=cat)
        raise ValueError(k)

    def rank(self, universe):
        return {l: i for i, l in enumerate(sorted(universe))}

    def wire(self, universe, de_override=None):
        """model description; categories are ranks in the sorted label universe; de_override: the combined delta_empty"""
        k, kw = self.kind, self.kw
        de = kw["de"] if de_override is None else de_override
        r = self.rank(universe)
        if k == "pos":
            return [0] + q(np.float32(kw["de"]))
        if k == "abs":
            return [1] + q(np.float32(de))
        if k == "pre":
            cats = sorted(kw["labels"])
            # matrix is given in SORTED category order (documented)
            return [2] + w_list([r[c] for c in cats]) + w_list(kw["matrix"], lambda row: w_list(row, lambda v: q(np.float32(v)))) + q(np.float32(de))
        if k == "lev":
            uni = sorted(universe)
            # a unit's category is its index into the sorted universe; only the dissimilarity's own labels enter the normaliser
            return [3] + w_list(uni, lambda l: w_list(cp(l))) + q(np.float32(de))
        if k == "ord":
            p = kw["p"] if kw["p"] is not None else list(range(len(kw["labels"])))
            return [4] + w_list(list(zip(kw["labels"], p)), lambda lp: [r[lp[0]]] + q(np.float32(lp[1]))) + q(np.float32(de))
        if k == "num":
            return [4] + w_list(list(kw["labels"]), lambda l: [r[l]] + q(np.float32(float(l)))) + q(np.float32(de))
        if k == "comb":
            pos = kw["pos"] if kw["pos"] is not None else Desc("pos", de=kw["de"])
            cat = kw["cat"] if kw["cat"] is not None else Desc("abs", de=1.0)
            return [5] + q(kw["alpha"]) + q(kw["beta"]) + pos.wire(universe) + cat.wire(universe, de_override=kw["de"])
        raise ValueError(k)


WORDS = ["cat", "cart", "dog", "do", "zebra", "a", "", "abc", "abd", "Zed", "b b", "é", "long label", "dOg"]


def label_set(rng, kind, size):
    if kind == "num":
        vals = rng.sample(range(-50, 400), size)
        return [str(v) if rng.random() < 0.7 else "%d.5" % v for v in vals]
    if size <= len(WORDS):
        return rng.sample(WORDS, size)
    return ["w%03d" % i for i in rng.sample(range(1000), size)]


def random_cat_desc(rng, de, tier):
    kind = rng.choice(["pre", "lev", "ord", "ord", "num", "num"])
    size = rng.choice([1, 2, 3, 3, 5, 8] + ([130, 200, 300] if rng.random() < (0.15 if tier == "quick" else 0.3) else []))
    if kind == "lev" and size > 40:
        size = 40
    labels = label_set(rng, kind, size)
    order = rng.choice(["sorted", "reversed", "shuffled"])
    if order == "sorted":
        labels = sorted(labels)
    elif order == "reversed":
        labels = sorted(labels, reverse=True)
    if kind == "pre":
        s = sorted(labels)
        m = [[0.0] * size for _ in range(size)]
        for i in range(size):
            for j in range(i):
                m[i][j] = m[j][i] = rng.choice([0.125, 0.25, 0.5, 0.75, 1.0])
        return Desc("pre", labels=labels, matrix=m, de=de)
    if kind == "lev":
        return Desc("lev", labels=labels, de=de)
    if kind == "ord":
        p = None
        if rng.random() < 0.5:
            p = [float(rng.randrange(-8, 40)) / 2 for _ in labels]
        return Desc("ord", labels=labels, p=p, de=de)
    return Desc("num", labels=labels, de=de)


def random_desc(rng, tier):
    de = rng.choice([0.25, 0.5, 1.0, 2.0, 3.0])
    x = rng.random()
    if x < 0.12:
        return Desc("pos", de=de)
    if x < 0.2:
        return Desc("abs", de=de)
    if x < 0.5:
        return random_cat_desc(rng, de, tier)
    alpha, beta = rng.choice([0.0, 0.5, 1.0, 3.0]), rng.choice([0.0, 0.5, 1.0, 3.0])
    cat = None
    if rng.random() < 0.75:
        cat = random_cat_desc(rng, rng.choice([de, 1.0, 0.5, 2.0]), tier)
    elif rng.random() < 0.5:
        cat = Desc("abs", de=rng.choice([de, 1.0, 4.0]))
    pos = Desc("pos", de=rng.choice([de, 1.0, 0.5])) if rng.random() < 0.3 else None
    return Desc("comb", alpha=alpha, beta=beta, de=de, pos=pos, cat=cat)


def cat_labels(desc):
    if desc.kind == "comb":
        return cat_labels(desc.kw["cat"]) if desc.kw["cat"] is not None else None
    return desc.labels()


def unit_pairs(rng, labels, allow_none, count):
    """pairs of (start, end, label) on the dyadic grid"""
    out = []

    def lab():
        if labels is None:
            return rng.choice(["A", "B", "x y", None] if allow_none else ["A", "B", "x y"])
        return rng.choice(labels)
    for _ in range(count):
        s1 = rng.randrange(0, 640) / 64.0
        d1 = rng.randrange(1, 640) / 64.0
        l1 = lab()
        m = rng.random()
        if m < 0.15:
            s2, d2, l2 = s1, d1, l1                     # identical
        elif m < 0.3:
            s2, d2, l2 = s1, d1, lab()                  # same segment
        elif m < 0.45:
            s2, d2, l2 = s1 + d1 / 4, d1 / 2, lab()     # nested
        else:
            s2, d2, l2 = rng.randrange(0, 1280) / 64.0, rng.randrange(1, 640) / 64.0, lab()
        out.append(((s1, s1 + d1, l1), (s2, s2 + d2, l2)))
    return out


def run(rep, tier, seed, pa):
    from pyannote.core import Segment
    from pygamma_agreement.alignment import UnitaryAlignment
    Unit = pa.continuum.Unit
    rng = rng_for(seed, "C04")
    random.seed(seed)   # check_if_dissim uses the stdlib RNG
    nobj = 110 if tier == "quick" else 900
    npairs = 40 if tier == "quick" else 80
    lines, metas = [], []
    # documented defaults: delta_empty = 1 for every class, alpha = beta = 1 and the positional / absolute components for the combined one
    from sortedcontainers import SortedSet
    defaults = [("PositionalSporadicDissimilarity", lambda: pa.PositionalSporadicDissimilarity()),
                ("AbsoluteCategoricalDissimilarity", lambda: pa.AbsoluteCategoricalDissimilarity()),
                ("PrecomputedCategoricalDissimilarity", lambda: pa.PrecomputedCategoricalDissimilarity(SortedSet(["a", "b"]), np.array([[0, 1], [1, 0]], dtype=np.float32))),
                ("LevenshteinCategoricalDissimilarity", lambda: pa.LevenshteinCategoricalDissimilarity(["a", "b"])),
                ("OrdinalCategoricalDissimilarity", lambda: pa.OrdinalCategoricalDissimilarity(["a", "b"])),
                ("NumericalCategoricalDissimilarity", lambda: pa.NumericalCategoricalDissimilarity(["1", "2"])),
                ("CombinedCategoricalDissimilarity", lambda: pa.CombinedCategoricalDissimilarity())]
    for name, mk in defaults:
        rep.count("default_constructed")
        rep.case(sample={"default_constructed": name})
        try:
            o = mk()
            got = {"delta_empty": float(o.delta_empty)}
            want = {"delta_empty": 1.0}
            if name.startswith("Combined"):
                got.update(alpha=float(o.alpha), beta=float(o.beta), positional=type(o.positional_dissim).__name__, categorical=type(o.categorical_dissim).__name__,
                           positional_delta_empty=float(o.positional_dissim.delta_empty), categorical_delta_empty=float(o.categorical_dissim.delta_empty))
                want.update(alpha=1.0, beta=1.0, positional="PositionalSporadicDissimilarity", categorical="AbsoluteCategoricalDissimilarity",
                            positional_delta_empty=1.0, categorical_delta_empty=1.0)
        except Exception as e:
            got, want = "raised %r" % (e,), None
        if got != want:
            rep.violation("defaults:" + name, {"class": name, "got": got, "documented": want}, "%s() has %r, documented defaults %r" % (name, got, want))
    for _ in range(nobj):
        desc = random_desc(rng, tier)
        try:
            obj = desc.build(pa)
        except Exception as e:
            rep.case()
            rep.violation("constructor-raises", {"desc": repr(desc), "error": repr(e)}, "constructing %r raised %r" % (desc, e))
            continue
        labels = cat_labels(desc)
        allow_none = labels is None
        pairs = unit_pairs(rng, labels, allow_none, npairs)
        universe = set(l for p in pairs for (_, _, l) in p if l is not None) | set(labels or [])
        rk = desc.rank(universe)
        uni_sorted = sorted(universe)

        def wu(u):
            s, e, l = u
            return q(np.float32(s)) + q(np.float32(e)) + ([0] if l is None else [1, rk[l]])
        obs = []
        for (a, b) in pairs:
            u1, u2 = Unit(Segment(a[0], a[1]), a[2]), Unit(Segment(b[0], b[1]), b[2])
            try:
                v = (obj.d(u1, u2), obj.d(u2, u1), obj.d(u1, u1),
                     UnitaryAlignment([("ann_a", u1), ("ann_b", u2)]).compute_disorder(obj),
                     UnitaryAlignment([("ann_a", u2), ("ann_b", u1)]).compute_disorder(obj),
                     UnitaryAlignment([("ann_a", u1), ("ann_b", u1)]).compute_disorder(obj))
            except Exception as e:
                v = e
            obs.append(v)
        lines.append([300] + desc.wire(universe) + w_list(pairs, lambda p: wu(p[0]) + wu(p[1])))
        metas.append((desc, pairs, obs))
    outs = run_model(lines)
    for (desc, pairs, obs), out in zip(metas, outs):
        rep.count("kind=" + desc.kind + ("+" + (desc.kw["cat"].kind if desc.kw["cat"] else "default") if desc.kind == "comb" else ""))
        nl = len(cat_labels(desc) or [])
        rep.count("categories=" + ("none" if nl == 0 else "1-8" if nl <= 8 else "9-127" if nl <= 127 else "128-300"))
        if not isinstance(out, list) or len(out) != 2 * len(pairs):
            rep.case()
            rep.violation("model-error", {"desc": repr(desc), "out": out if not isinstance(out, list) else out[:10]}, "model rejected the description no-failing-input-found")
            continue
        for k, ((a, b), v) in enumerate(zip(pairs, obs)):
            model = Fraction(out[2 * k], out[2 * k + 1])
            nontriv = a != b
            rep.case(sample={"dissim": repr(desc), "u1": a, "u2": b, "library": [float(x) for x in v] if not isinstance(v, Exception) else repr(v),
                             "formula": float(model)},
                     nontrivial_key=(repr(desc), a, b) if nontriv else None)
            if isinstance(v, Exception):
                rep.violation("raises:" + type(v).__name__, {"desc": repr(desc), "u1": a, "u2": b, "error": repr(v)},
                              "%r on %r, %r raised %r" % (desc, a, b, v))
                continue
            d12, d21, d11, k12, k21, k11 = v
            bad = None
            if not close(d12, model, TAU1):
                bad = ("d-vs-formula", "d(u1,u2) = %r but the documented formula gives %r" % (float(d12), float(model)))
            elif not close(k12, model, TAU1):
                bad = ("kernel-vs-formula", "kernel value %r but the documented formula gives %r (d = %r)" % (float(k12), float(model), float(d12)))
            elif frac(d12) != frac(d21) or frac(k12) != frac(k21):
                bad = ("asymmetric", "not symmetric: d %r / %r, kernel %r / %r" % (float(d12), float(d21), float(k12), float(k21)))
            elif frac(d11) != 0 or frac(k11) != 0:
                bad = ("nonzero-on-identical", "d(u,u) = %r, kernel %r" % (float(d11), float(k11)))
            elif frac(d12) < 0 or frac(k12) < 0:
                bad = ("negative", "negative value %r / %r" % (float(d12), float(k12)))
            if bad:
                rep.violation(bad[0] + ":" + desc.kind, {"desc": repr(desc), "kind": desc.kind, "json": desc.to_json(),
                                                         "u1": a, "u2": b, "library": [float(x) for x in v], "formula": str(model)}, "%r: %s" % (desc, bad[1]))
    # Levenshtein distances of the model against the library's numba function
    from pygamma_agreement.dissimilarity import LevenshteinCategoricalDissimilarity as L
    ws = [(rng.choice(WORDS), rng.choice(WORDS)) for _ in range(60)]
    o = run_model([[301] + w_list(ws, lambda p: w_list(cp(p[0])) + w_list(cp(p[1])))])[0]
    for (a, b), m in zip(ws, o):
        lib = L.levenshtein(a, b)
        if not close(lib, Fraction(m, max(len(a), len(b)) + 1), TAU1):
            rep.violation("levenshtein", {"a": a, "b": b, "library": float(lib), "model_distance": m}, "levenshtein(%r,%r) = %r, model distance %d" % (a, b, float(lib), m))
    rep.extra["levenshtein_pairs_compared"] = len(ws)
    sample = [l for l in lines if len(l) < 1500][:6]
    coq = coq_eval(sample)
    oc = run_model(sample)
    rep.extra["extraction_crosscheck"] = {"cases": len(sample), "agree": sum(1 for a, b in zip(oc, coq) if a == b)}
    if any(a != b for a, b in zip(oc, coq)):
        rep.violation("extraction", {}, "extracted model and vm_compute disagree no-failing-input-found")


def replay(rep, data, pa):
    from pyannote.core import Segment
    from pygamma_agreement.alignment import UnitaryAlignment
    Unit = pa.continuum.Unit
    desc = Desc.from_json(data["json"])
    obj = desc.build(pa)
    a, b = tuple(data["u1"]), tuple(data["u2"])
    u1, u2 = Unit(Segment(a[0], a[1]), a[2]), Unit(Segment(b[0], b[1]), b[2])
    labels = cat_labels(desc)
    universe = set(l for l in (a[2], b[2]) if l is not None) | set(labels or [])
    rk = desc.rank(universe)

    def wu(u):
        return q(np.float32(u[0])) + q(np.float32(u[1])) + ([0] if u[2] is None else [1, rk[u[2]]])
    out = run_model([[300] + desc.wire(universe) + [1] + wu(a) + wu(b)])[0]
    model = Fraction(out[0], out[1])
    d12 = obj.d(u1, u2)
    k12 = UnitaryAlignment([("ann_a", u1), ("ann_b", u2)]).compute_disorder(obj)
    print("  %r on %r, %r: d = %r, kernel = %r, formula = %r" % (desc, a, b, float(d12), float(k12), float(model)))
    return close(d12, model, TAU1) and close(k12, model, TAU1) and frac(obj.d(u2, u1)) == frac(d12) and frac(obj.d(u1, u1)) == 0
