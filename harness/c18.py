"""C18 - file import and export are faithful (partial: the third-party parsers - textgrid, pympi, pyannote's RTTM loader, Python's float
printing - are oracles; the CSV layer is modelled and proved).

(A) Python's csv.writer / csv.reader are compared byte-for-byte with the Gallina writer / reader (Io/Csv.v) on generated field texts and raw
texts; (B) generated continua with labelled units are written with to_csv and read back with from_csv for several delimiters: equal continuum,
same categories, and the file content is the model's wfile of the rows; (C) zero-length rows are discarded or rejected as requested (model
csv_rows); (D) generated .TextGrid / .eaf / .rttm files are loaded and compared with the model's list of adds (Io/Tiers.v)."""
import csv
import io
import os
import tempfile
from fractions import Fraction

import gen
from common import rng_for, run_model, coq_eval, w_list, frac

RULE = ("(A) 300 random rows of fields over an alphabet with delimiters, quotes, CR, LF, spaces, unicode + 200 random raw texts; (B) 60 continua x "
        "delimiters , ; tab | with annotators / labels containing those characters; (C) 40 files with zero-length and negative rows, both modes; "
        "(D) 40 TextGrid, 40 ELAN, 30 RTTM files (tier selections incl. the empty one and absent names, both label modes, empty marks). non-trivial = a field that needs quoting, a "
        "zero-length row, a tier selection or tier-as-label; distinct by content")
TRUSTED_BASE = ["Coq 8.16.1 kernel", "extraction (ExtrOcamlBasic only), ocaml/driver.ml", "harness/{common,gen,c18}.py: file templates for TextGrid / RTTM, pympi for writing .eaf",
                "oracles: textgrid, pympi, pyannote.database.util.load_rttm, float repr/parse round trip (tested on every generated time)"]
ASSUMPTIONS = ["CSV statement: rows of four fields, labelled units (a None label is written as the empty string and read back as '')",
               "TextGrid times are read with the textgrid package's 5-digit rounding: generated times have at most 3 decimals",
               "ELAN files use plain time-aligned tiers; times are the file's integer milliseconds (the library does not rescale)"]

ALPHA = ["a", "b", "Z", ",", ";", "\t", "|", '"', "\r", "\n", " ", "é", "日", "'", "0", "."]


def cps(s):
    return [ord(c) for c in s]


def q(x):
    f = frac(x)
    return [f.numerator, f.denominator]


def rnd_text(rng, n, alpha=ALPHA):
    return "".join(rng.choice(alpha) for _ in range(rng.randrange(n)))


def py_write(rows, delim):
    buf = io.StringIO(newline="")
    csv.writer(buf, delimiter=delim).writerows(rows)
    return buf.getvalue()


def py_read(text, delim):
    return [list(r) for r in csv.reader(io.StringIO(text, newline=""), delimiter=delim)]


def decode_rows(out):
    pos, rows = 1, []
    for _ in range(out[0]):
        nf = out[pos]
        pos += 1
        row = []
        for _ in range(nf):
            n = out[pos]
            row.append("".join(chr(c) for c in out[pos + 1: pos + 1 + n]))
            pos += 1 + n
        rows.append(row)
    return rows


def part_a(rep, rng, tier):
    wl, wm, rl, rm = [], [], [], []
    for _ in range(300 if tier == "quick" else 3000):
        delim = rng.choice([",", ";", "\t", "|"])
        rows = [[rnd_text(rng, 6) for _ in range(rng.randrange(2, 6))] for _ in range(rng.randrange(1, 4))]
        wl.append([800, ord(delim)] + w_list(rows, lambda r: w_list(r, lambda f: w_list(cps(f)))))
        wm.append((delim, rows))
    for _ in range(200 if tier == "quick" else 2000):
        delim = rng.choice([",", ";", "\t"])
        t = rnd_text(rng, 16)
        rl.append([801, ord(delim)] + w_list(cps(t)))
        rm.append((delim, t))
    for (delim, rows), out in zip(wm, run_model(wl)):
        model = "".join(chr(c) for c in out[1:1 + out[0]])
        py = py_write(rows, delim)
        needs = any(any(c in f for c in (delim, '"', "\r", "\n")) for r in rows for f in r)
        rep.count("csv_writer_cases")
        rep.case(sample={"csv_rows": rows[:2], "delimiter": delim, "agree": py == model}, nontrivial_key=("w", delim, repr(rows)) if needs else None)
        if py != model:
            rep.violation("csv-writer-model", {"rows": rows, "delimiter": delim, "python": py, "model": model}, "csv.writer output differs from the Gallina writer")
        back = py_read(py, delim)
        if back != rows:
            rep.violation("csv-python-roundtrip", {"rows": rows, "delimiter": delim, "back": back}, "csv.reader(csv.writer(rows)) != rows")
    for (delim, t), out in zip(rm, run_model(rl)):
        try:
            py = py_read(t, delim)
        except csv.Error as e:
            py = "csv.Error"
        model = decode_rows(out)
        rep.count("csv_reader_cases")
        rep.case(sample={"csv_text": t, "agree": py == model})
        if py != model:
            rep.violation("csv-reader-model", {"text": t, "delimiter": delim, "python": py, "model": model}, "csv.reader differs from the Gallina reader on %r" % t)


def part_b(rep, pa, rng, tier):
    from pyannote.core import Segment
    names_pool = ["ann a", "b,c", 'q"x', "é|", "line\nbreak", "cr\rhere", "plain", " lead", "semi;colon", "tab\there"]
    lines, metas = [], []
    for ci in range(60 if tier == "quick" else 600):
        n = rng.randrange(1, 4)
        anns = rng.sample(names_pool, n)
        labels = [rnd_text(rng, 5) or "x" for _ in range(3)] + ["A"]
        c = pa.Continuum()
        for a in anns:
            for _ in range(rng.randrange(1, 5)):
                s = rng.choice([rng.randrange(0, 4000) / 64.0, rng.random() * 100, float(rng.randrange(0, 50)), rng.randrange(0, 50)])
                d = rng.choice([rng.randrange(1, 400) / 64.0, rng.random() * 10 + 0.001])
                c.add(a, Segment(s, s + d), rng.choice(labels))
        delim = rng.choice([",", ";", "\t", "|"])
        with tempfile.TemporaryDirectory(prefix="pgaverif_") as dd:
            path = os.path.join(dd, "c.csv")
            try:
                c.to_csv(path, delimiter=delim)
                raw = open(path, "rb").read().decode("utf-8")
                back = pa.Continuum.from_csv(path, delimiter=delim)
            except Exception as e:
                rep.case()
                rep.violation("csv-roundtrip-raises", {"annotators": anns, "labels": labels, "delimiter": delim, "error": repr(e)}, "to_csv / from_csv raised %r" % (e,))
                continue
        rows = [[a, u.annotation, repr(u.segment.start) if not isinstance(u.segment.start, int) else str(u.segment.start),
                 repr(u.segment.end) if not isinstance(u.segment.end, int) else str(u.segment.end)] for a, u in c]
        rows = [[a, l, str(s), str(e)] for (a, l, s, e) in [(a, u.annotation, u.segment.start, u.segment.end) for a, u in c]]
        desc = {"units": [(a, u.segment.start, u.segment.end, u.annotation) for a, u in c], "delimiter": delim}
        bad = []
        if not (back == c) or list(back.categories) != list(c.categories) or list(back.annotators) != list(c.annotators):
            bad.append(("csv-roundtrip", "from_csv(to_csv(c)) differs from c: %r" % ([(a, u.segment.start, u.segment.end, u.annotation) for a, u in back],)))
        for (_, u) in c:
            for t in (u.segment.start, u.segment.end):
                if float(str(t)) != t:
                    bad.append(("float-roundtrip", "float(str(%r)) != itself" % t))
        lines.append([800, ord(delim)] + w_list(rows, lambda r: w_list(r, lambda f: w_list(cps(f)))))
        metas.append((desc, raw, bad))
    for (desc, raw, bad), out in zip(metas, run_model(lines)):
        model = "".join(chr(c) for c in out[1:1 + out[0]])
        if raw != model:
            bad.append(("csv-file-content", "the file written by to_csv differs from the model's rows (annotator, label, start, end): %r vs %r" % (raw[:80], model[:80])))
        rep.count("continuum_roundtrips")
        rep.case(sample={"continuum_roundtrip": desc["units"][:2], "delimiter": desc["delimiter"], "agree": not bad},
                 nontrivial_key=("b", repr(desc)) if any(ch in raw for ch in '"') else None)
        for k, w in bad:
            rep.violation(k, desc, w)


def part_c(rep, pa, rng, tier):
    from pyannote.core.segment import SEGMENT_PRECISION
    lines, metas = [], []
    for ci in range(40 if tier == "quick" else 400):
        rows = []
        for _ in range(rng.randrange(1, 7)):
            s = rng.randrange(0, 100) / 4.0
            d = rng.choice([0.0, 0.0, 1e-7, -1.0, 0.25, 3.0, 1e-6, 2e-6])
            rows.append((rng.choice(["a", "b"]), rng.choice(["X", "Y"]), s, s + d))
        for discard in (True, False):
            with tempfile.TemporaryDirectory(prefix="pgaverif_") as dd:
                path = os.path.join(dd, "z.csv")
                with open(path, "w", newline="") as f:
                    csv.writer(f).writerows([[a, l, repr(s), repr(e)] for a, l, s, e in rows])
                try:
                    import contextlib
                    with contextlib.redirect_stdout(io.StringIO()):     # the library prints one line per discarded row
                        c = pa.Continuum.from_csv(path, discard_invalid_rows=discard)
                    got = sorted((a, u.annotation, u.segment.start, u.segment.end) for a, u in c)
                except ValueError:
                    got = "rejected"
                except Exception as e:
                    got = "raised %r" % (e,)
            lines.append([803] + q(SEGMENT_PRECISION) + [1 if discard else 0] + w_list(rows, lambda r: w_list(cps(r[0])) + w_list(cps(r[1])) + q(r[2]) + q(r[3])))
            metas.append((rows, discard, got))
    for (rows, discard, got), out in zip(metas, run_model(lines)):
        if out[0] == 0:
            want = "rejected"
        else:
            want, pos = [], 2
            for _ in range(out[1]):
                na = out[pos]
                a = "".join(chr(c) for c in out[pos + 1: pos + 1 + na])
                pos += 1 + na
                nl = out[pos]
                l = "".join(chr(c) for c in out[pos + 1: pos + 1 + nl])
                pos += 1 + nl
                s = Fraction(out[pos], out[pos + 1])
                e = Fraction(out[pos + 2], out[pos + 3])
                pos += 4
                want.append((a, l, float(s), float(e)))
            want = sorted(set(want))
        rep.count("zero_length_files")
        rep.case(sample={"rows": rows[:3], "discard": discard, "loaded": got if isinstance(got, str) else len(got)},
                 nontrivial_key=("c", repr(rows), discard) if any(e - s <= 1e-6 for _, _, s, e in rows) else None)
        if got != want:
            rep.violation("zero-length-rows", {"rows": rows, "discard_invalid_rows": discard, "library": got, "model": want},
                          "from_csv(discard_invalid_rows=%r) gives %r, expected %r" % (discard, got, want))


TG_HEAD = 'File type = "ooTextFile"\nObject class = "TextGrid"\n\nxmin = 0\nxmax = %s\ntiers? <exists>\nsize = %d\nitem []:\n'


def write_textgrid(path, tiers, xmax):
    with open(path, "w", encoding="utf-8") as f:
        f.write(TG_HEAD % (xmax, len(tiers)))
        for i, (name, ivs) in enumerate(tiers):
            f.write('    item [%d]:\n        class = "IntervalTier"\n        name = "%s"\n        xmin = 0\n        xmax = %s\n        intervals: size = %d\n'
                    % (i + 1, name.replace('"', '""'), xmax, len(ivs)))
            for j, (a, b, m) in enumerate(ivs):
                f.write('        intervals [%d]:\n            xmin = %s\n            xmax = %s\n            text = "%s"\n' % (j + 1, a, b, m.replace('"', '""')))


def gen_tiers(rng, tiling):
    tiers = []
    for name in rng.sample(["words", "phones", "speaker A", "t3", "é"], rng.randrange(1, 4)):
        ivs, t = [], 0.0
        for _ in range(rng.randrange(1, 6)):
            if not tiling:
                t += rng.randrange(0, 16) / 8.0
            d = rng.randrange(1, 40) / 8.0
            ivs.append((t, t + d, rng.choice(["", "", "hello", "a b", "x", "é", "A"])))
            t += d
        tiers.append((name, ivs))
    return tiers


def part_d(rep, pa, rng, tier):
    from pympi import Eaf
    lines, metas = [], []
    nfiles = 40 if tier == "quick" else 300
    for kind in ("textgrid", "elan"):
        for ci in range(nfiles):
            tiers = gen_tiers(rng, tiling=(kind == "textgrid"))
            names = [n for n, _ in tiers]
            # None = every tier; a selection may be empty (then nothing is selected), name absent tiers, and be any container
            sel = None if rng.random() < 0.35 else rng.sample(names + ["absent"], 0 if ci % 4 == 0 else rng.randrange(1, len(names) + 1))
            if sel is not None:
                rep.count("selection_size=%d" % len(sel))
            use_tier = rng.random() < 0.4
            with tempfile.TemporaryDirectory(prefix="pgaverif_") as dd:
                c = pa.Continuum()
                try:
                    if kind == "textgrid":
                        path = os.path.join(dd, "f.TextGrid")
                        write_textgrid(path, tiers, max(iv[1] for _, ivs in tiers for iv in ivs))
                        c.add_textgrid("ann", path, selected_tiers=sel, use_tier_as_annotation=use_tier)
                        mt = tiers
                    else:
                        path = os.path.join(dd, "f.eaf")
                        eaf = Eaf()
                        for n, ivs in tiers:
                            eaf.add_tier(n)
                            for a, b, m in ivs:
                                eaf.add_annotation(n, int(a * 1000), int(b * 1000), m)
                        eaf.remove_tier("default")
                        eaf.to_file(path)
                        c.add_elan("ann", path, selected_tiers=sel, use_tier_as_annotation=use_tier)
                        mt = [(n, [(int(a * 1000), int(b * 1000), m) for a, b, m in ivs]) for n, ivs in tiers]
                    got = sorted((u.segment.start, u.segment.end, u.annotation) for _, u in c)
                    anns = list(c.annotators)
                except Exception as e:
                    got, anns = "raised %r" % (e,), []
            lines.append([802, 0 if kind == "textgrid" else 1] + w_list(mt, lambda t: w_list(cps(t[0])) + w_list(t[1], lambda iv: q(iv[0]) + q(iv[1]) + w_list(cps(iv[2])))) +
                         ([0] if sel is None else [1] + w_list(sel, lambda s: w_list(cps(s)))) + [1 if use_tier else 0])
            metas.append((kind, tiers, sel, use_tier, got, anns))
    for (kind, tiers, sel, use_tier, got, anns), out in zip(metas, run_model(lines)):
        want, pos = [], 1
        for _ in range(out[0]):
            a = Fraction(out[pos], out[pos + 1])
            b = Fraction(out[pos + 2], out[pos + 3])
            n = out[pos + 4]
            lab = "".join(chr(c) for c in out[pos + 5: pos + 5 + n])
            pos += 5 + n
            want.append((float(a), float(b), lab))
        want = sorted(set(want))
        rep.count("files=" + kind)
        rep.case(sample={"format": kind, "tiers": [(n, len(v)) for n, v in tiers], "selected": sel, "tier_as_label": use_tier, "units": got if isinstance(got, str) else len(got)},
                 nontrivial_key=("d", kind, repr(tiers), repr(sel), use_tier) if (sel is not None or use_tier) else None)
        if got != want or (want and anns != ["ann"]):
            rep.violation("tier-import:" + kind, {"format": kind, "tiers": tiers, "selected_tiers": sel, "use_tier_as_annotation": use_tier,
                                                 "library": got, "model": want, "annotators": anns},
                          "%s import gives %r, one unit per %s interval of the selected tiers would be %r" % (kind, got, "non-empty" if kind == "textgrid" else "annotated", want))
    # RTTM: uri as annotator, (start, start + duration), label
    for ci in range(30 if tier == "quick" else 300):
        recs = []
        for _ in range(rng.randrange(1, 8)):
            recs.append((rng.choice(["fileA", "fileB", "u_3"]), rng.randrange(0, 400) / 8.0, rng.randrange(1, 80) / 8.0, rng.choice(["spk1", "spk2", "é"])))
        with tempfile.TemporaryDirectory(prefix="pgaverif_") as dd:
            path = os.path.join(dd, "f.rttm")
            with open(path, "w", encoding="utf-8") as f:
                for uri, s, d, lab in recs:
                    f.write("SPEAKER %s 1 %s %s <NA> <NA> %s <NA> <NA>\n" % (uri, repr(s), repr(d), lab))
            try:
                c = pa.Continuum.from_rttm(path)
                got = sorted((a, u.segment.start, u.segment.end, u.annotation) for a, u in c)
            except Exception as e:
                got = "raised %r" % (e,)
        want = sorted(set((uri, s, s + d, lab) for uri, s, d, lab in recs))
        rep.count("files=rttm")
        rep.case(sample={"format": "rttm", "records": recs[:3], "units": got if isinstance(got, str) else len(got)})
        if got != want:
            rep.violation("tier-import:rttm", {"records": recs, "library": got, "expected": want}, "RTTM import gives %r, expected %r" % (got, want))


def run(rep, tier, seed, pa):
    rng = rng_for(seed, "C18")
    part_a(rep, rng, tier)
    part_b(rep, pa, rng, tier)
    part_c(rep, pa, rng, tier)
    part_d(rep, pa, rng, tier)
    sample = [[800, 44] + w_list([["a,b", 'q"', "", "x\r\ny"]], lambda r: w_list(r, lambda f: w_list(cps(f)))), [801, 44] + w_list(cps('a,"b""c"\r\n\n,d'))]
    coq = coq_eval(sample)
    oc = run_model(sample)
    rep.extra["extraction_crosscheck"] = {"cases": len(sample), "agree": sum(1 for a, b in zip(oc, coq) if a == b)}
    if any(a != b for a, b in zip(oc, coq)):
        rep.violation("extraction", {}, "extracted model and vm_compute disagree no-failing-input-found")


def replay(rep, data, pa):
    from pyannote.core import Segment
    if "units" in data and "delimiter" in data:
        c = pa.Continuum()
        for a, s, e, l in data["units"]:
            c.add(a, Segment(s, e), l)
        with tempfile.TemporaryDirectory(prefix="pgaverif_") as dd:
            p = os.path.join(dd, "c.csv")
            c.to_csv(p, delimiter=data["delimiter"])
            back = pa.Continuum.from_csv(p, delimiter=data["delimiter"])
        print("  round trip equal:", back == c, "categories equal:", list(back.categories) == list(c.categories))
        return back == c and list(back.categories) == list(c.categories)
    print("  recorded case:", {k: data[k] for k in data if k not in ("how_to_replay",)})
    return False
