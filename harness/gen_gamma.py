"""Fail-closed translator of the gamma formulas of continuum.py (GammaResults.gamma / gamma_cat / gamma_k / expected_disorder and the sample-count rule
of Continuum.compute_gamma) into coq/genprops/GammaGen.v.  Straight-line code with early returns only; anything else raises Unsupported."""
import ast
import os

from gen_tables import Unsupported, REPO, VERIF, frac_str


class GTr:
    """expression translator; every value read from self, from a job's result or from a NumPy reduction becomes a parameter"""

    def __init__(self):
        self.params, self.locals = [], set()

    def param(self, name, ty="Q"):
        for n, t in self.params:
            if n == name:
                if t != ty:
                    raise Unsupported("parameter %s used at two types" % name)
                return name
        self.params.append((name, ty))
        return name

    def listcomp_name(self, node):
        """[x.attr for x in self.NAME] / [x.result() for x in NAME]  ->  parameter name of the list of those values"""
        if isinstance(node, ast.Call) and ast.unparse(node.func) == "np.array" and len(node.args) == 1:
            node = node.args[0]
        if isinstance(node, ast.ListComp) and len(node.generators) == 1 and not node.generators[0].ifs and isinstance(node.generators[0].target, ast.Name):
            var, it, elt = node.generators[0].target.id, node.generators[0].iter, node.elt
            if isinstance(it, ast.Attribute) and isinstance(it.value, ast.Name) and it.value.id == "self":
                base = it.attr
            elif isinstance(it, ast.Name):
                base = it.id
            else:
                raise Unsupported("comprehension source at line %d" % node.lineno)
            if isinstance(elt, ast.Attribute) and isinstance(elt.value, ast.Name) and elt.value.id == var:
                return base + "_" + elt.attr
            if isinstance(elt, ast.Call) and isinstance(elt.func, ast.Attribute) and elt.func.attr == "result" and not elt.args \
                    and isinstance(elt.func.value, ast.Name) and elt.func.value.id == var:
                return base + "_result"
        if isinstance(node, ast.Name) and node.id not in self.locals:
            return node.id
        raise Unsupported("list of numbers expected at line %d: %s" % (node.lineno, ast.unparse(node)[:60]))

    def boolean(self, node):
        if isinstance(node, ast.Compare) and len(node.ops) == 1:
            a, b = self.q(node.left), self.q(node.comparators[0])
            op = node.ops[0]
            if isinstance(op, ast.Eq):
                return "(Qeq_bool %s %s)" % (a, b)
            if isinstance(op, ast.NotEq):
                return "(negb (Qeq_bool %s %s))" % (a, b)
            if isinstance(op, ast.Gt):
                return "(negb (Qle_bool %s %s))" % (a, b)
            if isinstance(op, ast.Lt):
                return "(negb (Qle_bool %s %s))" % (b, a)
            if isinstance(op, ast.GtE):
                return "(Qle_bool %s %s)" % (b, a)
            if isinstance(op, ast.LtE):
                return "(Qle_bool %s %s)" % (a, b)
        raise Unsupported("comparison expected at line %d: %s" % (node.lineno, ast.unparse(node)))

    def q(self, node):
        if isinstance(node, ast.BinOp):
            if isinstance(node.op, ast.Pow) and isinstance(node.right, ast.Constant) and node.right.value == 2:
                x = self.q(node.left)
                return "(%s * %s)" % (x, x)
            op = {ast.Add: "+", ast.Sub: "-", ast.Mult: "*", ast.Div: "/"}.get(type(node.op))
            if op is None:
                raise Unsupported("operator at line %d: %s" % (node.lineno, ast.unparse(node)))
            return "(%s %s %s)" % (self.q(node.left), op, self.q(node.right))
        if isinstance(node, ast.Constant) and isinstance(node.value, (int, float)) and not isinstance(node.value, bool):
            v = node.value
            return frac_str(v) if not float(v).is_integer() else ("%d" % int(v) if v >= 0 else "(-%d)" % int(-v))
        if isinstance(node, ast.Name):
            if node.id in self.locals:
                return node.id
            return self.param(node.id)
        if isinstance(node, ast.Attribute) and isinstance(node.value, ast.Name) and node.value.id == "self":
            return self.param(node.attr)
        if isinstance(node, ast.Call):
            f = ast.unparse(node.func)
            if f == "float" and len(node.args) == 1:
                return self.q(node.args[0])
            if f == "np.mean" and len(node.args) == 1:
                return "(qmean %s)" % self.param(self.listcomp_name(node.args[0]), "list Q")
            if f == "np.std" and len(node.args) == 1:
                # a square root: not a rational function.  It becomes a parameter <list>_std; the theorems assume <list>_std^2 == variance
                return self.param(self.listcomp_name(node.args[0]) + "_std")
            if f == "np.ceil" and len(node.args) == 1:
                return "(inject_Z (Qceiling %s))" % self.q(node.args[0])
            if isinstance(node.func, ast.Attribute) and node.func.attr == "astype" and ast.unparse(node.args[0]) in ("np.int32", "np.int64", "int") \
                    and isinstance(node.func.value, ast.Call) and ast.unparse(node.func.value.func) == "np.ceil":
                return self.q(node.func.value)
            if isinstance(node.func, ast.Attribute) and node.func.attr == "result" and not node.args and isinstance(node.func.value, ast.Name):
                return self.param(node.func.value.id + "_result")
        raise Unsupported("expression at line %d: %s" % (node.lineno, ast.unparse(node)[:80]))


def is_doc(st):
    return isinstance(st, ast.Expr) and isinstance(st.value, ast.Constant) and isinstance(st.value.value, str)


def mentions_submit(node):
    return any(isinstance(n, ast.Attribute) and n.attr == "submit" for n in ast.walk(node))


def straight(tr, stmts, wiring):
    """statement list -> Gallina expression.  `with ... as p:` blocks are transparent; assignments of submitted jobs are recorded in `wiring`, not translated."""
    flat = []
    for st in stmts:
        if isinstance(st, ast.With):
            flat += st.body
        else:
            flat.append(st)
    flat = [st for st in flat if not is_doc(st)]
    if not flat:
        raise Unsupported("function falls off its end without a return")
    st, rest = flat[0], flat[1:]
    if isinstance(st, ast.With):
        return straight(tr, st.body + rest, wiring)
    if isinstance(st, ast.Return) and st.value is not None:
        return tr.q(st.value)
    if isinstance(st, ast.Assign) and len(st.targets) == 1 and isinstance(st.targets[0], ast.Name):
        if mentions_submit(st.value):
            # the whole right-hand side, normalised: which job, with which arguments, over which alignments
            wiring.append((st.targets[0].id, " ".join(ast.unparse(st.value).split())))
            return straight(tr, rest, wiring)
        e = tr.q(st.value)
        tr.locals.add(st.targets[0].id)
        return "let %s := %s in\n    %s" % (st.targets[0].id, e, straight(tr, rest, wiring))
    if isinstance(st, ast.If) and not st.orelse and len(st.body) == 1 and isinstance(st.body[0], ast.Return):
        return "if %s then %s else\n    %s" % (tr.boolean(st.test), tr.q(st.body[0].value), straight(tr, rest, wiring))
    if isinstance(st, ast.If) and not st.orelse and len(st.body) == 1 and isinstance(st.body[0], ast.Raise):
        # a guard that raises: outside the formula (the theorems are stated where it does not fire); recorded
        wiring.append(("raises-if", ast.unparse(st.test)))
        return straight(tr, rest, wiring)
    raise Unsupported("statement at line %d: %s" % (st.lineno, ast.unparse(st)[:70]))


def emit(name, tr, text):
    ps = sorted(tr.params)
    return "Definition %s %s: Q :=\n    %s." % (name, "".join("(%s : %s) " % p for p in ps), text), [n for n, _ in ps]


def gen_gamma():
    tree = ast.parse(open(os.path.join(REPO, "pygamma_agreement", "continuum.py")).read())
    classes = {n.name: n for n in tree.body if isinstance(n, ast.ClassDef)}
    if "GammaResults" not in classes or "Continuum" not in classes:
        raise Unsupported("GammaResults / Continuum not found")
    gm = {n.name: n for n in classes["GammaResults"].body if isinstance(n, ast.FunctionDef)}
    out = ["(* GENERATED by harness/gen_gamma.py from pygamma_agreement/continuum.py - do not edit.",
           "   Bodies of GammaResults.expected_disorder / gamma / gamma_cat / gamma_k and the sample-count rule of Continuum.compute_gamma.",
           "   Parameters (alphabetical) = what the code reads from self, from job results (<job>_result) and from NumPy reductions;",
           "   np.std(l) is the parameter l_std (a square root is not a rational function). *)",
           "From Coq Require Import String List ZArith QArith Qround Bool.", "From PGA Require Import Gamma.GammaK.", "Import ListNotations.",
           "Local Open Scope Q_scope.", "Local Open Scope string_scope.", ""]
    sigs, wires = [], {}
    for meth, name in (("expected_disorder", "expected_disorder_src"), ("gamma", "gamma_src"), ("gamma_cat", "gamma_cat_src"), ("gamma_k", "gamma_k_src")):
        if meth not in gm:
            raise Unsupported("GammaResults.%s not found" % meth)
        tr, w = GTr(), []
        text, ps = emit(name, tr, straight(tr, gm[meth].body, w))
        out += ["(* GammaResults.%s, line %d *)" % (meth, gm[meth].lineno), text, ""]
        sigs.append((name, ps))
        wires[meth] = w
    # --- sample-count rule: the statements of compute_gamma that define variation_coeff, confidence, required_samples and the second batch size
    cg = [n for n in classes["Continuum"].body if isinstance(n, ast.FunctionDef) and n.name == "compute_gamma"]
    if len(cg) != 1:
        raise Unsupported("compute_gamma not found")
    cg = cg[0]
    assigns = {}
    for node in ast.walk(cg):
        if isinstance(node, ast.Assign) and len(node.targets) == 1 and isinstance(node.targets[0], ast.Name) \
                and node.targets[0].id in ("variation_coeff", "confidence", "required_samples"):
            if node.targets[0].id in assigns:
                raise Unsupported("%s assigned twice in compute_gamma" % node.targets[0].id)
            assigns[node.targets[0].id] = node
    if set(assigns) != {"variation_coeff", "confidence", "required_samples"}:
        raise Unsupported("variation_coeff / confidence / required_samples not all assigned in compute_gamma")
    order = sorted(assigns.values(), key=lambda n: n.lineno)
    tr = GTr()
    lets = []
    for node in order[:-1]:
        e = tr.q(node.value)
        tr.locals.add(node.targets[0].id)
        lets.append("let %s := %s in" % (node.targets[0].id, e))
    if order[-1].targets[0].id != "required_samples":
        raise Unsupported("required_samples is not the last of the three assignments")
    text, ps = emit("required_samples_src", tr, "\n    ".join(lets + [tr.q(order[-1].value)]))
    out += ["(* Continuum.compute_gamma, lines %d-%d *)" % (order[0].lineno, order[-1].lineno), text, ""]
    sigs.append(("required_samples_src", ps))
    # the test guarding the second batch and its size
    tests = [n for n in ast.walk(cg) if isinstance(n, ast.If) and "required_samples" in ast.unparse(n.test)]
    if len(tests) != 1:
        raise Unsupported("expected exactly one test on required_samples")
    sizes = sorted(set(ast.unparse(n.args[0]) for n in ast.walk(tests[0]) if isinstance(n, ast.Call) and ast.unparse(n.func) == "range" and len(n.args) == 1))
    tr2 = GTr()
    cond = tr2.boolean(tests[0].test)
    if len(sizes) != 1:
        raise Unsupported("the second batch is not a single range(...)")
    size = tr2.q(ast.parse(sizes[0], mode="eval").body)
    text, ps = emit("second_batch_src", tr2, "if %s then %s else 0" % (cond, size))
    out += ["(* Continuum.compute_gamma, line %d: the test guarding the second batch and the number of samples it submits *)" % tests[0].lineno, text, ""]
    sigs.append(("second_batch_src", ps))
    # job wiring of gamma_cat / gamma_k: which job, with which category argument
    def cs(s):
        return '"' + s.replace('"', '""') + '"'
    for meth in ("gamma_cat", "gamma_k"):
        out.append("Definition %s_jobs : list (string * string) := [%s]." % (meth, "; ".join("(%s, %s)" % (cs(a), cs(b)) for a, b in wires[meth])))
    out.append("")
    out.append("Definition cat_eqb_opt (a b : option Z) : bool := match a, b with None, None => true | Some x, Some y => (x =? y)%Z | _, _ => false end.")
    sigs.append(("gk_body_src", gen_gammak(out)))
    out.append("(* parameter lists, for the record: %s *)" % "; ".join("%s(%s)" % (n, ",".join(ps)) for n, ps in sigs))
    text = "\n".join(out) + "\n"
    os.makedirs(os.path.join(VERIF, "coq", "genprops"), exist_ok=True)
    outp = os.path.join(VERIF, "coq", "genprops", "GammaGen.v")
    if not os.path.exists(outp) or open(outp).read() != text:
        with open(outp, "w") as f:
            f.write(text)


# ----------------------------------------------------------------------------------------------------------------------------------
# Alignment.gamma_k_disorder (alignment.py): the accumulator loop, translated statement by statement into a state transformer

STATE = ["total_disorder", "total_weight", "no_cat", "no_loop"]


class KTr:
    """expressions of the loop body.  Types: category : option Z; unit1, unit2 : option (option Z) (None = the empty unit, Some l = a unit whose
    annotation is l); every number is a Q; dissimilarity.<x> and the two d(unit1, unit2) calls are parameters."""

    def __init__(self):
        self.params = []
        self.locals = set(STATE)

    def param(self, name, ty="Q"):
        if (name, ty) not in self.params:
            if any(n == name for n, _ in self.params):
                raise Unsupported("parameter %s used at two types" % name)
            self.params.append((name, ty))
        return name

    def is_none_test(self, node):
        if isinstance(node, ast.Compare) and len(node.ops) == 1 and isinstance(node.comparators[0], ast.Constant) and node.comparators[0].value is None \
                and isinstance(node.left, ast.Name) and node.left.id in ("unit1", "unit2", "category"):
            v = node.left.id
            if v == "category":
                self.param("category", "option Z")
            t = "(match %s with None => true | Some _ => false end)" % v
            if isinstance(node.ops[0], ast.Is):
                return t
            if isinstance(node.ops[0], ast.IsNot):
                return "(negb %s)" % t
        return None

    def label(self, node):
        if isinstance(node, ast.Attribute) and node.attr == "annotation" and isinstance(node.value, ast.Name) and node.value.id in ("unit1", "unit2"):
            return "(match %s with Some l => l | None => None end)" % node.value.id
        if isinstance(node, ast.Name) and node.id == "category":
            return self.param("category", "option Z")
        return None

    def b(self, node):
        if isinstance(node, ast.BoolOp):
            op = "||" if isinstance(node.op, ast.Or) else "&&"
            return "(" + (" %s " % op).join(self.b(v) for v in node.values) + ")"
        if isinstance(node, ast.UnaryOp) and isinstance(node.op, ast.Not):
            return "(negb %s)" % self.b(node.operand)
        if isinstance(node, ast.Constant) and isinstance(node.value, bool):
            return "true" if node.value else "false"
        if isinstance(node, ast.Name) and node.id in ("no_cat", "no_loop"):
            return node.id
        t = self.is_none_test(node)
        if t:
            return t
        if isinstance(node, ast.Compare) and len(node.ops) == 1:
            l, r = self.label(node.left), self.label(node.comparators[0])
            if l and r and isinstance(node.ops[0], (ast.Eq, ast.NotEq)):
                e = "(cat_eqb_opt %s %s)" % (l, r)
                return e if isinstance(node.ops[0], ast.Eq) else "(negb %s)" % e
            a, c = self.q(node.left), self.q(node.comparators[0])
            op = node.ops[0]
            if isinstance(op, ast.Eq):
                return "(Qeq_bool %s %s)" % (a, c)
            if isinstance(op, ast.Lt):
                return "(negb (Qle_bool %s %s))" % (c, a)
            if isinstance(op, ast.LtE):
                return "(Qle_bool %s %s)" % (a, c)
            if isinstance(op, ast.Gt):
                return "(negb (Qle_bool %s %s))" % (a, c)
            if isinstance(op, ast.GtE):
                return "(Qle_bool %s %s)" % (c, a)
        raise Unsupported("test at line %d: %s" % (node.lineno, ast.unparse(node)[:70]))

    def q(self, node):
        if isinstance(node, ast.BinOp):
            op = {ast.Add: "+", ast.Sub: "-", ast.Mult: "*", ast.Div: "/"}.get(type(node.op))
            if op is None:
                raise Unsupported("operator at line %d" % node.lineno)
            return "(%s %s %s)" % (self.q(node.left), op, self.q(node.right))
        if isinstance(node, ast.Constant) and isinstance(node.value, (int, float)) and not isinstance(node.value, bool):
            v = node.value
            return frac_str(v) if not float(v).is_integer() else "%d" % int(v)
        if isinstance(node, ast.Name):
            return node.id if node.id in self.locals else self.param(node.id)
        if isinstance(node, ast.IfExp):
            return "(if %s then %s else %s)" % (self.b(node.test), self.q(node.body), self.q(node.orelse))
        if isinstance(node, ast.Attribute) and isinstance(node.value, ast.Name) and node.value.id == "dissimilarity":
            return self.param(node.attr)
        if isinstance(node, ast.Call):
            f = ast.unparse(node.func)
            if f == "max" and len(node.args) == 2 and isinstance(node.args[0], ast.Constant) and node.args[0].value == 0:
                return "(Qmax0 %s)" % self.q(node.args[1])
            if f in ("dissimilarity.positional_dissim.d", "dissimilarity.categorical_dissim.d") and [ast.unparse(a) for a in node.args] == ["unit1", "unit2"]:
                return self.param(f.split(".")[1] + "_d")
        raise Unsupported("expression at line %d: %s" % (node.lineno, ast.unparse(node)[:70]))

    def is_bool_value(self, node):
        return (isinstance(node, ast.Constant) and isinstance(node.value, bool)) or isinstance(node, (ast.BoolOp, ast.Compare)) \
            or (isinstance(node, ast.UnaryOp) and isinstance(node.op, ast.Not))


def transformer(tr, stmts, tail):
    """statement list -> expression of the state tuple after running it (`continue` / falling off the end yields `tail`)"""
    stmts = [st for st in stmts if not is_doc(st)]
    if not stmts:
        return tail
    st, rest = stmts[0], stmts[1:]
    if isinstance(st, ast.Continue):
        return tail
    if isinstance(st, ast.Assign) and len(st.targets) == 1 and isinstance(st.targets[0], ast.Name):
        e = tr.b(st.value) if tr.is_bool_value(st.value) else tr.q(st.value)
        tr.locals.add(st.targets[0].id)
        return "let %s := %s in\n    %s" % (st.targets[0].id, e, transformer(tr, rest, tail))
    if isinstance(st, ast.AugAssign) and isinstance(st.target, ast.Name) and isinstance(st.op, ast.Add):
        if st.target.id not in tr.locals:
            raise Unsupported("+= on an unknown variable at line %d" % st.lineno)
        return "let %s := (%s + %s) in\n    %s" % (st.target.id, st.target.id, tr.q(st.value), transformer(tr, rest, tail))
    if isinstance(st, ast.If):
        saved = set(tr.locals)
        a = transformer(tr, st.body + rest, tail)
        tr.locals = set(saved)
        b = transformer(tr, st.orelse + rest, tail)
        tr.locals = set(saved)
        return "(if %s\n    then %s\n    else %s)" % (tr.b(st.test), a, b)
    raise Unsupported("statement at line %d: %s" % (st.lineno, ast.unparse(st)[:70]))


def gen_gammak(out):
    tree = ast.parse(open(os.path.join(REPO, "pygamma_agreement", "alignment.py")).read())
    fn = None
    for c in tree.body:
        if isinstance(c, ast.ClassDef) and c.name == "Alignment":
            for f in c.body:
                if isinstance(f, ast.FunctionDef) and f.name == "gamma_k_disorder":
                    fn = f
    if fn is None:
        raise Unsupported("Alignment.gamma_k_disorder not found")
    body = [st for st in fn.body if not is_doc(st)]
    # prologue: the type guard, then the four accumulators
    if not (isinstance(body[0], ast.If) and "isinstance(dissimilarity, CombinedCategoricalDissimilarity)" in ast.unparse(body[0].test) and isinstance(body[0].body[0], ast.Raise)):
        raise Unsupported("gamma_k_disorder: the type guard is not the first statement")
    init = {}
    k = 1
    while k < len(body) and isinstance(body[k], ast.Assign) and isinstance(body[k].targets[0], ast.Name) and body[k].targets[0].id in STATE:
        init[body[k].targets[0].id] = ast.unparse(body[k].value)
        k += 1
    if init != {"total_disorder": "0", "total_weight": "0", "no_cat": "True", "no_loop": "True"}:
        raise Unsupported("gamma_k_disorder: accumulators are not initialised to 0, 0, True, True: %r" % init)
    loop = body[k]
    if not (isinstance(loop, ast.For) and ast.unparse(loop.iter) == "self" and isinstance(loop.target, ast.Name) and not loop.orelse):
        raise Unsupported("gamma_k_disorder: expected `for unitary_alignment in self`")
    ua = loop.target.id
    lb = [st for st in loop.body if not is_doc(st)]
    # nv = ua.nb_units ; if nv < 2: weight_base = 0 else: weight_base = 1 / (nv - 1) ; the double loop
    if len(lb) != 3 or ast.unparse(lb[0]) != "nv = %s.nb_units" % ua or not isinstance(lb[1], ast.If) or not isinstance(lb[2], ast.For):
        raise Unsupported("gamma_k_disorder: body of the outer loop has an unexpected shape")
    tr = KTr()
    tr.locals = set()
    wb = transformer(tr, [lb[1]], "weight_base")
    out += ["(* Alignment.gamma_k_disorder (alignment.py), line %d: the weight base of a unitary alignment with nv real units *)" % lb[1].lineno,
            "Definition weight_base_src %s: Q :=\n    %s." % ("".join("(%s : %s) " % p for p in sorted(tr.params)), wb)]
    outer, = [lb[2]]
    shape_outer = " ".join(("for %s in %s" % (ast.unparse(outer.target), ast.unparse(outer.iter))).split())
    if len(outer.body) != 1 or not isinstance(outer.body[0], ast.For):
        raise Unsupported("gamma_k_disorder: the pair loop is not a doubly nested for")
    inner = outer.body[0]
    shape_inner = " ".join(("for %s in %s" % (ast.unparse(inner.target), ast.unparse(inner.iter))).split())
    tr = KTr()
    tr.locals |= {"weight_base"}
    tr.param("weight_base")
    tr.locals.discard("weight_base")
    state = "(%s)" % ", ".join(STATE)
    text = transformer(tr, inner.body, state)
    ps = sorted(p for p in tr.params)
    out += ["(* lines %d-%d: one turn of the pair loop as a transformer of (total_disorder, total_weight, no_cat, no_loop) *)" % (inner.body[0].lineno, inner.body[-1].end_lineno),
            "Definition gk_body_src %s(unit1 unit2 : option (option Z)) (st : Q * Q * bool * bool) : Q * Q * bool * bool :=\n    let '(%s) := st in\n    %s."
            % ("".join("(%s : %s) " % p for p in ps), ", ".join(STATE), text)]
    # epilogue
    tr = KTr()
    fin = straight_k(tr, body[k + 1:])
    out += ["(* lines %d-%d: the value returned from the accumulators *)" % (body[k + 1].lineno, body[-1].end_lineno),
            "Definition gk_final_src (st : Q * Q * bool * bool) : Q :=\n    let '(%s) := st in\n    %s." % (", ".join(STATE), fin),
            "Definition gk_loops_src : list string := [%s; %s]." % ('"%s"' % shape_outer, '"%s"' % shape_inner)]
    # what nv is: the body of UnitaryAlignment.nb_units, and what the n_tuple setter resets (normalised text)
    ua_cls = [c for c in tree.body if isinstance(c, ast.ClassDef) and c.name == "UnitaryAlignment"]
    if len(ua_cls) != 1:
        raise Unsupported("class UnitaryAlignment not found")
    props = {}
    for f in ua_cls[0].body:
        if isinstance(f, ast.FunctionDef) and f.name in ("nb_units", "n_tuple", "__init__"):
            deco = " ".join(ast.unparse(d) for d in f.decorator_list)
            props[(f.name, deco)] = "; ".join(" ".join(ast.unparse(st).split()) for st in f.body if not is_doc(st))
    keys = [("nb_units", "property"), ("n_tuple", "property"), ("n_tuple", "n_tuple.setter"), ("__init__", "")]
    for k in keys:
        if k not in props:
            raise Unsupported("UnitaryAlignment.%s (%s) not found" % k)
    out += ["Definition unitary_alignment_src : list (string * string) := [%s]." % "; ".join('("%s", "%s")' % (("%s %s" % k).strip(), props[k].replace('"', '""')) for k in keys), ""]
    return [n for n, _ in ps]


def straight_k(tr, stmts):
    st, rest = stmts[0], stmts[1:]
    if isinstance(st, ast.Return):
        return tr.q(st.value)
    if isinstance(st, ast.If) and not st.orelse and len(st.body) == 1 and isinstance(st.body[0], ast.Return):
        return "if %s then %s else\n    %s" % (tr.b(st.test), tr.q(st.body[0].value), straight_k(tr, rest))
    raise Unsupported("statement at line %d: %s" % (st.lineno, ast.unparse(st)[:70]))
