"""C08 - alignment results do not depend on the MIP back-end (CBC usable / cylp not importable / CBC failing)."""
from fractions import Fraction

import alignchk as ac
import gen
from common import rng_for, close, TAU2

MODES = ["cbc", "glpk-noimport", "glpk-solvererror"]
RULE = ("every case is run under three solver configurations (CBC; cylp import masked -> GLPK; CBC raising SolverError -> GLPK), best and soft: "
        "each result is judged by the verified partition / cover checker, small cases are certified minimal by the verified search, medium "
        "ones (up to 2x14, 3x8, 4x5, 5x4 units) are compared across configurations within 2^-15; the solver actually passed to cvxpy is "
        "recorded and compared with the selection model (C08_fallback_total); 120 more continua with 3-4 annotators and combined dissimilarities are run under "
        "the import-masked fallback alone and judged by the partition checker; 160 dense continua (3 x 6 heavily overlapping integer-coordinate units) are aligned (best and soft) under CBC and under the fallback and their disorders compared; non-trivial = all three configurations returned and the "
        "alignment has a tuple with two real units; distinct by (units, dissimilarity)")
TRUSTED_BASE = ["Coq 8.16.1 kernel", "extraction (ExtrOcamlBasic only), ocaml/driver.ml", "harness/{common,align,alignchk,gen,c08}.py",
                "the import hook masking cylp and the wrapper around cvxpy.Problem.solve (installed in the importing process)"]
ASSUMPTIONS = ["both solvers are installed in the environment (cylp and GLPK_MI)", "rounding tolerance 2^-15 relative"]

EXPECTED = {"cbc": ["CBC"], "glpk-noimport": ["GLPK_MI"], "glpk-solvererror": ["CBC", "GLPK_MI"]}


def run(rep, tier, seed, pa):
    ac.install_backend_hooks()
    rng = rng_for(seed, "C08")
    small = ac.random_cases(rng, 60 if tier == "quick" else 600, tier, unlabelled_share=0.15, kmax={2: 5, 3: 4, 4: 3, 5: 2})
    medium = ac.random_cases(rng, 40 if tier == "quick" else 400, tier, unlabelled_share=0.1, kmax={2: 14, 3: 8, 4: 5, 5: 4})
    # fallback only, three or more annotators, combined dissimilarities: where the LP relaxation of the partition program has fractional
    # vertices, so that a fallback that is not an integer program shows as a result that is not a partition (not only as a solver name)
    frac = ac.random_cases(rng, 120 if tier == "quick" else 1200, tier, unlabelled_share=0.0, kmax={3: 5, 4: 4}, kinds=["comb"], ns=[3, 3, 4],
                           patterns=["perturbed", "random", "random", "nested", "samelabel"])
    # loosely matched units (gadgets whose best grouping costs between 2 and n delta_empty per tuple): optimal tuples a back-end-specific
    # shortcut on the candidate list would lose; both back-ends, disorders compared
    loose = ac.random_cases(rng, 40 if tier == "quick" else 400, tier, unlabelled_share=0.0, kmax={3: 3, 4: 3}, kinds=["pos", "pos", "comb"], ns=[3, 3, 4],
                            patterns=["farapart", "farapart", "longshort"])
    la = ac.align_many(pa, [(case, "cbc", False) for case in loose])
    lb = ac.align_many(pa, [(case, "glpk-noimport", False) for case in loose])
    for case, a, b in zip(loose, la, lb):
        rep.count("group=loose")
        ok = a["error"] is None and b["error"] is None
        rep.case(nontrivial_key=(repr(case["units"]), case["spec"], "loose") if ok else None)
        if ok and not close(Fraction(float(a["disorder"])), Fraction(float(b["disorder"])), TAU2):
            rep.violation("backend-disorder", {"units": case["units"], "dissim": case["spec"], "soft": False, "disorders": [float(a["disorder"]), float(b["disorder"])]},
                          "disorders differ across back-ends: CBC %r, fallback %r" % (float(a["disorder"]), float(b["disorder"])))
        elif not ok:
            rep.violation("does-not-return", {"units": case["units"], "dissim": case["spec"], "errors": [a["error"], b["error"]]},
                          "an alignment did not return: %r / %r" % (a["error"], b["error"]))
    items = list(zip(frac, ac.align_many(pa, [(case, "glpk-noimport", False) for case in frac])))
    for case, res in items:
        rep.count("group=fallback-3plus")
        rep.case(nontrivial_key=(repr(case["units"]), case["spec"], "fallback") if res["error"] is None else None)
        if res["error"] is None and [str(s) for s in res["solvers"]] != EXPECTED["glpk-noimport"]:
            rep.violation("solver-selection", {"units": case["units"], "dissim": case["spec"], "mode": "glpk-noimport", "soft": False,
                                               "solvers": [str(s) for s in res["solvers"]]},
                          "solve calls %r differ from the selection model %r" % (res["solvers"], EXPECTED["glpk-noimport"]))
    ac.judge_many(rep, items, part=True, want_optimal=False, limit=20, prefix="glpk-noimport:")
    # dense continua (3 annotators x 6 mutually overlapping units): programs on which a branch-and-bound really has to branch, so that an
    # approximate / truncated search in one back-end shows as a different disorder; best and soft, CBC against the import-masked fallback
    dense = []
    for _ in range(160 if tier == "quick" else 1600):
        units = []
        for a in range(3):
            us = set()
            while len(us) < 6:       # integer starts in 0..13, lengths 1..11: every unit overlaps most of the others
                st = rng.randrange(0, 14)
                us.add((float(st), float(st + rng.randrange(1, 12)), rng.choice("ABC")))
            units.append(sorted(us))
        dense.append({"units": units, "spec": rng.choice([("comb", 1.0, 1.0, 1.0, "abs", "abc", "asis"), ("comb", 1.0, 1.0, 1.0, "abs", "abc", "asis"), ("pos", 1.0),
                                                          ("comb", 0.5, 3.0, 1.0, "abs", "abc", "asis")]), "pattern": "dense", "unlabelled": False})
    for soft in (False, True):
        sub = dense if not soft else dense[:len(dense) // 2]
        r1 = ac.align_many(pa, [(case, "cbc", soft) for case in sub])
        r2 = ac.align_many(pa, [(case, "glpk-noimport", soft) for case in sub])
        for case, a, b in zip(sub, r1, r2):
            rep.count("group=dense")
            ok = a["error"] is None and b["error"] is None
            rep.case(nontrivial_key=(repr(case["units"]), case["spec"], soft, "dense") if ok else None)
            if ok and not close(Fraction(float(a["disorder"])), Fraction(float(b["disorder"])), TAU2):
                rep.violation("backend-disorder", {"units": case["units"], "dissim": case["spec"], "soft": soft,
                                                   "disorders": [float(a["disorder"]), float(b["disorder"])]},
                              "disorders differ across back-ends: CBC %r, fallback %r" % (float(a["disorder"]), float(b["disorder"])))
            elif not ok:
                rep.violation("does-not-return", {"units": case["units"], "dissim": case["spec"], "soft": soft, "errors": [a["error"], b["error"]]},
                              "an alignment did not return: %r / %r" % (a["error"], b["error"]))
    for grp, cases in (("small", small), ("medium", medium)):
        for soft in (False, True):
            per_mode = {}
            for mode in MODES:
                items = list(zip(cases, ac.align_many(pa, [(case, mode, soft) for case in cases])))
                for case, res in items:
                    if res["error"] is None and [str(s) for s in res["solvers"]] != EXPECTED[mode]:
                        rep.violation("solver-selection", {"units": case["units"], "dissim": case["spec"], "mode": mode, "soft": soft,
                                                           "solvers": [str(s) for s in res["solvers"]]},
                                      "solve calls %r differ from the selection model %r" % (res["solvers"], EXPECTED[mode]))
                facts = ac.judge_many(rep, items, part=not soft, want_optimal=(grp == "small"), limit=20, prefix="%s:" % mode)
                per_mode[mode] = (items, facts)
            for k, case in enumerate(cases):
                ds = []
                for mode in MODES:
                    res = per_mode[mode][0][k][1]
                    ds.append(None if res["error"] is not None else Fraction(float(res["disorder"])))
                ok = all(d is not None for d in ds)
                if ok and not (close(ds[0], ds[1], TAU2) and close(ds[0], ds[2], TAU2)):
                    rep.violation("backend-disorder", {"units": case["units"], "dissim": case["spec"], "soft": soft,
                                                       "disorders": [float(d) for d in ds]},
                                  "disorders differ across back-ends: %r" % ([float(d) for d in ds],))
                r0 = per_mode["cbc"][0][k][1]
                I = r0.get("I")
                nontriv = ok and I is not None and r0["tuples"] and all(t is not None for t in r0["tuples"]) and \
                    max(sum(1 for a, v in enumerate(t) if v < I.sizes[a]) for t in r0["tuples"]) >= 2
                rep.count("group=" + grp)
                rep.count("soft" if soft else "best")
                rep.case(sample={"sizes": I.sizes if I else None, "dissim": case["spec"], "soft": soft,
                                 "disorders_cbc_glpk_glpk": [float(d) if d is not None else None for d in ds]},
                         nontrivial_key=(repr(case["units"]), case["spec"], soft) if nontriv else None)


def replay(rep, data, pa):
    ac.install_backend_hooks()
    case = {"units": [[tuple(u) for u in us] for us in data["units"]], "spec": tuple(data["dissim"]), "pattern": "replay", "unlabelled": False}
    soft = bool(data.get("soft"))
    ds = []
    for mode in MODES:
        res = ac.align_case(pa, case, mode, soft=soft)
        res["mode"] = mode
        ac.judge_many(rep, [(case, res)], part=not soft, want_optimal=False, prefix="%s:" % mode)
        if res["error"] is None:
            ds.append(Fraction(float(res["disorder"])))
            if [str(s) for s in res["solvers"]] != EXPECTED[mode]:
                rep.violation("solver-selection", {}, "solver selection differs")
    if len(ds) == 3 and not (close(ds[0], ds[1], TAU2) and close(ds[0], ds[2], TAU2)):
        rep.violation("backend-disorder", {}, "disorders differ across back-ends: %r" % ([float(d) for d in ds],))
    for key, path, what in rep.violations:
        print("  ", what)
    return not rep.violations
