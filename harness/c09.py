"""C09 - disorder and gamma are invariant under renaming, translation and scaling (metamorphic, implementation only: the continua are far
beyond the exact oracle's reach; the theorems of props/C09.v are what justifies using the relations as an oracle)."""
from fractions import Fraction

import numpy as np

import gen
from common import rng_for, close, TAU2, frac

RULE = ("continua from VERIF_SEED of sizes up to 2x60, 3x15, 4x7, 5x5 units (smaller in quick) x dissimilarities (positional, combined with absolute / "
        "precomputed / ordinal categorical part) x transformations: bijective annotator renaming that changes the sort order, translation by a "
        "grid constant (both signs), scaling by 2, 4, 1/2, 3, 5, category renaming (arbitrary bijection for absolute - also on continua mixing labelled and unlabelled units -, order-preserving for table / "
        "ordinal), delta_empty x {1/2, 2, 4} in all components (disorder must scale, seeded gamma must not move); best-alignment disorders "
        "compared within 2^-15 relative; non-trivial = original disorder > 0 and at least 10 units; distinct by (continuum, dissimilarity, transformation)")
TRUSTED_BASE = ["Coq 8.16.1 kernel (theorems of props/C09.v)", "harness/{common,gen,c09}.py", "the MIP solver's optimum is compared with itself on the transformed input"]
ASSUMPTIONS = ["transformations keep inputs exactly representable in float32 (grid shifts, small integer / power-of-two factors)", "tolerance 2^-15 relative"]


def transform_units(units, f):
    return [sorted((f(s, e, l) for (s, e, l) in us), key=lambda t: (t[0], t[1], t[2] is not None, t[2] or "")) for us in units]


def build(pa, units, names=None):
    return gen.build_continuum(pa, units, names)


def disorder(pa, units, spec, names=None, mk=None):
    """in a forked child with a hard limit: a solver that crashes or never returns on a (transformed) input must not take the check down"""
    import alignchk as ac

    def job():
        cont = build(pa, units, names)
        d = mk(pa) if mk else gen.make_dissim(pa, spec)
        return float(cont.get_best_alignment(d).disorder)
    return ac.run_forked(300, job)


def mk_dissim(kind, alpha, beta, de, labels):
    """returns a constructor pa -> dissimilarity for the given label list (labels matter for table/ordinal)"""
    def mk(pa):
        from sortedcontainers import SortedSet
        if kind == "pos":
            return pa.PositionalSporadicDissimilarity(delta_empty=de)
        if kind == "abs":
            return pa.CombinedCategoricalDissimilarity(alpha=alpha, beta=beta, delta_empty=de)
        if kind == "pre":
            cats = SortedSet(labels)
            k = len(cats)
            m = np.zeros((k, k), dtype=np.float32)
            for i in range(k):
                for j in range(i):
                    m[i, j] = m[j, i] = ((i * 5 + j * 3) % 8 + 1) / 8
            cat = pa.PrecomputedCategoricalDissimilarity(cats, m, delta_empty=1.0)
            return pa.CombinedCategoricalDissimilarity(alpha=alpha, beta=beta, delta_empty=de, cat_dissim=cat)
        if kind == "ord":
            s = sorted(labels)
            cat = pa.OrdinalCategoricalDissimilarity(s, p=[float(i * i) for i in range(len(s))], delta_empty=1.0)
            return pa.CombinedCategoricalDissimilarity(alpha=alpha, beta=beta, delta_empty=de, cat_dissim=cat)
        raise ValueError(kind)
    return mk


def run(rep, tier, seed, pa):
    rng = rng_for(seed, "C09")
    shapes = [(2, 25), (3, 8), (4, 5), (5, 4)] if tier == "quick" else [(2, 60), (3, 15), (4, 7), (5, 5), (2, 30), (3, 10)]
    ncases = 36 if tier == "quick" else 200
    labels = ["A", "B", "C"]
    for ci in range(ncases):
        n, k = shapes[ci % len(shapes)]
        pattern = rng.choice(["perturbed", "random", "disjoint", "intgrid", "staircase", "staircase", "longshort", "longshort"])
        sizes = [rng.randrange(max(1, k - 3), k + 1) for _ in range(n)]
        kind = rng.choice(["pos", "abs", "abs", "pre", "ord"])
        # continua mixing labelled and unlabelled units (only where the dissimilarity has no category table): an unlabelled unit must not
        # be confused with any label, whatever the labels are called
        unl = 0.35 if kind in ("pos", "abs") and ci % 3 == 0 else False
        units = gen.gen_units(rng, n, sizes, pattern, labels, unl)
        if unl:
            rep.count("mixed_unlabelled")
        alpha, beta = rng.choice([0.5, 1.0, 3.0]), rng.choice([0.5, 1.0, 3.0])
        de = rng.choice([0.5, 1.0, 2.0])
        mk = mk_dissim(kind, alpha, beta, de, labels)
        try:
            base = disorder(pa, units, None, mk=mk)
        except BaseException as e:
            rep.case()
            rep.violation("raises", {"units": units, "kind": kind, "error": repr(e)}, "get_best_alignment raised %r" % (e,))
            continue
        nunits = sum(len(u) for u in units)
        results = []
        maps = {}

        def tr(name, thunk, want):
            try:
                results.append((name, thunk(), want))
            except BaseException as e:      # the library raising / crashing / not returning on a transformed input is a failing input
                rep.case()
                rep.violation("raises-after:" + name.split("*")[0].split("+")[0].rstrip("-0123456789."),
                              {"units": units, "kind": kind, "alpha": alpha, "beta": beta, "de": de, "transformation": name, "error": repr(e)},
                              "get_best_alignment raised %r after %s (it returned %r before)" % (e, name, base))
        # 1. annotators renamed by a bijection that reverses the sort order
        names = list(reversed(["zeta", "mu", "kappa", "beta", "alpha"][:n]))
        rng.shuffle(names)
        maps["rename-annotators"] = list(names)
        tr("rename-annotators", lambda: disorder(pa, units, None, names=names, mk=mk), base)
        # 2. translation
        c = rng.choice([-512, -3, 7, 1000, 4096]) + rng.randrange(0, 64) / 64.0
        tr("shift%+g" % c, lambda: disorder(pa, transform_units(units, lambda s, e, l: (s + c, e + c, l)), None, mk=mk), base)
        # 3. scaling
        f = rng.choice([2.0, 4.0, 0.5, 3.0, 5.0])
        tr("scale*%g" % f, lambda: disorder(pa, transform_units(units, lambda s, e, l: (s * f, e * f, l)), None, mk=mk), base)
        # 4. category renaming
        if kind == "abs":
            ren = dict(zip(labels, rng.sample(["zz", "B", "k9", "Aa", "m"], 3)))
            ren[None] = None
            maps["rename-categories-arbitrary"] = [[k, v] for k, v in ren.items()]
            tr("rename-categories-arbitrary", lambda: disorder(pa, transform_units(units, lambda s, e, l: (s, e, ren[l])), None, mk=mk), base)
        elif kind in ("pre", "ord"):
            ren = dict(zip(sorted(labels), ["b1", "b2", "c0"]))
            mk2 = mk_dissim(kind, alpha, beta, de, [ren[l] for l in labels])
            maps["rename-categories-order-preserving"] = [[k, v] for k, v in ren.items()]
            tr("rename-categories-order-preserving", lambda: disorder(pa, transform_units(units, lambda s, e, l: (s, e, ren[l])), None, mk=mk2), base)
        # 5. delta_empty scaling in all components
        cde = rng.choice([0.5, 2.0, 4.0])
        mk3 = mk_dissim(kind, alpha, beta, de * cde, labels)
        tr("delta_empty*%g" % cde, lambda: disorder(pa, units, None, mk=mk3), base * cde)
        for name, got, want in results:
            rep.count("transformation=" + name.split("*")[0].split("+")[0].split("-5")[0])
            rep.case(sample={"shape": [len(u) for u in units], "kind": kind, "transformation": name, "disorder": got, "expected": want},
                     nontrivial_key=(repr(units), kind, name) if base > 0 and nunits >= 10 else None)
            if not close(got, want, TAU2):
                rep.violation("invariance:" + name.split("*")[0].split("+")[0].rstrip("-0123456789."),
                              {"units": units, "kind": kind, "alpha": alpha, "beta": beta, "de": de, "transformation": name,
                               "map": maps.get(name), "disorder": got, "expected": want},
                              "disorder %r after %s, expected %r" % (got, name, want))
        # gamma under delta_empty scaling, same seed
        if ci % 4 == 0 and all(len(u) > 0 for u in units):
            s = rng.randrange(10 ** 6)
            gs = []
            import alignchk as ac
            for m in (mk, mk3):
                def gjob(m=m):
                    np.random.seed(s)
                    cont = build(pa, units)
                    return float(cont.compute_gamma(m(pa), n_samples=4, sampler=pa.ShuffleContinuumSampler()).gamma)
                try:
                    gs.append(ac.run_forked(600, gjob))     # forked: a solver crashing on a chance sample must not take the check down
                except BaseException as e:
                    gs.append(Exception("%s: %s" % (type(e).__name__, e)))
            rep.count("gamma_pairs")
            rep.case(sample={"gamma": [str(g) for g in gs], "delta_empty_factor": cde})
            if any(isinstance(g, Exception) for g in gs) or not close(gs[0], gs[1], TAU2 * 4):
                rep.violation("gamma-delta_empty", {"units": units, "kind": kind, "alpha": alpha, "beta": beta, "de": de, "factor": cde, "seed": s,
                                                    "gammas": [str(g) for g in gs]}, "seeded gamma moved under delta_empty scaling: %r" % (gs,))


def replay(rep, data, pa):
    print("  C09 replay: transformation %s on recorded units; disorder %r expected %r" % (data.get("transformation"), data.get("disorder"), data.get("expected")))
    units = [[tuple(u) for u in us] for us in data["units"]]
    kind, alpha, beta, de = data["kind"], data["alpha"], data["beta"], data["de"]
    labels = ["A", "B", "C"]
    mk = mk_dissim(kind, alpha, beta, de, labels)
    base = disorder(pa, units, None, mk=mk)
    name = data["transformation"]
    ok = True
    if name.startswith("scale*"):
        f = float(name.split("*")[1])
        got = disorder(pa, transform_units(units, lambda s, e, l: (s * f, e * f, l)), None, mk=mk)
        ok = close(got, base, TAU2)
    elif name.startswith("shift"):
        c = float(name[5:])
        got = disorder(pa, transform_units(units, lambda s, e, l: (s + c, e + c, l)), None, mk=mk)
        ok = close(got, base, TAU2)
    elif name.startswith("delta_empty*"):
        c = float(name.split("*")[1])
        got = disorder(pa, units, None, mk=mk_dissim(kind, alpha, beta, de * c, labels))
        ok = close(got, base * c, TAU2)
    elif name.startswith("rename-categories"):
        ren = {(k if k is not None else None): v for k, v in (data.get("map") or [])}
        if not ren:
            print("   the record carries no category map")
            return False
        mk2 = mk if name.endswith("arbitrary") else mk_dissim(kind, alpha, beta, de, [ren[l] for l in labels])
        got = disorder(pa, transform_units(units, lambda s, e, l: (s, e, ren[l])), None, mk=mk2)
        ok = close(got, base, TAU2)
    else:
        names = data.get("map") or list(reversed(["zeta", "mu", "kappa", "beta", "alpha"][:len(units)]))
        got = disorder(pa, units, None, names=names, mk=mk)
        ok = close(got, base, TAU2)
    print("   now: base %r transformed %r" % (base, got))
    return ok
