"""C20 - command-line results equal the API results for the same options (partial).

The option table and the option -> dissimilarity / compute_gamma wiring are regenerated from cli_apps.py on every run (harness/gen_tables.py ->
coq/gen/CliGen.v) and the theorems of props/C20.v are re-proved against them.  The correspondence runs the command-line entry point in-process
(patched sys.argv, captured stdout / output files) on generated CSV and RTTM files and compares every reported number with the library API
called with the configuration the options denote (same seed), for the three output modes."""
import ast
import contextlib
import csv
import io
import json
import os
import re
import sys
import tempfile

import numpy as np

import gen
from common import rng_for, close, frac
from fractions import Fraction

RULE = ("option sets from VERIF_SEED: -a -e in {.5,1,2,3}, -b in {0,.5,1,2,3}, -p in {.5,.9}, -n in 2..4, -d in {absolute, numerical, levenshtein}, -m, -c, -k, --seed (incl. 0), "
        "-s in {',', ';'}, output mode in {print, -o, -j} (every combination of -c / -k with every output mode is covered), 1..3 input files (csv; rttm) whose label sets are subsets of one another with 2..3 annotators x 3..5 units and numeric or word labels; "
        "non-trivial = a non-default -d, -a/-b/-e different from 1, or -m; distinct by (files, options)")
TRUSTED_BASE = ["Coq 8.16.1 kernel (props/C20.v over the regenerated table)", "harness/gen_tables.py (AST translator, fail-closed)", "harness/{common,gen,c20}.py",
                "argparse itself; the number formatting / parsing of print, csv and json"]
ASSUMPTIONS = ["numbers are compared after parsing with relative tolerance 1e-6 (print shows float32 repr, csv / json show the float64 expansion)",
               "option sets for which the API itself raises, or returns a non-finite value (gamma-k / gamma-cat with a zero expected disorder is -inf), are skipped and counted"]
TOL = Fraction(1, 10 ** 6)


def write_input(rng, dd, k, fmt, labels, delim):
    n = rng.choice([2, 3])
    units = gen.gen_units(rng, n, [rng.randrange(3, 6) for _ in range(n)], rng.choice(["perturbed", "disjoint"]), labels)
    path = os.path.join(dd, "in%d.%s" % (k, fmt))
    if fmt == "csv":
        with open(path, "w", newline="") as f:
            w = csv.writer(f, delimiter=delim)
            for a, us in enumerate(units):
                for (s, e, l) in us:
                    w.writerow(["ann%d" % a, l, repr(s), repr(e)])
    else:
        with open(path, "w") as f:
            for a, us in enumerate(units):
                for (s, e, l) in us:
                    f.write("SPEAKER ann%d 1 %r %r <NA> <NA> %s <NA> <NA>\n" % (a, s, e - s, l))
    return path


def run_cli(pa, argv):
    from pygamma_agreement import cli_apps
    old = sys.argv
    sys.argv = ["pygamma-agreement"] + argv
    buf = io.StringIO()
    try:
        with contextlib.redirect_stdout(buf):
            cli_apps.pygamma_cmd()
    finally:
        sys.argv = old
    return buf.getvalue()


def api_reference(pa, files, o):
    """what the options denote, through the library API"""
    if o["seed"] is not None:
        np.random.seed(o["seed"])
    res = []
    for path in files:
        cont = pa.Continuum.from_csv(path, delimiter=o["sep"]) if o["fmt"] == "csv" else pa.Continuum.from_rttm(path)
        cat = None
        if o["d"] == "levenshtein":
            cat = pa.LevenshteinCategoricalDissimilarity(cont.categories)
        elif o["d"] == "numerical":
            cat = pa.NumericalCategoricalDissimilarity(cont.categories)
        dissim = pa.CombinedCategoricalDissimilarity(alpha=o["a"], beta=o["b"], delta_empty=o["e"], cat_dissim=cat)
        sampler = pa.ShuffleContinuumSampler() if o["m"] else None
        g = cont.compute_gamma(dissimilarity=dissim, precision_level=o["p"], fast=True, sampler=sampler, n_samples=o["n"])
        r = {"gamma": float(g.gamma)}
        if o["c"]:
            r["gamma-cat"] = float(g.gamma_cat)
        if o["k"]:
            r["gamma-k"] = {c: float(g.gamma_k(c)) for c in cont.categories}
        res.append((path, r))
    return res


def parse_print(text, files, o):
    lines = [l for l in text.splitlines() if l.strip() and "simplex" not in l and "Discarded" not in l]
    res, i = [], 0
    for path in files:
        if i >= len(lines) or lines[i] != str(path):
            return None
        i += 1
        r = {"gamma": float(lines[i].split("=", 1)[1])}
        i += 1
        if o["c"]:
            r["gamma-cat"] = float(lines[i].split("=", 1)[1])
            i += 1
        if o["k"]:
            r["gamma-k"] = {}
            while i < len(lines) and lines[i].startswith("gamma-k("):
                m = re.match(r"gamma-k\('(.*)'\)=(.*)", lines[i])
                r["gamma-k"][m.group(1)] = float(m.group(2))
                i += 1
        res.append((path, r))
    return res


def parse_csv(path, files, o):
    rows = list(csv.reader(open(path, newline=""), delimiter=o["sep"]))
    head, body = rows[0], rows[1:]
    # the header names the reported measures, in the order of the cells
    if head != ["filename", "gamma"] + (["gamma-cat"] if o["c"] else []) + (["gamma-k"] if o["k"] else []):
        raise ValueError("CSV header %r does not name the requested measures" % (head,))
    res = []
    for row in body:
        r = {"gamma": float(row[1])}
        j = 2
        if o["c"]:
            r["gamma-cat"] = float(row[j])
            j += 1
        if o["k"]:
            r["gamma-k"] = {k: float(v) for k, v in ast.literal_eval(row[j]).items()}
        res.append((row[0], r))
    return res


def parse_json(path, files, o):
    d = json.load(open(path))
    return [(k, {kk: (vv if not isinstance(vv, dict) else dict(vv)) for kk, vv in v.items()}) for k, v in d.items()]


def same(a, b):
    if a is None or b is None or len(a) != len(b):
        return False
    for (pa_, ra), (pb, rb) in zip(a, b):
        if str(pa_) != str(pb) or set(ra) != set(rb):
            return False
        for k in ra:
            if isinstance(ra[k], dict):
                if set(ra[k]) != set(rb[k]) or any(not close(ra[k][c], rb[k][c], TOL) for c in ra[k]):
                    return False
            elif not close(ra[k], rb[k], TOL):
                return False
    return True


def run(rep, tier, seed, pa):
    rng = rng_for(seed, "C20")
    nsets = 16 if tier == "quick" else 120
    # the first twelve option sets run through every combination of (-c, -k) x output mode; the others are drawn
    grid = [(c, k, out) for out in ("json", "csv", "print") for (c, k) in ((False, True), (True, False), (True, True), (False, False))]
    for si in range(nsets):
        o = {"a": rng.choice([0.5, 1, 2, 3]), "b": rng.choice([0.5, 1, 2, 3]), "e": rng.choice([0.5, 1, 2]), "p": rng.choice([0.5, 0.9]),
             "n": rng.choice([2, 3, 4]), "d": rng.choice(["absolute", "numerical", "levenshtein"]), "m": rng.random() < 0.4, "c": rng.random() < 0.6,
             "k": rng.random() < 0.5, "seed": rng.choice([None, 0, 4772, rng.randrange(10 ** 6)]), "sep": rng.choice([",", ",", ";"]),
             "fmt": rng.choice(["csv", "csv", "rttm"]), "out": rng.choice(["print", "csv", "json"])}
        if si < len(grid):
            o["c"], o["k"], o["out"] = grid[si]
        targeted = si % 4 == 3
        if si % 4 == 1:      # beta = 0 with a table-based categorical dissimilarity: gamma does not see it, gamma-cat / gamma-k do
            o.update({"b": 0, "d": rng.choice(["levenshtein", "numerical"]), "c": True})
        if targeted:     # several files with nested numeric category sets of different spreads: each file must get ITS OWN categorical dissimilarity
            o.update({"d": "numerical", "fmt": "csv", "b": rng.choice([1, 2, 3])})
        if o["seed"] is None:
            o["seed"] = rng.choice([0, rng.randrange(10 ** 6)])      # unseeded runs cannot be compared; the option itself is covered by the wiring theorem
        labels = ["1", "2", "3.5", "10"] if o["d"] == "numerical" else gen.LABEL_SETS[rng.choice(["abc", "words"])]
        if o["fmt"] == "rttm":
            labels = [l for l in labels if " " not in l]
        with tempfile.TemporaryDirectory(prefix="pgaverif_") as dd:
            # each file draws its labels from its own subset (files of one invocation may have nested / different category sets)
            nfiles = rng.choice([1, 2, 2, 3])
            subsets = [labels] + [sorted(rng.sample(labels, rng.randrange(2, len(labels) + 1))) for _ in range(nfiles - 1)]
            rng.shuffle(subsets)
            if targeted:
                nfiles = rng.choice([2, 3])
                subsets = [["1", "2", "3.5", "10"], ["1", "2", "3.5"], ["1", "2"]][:nfiles]
            files = [write_input(rng, dd, k, o["fmt"], subsets[k], o["sep"]) for k in range(nfiles)]
            argv = [str(f) for f in files] + ["-a", str(o["a"]), "-b", str(o["b"]), "-e", str(o["e"]), "-p", str(o["p"]), "-n", str(o["n"]),
                                             "-d", o["d"], "--seed", str(o["seed"]), "-s", o["sep"], "-f", o["fmt"]]
            for flag, key in (("-m", "m"), ("-c", "c"), ("-k", "k")):
                if o[key]:
                    argv.append(flag)
            outp = None
            if o["out"] == "csv":
                outp = os.path.join(dd, "out.csv")
                argv += ["-o", outp]
            elif o["out"] == "json":
                outp = os.path.join(dd, "out.json")
                argv += ["-j", outp]
            desc = {"options": o, "argv": [a if not a.startswith(dd) else os.path.basename(a) for a in argv],
                    "inputs": [open(f).read() for f in files]}
            try:
                ref = api_reference(pa, files, o)
            except Exception as e:
                rep.count("api_raises_skipped:" + type(e).__name__)
                continue
            import math
            vals = [v for _, r in ref for x in r.values() for v in (x.values() if isinstance(x, dict) else [x])]
            if not all(math.isfinite(v) for v in vals):
                # a gamma-k / gamma-cat with a zero expected disorder is infinite: outside the statement (and not printable in the CSV cell)
                rep.count("non_finite_api_value_skipped")
                continue
            try:
                text = run_cli(pa, argv)
                got = parse_print(text, files, o) if o["out"] == "print" else (parse_csv(outp, files, o) if o["out"] == "csv" else parse_json(outp, files, o))
            except SystemExit as e:
                got = "exit %r" % (e.code,)
            except Exception as e:
                got = "raised %s: %s" % (type(e).__name__, e)
        rep.count("output=" + o["out"])
        rep.count("cat_dissim=" + o["d"])
        rep.count("format=" + o["fmt"])
        ok = not isinstance(got, str) and same(ref, got)
        nontriv = o["d"] != "absolute" or o["a"] != 1 or o["b"] != 1 or o["e"] != 1 or o["m"]
        rep.case(sample={"argv": desc["argv"], "api": [r for _, r in ref], "cli": got if isinstance(got, str) else [r for _, r in got], "agree": ok},
                 nontrivial_key=json.dumps(desc, sort_keys=True, default=str) if nontriv else None)
        if not ok:
            rep.violation("cli-vs-api:" + (o["out"] if not isinstance(got, str) else "crash-" + o["out"]),
                          dict(desc, api=[r for _, r in ref], cli=got if isinstance(got, str) else [r for _, r in got]),
                          "command line (%s output, -d %s) reports %r, the API with the same options gives %r" % (
                              o["out"], o["d"], got if isinstance(got, str) else [r for _, r in got], [r for _, r in ref]))


def replay(rep, data, pa):
    o = data["options"]
    with tempfile.TemporaryDirectory(prefix="pgaverif_") as dd:
        files = []
        for k, content in enumerate(data["inputs"]):
            p = os.path.join(dd, "in%d.%s" % (k, o["fmt"]))
            open(p, "w", newline="").write(content)
            files.append(p)
        argv = [a if not a.startswith("in") and not a.startswith("out.") else os.path.join(dd, a) for a in data["argv"]]
        ref = api_reference(pa, files, o)
        try:
            text = run_cli(pa, argv)
            outp = os.path.join(dd, "out.csv" if o["out"] == "csv" else "out.json")
            got = parse_print(text, files, o) if o["out"] == "print" else (parse_csv(outp, files, o) if o["out"] == "csv" else parse_json(outp, files, o))
        except BaseException as e:
            got = "raised %r" % (e,)
    print("  api:", [r for _, r in ref])
    print("  cli:", got if isinstance(got, str) else [r for _, r in got])
    return not isinstance(got, str) and same(ref, got)
