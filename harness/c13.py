"""C13 - the continuum behaves as sorted unit sets per annotator under any history.

Histories of add / add_annotator / remove / merge (in place, out of place, +) / copy / copy_flush / reset_bounds are run on real
Continuum objects and on the Gallina container model (Cont/Model.v); after every operation the outcome (ok / zero-length rejected /
key error) and every observation of every register (annotators, per-annotator unit lists, iteration order, categories, counts,
bounds, truthiness) and the pairwise == matrix must be identical."""
import itertools
from fractions import Fraction

from common import rng_for, run_model, coq_eval, frac

RULE = ("exhaustive histories to depth 2 (quick) / 3 (thorough) over a 52-operation alphabet (2 registers, annotators a/b, segments (0,2) (1,3) and "
        "zero-length (1,1), labels None/'A'; final observation compared, every prefix being itself enumerated) + random histories of length "
        "10..60 over a larger alphabet (3 registers, 3 annotators, 7 segments incl. zero-length, negative and nested, labels None '' 'A' 'B'; "
        "observation compared after EVERY operation); non-trivial = the history contains a remove or a merge after at least two successful "
        "adds; distinct by operation sequence")
TRUSTED_BASE = ["Coq 8.16.1 kernel", "extraction (ExtrOcamlBasic only), ocaml/driver.ml",
                "harness/{common,c13}.py: order-preserving integer ranks for annotator names and labels, exact time scaling",
                "sortedcontainers and pyannote.core.Segment are exercised through the Continuum API only"]
ASSUMPTIONS = ["annotator names and labels are compared as Python str (the model uses order-preserving integer ranks)",
               "SEGMENT_PRECISION = 1e-6 as in pyannote.core 6.0.1"]

LABELS = [None, "", "A", "B"]
NAMES = ["a", "b", "c"]


class Enc:
    def __init__(self):
        from pyannote.core.segment import SEGMENT_PRECISION
        self.prec = Fraction(SEGMENT_PRECISION)
        self.k = 80
        self.scale = 2 ** self.k
        self.lab = {l: i for i, l in enumerate(sorted(l for l in LABELS if l is not None))}
        self.ann = {a: i for i, a in enumerate(sorted(NAMES))}

    def z(self, x):
        v = frac(x) * self.scale
        assert v.denominator == 1
        return v.numerator

    def unit(self, s, e, l):
        return [self.z(s), self.z(e)] + ([0] if l is None else [1, self.lab[l]])

    def op(self, o):
        k = o[0]
        if k == "add":
            return [0, o[1], self.ann[o[2]]] + self.unit(*o[3])
        if k == "addann":
            return [1, o[1], self.ann[o[2]]]
        if k == "remove":
            return [2, o[1], self.ann[o[2]]] + self.unit(*o[3])
        if k == "merge_in":
            return [3, o[1], o[2]]
        if k in ("merge_new", "plus"):
            return [4, o[1], o[2], o[3]]
        if k == "copy":
            return [5, o[1], o[2]]
        if k == "flush":
            return [6, o[1], o[2]]
        if k == "reset":
            return [7, o[1]]
        raise ValueError(o)


def apply_op(pa, regs, o):
    """run one operation on the real objects; returns outcome code 0/1/2 or raises"""
    from pyannote.core import Segment
    Unit = pa.continuum.Unit
    k = o[0]
    try:
        if k == "add":
            s, e, l = o[3]
            regs[o[1]].add(o[2], Segment(s, e), l)
        elif k == "addann":
            regs[o[1]].add_annotator(o[2])
        elif k == "remove":
            s, e, l = o[3]
            regs[o[1]].remove(o[2], Unit(Segment(s, e), l))
        elif k == "merge_in":
            r = regs[o[1]].merge(regs[o[2]], in_place=True)
            assert r is None
        elif k == "merge_new":
            regs[o[1]] = regs[o[2]].merge(regs[o[3]], in_place=False)
        elif k == "plus":
            regs[o[1]] = regs[o[2]] + regs[o[3]]
        elif k == "copy":
            regs[o[1]] = regs[o[2]].copy()
        elif k == "flush":
            regs[o[1]] = regs[o[2]].copy_flush()
        elif k == "reset":
            regs[o[1]].reset_bounds()
    except ValueError as e:
        if k == "add" and "duration 0.0" in str(e):
            return 1
        raise
    except KeyError:
        if k == "remove":
            return 2
        raise
    return 0


def observe(enc, c):
    """every observation the property names, through the public API; returns (int list, inconsistency or None)"""
    anns = list(c.annotators)
    per = {a: list(c[a]) for a in anns}
    it = list(c)
    bad = None
    if it != [(a, u) for a in anns for u in per[a]]:
        bad = "iteration order differs from annotators x continuum[annotator]"
    for a in anns:
        if list(c.iterunits(a)) != per[a] or list(c.iter_annotator(a)) != per[a]:
            bad = "iterunits / iter_annotator differ from continuum[annotator]"
    out = [len(anns)]
    for a in anns:
        out.append(enc.ann[a])
        out.append(len(per[a]))
        for u in per[a]:
            out += enc.unit(u.segment.start, u.segment.end, u.annotation)
    cats = list(c.categories)
    out.append(len(cats))
    out += [enc.lab[x] for x in cats]
    b = c.bounds
    out += [enc.z(b[0]), enc.z(b[1]), 1 if bool(c) else 0, len(c), c.num_units]
    if c.num_annotators != len(c):
        bad = "num_annotators differs from len"
    # derived counts and statistics must be those of the unit lists just observed (which are compared with the model)
    sizes = [len(per[a]) for a in anns]
    if int(c.max_num_annotations_per_annotator) != (max(sizes) if sizes else 0):
        bad = "max_num_annotations_per_annotator is not the largest number of units of an annotator"
    if anns and abs(c.avg_num_annotations_per_annotator - sum(sizes) / len(anns)) > 1e-12:
        bad = "avg_num_annotations_per_annotator is not units / annotators"
    if sum(sizes):
        mean = sum(u.segment.end - u.segment.start for a in anns for u in per[a]) / sum(sizes)
        if abs(c.avg_length_unit - mean) > 1e-9 * max(1.0, abs(mean)):
            bad = "avg_length_unit is not the mean duration of the units"
        labelled = [u.annotation for a in anns for u in per[a] if u.annotation is not None]
        if len(labelled) == sum(sizes):      # (on continua with unlabelled units the property is not defined: None and str keys do not compare)
            w = c.category_weights
            if list(w.keys()) != sorted(set(labelled)) or any(abs(w[k] - labelled.count(k) / len(labelled)) > 1e-12 for k in w):
                bad = "category_weights are not the relative frequencies of the labels"
    return out, bad


def eq_matrix(regs):
    out = []
    for c in regs:
        for d in regs:
            e = (c == d)
            if (c != d) == e:
                return None
            out.append(1 if e else 0)
    return out


def run_history(pa, enc, nregs, ops, every):
    """returns (python trace as int list, error string or None)"""
    regs = [pa.Continuum() for _ in range(nregs)]
    trace, outs = [], []
    for o in ops:
        try:
            code = apply_op(pa, regs, o)
        except Exception as e:
            return None, "operation %r raised %s: %s" % (o, type(e).__name__, e)
        obs = []
        if every or o is ops[-1]:
            for c in regs:
                ob, bad = observe(enc, c)
                if bad:
                    return None, bad
                obs += ob
            eqm = eq_matrix(regs)
            if eqm is None:
                return None, "== and != are not complementary"
            obs += eqm
        if every:
            trace += [code] + obs
        else:
            outs.append(code)
            last = obs
    if not every:
        trace = outs + last
    return trace, None


def small_alphabet():
    segs = [(0.0, 2.0), (1.0, 3.0), (1.0, 1.0)]
    ops = []
    for r in (0, 1):
        for a in ("a", "b"):
            for sg in segs:
                for l in (None, "A"):
                    ops.append(("add", r, a, (sg[0], sg[1], l)))
            for sg in segs[:2]:
                for l in (None, "A"):
                    ops.append(("remove", r, a, (sg[0], sg[1], l)))
            ops.append(("addann", r, a))
        ops.append(("reset", r))
    ops += [("merge_in", 0, 1), ("merge_in", 1, 0), ("merge_new", 1, 0, 1), ("plus", 0, 1, 0), ("copy", 1, 0), ("flush", 1, 0)]
    return ops


def random_history(rng, length):
    segs = [(0.0, 2.0), (1.0, 3.0), (0.0, 100.0), (1.0, 1.0), (3.0, 1.0), (1.0, 2.0), (-4.0, -1.5), (0.0, 2.0)]
    ops = []
    added = []
    for _ in range(length):
        x = rng.random()
        r = rng.randrange(3)
        if x < 0.45:
            sg = rng.choice(segs)
            u = (sg[0], sg[1], rng.choice(LABELS))
            a = rng.choice(NAMES)
            ops.append(("add", r, a, u))
            added.append((a, u))
        elif x < 0.65 and added:
            a, u = rng.choice(added)
            if rng.random() < 0.2:
                a = rng.choice(NAMES)
            ops.append(("remove", rng.randrange(3), a, u))
        elif x < 0.70:
            ops.append(("addann", r, rng.choice(NAMES)))
        elif x < 0.78:
            s = rng.randrange(3)
            if s != r:
                ops.append(("merge_in", r, s))
        elif x < 0.86:
            ops.append((rng.choice(["merge_new", "plus"]), rng.randrange(3), r, rng.randrange(3)))
        elif x < 0.92:
            ops.append(("copy", rng.randrange(3), r))
        elif x < 0.95:
            ops.append(("flush", rng.randrange(3), r))
        else:
            ops.append(("reset", r))
    return ops


def nontrivial(ops, outcomes=None):
    adds = 0
    for o in ops:
        if o[0] == "add" and o[3][1] - o[3][0] > 1e-6:
            adds += 1
        if o[0] in ("remove", "merge_in", "merge_new", "plus") and adds >= 2:
            return True
    return False


def judge(rep, pa, enc, batch, nregs, every):
    lines, metas = [], []
    for ops in batch:
        tr, err = run_history(pa, enc, nregs, ops, every)
        if err is not None:
            rep.case()
            rep.violation("history-error", {"ops": ops, "nregs": nregs, "error": err}, err)
            continue
        lines.append([100 if every else 101, enc.z(enc.prec), nregs] + [len(ops)] + [v for o in ops for v in enc.op(o)])
        metas.append((ops, tr))
    outs = run_model(lines)
    for (ops, tr), out in zip(metas, outs):
        for o in ops:
            rep.count("op=" + o[0])
        rep.case(sample={"ops": [list(map(str, o)) for o in ops[:6]], "agree": out == tr} if len(ops) <= 8 or len(rep.samples) < 3 else None,
                 nontrivial_key=repr(ops) if nontrivial(ops) else None)
        if out != tr:
            # locate the first differing position for the report
            pos = next((i for i, (x, y) in enumerate(zip(out, tr)) if x != y), min(len(out), len(tr))) if isinstance(out, list) else -1
            rep.violation("model-mismatch", {"ops": ops, "nregs": nregs, "every": every, "first_difference_at": pos,
                                             "model": out[max(0, pos - 6):pos + 6] if isinstance(out, list) else out,
                                             "implementation": tr[max(0, pos - 6):pos + 6]},
                          "continuum differs from the set-per-annotator model after the history %r" % (ops[:8],))
    return lines, outs


def run(rep, tier, seed, pa):
    enc = Enc()
    rng = rng_for(seed, "C13")
    alpha = small_alphabet()
    rep.extra["alphabet_size"] = len(alpha)
    depth = 2 if tier == "quick" else 3
    hist = [list(h) for d in range(1, depth + 1) for h in itertools.product(alpha, repeat=d)]
    rep.extra["exhaustive_depth"] = depth
    rep.extra["exhaustive_histories"] = len(hist)
    for i in range(0, len(hist), 20000):
        judge(rep, pa, enc, hist[i:i + 20000], 2, every=False)
    if tier == "quick":   # a sample of depth 3
        judge(rep, pa, enc, [[rng.choice(alpha) for _ in range(3)] for _ in range(3000)], 2, every=False)
    nrand = 400 if tier == "quick" else 6000
    rnd = [random_history(rng, rng.randrange(10, 61)) for _ in range(nrand)]
    lines, outs = judge(rep, pa, enc, rnd, 3, every=True)
    sample = [l for l in lines if len(l) < 400][:8]
    if sample:
        coq = coq_eval(sample)
        oc = run_model(sample)
        rep.extra["extraction_crosscheck"] = {"cases": len(sample), "agree": sum(1 for a, b in zip(oc, coq) if a == b)}
        if any(a != b for a, b in zip(oc, coq)):
            rep.violation("extraction", {}, "extracted model and vm_compute disagree no-failing-input-found")


def replay(rep, data, pa):
    enc = Enc()
    ops = [tuple(tuple(x) if isinstance(x, list) else x for x in o) for o in data["ops"]]
    judge(rep, pa, enc, [ops], data.get("nregs", 3), every=data.get("every", True))
    for key, path, what in rep.violations:
        print("  ", what)
    return not rep.violations
