"""C19 - corpus shuffling yields valid corpora and each perturbation is confined.

CorpusShufflingTool.corpus_shuffle is run with NumPy's primitives recorded; the recorded draws are replayed in the Gallina model
(Sampler/Cst.v) whose result must be the library's corpus (so every perturbation does what the model - and the theorems of props/C19.v -
say, for the draws that actually occurred).  Output-level clauses are checked directly too: requested annotators (+ reference), none empty,
positive durations, reference categories only, magnitude 0 = exact copies, and per-flag confinement (category shuffle keeps segments, splits keep
each annotator's total duration and add one unit per split, false negatives only remove, false positives only add, shift keeps the count)."""
import ast
import os
from fractions import Fraction

import numpy as np

import gen
from common import rng_for, run_model, coq_eval, w_list, frac, REPO
from draws import Draws

RULE = ("single-annotator references from VERIF_SEED (2..8 labelled units) x magnitudes {0, .1, .3, .5, .8, 1} x annotator counts 1..4 / explicit names x "
        "every single perturbation flag and random flag combinations x include_ref; non-trivial = magnitude > 0 with at least one perturbation "
        "that consumed draws; distinct by (reference, magnitude, annotators, flags, recorded draws)")
TRUSTED_BASE = ["Coq 8.16.1 kernel", "extraction (ExtrOcamlBasic only), ocaml/driver.ml", "harness/{common,gen,draws,c19}.py",
                "class constants SHIFT_FACTOR / SPLIT_FACTOR / FALSE_POS_FACTOR are re-read from the class on each run and handed to the model",
                "laws of the NumPy primitives (only contracts are used)"]
ASSUMPTIONS = ["freshness: a newly drawn unit does not coincide with an existing one (otherwise set semantics merges them; such runs are still compared "
               "with the model, which has the same set semantics, but the count-based confinement clauses are skipped)",
               "iteration counts int(m * factor * x) within 1e-9 of an integer boundary are don't-care", "tolerance 1e-9 on float64 arithmetic"]
TOL = Fraction(1, 10 ** 9)
FLAGS = ["shift", "false_pos", "false_neg", "cat_shuffle", "split"]


def q(x):
    f = frac(x)
    return [f.numerator, f.denominator]


def near(a, b):
    a, b = frac(a), frac(b)
    return abs(a - b) <= TOL * max(1, abs(a), abs(b))


def to_stream(log):
    st = []
    for e in log:
        n = e["name"]
        if n == "uniform":
            st.append([0] + q(e["result"]))
        elif n == "normal":
            st.append([1] + q(e["result"]))
        elif n == "random":
            st.append([2] + q(e["result"]))
        elif n == "choice":
            st.append([3, e["index"]])
        elif n == "randint":
            st.append([4, int(e["result"])])
    return st


def parse_corpus(out, pos):
    n = out[pos]
    pos += 1
    corpus = []
    for _ in range(n):
        m = out[pos]
        pos += 1
        us = []
        for _ in range(m):
            us.append((Fraction(out[pos], out[pos + 1]), Fraction(out[pos + 2], out[pos + 3]), out[pos + 4]))
            pos += 5
        corpus.append(us)
    return corpus


def execute(rep, pa, consts, desc, numpy_seed=None, script=None, lenient=False):
    """one corpus_shuffle run with the primitives recorded (or scripted); returns (model wire line, meta) or None when the run is skipped / reported"""
    from pyannote.core.segment import SEGMENT_PRECISION
    CST = pa.CorpusShufflingTool
    units, m, anns, flags, include_ref = desc["units"], desc["magnitude"], desc["annotators"], desc["flags"], desc["include_ref"]
    names = ["annotator_%d" % i for i in range(anns)] if isinstance(anns, int) else list(anns)
    ref = gen.build_continuum(pa, units, names=["Ref"])
    if "constructed_with_magnitude" in desc:
        # the magnitude is a public attribute (tests/test_cst.py reassigns it): a tool built at another magnitude and then set to m
        # must behave like a tool built at m - nothing may be frozen at construction time
        cst = CST(desc["constructed_with_magnitude"], ref)
        if desc.get("used_before"):
            # ... and USED at that other magnitude first (every perturbation, also category_shuffle with its optional arguments): nothing
            # computed during that use may survive the reassignment (draws of this first use are not recorded)
            np.random.seed(int(desc["used_before"]))
            try:
                with Draws(lenient=True):
                    cst.corpus_shuffle(["w", "v"], shift=True, false_pos=True, false_neg=True, split=True, cat_shuffle=True)
                    c0 = cst.corpus_from_reference(["w"])
                    cst.category_shuffle(c0, prevalence=True)
            except Exception:
                pass
            rep.count("tool_used_before_magnitude_reassigned")
        cst.magnitude = m
        rep.count("magnitude_reassigned")
    else:
        cst = CST(m, ref)
    if numpy_seed is not None:
        np.random.seed(numpy_seed)
    try:
        with Draws(script=script, lenient=lenient) as dr:
            corpus = cst.corpus_shuffle(anns, shift=flags["shift"], false_pos=flags["false_pos"], false_neg=flags["false_neg"],
                                        split=flags["split"], cat_shuffle=flags["cat_shuffle"], include_ref=include_ref)
    except ValueError as e:
        if "duration 0.0" in str(e):
            rep.count("zero_length_draw_skipped")     # measure-zero draw: Continuum.add refuses the unit and the run stops (modelled as None)
            return None
        rep.case()
        rep.violation("corpus_shuffle-raises", dict(desc, error=repr(e)), "corpus_shuffle raised %r" % (e,))
        return None
    except Exception as e:
        rep.case()
        rep.violation("corpus_shuffle-raises", dict(desc, error=repr(e)), "corpus_shuffle raised %r" % (e,))
        return None
    cats = sorted(ref.categories)
    cid = {c: i for i, c in enumerate(cats)}
    ref_units = [(u.segment.start, u.segment.end, cid[u.annotation]) for u in ref["Ref"]]
    init = [list(ref_units) for _ in sorted(names)]
    ravg = ref.avg_length_unit
    rd = [frac(e) - frac(s) for s, e, _ in ref_units]
    if not near(ravg, sum(rd, Fraction(0)) / len(rd)) or ref.avg_num_annotations_per_annotator != ref.num_units / len(ref):
        rep.violation("reference-statistics", desc, "avg_length_unit / avg_num_annotations_per_annotator of the reference are not the stated means")
    # gray zone on the iteration counts
    # gray zone: the float evaluation of int(m * factor * x) disagrees with the exact one (integer boundary)
    gray = False
    for fl, ex in ((m * consts["FALSE_POS_FACTOR"] * len(ref), frac(m) * frac(consts["FALSE_POS_FACTOR"]) * len(ref)),
                   (m * consts["SPLIT_FACTOR"] * ref.avg_num_annotations_per_annotator,
                    frac(m) * frac(consts["SPLIT_FACTOR"]) * Fraction(ref.num_units, len(ref)))):
        if int(fl) != ex.numerator // ex.denominator:
            gray = True
    if gray:
        rep.gray += 1
        return None
    line = [620] + q(SEGMENT_PRECISION) + q(m) + q(consts["SHIFT_FACTOR"]) + q(consts["SPLIT_FACTOR"]) + q(consts["FALSE_POS_FACTOR"]) + \
        [len(ref), ref.num_units] + q(ravg) + [1 if flags[f] else 0 for f in ("shift", "false_pos", "false_neg", "cat_shuffle", "split")] + \
        w_list(init, lambda us: w_list(us, lambda u: q(u[0]) + q(u[1]) + [u[2]])) + w_list(to_stream(dr.log), lambda d: d)
    return line, (desc, corpus, sorted(names), cats, ref, dr.log, ref_units)


def judge(rep, meta, out):
    """compares one run with the model's replay of its draws and with the output-level clauses; records the case; returns the list of (key, what)"""
    desc, corpus, names, cats, ref, log, ref_units = meta
    m, flags, include_ref = desc["magnitude"], desc["flags"], desc["include_ref"]
    bad = []
    on = [f for f in FLAGS if flags[f]]
    rep.count("magnitude=%g" % m)
    for f in on:
        rep.count("flag=" + f)
    # ---- model replay ----
    if not isinstance(out, list) or out[0] != 1:
        bad.append(("model-replay", "the model cannot replay the recorded draws (it expects another sequence of primitives): %r" % (out[:3] if isinstance(out, list) else out,)))
        model = None
    else:
        if out[1] != 0:
            bad.append(("model-replay", "%d recorded draws are not consumed by the model" % out[1]))
        model = parse_corpus(out, 4)
    want_names = sorted(names + (["Ref"] if include_ref else []))
    got_names = list(corpus.annotators)
    if got_names != want_names:
        bad.append(("annotators", "corpus annotators %r, requested %r" % (got_names, want_names)))
    fresh = True
    if model is not None and got_names == want_names:
        for a, mus in zip(names, model):
            got = sorted((u.segment.start, u.segment.end, str(u.annotation)) for u in corpus[a])
            want = sorted((float(s), float(e), str(cats[c]) if c < len(cats) else "?%d" % c) for s, e, c in mus)
            if len(got) != len(want) or any(not (near(x[0], y[0]) and near(x[1], y[1]) and x[2] == y[2]) for x, y in zip(got, want)):
                bad.append(("corpus-vs-model", "annotator %r: units %r, model %r" % (a, got, want)))
                break
    # ---- output-level clauses ----
    refl = sorted((s, e, cats[c]) for s, e, c in ref_units)
    for a in got_names:
        us = [(u.segment.start, u.segment.end, u.annotation) for u in corpus[a]]
        if not us:
            bad.append(("empty-annotator", "annotator %r has no unit" % a))
        if any(not (e > s) for s, e, _ in us):
            bad.append(("non-positive-duration", "annotator %r holds a unit of non-positive duration" % a))
        if any(l not in cats for _, _, l in us):
            bad.append(("foreign-category", "annotator %r holds a category outside the reference's %r" % (a, cats)))
        if a == "Ref" and include_ref:
            if sorted(us) != refl:
                bad.append(("reference-copy", "the included reference differs from the reference"))
            continue
        if m == 0 and sorted(us) != refl:
            bad.append(("magnitude-zero", "magnitude 0 but annotator %r differs from the reference: %r" % (a, sorted(us))))
        if len(on) == 1:
            f = on[0]
            segs = sorted(set((s, e) for s, e, _ in us))
            rsegs = sorted(set((s, e) for s, e, _ in refl))
            if f == "cat_shuffle" and segs != rsegs:
                bad.append(("confinement:cat_shuffle", "category shuffling changed the segments of %r" % a))
            if f == "false_neg" and not set(us) <= set(refl):
                bad.append(("confinement:false_neg", "false negatives added or altered units of %r" % a))
            if f == "false_pos" and not set(refl) <= set(us):
                bad.append(("confinement:false_pos", "false positives removed or altered units of %r" % a))
            if f == "shift" and len(us) != len(refl) and len(set(us)) == len(us):
                # count can only drop through coincidences; flag a change only when the model (same set semantics) disagrees, handled above
                pass
            if f == "split":
                tot = sum((frac(e) - frac(s) for s, e, _ in us), Fraction(0))
                rtot = sum((frac(e) - frac(s) for s, e, _ in refl), Fraction(0))
                if not near(tot, rtot):
                    bad.append(("confinement:split", "splitting changed the total annotated duration of %r: %r -> %r" % (a, float(rtot), float(tot))))
                if model is not None and isinstance(out, list) and out[0] == 1:
                    ksplit = out[3]
                    if len(us) > len(refl) + ksplit:
                        bad.append(("confinement:split", "%d units after %d announced splits of %d units" % (len(us), ksplit, len(refl))))
    # requested primitives: a few parameter checks
    for e in log:
        if e["name"] == "uniform" and flags["shift"] and not (flags["false_pos"] or flags["split"]):
            if [float(x) for x in e["args"]] != [-1.0, 1.0]:
                bad.append(("requested-primitive", "shift draws uniform%r instead of uniform(-1, 1)" % (tuple(e["args"]),)))
                break
    # parameters handed to the primitives when only false positives run: the category law is the reference's weights, the centre is uniform over
    # the reference's bounds, the duration is normal with the mean / standard deviation of the reference's durations
    if on == ["false_pos"]:
        import math
        w = ref.category_weights
        rdur = [e_ - s_ for s_, e_, _ in ref_units]
        mean = sum(rdur) / len(rdur)
        std = math.sqrt(sum((x - mean) ** 2 for x in rdur) / len(rdur))
        for e in log:
            if e["name"] == "choice" and (e["p"] is None or any(abs(a - b) > 1e-9 for a, b in zip(e["p"], list(w.values()))) or len(e["p"]) != len(w)):
                bad.append(("requested-primitive", "false positives draw their category with p=%r, reference weights %r" % (e["p"], list(w.values()))))
                break
            if e["name"] == "uniform" and not (abs(e["args"][0] - ref.bound_inf) < 1e-9 and abs(e["args"][1] - ref.bound_sup) < 1e-9):
                bad.append(("requested-primitive", "false positives draw their centre from uniform%r, reference bounds %r" % (tuple(e["args"]), (ref.bound_inf, ref.bound_sup))))
                break
            if e["name"] == "normal" and not (abs(e["args"][0] - mean) < 1e-9 * max(1, mean) and abs(e["args"][1] - std) < 1e-9 * max(1, std)):
                bad.append(("requested-primitive", "false positives draw their duration from normal%r, reference durations have mean %r and deviation %r" % (tuple(e["args"]), mean, std)))
                break
    nontriv = m > 0 and len(log) > 0
    desc2 = dict(desc, draws=[(e["name"], e.get("index"), None if e["name"] == "choice" else float(e["result"])) for e in log][:600])
    rep.case(sample={"magnitude": m, "flags": on, "annotators": names, "include_ref": include_ref, "primitives": len(log), "agree": not bad},
             nontrivial_key=repr(desc2) if nontriv else None)
    for key, what in bad:
        rep.violation(key, desc2, what)
    return bad


def run(rep, tier, seed, pa):
    from pyannote.core import Segment
    from pyannote.core.segment import SEGMENT_PRECISION
    CST = pa.CorpusShufflingTool
    consts = {"SHIFT_FACTOR": CST.SHIFT_FACTOR, "SPLIT_FACTOR": CST.SPLIT_FACTOR, "FALSE_POS_FACTOR": CST.FALSE_POS_FACTOR}
    rep.extra["source_constants"] = consts
    rng = rng_for(seed, "C19")
    nruns = 150 if tier == "quick" else 1500
    lines, metas = [], []
    for ri in range(nruns):
        k = rng.randrange(2, 9)
        units = gen.gen_units(rng, 1, [k], rng.choice(["perturbed", "random", "disjoint", "intgrid"]), gen.LABEL_SETS["abc"])
        if not units[0]:
            continue
        ref = gen.build_continuum(pa, units, names=["Ref"])
        m = rng.choice([0.0, 0.0, 0.1, 0.3, 0.5, 0.8, 1.0])
        anns = rng.choice([1, 2, 3, 4, ["zed", "abe"], ["x"]])
        names = ["annotator_%d" % i for i in range(anns)] if isinstance(anns, int) else list(anns)
        mode = rng.random()
        if ri % 6 == 5:
            # pairs of perturbations at high magnitude (interactions: an annotator wiped out by false negatives after another perturbation ran)
            m = rng.choice([0.8, 1.0, 1.0])
            a, b = rng.sample(FLAGS, 2)
            flags = {f: f in (a, b) or (f == "false_neg" and rng.random() < 0.5) for f in FLAGS}
        elif mode < 0.5:
            flags = {f: False for f in FLAGS}
            flags[rng.choice(FLAGS)] = True
        else:
            flags = {f: rng.random() < 0.5 for f in FLAGS}
        include_ref = rng.random() < 0.3
        if ri < 4:       # no perturbation at all, with and without the reference (the corner where there is "nothing to do")
            flags = {f: False for f in FLAGS}
            include_ref = ri % 2 == 0
        desc = {"units": units, "magnitude": m, "annotators": anns, "flags": flags, "include_ref": include_ref}
        if ri % 3 == 2:
            desc["constructed_with_magnitude"] = rng.choice([x for x in (0.0, 0.5, 1.0) if x != m])
            if ri % 2 == 0:
                desc["used_before"] = rng.randrange(1, 2 ** 31)
                if rng.random() < 0.5:       # the clause that must survive a first use: magnitude 0 copies the reference, whatever flags are on
                    desc["magnitude"] = m = 0.0
                    desc["constructed_with_magnitude"] = rng.choice([0.5, 1.0])
                    desc["flags"] = flags = dict(flags, **{rng.choice(FLAGS): True})
        r = execute(rep, pa, consts, desc, numpy_seed=rng.randrange(2 ** 31))
        if r is not None:
            lines.append(r[0])
            metas.append(r[1])
    outs = run_model(lines)
    for meta, out in zip(metas, outs):
        judge(rep, meta, out)
    # category_shuffle called directly with its optional arguments (corpus_shuffle never passes them): segments kept, categories those of the
    # reference, and the law handed to np.random.choice is a probability vector (one-hot on the unit's own category at magnitude 0)
    for ci in range(12 if tier == "quick" else 120):
        k = rng.randrange(3, 7)
        units = gen.gen_units(rng, 1, [k], "disjoint", gen.LABEL_SETS["abc"])
        if not units[0]:
            continue
        ref = gen.build_continuum(pa, units, names=["Ref"])
        m = rng.choice([0.0, 0.3, 0.7, 1.0])
        tool = CST(m, ref)
        corpus = tool.corpus_from_reference(["x", "y"])
        before = {a: sorted((u.segment.start, u.segment.end) for u in corpus[a]) for a in corpus.annotators}
        kw = rng.choice([{"prevalence": True}, {"overlapping_fun": (lambda a, b: 1.0 if a == b else 0.5)},
                         {"overlapping_fun": (lambda a, b: 1.0 if a == b else 0.25), "prevalence": True}, {}])
        desc = {"units": units, "magnitude": m, "call": "category_shuffle(%s)" % ", ".join(sorted(kw))}
        np.random.seed(rng.randrange(2 ** 31))
        if ci % 2 == 1:
            # the same tool object was used with the same optional arguments at another magnitude before being set to m
            m = rng.choice([0.0, 0.0, 0.3, 1.0])
            desc["magnitude"] = m
            m0 = rng.choice([x for x in (0.0, 0.5, 1.0) if x != m])
            tool = CST(m0, ref)
            try:
                tool.category_shuffle(tool.corpus_from_reference(["w"]), **kw)
            except Exception:
                pass
            tool.magnitude = m
            desc["call"] += " on a tool used at magnitude %g before" % m0
            rep.count("direct_category_shuffle_after_use_at_other_magnitude")
        rep.count("direct_category_shuffle")
        rep.case(sample=desc)
        try:
            with Draws() as dr:
                tool.category_shuffle(corpus, **kw)
        except Exception as e:
            rep.violation("category_shuffle-raises", dict(desc, error=repr(e)), "category_shuffle raised %r" % (e,))
            continue
        after = {a: sorted((u.segment.start, u.segment.end) for u in corpus[a]) for a in corpus.annotators}
        if after != before:
            rep.violation("confinement:cat_shuffle", desc, "category_shuffle(%s) changed the segments" % ", ".join(sorted(kw)))
        if not set(corpus.categories) <= set(ref.categories):
            rep.violation("foreign-category", desc, "category_shuffle produced categories %r outside the reference's %r" % (list(corpus.categories), list(ref.categories)))
        for e in dr.log:
            if e["name"] == "choice":
                p = e["p"]
                if p is None or any(x < -1e-12 for x in p) or abs(sum(p) - 1) > 1e-9 or (m == 0 and sorted(p) != [0.0] * (len(p) - 1) + [1.0]):
                    rep.violation("category-law", dict(desc, p=p), "category_shuffle draws a category with p=%r (magnitude %r)" % (p, m))
                    break
    # scripted witnesses of the split fallback: a unit too short to be cut where the draw falls is left as it was
    # (first piece too short / second piece too short after the first was added - the defect repaired by the fix commit)
    for label, cutv in (("second-piece-too-short", 9e-7), ("first-piece-too-short", 5e-5 - 4e-7)):
        wref = pa.Continuum()
        wref.add("Ref", Segment(0.0, 5e-5), "A")
        tool = CST(0.4, wref)          # int(0.4 * 2.5 * 1) = 1 round
        try:
            with Draws(script=[("randint", 0), ("uniform", cutv)]) as dr:
                out = tool.corpus_shuffle(["x"], split=True)
            got = [(u.segment.start, u.segment.end, u.annotation) for u in out["x"]]
        except Exception as e:
            got = "raised %r" % (e,)
        rep.count("scripted_split_fallback")
        rep.case(sample={"scripted": label, "result": got})
        if got != [(0.0, 5e-5, "A")]:
            rep.violation("confinement:split", {"units": [[(0.0, 5e-5, "A")]], "magnitude": 0.4, "script": [("randint", 0), ("uniform", cutv)], "result": got},
                          "a unit that cannot be split at %r (%s) is not left as it was: %r" % (cutv, label, got))
    sample = [l for l in lines if len(l) < 500][:6]
    coq = coq_eval(sample)
    oc = run_model(sample)
    rep.extra["extraction_crosscheck"] = {"cases": len(sample), "agree": sum(1 for a, b in zip(oc, coq) if a == b)}
    if any(a != b for a, b in zip(oc, coq)):
        rep.violation("extraction", {}, "extracted model and vm_compute disagree no-failing-input-found")


def replay(rep, data, pa):
    """re-runs corpus_shuffle with the recorded draws as a script, replays them in the model and judges the run again"""
    if "flags" not in data or "draws" not in data:
        print("  C19 replay: this record is a scripted witness / direct call; re-run ./check C19 quick (%s)" % (data.get("what"),))
        return False
    CST = pa.CorpusShufflingTool
    consts = {"SHIFT_FACTOR": CST.SHIFT_FACTOR, "SPLIT_FACTOR": CST.SPLIT_FACTOR, "FALSE_POS_FACTOR": CST.FALSE_POS_FACTOR}
    desc = {k: data[k] for k in ("units", "magnitude", "annotators", "flags", "include_ref", "constructed_with_magnitude", "used_before") if k in data}
    desc["units"] = [[tuple(u) for u in us] for us in desc["units"]]
    script = [(n, i if n == "choice" else (int(v) if n == "randint" else v)) for n, i, v in data["draws"]]
    try:
        r = execute(rep, pa, consts, desc, numpy_seed=data.get("seed", 0) % (2 ** 31), script=script, lenient=True)
    except RuntimeError as e:      # the library asks for other primitives than the recorded ones
        print("  the recorded draws can no longer be replayed: %s" % e)
        return False
    if r is None:
        for key, path, what in rep.violations:
            print("  (%s) %s" % (key, what))
        return not rep.violations
    bad = judge(rep, r[1], run_model([r[0]])[0])
    for key, what in bad:
        print("  (%s) %s" % (key, what[:300]))
    return not bad
