"""C11 - the soft alignment is a minimum-disorder cover (and never exceeds the best alignment's disorder)."""
from fractions import Fraction

import alignchk as ac
from common import rng_for, close, TAU2

RULE = ("continua from VERIF_SEED (random up to 3x5, 4x3, 5x2 units in quick, larger in thorough; sample of the exhaustive 2-annotator grid), "
        "every built-in dissimilarity, both back-ends: the soft alignment is (1) a cover made of well-formed tuples by the verified checker, "
        "(2) certified minimal over ALL covers by the verified budgeted search (C11_soft_is_minimal), (3) reported disorder = exact within "
        "2^-15, (4) not above the best alignment's disorder; non-trivial = certified and some unit is used at least twice or some tuple "
        "has two real units; distinct by (units, dissimilarity, back-end)")
TRUSTED_BASE = ["Coq 8.16.1 kernel", "extraction (ExtrOcamlBasic only), ocaml/driver.ml", "harness/{common,align,alignchk,gen,c11}.py",
                "costs are those of dissimilarity.d() (C04)"]
ASSUMPTIONS = ["delta_empty >= 0 and pair dissimilarities >= 0 (C04)", "comparison up to single-precision rounding: relative 2^-15"]


def run(rep, tier, seed, pa):
    ac.install_backend_hooks()
    rng = rng_for(seed, "C11")
    kmax = {2: 5, 3: 4, 4: 3, 5: 2} if tier == "quick" else {2: 8, 3: 6, 4: 4, 5: 3}
    cases = ac.random_cases(rng, 150 if tier == "quick" else 1500, tier, unlabelled_share=0.1, kmax=kmax)
    cases += ac.grid_cases(rng, 100 if tier == "quick" else 2000)
    modes = ["cbc" if k % 2 == 0 else "glpk-noimport" for k in range(len(cases))]
    items = list(zip(cases, ac.align_many(pa, [(case, m, True) for case, m in zip(cases, modes)])))
    bests = ac.align_many(pa, [(case, m, False) for case, m in zip(cases, modes)])
    facts = ac.judge_many(rep, items, part=False, want_optimal=True, limit=20 if tier == "quick" else 40)
    # the SAME continuum and dissimilarity objects: aligned once (best alignment), edited in place (a unit moved, counts kept / an annotator
    # declared), then the soft alignment asked again - it must be valid and minimal for the continuum as it is now
    pairs = [(c, ac.edited_case(rng, c)) for c in cases[:40 if tier == "quick" else 400]]
    pairs = [(c, a) for c, a in pairs if a is not None]
    for c, a in pairs:
        a["first_soft"] = False
    rres = ac.realign_many(pa, [(c, a, "cbc" if k % 2 == 0 else "glpk-noimport", False, True) for k, (c, a) in enumerate(pairs)])
    ac.judge_many(rep, [(a, r) for (c, a), r in zip(pairs, rres)], part=False, want_optimal=True, limit=20, prefix="re-aligned:")
    for (c, a), r in zip(pairs, rres):
        rep.count("re-aligned_after=" + a["edit"][0])
        rep.case(nontrivial_key=(repr(a["units"]), a["spec"], "re-aligned") if r["error"] is None else None)
    for (case, res), f, best in zip(items, facts, bests):
        I = res.get("I")
        rep.count("backend=" + res["mode"])
        rep.count("pattern=" + case["pattern"])
        rep.count("kind=" + case["spec"][0])
        rep.count("certified" if f["optimal"] else ("refuted" if f["optimal"] is False else "undecided"))
        nontriv = False
        if I is not None and res["tuples"] and all(t is not None for t in res["tuples"]):
            reals = [sum(1 for a, v in enumerate(t) if v < I.sizes[a]) for t in res["tuples"]]
            nontriv = f["optimal"] is True and max(reals) >= 2
            if sum(reals) > I.nunits:
                rep.count("uses_a_unit_twice")
        if f.get("lib_exact_disorder") is not None and not close(res["disorder"], f["lib_exact_disorder"], TAU2):
            rep.violation("reported-disorder", {"units": case["units"], "dissim": case["spec"], "mode": res["mode"], "soft": True,
                                                "reported": float(res["disorder"]), "exact": str(f["lib_exact_disorder"])},
                          "reported soft disorder %r differs from the exact disorder of the returned cover %r"
                          % (float(res["disorder"]), float(f["lib_exact_disorder"])))
        if res["error"] is None and best["error"] is None:
            s, b = Fraction(float(res["disorder"])), Fraction(float(best["disorder"]))
            if s > b + TAU2 * max(1, b):
                rep.violation("soft-above-best", {"units": case["units"], "dissim": case["spec"], "mode": res["mode"],
                                                  "soft": float(s), "best": float(b)},
                              "soft disorder %r exceeds best disorder %r" % (float(s), float(b)))
        rep.case(sample={"sizes": I.sizes if I else None, "dissim": case["spec"], "backend": res["mode"], "soft_alignment": res.get("tuples"),
                         "disorder": float(res["disorder"]) if res.get("disorder") is not None else None, "certified_minimal": f["optimal"]},
                 nontrivial_key=(repr(case["units"]), case["spec"], res["mode"]) if nontriv else None)


def replay(rep, data, pa):
    ac.install_backend_hooks()
    case, res = ac.replay_align(pa, data, soft=True)
    mode = res["mode"]
    f = ac.judge_many(rep, [(case, res)], part=False, want_optimal=True, limit=300)[0]
    best = ac.align_case(pa, case, mode, soft=False)
    if res["error"] is None and best["error"] is None and Fraction(float(res["disorder"])) > Fraction(float(best["disorder"])) * (1 + TAU2) + TAU2:
        rep.violation("soft-above-best", {}, "soft above best")
    if f.get("lib_exact_disorder") is not None and not close(res["disorder"], f["lib_exact_disorder"], TAU2):
        rep.violation("reported-disorder", {}, "reported disorder differs from exact")
    for key, path, what in rep.violations:
        print("  ", what)
    return not rep.violations
