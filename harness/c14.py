"""C14 - computations never modify their inputs; derived continua are independent (partial: purity of the Python computations is checked by
snapshots on every explored call, not proved; the theorems are about the sharing structure - Heap.v).

(1) every public computation entry point is called on generated continua / dissimilarities with a deep value snapshot of every argument
before and after (only fast-mode gamma may change best_window_size);  (2) continua returned by copy, merge, +, __getitem__, copy_flush,
samplers and the shuffling tool are mutated and the sources re-read (and vice versa);  (3) the container identities of all live objects must be
pairwise distinct, which is the separation invariant of the heap model;  (4) random histories of new / copy / derive / add are run on real
objects and on the extracted heap model, comparing every object's view after every operation."""
import numpy as np

import gen
import alignchk as ac
from common import rng_for, run_model, coq_eval, w_list

RULE = ("continua from VERIF_SEED (2..4 annotators, labelled) x dissimilarities: ~25 entry points each with before/after snapshots of all arguments; "
        "mutation of every derived continuum (add unit with a NEW label, add annotator, remove unit) followed by re-reading the source, and the "
        "converse; aliasing graph of container identities; 60 random heap histories (new, copy, corpus_from_reference, add) against the model; "
        "non-trivial = an entry point that returns a continuum or runs a sampler / shuffle; distinct by (input, entry point)")
TRUSTED_BASE = ["Coq 8.16.1 kernel (Heap.v)", "extraction (ExtrOcamlBasic only), ocaml/driver.ml", "harness/{common,gen,alignchk,c14}.py: deep snapshots and id() graphs"]
ASSUMPTIONS = ["Unit and Segment are immutable (frozen dataclasses)", "documented exception: fast-mode gamma stores best_window_size on the continuum"]


def snap_cont(c):
    return {"units": [(a, u.segment.start, u.segment.end, u.annotation) for a, u in c], "annotators": list(c.annotators),
            "categories": list(c.categories), "bounds": tuple(c.bounds), "bws": c.best_window_size}


def snap_dissim(pa, d):
    from pyannote.core import Segment
    U = pa.continuum.Unit
    s = {"cls": type(d).__name__, "delta_empty": float(d.delta_empty), "categories": None if d.categories is None else list(d.categories)}
    for k in ("alpha", "beta"):
        if hasattr(d, k):
            s[k] = float(getattr(d, k))
    if hasattr(d, "_matrix"):
        s["matrix"] = np.asarray(d._matrix).tobytes()
    for sub in ("positional_dissim", "categorical_dissim"):
        if hasattr(d, sub):
            s[sub] = snap_dissim(pa, getattr(d, sub))
    labs = list(d.categories)[:2] if d.categories is not None else ["A", "B"]
    if labs:
        u1, u2 = U(Segment(0.0, 2.0), labs[0]), U(Segment(1.0, 4.0), labs[-1])
        s["probe_d"] = float(d.d(u1, u2))
        a = np.array([0.0, 2.0, 2.0, 0.0], dtype=np.float32)
        b = np.array([1.0, 4.0, 3.0, float(len(labs) - 1)], dtype=np.float32)
        s["probe_kernel"] = float(d.d_mat(a, b))
    return s


def containers(c):
    """identities of the mutable containers owned by a continuum"""
    ids = [("annotations", id(c._annotations)), ("categories", id(c._categories))]
    for a, us in c._annotations.items():
        ids.append(("units:" + a, id(us)))
    return ids


def check_separated(rep, objs, desc):
    seen = {}
    for name, c in objs:
        for kind, i in containers(c):
            if i in seen:
                rep.violation("shared-container", dict(desc, a=seen[i], b=(name, kind)),
                              "%s of %s is the same object as %s of %s" % (kind, name, seen[i][1], seen[i][0]))
                return False
            seen[i] = (name, kind)
    return True


def mutate_and_check(rep, pa, desc, src_name, src, der_name, der):
    """mutating der must not change src, and conversely"""
    from pyannote.core import Segment
    ok = True
    for (mname, m, oname, o) in ((der_name, der, src_name, src), (src_name, src, der_name, der)):
        before = snap_cont(o)
        ann = list(m.annotators)[0] if len(m.annotators) else "zz_new"
        m.add(ann, Segment(12345.0, 12346.0), "zz_new_label_%s" % mname)
        m.add_annotator("zz_new_annotator_%s" % mname)
        first = next(iter(m), None)
        if first is not None:
            m.remove(first[0], first[1])
        m.bound_inf -= 1.0
        after = snap_cont(o)
        if before != after:
            diff = [k for k in before if before[k] != after[k]]
            rep.violation("not-independent:" + der_name.split("#")[0], dict(desc, mutated=mname, changed=oname, fields=diff),
                          "mutating %s changed %s (%s)" % (mname, oname, ", ".join(diff)))
            ok = False
    return ok


def one_case(rep, pa, rng, case):
    """every entry point on one generated continuum (also what --replay re-runs)"""
    from pyannote.core import Segment
    from sortedcontainers import SortedSet
    desc = {"units": case["units"], "dissim": case["spec"]}

    def fresh():
        return gen.build_continuum(pa, case["units"]), gen.make_dissim(pa, case["spec"])
    combined = case["spec"][0] == "comb"
    entry_points = []

    def ep(name, f, returns_cont=False, may_change_bws=False):
        entry_points.append((name, f, returns_cont, may_change_bws))
    ep("get_best_alignment", lambda c, d: c.get_best_alignment(d))
    ep("get_best_soft_alignment", lambda c, d: c.get_best_soft_alignment(d))
    ep("get_fast_alignment", lambda c, d: c.get_fast_alignment(d, 2))
    ep("Alignment.compute_disorder", lambda c, d: c.get_best_alignment(d).compute_disorder(d))
    ep("get_first_window", lambda c, d: c.get_first_window(d, 1)[0], True)
    ep("compute_gamma", lambda c, d: c.compute_gamma(d, n_samples=2))
    ep("compute_gamma(soft)", lambda c, d: c.compute_gamma(d, n_samples=2, soft=True))
    ep("compute_gamma(fast)", lambda c, d: c.compute_gamma(d, n_samples=2, fast=True), False, True)
    ep("compute_gamma(shuffle,precision)", lambda c, d: c.compute_gamma(d, n_samples=2, precision_level=0.9, sampler=pa.ShuffleContinuumSampler()))
    ep("compute_gamma(ground truth)", lambda c, d: c.compute_gamma(d, n_samples=2, ground_truth_annotators=SortedSet(list(c.annotators)[:2])))
    if combined:
        ep("gamma_cat", lambda c, d: c.compute_gamma(d, n_samples=2).gamma_cat)
        ep("gamma_k", lambda c, d: c.compute_gamma(d, n_samples=2).gamma_k(list(c.categories)[0]))
        ep("gamma_k_disorder", lambda c, d: c.get_best_alignment(d).gamma_k_disorder(d, None))
    ep("measure_best_window_size", lambda c, d: c.measure_best_window_size(d), False, True)
    ep("copy", lambda c, d: c.copy(), True)
    ep("copy_flush", lambda c, d: c.copy_flush(), True)
    ep("merge(out of place)", lambda c, d: c.merge(c.copy()), True)
    ep("__add__", lambda c, d: c + c.copy(), True)
    # degenerate arguments: nothing to merge (no annotator at all / annotators without units / the flushed copy) must still give a fresh object
    ep("merge(empty continuum)", lambda c, d: c.merge(pa.Continuum()), True)
    ep("__add__(empty continuum)", lambda c, d: c + pa.Continuum(), True)
    ep("merge(flushed copy)", lambda c, d: c.merge(c.copy_flush()), True)
    ep("merge(self)", lambda c, d: c.merge(c), True)

    def samp(cls, **kw):
        def f(c, d):
            s = cls(**kw)
            s.init_sampling(c)
            return s.sample_from_continuum
        return f
    ep("StatisticalContinuumSampler", samp(pa.StatisticalContinuumSampler), True)
    ep("ShuffleContinuumSampler(int)", samp(pa.ShuffleContinuumSampler, pivot_type="int_pivot"), True)
    ep("ShuffleContinuumSampler(float)", samp(pa.ShuffleContinuumSampler, pivot_type="float_pivot"), True)
    ep("CorpusShufflingTool(categories=)", lambda c, d: pa.CorpusShufflingTool(0.5, c, categories=["zz_extra"]).corpus_from_reference(2), True)
    ep("corpus_shuffle(all)", lambda c, d: pa.CorpusShufflingTool(0.5, c).corpus_shuffle(2, shift=True, false_pos=True, false_neg=True, split=True, cat_shuffle=True), True)
    ep("corpus_shuffle(include_ref)", lambda c, d: pa.CorpusShufflingTool(0.3, c).corpus_shuffle(["x", "y"], shift=True, include_ref=True), True)
    only = case.get("only")
    for name, f, returns_cont, may_bws in entry_points:
        if only is not None and name not in only:
            continue
        c, d = fresh()
        np.random.seed(rng.randrange(2 ** 31))
        sc, sd = snap_cont(c), snap_dissim(pa, d)
        try:
            out = f(c, d)
        except Exception as e:
            rep.case()
            rep.violation("raises:" + name, dict(desc, entry=name, error=repr(e)), "%s raised %r" % (name, e))
            continue
        sc2, sd2 = snap_cont(c), snap_dissim(pa, d)
        if may_bws:
            sc2["bws"] = sc["bws"]
        ok = True
        if sc != sc2:
            diff = [k for k in sc if sc[k] != sc2[k]]
            rep.violation("input-continuum-modified:" + name, dict(desc, entry=name, fields=diff), "%s modified its input continuum (%s)" % (name, ", ".join(diff)))
            ok = False
        if sd != sd2:
            diff = [k for k in sd if sd[k] != sd2.get(k)]
            rep.violation("input-dissimilarity-modified:" + name, dict(desc, entry=name, fields=diff), "%s modified the dissimilarity (%s)" % (name, ", ".join(diff)))
            ok = False
        if returns_cont and isinstance(out, pa.Continuum):
            ok = check_separated(rep, [("input", c), ("result of " + name, out)], dict(desc, entry=name)) and ok
            ok = mutate_and_check(rep, pa, dict(desc, entry=name), "input", c, name + "#result", out) and ok
        rep.count("entry=" + name)
        rep.case(sample={"entry": name, "dissim": case["spec"], "unchanged": ok}, nontrivial_key=(repr(case["units"]), case["spec"], name) if returns_cont else None)
    if only is not None:
        return
    # __getitem__ returns deep copies
    c, d = fresh()
    a0 = list(c.annotators)[0]
    s0 = snap_cont(c)
    got = c[a0]
    got.add(pa.continuum.Unit(Segment(999.0, 1000.0), "zz"))
    if got:
        got.pop(0)
    if snap_cont(c) != s0:
        rep.violation("not-independent:__getitem__", desc, "mutating continuum[annotator] changed the continuum")
    rep.case(sample={"entry": "__getitem__"})
    # in-place merge changes only its receiver
    c, d = fresh()
    other = c.copy()
    s_other = snap_cont(other)
    c.merge(other, in_place=True)
    if snap_cont(other) != s_other:
        rep.violation("input-continuum-modified:merge(in place)", desc, "in-place merge modified its argument")
    rep.case(sample={"entry": "merge(in place)"})
    # the merged result (out of place, +, in place) must be independent of the ARGUMENT too, including for annotators the argument only
    # declares (no unit yet) and the receiver does not know: a unit added for them on one side must not appear on the other
    for how in ("merge", "+", "in-place"):
        c, d = fresh()
        arg = pa.Continuum()
        arg.add_annotator("zz_declared_only")
        arg.add("zz_with_unit", Segment(3.0, 4.0), "L")
        if how == "merge":
            res = c.merge(arg)
        elif how == "+":
            res = c + arg
        else:
            c.merge(arg, in_place=True)
            res = c
        entry = "merge argument (%s)" % how
        rep.count("entry=" + entry)
        rep.case(sample={"entry": entry})
        check_separated(rep, [("argument", arg), ("result of " + entry, res)], dict(desc, entry=entry))
        for (mname, m, oname, o) in (("result", res, "argument", arg), ("argument", arg, "result", res)):
            before = snap_cont(o)
            m.add("zz_declared_only", Segment(7.0, 9.0), "L")
            m.add("zz_with_unit", Segment(17.0, 19.0), "M")
            if snap_cont(o) != before:
                rep.violation("not-independent:" + entry, dict(desc, entry=entry, mutated=mname, changed=oname),
                              "after %s, adding units to the %s changed the %s" % (entry, mname, oname))


def run(rep, tier, seed, pa):
    from pyannote.core import Segment
    from sortedcontainers import SortedSet
    ac.install_backend_hooks()
    rng = rng_for(seed, "C14")
    ncases = 10 if tier == "quick" else 100
    cases = ac.random_cases(rng, ncases, tier, unlabelled_share=0.0, kmax={2: 5, 3: 4, 4: 3, 5: 2}, kinds=["comb", "comb", "pos"])
    for case in cases:
        if any(len(u) == 0 for u in case["units"]):
            continue
        one_case(rep, pa, rng, case)
    # continua large enough for fast mode to take its windowed route (the documented exception really happens: a finite window size is stored;
    # everything else must stay as it was, and what copy / copy_flush return - they carry that size - must stay independent)
    for bi in range(2 if tier == "quick" else 10):
        units = gen.gen_units(rng, 5, [rng.randrange(10, 14) for _ in range(5)], rng.choice(["perturbed", "random"]), gen.LABEL_SETS["abc"])
        spec = rng.choice([("pos", 1.0), ("comb", 1.0, 1.0, 1.0, "abs", "abc", "asis")])
        rep.count("large_enough_to_be_windowed")
        one_case(rep, pa, rng, {"units": units, "spec": spec, "only": ["get_fast_alignment", "compute_gamma(fast)", "measure_best_window_size", "copy", "copy_flush",
                                                                       "get_first_window", "ShuffleContinuumSampler(float)", "StatisticalContinuumSampler"]})
    heap_histories(rep, pa, rng, 60 if tier == "quick" else 600)


def heap_histories(rep, pa, rng, count):
    """random histories of new / copy / corpus_from_reference / add on real objects and on the extracted heap model (fn 700)"""
    from pyannote.core import Segment
    lines, metas = [], []
    for _ in range(count):
        objs = []
        ops = []
        views = []
        for step in range(rng.randrange(3, 12)):
            k = rng.random()
            if not objs or k < 0.2:
                objs.append(pa.Continuum())
                ops.append([0])
            elif k < 0.45:
                i = rng.randrange(len(objs))
                objs.append(objs[i].copy())
                ops.append([1, i])
            elif k < 0.6:
                i = rng.randrange(len(objs))
                if objs[i].num_units == 0:
                    continue
                objs.append(pa.CorpusShufflingTool(0.0, objs[i]).corpus_from_reference(0))
                ops.append([2, i])
            else:
                i = rng.randrange(len(objs))
                x = rng.randrange(0, 6)
                objs[i].add("a", Segment(float(x), float(x) + 1.0), "L%d" % x)
                ops.append([3, i, x])
            views.append([(sorted(int(u.segment.start) for _, u in o), sorted(int(c[1:]) for c in o.categories)) for o in objs])
        lines.append([700] + w_list(ops, lambda o: o + [0] * (3 - len(o))))
        metas.append((ops, views))
    outs = run_model(lines)
    for (ops, views), out in zip(metas, outs):
        # decode: per op: number of objects, then per object: ann list, cat list
        pos, model = 0, []
        ok = isinstance(out, list) and out[:1] != [-1]
        try:
            for _ in ops:
                n = out[pos]
                pos += 1
                cur = []
                for _ in range(n):
                    la = out[pos]
                    ann = sorted(set(out[pos + 1: pos + 1 + la]))
                    pos += 1 + la
                    lc = out[pos]
                    cat = sorted(set(out[pos + 1: pos + 1 + lc]))
                    pos += 1 + lc
                    cur.append((ann, cat))
                model.append(cur)
        except Exception:
            ok = False
        lib = [[(sorted(set(a)), sorted(set(c))) for a, c in v] for v in views]
        rep.count("heap_histories")
        rep.case(sample={"heap_history": ops[:6], "agree": ok and model == lib})
        if not ok or model != lib:
            rep.violation("heap-model-mismatch", {"ops": ops, "library": lib, "model": model if ok else str(out)[:200]},
                          "views after a history of new/copy/derive/add differ from the heap model")
    sample = lines[:6]
    coq = coq_eval(sample)
    oc = run_model(sample)
    rep.extra["extraction_crosscheck"] = {"cases": len(sample), "agree": sum(1 for a, b in zip(oc, coq) if a == b)}
    if any(a != b for a, b in zip(oc, coq)):
        rep.violation("extraction", {}, "extracted model and vm_compute disagree no-failing-input-found")


def replay(rep, data, pa):
    """re-runs every entry point on the recorded continuum / dissimilarity and reports the violations found now"""
    if not data.get("units"):
        print("  C14 replay: this record carries no continuum (heap-history or harness record): re-run ./check C14 quick with VERIF_SEED=%s" % data.get("seed"))
        return False
    ac.install_backend_hooks()
    case = {"units": [[tuple(u) for u in us] for us in data["units"]], "spec": tuple(data["dissim"]), "pattern": "replay", "unlabelled": False}
    if sum(len(us) for us in case["units"]) > 40 and data.get("entry"):
        case["only"] = [data["entry"]]       # a continuum large enough to be windowed: only the recorded entry point is re-run
    one_case(rep, pa, rng_for(data.get("seed", 0), "C14-replay"), case)
    for key, path, what in rep.violations:
        print("  (%s) %s" % (key, what))
    print("  recorded: entry point %r" % (data.get("entry"),))
    return not rep.violations
