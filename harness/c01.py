"""C01 - the best alignment is a partition of the continuum's units (and the computation returns)."""
import numpy as np

import gen
import alignchk as ac
from align import Inst
from common import rng_for, run_model, coq_eval, w_list, w_tuple

RULE = ("continua from VERIF_SEED: 2..5 annotators, sizes 0..k incl. empty annotators, patterns perturbed/random/identical/nested/disjoint/"
        "samelabel/intgrid, ~10% fully unlabelled and ~10% mixing labelled and unlabelled units, every built-in dissimilarity with alpha,beta in {0,.5,1,3}, delta_empty in {.25,.5,1,2}, "
        "back-end alternating CBC / GLPK (cylp masked); non-trivial = >= 2 annotators with units and at least one candidate with "
        "two real units; distinct by (units, dissimilarity, back-end). build_A is compared entry by entry with the model's rows.")
TRUSTED_BASE = ["Coq 8.16.1 kernel; vm_compute for the extraction cross-check", "extraction (ExtrOcamlBasic only), ocaml/driver.ml",
                "harness/{common,align,alignchk,gen,c01}.py (mapping of returned units back to indices by the continuum's own iteration order)",
                "MIP solvers are oracles: only their returned vector is judged; termination is observed with a 60 s watchdog"]
ASSUMPTIONS = ["the solver returns a 0/1 vector satisfying the stated constraint (checked per case through the decoded alignment)",
               "table-based categorical dissimilarities are used only on continua whose labels are in the table (DESIGN 6)"]


def check_build_A(rep, pa, case):
    """numba_utils.build_A on the library's own candidates against the model's rows_of"""
    from pygamma_agreement.numba_utils import build_A
    cont = gen.build_continuum(pa, case["units"])
    dissim = gen.make_dissim(pa, case["spec"])
    I = Inst(cont, dissim)

    def native():
        # compiled code fed with the library's own candidate array: run in a forked child (a wrong array can crash the process, which must be
        # reported as a failing input of this case, not end the check)
        dis, cands = dissim.valid_alignments(cont)
        A = build_A(cands, np.array(I.sizes, dtype=np.int32))
        return [[int(v) for v in t] for t in cands], np.asarray(A).tolist()
    cs, A = ac.run_forked(120, native)
    return I, cs, np.asarray(A)


def run(rep, tier, seed, pa):
    ac.install_backend_hooks()
    rng = rng_for(seed, "C01")
    cases = ac.random_cases(rng, 240 if tier == "quick" else 3000, tier)
    results = ac.align_many(pa, [(case, "cbc" if k % 2 == 0 else "glpk-noimport", False) for k, case in enumerate(cases)])
    items = list(zip(cases, results))
    facts = ac.judge_many(rep, items, part=True, want_optimal=False)
    for (case, res), f in zip(items, facts):
        I = res.get("I")
        rep.count("backend=" + res["mode"])
        rep.count("pattern=" + case["pattern"])
        rep.count("labels=" + ("none" if case["unlabelled"] is True else "mixed" if case["unlabelled"] else "all"))
        rep.count("kind=" + case["spec"][0])
        if I is not None:
            rep.count("n=%d" % I.n)
            rep.count("empty_annotator" if 0 in I.sizes else "all_nonempty")
        nontriv = I is not None and sum(1 for s in I.sizes if s > 0) >= 2 and \
            any(sum(1 for a, v in enumerate(t) if v < I.sizes[a]) >= 2 for t in (res["tuples"] or []) if t)
        rep.case(sample={"sizes": I.sizes if I else None, "dissim": case["spec"], "backend": res["mode"],
                         "alignment": res.get("tuples"), "partition": f["valid"]},
                 nontrivial_key=(repr(case["units"]), case["spec"], res["mode"]) if nontriv else None)
    # the SAME continuum and dissimilarity objects aligned, edited in place (a unit moved / an annotator declared), and aligned again: the second
    # result must be a partition of the continuum as it is now (nothing computed for the first alignment may be reused past an edit)
    pairs = [(c, ac.edited_case(rng, c)) for c in cases[:48 if tier == "quick" else 480]]
    pairs = [(c, a) for c, a in pairs if a is not None and sum(1 for us in a["units"] if us) >= 1]
    for k, (c, a) in enumerate(pairs):
        a["first_soft"] = (k % 3 == 0)
    rres = ac.realign_many(pa, [(c, a, "cbc" if k % 2 == 0 else "glpk-noimport", a["first_soft"], False) for k, (c, a) in enumerate(pairs)])
    ac.judge_many(rep, [(a, r) for (c, a), r in zip(pairs, rres)], part=True, want_optimal=False, prefix="re-aligned:")
    for (c, a), r in zip(pairs, rres):
        rep.count("re-aligned_after=" + a["edit"][0])
        rep.case(nontrivial_key=(repr(a["units"]), a["spec"], "re-aligned") if r["error"] is None else None)
    # build_A entrywise against the model (fn 7)
    lines, metas = [], []
    for case in cases[:60 if tier == "quick" else 400]:
        if case["unlabelled"] and case["spec"][0] == "comb" and case["spec"][4] != "abs":
            continue
        try:
            I, cs, A = check_build_A(rep, pa, case)
        except (Exception, ac.Watchdog) as e:      # a library call that raises on a generated continuum is a failing input, not a harness error
            rep.violation("does-not-return:" + (getattr(e, "name", None) or type(e).__name__), {"units": case["units"], "dissim": case["spec"], "error": repr(e), "call": "valid_alignments / build_A"},
                          "valid_alignments / build_A raised %r" % (e,))
            continue
        lines.append([7] + I.wire() + w_list(cs, w_tuple))
        metas.append((case, I, cs, A))
    outs = run_model(lines)
    nA = 0
    for (case, I, cs, A), out in zip(metas, outs):
        # decode list of lists
        pos = 1
        cols = []
        for _ in range(out[0]):
            ln = out[pos]
            cols.append(out[pos + 1: pos + 1 + ln])
            pos += 1 + ln
        model = np.zeros(A.shape, dtype=np.float32)
        for k, rows in enumerate(cols):
            for r in rows:
                if r < model.shape[0]:
                    model[r, k] = 1
        nA += 1
        if A.shape != (I.nunits, len(cs)) or not np.array_equal(model, A):
            rep.violation("build_A", {"units": case["units"], "dissim": case["spec"], "candidates": cs},
                          "constraint matrix differs from 'A[u,k]=1 iff candidate k contains unit u'")
    rep.extra["build_A_matrices_compared"] = nA
    sample = [l for l in lines if len(l) < 3000][:10]
    coq = coq_eval(sample)
    oc = run_model(sample)
    rep.extra["extraction_crosscheck"] = {"cases": len(sample), "agree": sum(1 for a, b in zip(oc, coq) if a == b)}
    if any(a != b for a, b in zip(oc, coq)):
        rep.violation("extraction", {}, "extracted model and vm_compute disagree no-failing-input-found")


def replay(rep, data, pa):
    ac.install_backend_hooks()
    case, res = ac.replay_align(pa, data, soft=False)
    mode = res["mode"]
    ac.judge_many(rep, [(case, res)], part=True, want_optimal=False)
    for key, path, what in rep.violations:
        print("  ", what)
    return not rep.violations
