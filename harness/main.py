"""Entry point: main.py <Cxx> quick|thorough   |   main.py <Cxx> --replay <file>"""
import importlib
import json
import os
import sys
import time

sys.path.insert(0, os.path.dirname(os.path.abspath(__file__)))
import common  # noqa: E402


def main():
    prop = sys.argv[1]
    mode = sys.argv[2] if len(sys.argv) > 2 else os.environ.get("VERIF_TIER", "quick")
    seed = common.seed_from_env()
    mod = importlib.import_module(prop.lower())
    if mode == "--replay":
        data = json.load(open(sys.argv[3]))
        rep = common.Report(prop, "quick", data.get("seed", seed))
        rep.proof = {"theorems": [], "ok": True}
        pa = common.import_lib()
        ok = mod.replay(rep, data, pa)
        print("replay: property %s on this input" % ("HOLDS" if ok else "FAILS"))
        sys.exit(0 if ok else 1)
    tier = mode if mode in ("quick", "thorough") else "quick"
    rep = common.Report(prop, tier, seed)
    rep.proof = common.check_props(prop)
    try:
        pa = common.import_lib()
        mod.run(rep, tier, seed, pa)
    except BaseException as e:  # the correspondence itself broke: not shown to hold
        import traceback
        tb = traceback.format_exc()
        rep.violation("harness", {"traceback": tb}, "correspondence run raised %r no-failing-input-found" % (e,))
        sys.stderr.write(tb)
    if not rep.proof.get("ok") and not rep.violations:
        # a proof obligation broke and the correspondence found nothing: search further for a concrete failing input before giving up
        # (two more generator seeds at this tier; only ever runs on a tree whose obligations no longer check)
        for extra in (1, 2):
            try:
                rep.extra.setdefault("extended_search_seeds", []).append(seed + extra)
                mod.run(rep, tier, seed + extra, pa)
            except BaseException as e:
                rep.violation("harness", {"error": repr(e)}, "extended search raised %r no-failing-input-found" % (e,))
            if rep.violations:
                break
    rc = rep.finish(mod.RULE, mod.TRUSTED_BASE, mod.ASSUMPTIONS)
    sys.stdout.flush()
    os._exit(rc)


if __name__ == "__main__":
    main()
