"""Index-level encoding of (continuum, dissimilarity) for the alignment-core model (Align/Inst.v)."""
from fractions import Fraction

from common import frac, dyadic_exp, w_list, w_tuple


def units_of(cont):
    """[(annotator, [unit, ...])] in the continuum's own iteration order."""
    return [(a, list(us)) for a, us in cont._annotations.items()]


class Inst:
    """Exact costs of a continuum under a dissimilarity, taken from the unit-to-unit function d()."""

    def __init__(self, cont, dissim, extra_values=()):
        self.ann = units_of(cont)
        self.n = len(self.ann)
        self.sizes = [len(us) for _, us in self.ann]
        self.de = frac(dissim.delta_empty)
        self.d = []
        for a in range(self.n):
            row = []
            for b in range(a):
                ua, ub = self.ann[a][1], self.ann[b][1]
                row.append([[frac(dissim.d(x, y)) for y in ub] for x in ua])
            self.d.append(row)
        self.c2n = self.n * (self.n - 1) // 2
        self.nunits = sum(self.sizes)
        self.k = 0
        self._vals = [self.de] + [v for row in self.d for m in row for r in m for v in r]
        self.rescale(extra_values)

    @classmethod
    def shape_only(cls, cont):
        """sizes and unit numbering only (no costs): enough to map n-tuples to index tuples"""
        self = cls.__new__(cls)
        self.ann = units_of(cont)
        self.n = len(self.ann)
        self.sizes = [len(us) for _, us in self.ann]
        self.nunits = sum(self.sizes)
        return self

    def rescale(self, extra_values=()):
        vals = list(self._vals) + [frac(v) for v in extra_values]
        self.k = max([dyadic_exp(v) for v in vals] + [0])
        self.scale = 2 ** self.k

    def z(self, v):
        """scaled integer of an exact dyadic value"""
        w = frac(v) * self.scale
        assert w.denominator == 1, (v, self.k)
        return w.numerator

    def zfloor(self, v):
        w = frac(v) * self.scale
        return w.numerator // w.denominator

    @property
    def cut(self):
        return self.c2n * self.de * self.n

    def wire(self):
        out = w_list(self.sizes) + [self.z(self.de)]
        out += w_list(self.d, lambda row: w_list(row, lambda m: w_list(m, lambda r: w_list([self.z(v) for v in r]))))
        return out

    # exact reference computations on the Python side (used only to explain a verdict, never to decide it)
    def pair_cost(self, a, b, t):
        i, j = t[a], t[b]
        if i == self.sizes[a] or j == self.sizes[b]:
            return self.de
        return self.d[a][b][i][j]

    def ua_sum(self, t):
        return sum((self.pair_cost(a, b, t) for a in range(self.n) for b in range(a)), Fraction(0))

    def index_tuple(self, n_tuple):
        """map a library n_tuple [(annotator, unit|None)] to an index tuple, None if not expressible"""
        names = [a for a, _ in self.ann]
        t = [None] * self.n
        for (ann, unit) in n_tuple:
            if ann not in names:
                return None
            a = names.index(ann)
            if t[a] is not None:
                return None
            if unit is None:
                t[a] = self.sizes[a]
            else:
                try:
                    t[a] = self.ann[a][1].index(unit)
                except ValueError:
                    return None
        if any(v is None for v in t):
            return None
        return t

    def describe(self):
        return {"annotators": [a for a, _ in self.ann],
                "units": [[(u.segment.start, u.segment.end, u.annotation) for u in us] for _, us in self.ann]}


def enum_key(t):
    """sort key giving the order of numba_utils.iter_tuples (index 0 fastest)"""
    return tuple(reversed([int(v) for v in t]))
