"""C17 - alignment validity checks accept exactly partitions and covers.

For generated continua: the best alignment, random partitions and their neighbours (dropped / duplicated / moved / re-slotted /
reordered units and tuples, wrong lengths, foreign units and annotators, the empty alignment) are checked by Alignment.check,
SoftAlignment.check and by construction with check_validity=True; the outcome enum (ok / SetPartitionError / ValueError / KeyError)
must equal the Gallina model's (Check/Model.v), whose exact meaning is given by the theorems of props/C17.v."""
import gen
import alignchk as ac
from common import rng_for, run_model, coq_eval, w_list

RULE = ("per generated continuum (2..4 annotators, 0..4 units each, labelled/unlabelled): a valid alignment (best alignment or a random "
        "partition) and ~25 neighbours (drop tuple, duplicate tuple, duplicate one unit into an empty slot, remove one unit, re-slot, "
        "shuffle tuples, shorter tuple, foreign unit, foreign annotator, empty alignment); outcome of Alignment.check, "
        "SoftAlignment.check, and both constructors with check_validity=True compared exactly with the model; non-trivial = neighbour "
        "differing from the valid alignment; distinct by (continuum, alignment)")
TRUSTED_BASE = ["Coq 8.16.1 kernel", "extraction (ExtrOcamlBasic only), ocaml/driver.ml", "harness/{common,gen,c17}.py: numbering of (annotator, unit) pairs",
                "Python set / Counter / SortedDict semantics are exercised through the checks only"]
ASSUMPTIONS = ["Unit equality and hashing are those of the frozen dataclass (segment, annotation)"]

CODES = {"ok": 0, "SetPartitionError": 1, "ValueError": 2, "KeyError": 3}


def outcome(f):
    try:
        f()
        return 0
    except Exception as e:
        return CODES.get(type(e).__name__, "%s: %s" % (type(e).__name__, e))


def neighbours(rng, names, units_by_ann, valid):
    """valid: list of tuples [(annotator, unit|None)]; yields (label, alignment)"""
    import copy
    from pyannote.core import Segment
    out = [("valid", valid), ("empty", [])]
    if valid:
        out.append(("shuffled", rng.sample(valid, len(valid))))
        out.append(("reslotted", [rng.sample(t, len(t)) for t in valid]))
        k = rng.randrange(len(valid))
        out.append(("drop-tuple", valid[:k] + valid[k + 1:]))
        out.append(("dup-tuple", valid + [valid[k]]))
        out.append(("dup-tuple-front", [valid[k]] + valid))
        # duplicate one unit into an empty slot of another tuple
        for _ in range(4):
            i, j = rng.randrange(len(valid)), rng.randrange(len(valid))
            t = valid[i]
            reals = [s for s in t if s[1] is not None]
            if i != j and reals:
                a, u = rng.choice(reals)
                tj = [(b, (u if (b == a and v is None) else v)) for (b, v) in valid[j]]
                if tj != valid[j]:
                    al = list(valid)
                    al[j] = tj
                    out.append(("dup-unit", al))
        # the SAME (annotator, unit) a second time inside its own tuple, in the place of another slot (an empty one: nothing else is missing,
        # the only fault is the repetition; a filled one: that unit goes missing as well)
        for _ in range(4):
            i = rng.randrange(len(valid))
            t = valid[i]
            reals = [k for k, s in enumerate(t) if s[1] is not None]
            empties = [k for k, s in enumerate(t) if s[1] is None]
            if reals and len(t) >= 2:
                k = rng.choice(reals)
                others = empties if (empties and rng.random() < 0.7) else [x for x in range(len(t)) if x != k]
                j = rng.choice(others)
                al = list(valid)
                al[i] = [t[k] if x == j else s for x, s in enumerate(t)]
                out.append(("dup-within-tuple", al))
        # remove one unit (slot becomes empty)
        for _ in range(3):
            i = rng.randrange(len(valid))
            reals = [s for s in valid[i] if s[1] is not None]
            if len(reals) >= 2:
                a, u = rng.choice(reals)
                al = list(valid)
                al[i] = [(b, (None if (b == a) else v)) for (b, v) in valid[i]]
                out.append(("remove-unit", al))
        # move a unit to another tuple where its annotator's slot is empty
        for _ in range(3):
            i, j = rng.randrange(len(valid)), rng.randrange(len(valid))
            reals = [s for s in valid[i] if s[1] is not None]
            if i != j and len(reals) >= 2:
                a, u = rng.choice(reals)
                if any(b == a and v is None for (b, v) in valid[j]):
                    al = list(valid)
                    al[i] = [(b, (None if b == a else v)) for (b, v) in valid[i]]
                    al[j] = [(b, (u if b == a else v)) for (b, v) in valid[j]]
                    out.append(("move-unit", al))
        # a shorter tuple
        i = rng.randrange(len(valid))
        if len(valid[i]) > 2:
            al = list(valid)
            al[i] = valid[i][:-1]
            out.append(("short-tuple", al))
            out.append(("all-short", [t[:-1] for t in valid]))
    return out


def random_partition(rng, names, units_by_ann):
    pools = {a: list(us) for a, us in units_by_ann.items()}
    for a in pools:
        rng.shuffle(pools[a])
    al = []
    while any(pools.values()):
        t = []
        for a in names:
            if pools[a] and rng.random() < 0.7:
                t.append((a, pools[a].pop()))
            else:
                t.append((a, None))
        if any(u is not None for _, u in t):
            al.append(t)
    return al


def run(rep, tier, seed, pa):
    from pyannote.core import Segment
    from pygamma_agreement.alignment import Alignment, SoftAlignment, UnitaryAlignment
    Unit = pa.continuum.Unit
    rng = rng_for(seed, "C17")
    ncont = 60 if tier == "quick" else 600
    lines, metas = [], []
    for ci in range(ncont):
        n = rng.choice([2, 3, 3, 4])
        sizes = gen.sizes_for(rng, n, 4) if ci % 10 else [0] * n
        unl = rng.random() < 0.3
        units = gen.gen_units(rng, n, sizes, rng.choice(gen.PATTERNS), gen.LABEL_SETS["abc"], unl) if sum(sizes) else [[] for _ in range(n)]
        cont = gen.build_continuum(pa, units)
        names = list(cont.annotators)
        by_ann = {a: list(cont[a]) for a in names}
        valid = random_partition(rng, names, by_ann)
        # numbering
        uid = {}

        def unit_id(u):
            if u not in uid:
                uid[u] = len(uid)
            return uid[u]
        allnames = sorted(set(names) | {"zz_foreign"})
        arank = {a: i for i, a in enumerate(allnames)}
        cont_pairs = [(arank[a], unit_id(u)) for a, u in cont]
        cands = neighbours(rng, names, by_ann, valid)
        if valid:
            foreign = Unit(Segment(777.0, 778.0), "A")
            al = [list(t) for t in valid]
            a0 = al[0][0][0]
            al[0] = [(b, (foreign if b == a0 else v)) for (b, v) in al[0]]
            cands.append(("foreign-unit", al))
            al = [list(t) for t in valid]
            al[0] = [(("zz_foreign" if k == 0 else b), v) for k, (b, v) in enumerate(al[0])]
            cands.append(("foreign-annotator", al))
        for label, al in cands:
            uas = []
            ok_ctor = True
            for t in al:
                if len(t) < 2:
                    ok_ctor = False
                    break
                uas.append(UnitaryAlignment(list(t)))
            if not ok_ctor:
                continue
            obs = [outcome(lambda: Alignment(uas, cont).check()),
                   outcome(lambda: Alignment(uas).check(cont)),
                   outcome(lambda: Alignment(uas, cont, check_validity=True)),
                   outcome(lambda: SoftAlignment(uas, cont).check()),
                   outcome(lambda: SoftAlignment(uas, cont, check_validity=True))]
            enc_al = w_list(al, lambda t: w_list(t, lambda s: [arank[s[0]]] + ([0] if s[1] is None else [1, unit_id(s[1])])))
            lines.append([200] + w_list(cont_pairs, lambda p: [p[0], p[1]]) + enc_al)
            metas.append((label, units, al, obs))
    outs = run_model(lines)
    for (label, units, al, obs), out in zip(metas, outs):
        rep.count("kind=" + label)
        expect = [out[0], out[0], out[0], out[1], out[1]] if isinstance(out, list) and len(out) == 2 else None
        rep.count("align_outcome=%s" % (out[0] if expect else "?"))
        rep.count("soft_outcome=%s" % (out[1] if expect else "?"))
        rep.case(sample={"kind": label, "alignment": [[(a, str(u)) for a, u in t] for t in al][:4], "observed": obs, "model": out},
                 nontrivial_key=(repr(units), repr(al)) if label not in ("valid",) else None)
        if expect is None or obs != expect:
            rep.violation("check-outcome:" + label, {"units": units, "alignment": [[(a, None if u is None else (u.segment.start, u.segment.end, u.annotation))
                                                                                    for a, u in t] for t in al],
                                                     "observed": obs, "model": out, "kind": label},
                          "validity checks returned %r, the model of 'exactly once / at least once' says %r (%s)" % (obs, expect, label))
    sample = [l for l in lines if len(l) < 300][:10]
    coq = coq_eval(sample)
    oc = run_model(sample)
    rep.extra["extraction_crosscheck"] = {"cases": len(sample), "agree": sum(1 for a, b in zip(oc, coq) if a == b)}
    if any(a != b for a, b in zip(oc, coq)):
        rep.violation("extraction", {}, "extracted model and vm_compute disagree no-failing-input-found")


def replay(rep, data, pa):
    from pyannote.core import Segment
    from pygamma_agreement.alignment import Alignment, SoftAlignment, UnitaryAlignment
    Unit = pa.continuum.Unit
    units = [[tuple(u) for u in us] for us in data["units"]]
    cont = gen.build_continuum(pa, units)
    al = [[(a, None if u is None else Unit(Segment(u[0], u[1]), u[2])) for a, u in t] for t in data["alignment"]]
    uas = [UnitaryAlignment(list(t)) for t in al]
    obs = [outcome(lambda: Alignment(uas, cont).check()), outcome(lambda: Alignment(uas).check(cont)),
           outcome(lambda: Alignment(uas, cont, check_validity=True)), outcome(lambda: SoftAlignment(uas, cont).check()),
           outcome(lambda: SoftAlignment(uas, cont, check_validity=True))]
    m = data["model"]
    expect = [m[0], m[0], m[0], m[1], m[1]]
    print("  observed", obs, "model", expect)
    return obs == expect
