"""C15 - the statistical sampler emits valid continua with the reference's statistics.

(1) the parameters measured by init_sampling are compared with the model's exact statistics of the reference (means exactly, standard
deviations through their squares); (2) samples are drawn with NumPy's primitives recorded: the sequence of requested primitives and their
parameters must be the one the model prescribes (number of units ~ N(avg_nb, std_nb), gap ~ N(avg_gap, std_gap), duration ~ |N(avg_dur, std_dur)|
redrawn while too short, category ~ choice(categories, weights)) and the sampled continuum must equal the model's replay of the recorded values;
(3) output-level validity: non-empty, exactly the ground-truth annotators, durations above the segment precision, categories of the reference."""
from fractions import Fraction

import numpy as np

import gen
import alignchk as ac
from common import rng_for, run_model, coq_eval, w_list, frac
from draws import Draws

RULE = ("labelled reference continua from VERIF_SEED (2..5 annotators, 1..6 units, empty annotators allowed) x ground-truth subsets x 3 samples, plus custom "
        "parameter sets (means, deviations incl. 0, category weights given or None); non-trivial = the sample has >= 2 annotators and a redrawn "
        "duration or a negative gap or a ground-truth subset; distinct by (reference or parameters, ground truth, recorded draws)")
TRUSTED_BASE = ["Coq 8.16.1 kernel", "extraction (ExtrOcamlBasic only), ocaml/driver.ml", "harness/{common,gen,draws,c15}.py",
                "that np.random.normal / choice follow their laws is NumPy's: the theorems and the check establish that the output is the stated "
                "function of the declared primitives, not the laws themselves (a chi-square screen in thorough is supporting only)"]
ASSUMPTIONS = ["references carry labels (the sampler's category table needs them, DESIGN 6)", "absolute/relative tolerance 1e-9 on float64 arithmetic",
               "a drawn duration within 1e-12 of the segment precision is a don't-care"]
TOL = Fraction(1, 10 ** 9)


def q(x):
    f = frac(x)
    return [f.numerator, f.denominator]


def near(a, b, tol=TOL):
    a, b = frac(a), frac(b)
    return abs(a - b) <= tol * max(1, abs(a), abs(b))


def parse_sample(out):
    """[1, rest, anns..., roles...]"""
    pos = 2
    n = out[pos]
    pos += 1
    anns = []
    for _ in range(n):
        m = out[pos]
        pos += 1
        us = []
        for _ in range(m):
            us.append((Fraction(out[pos], out[pos + 1]), Fraction(out[pos + 2], out[pos + 3]), out[pos + 4]))
            pos += 5
        anns.append(us)
    k = out[pos]
    roles = out[pos + 1: pos + 1 + k]
    return out[1], anns, roles


def check_run(rep, desc, sampler, gts, cats, prec, params, expect_p):
    """draw one sample in record mode; returns (bad list, model line, context)"""
    bad = []
    try:
        with Draws() as dr:
            sample = sampler.sample_from_continuum
    except Exception as e:
        return [("sampler-raises:" + type(e).__name__, "sample_from_continuum raised %r" % (e,))], None, None
    log = dr.log
    stream = []
    for e in log:
        if e["name"] == "normal":
            stream.append([1] + q(e["result"]))
        elif e["name"] == "choice":
            stream.append([0, e["index"]])
        else:
            bad.append(("unexpected-primitive", "np.random.%s requested" % e["name"]))
    if any(not e["main"] for e in log):
        bad.append(("draw-thread", "a primitive was drawn outside the calling thread"))
    line = [610] + q(prec) + [len(cats), len(gts)] + w_list(stream, lambda d: d)
    return bad, line, (sample, log)


def judge_run(rep, desc, out, sample, log, gts, cats, prec, params, expect_p):
    bad = []
    if not isinstance(out, list) or out[:1] != [1]:
        return [("stream", "the model cannot replay the recorded draws (it expects another sequence of primitives): %r" % (out if not isinstance(out, list) else out[:3],))], False
    rest, anns, roles = parse_sample(out)
    if rest != 0:
        bad.append(("stream", "%d recorded draws are not consumed by the model" % rest))
    if len(roles) != len(log):
        bad.append(("stream", "%d primitives recorded, %d in the model" % (len(log), len(roles))))
    want = {0: ("normal", params["avg_nb"], params["std_nb"]), 1: ("normal", params["avg_gap"], params["std_gap"]),
            2: ("normal", params["avg_dur"], params["std_dur"]), 3: ("choice",)}
    redraw = False
    prev = None
    for k, (r, e) in enumerate(zip(roles, log)):
        w = want[r]
        if e["name"] != w[0]:
            bad.append(("requested-primitive", "draw %d: np.random.%s requested where the model draws %s (role %d)" % (k, e["name"], w[0], r)))
            break
        if r == 3:
            if [str(x) for x in e["items"]] != [str(c) for c in cats]:
                bad.append(("category-list", "category drawn among %r, expected %r" % (e["items"], cats)))
                break
            if expect_p is None:
                if e["p"] is not None:
                    bad.append(("category-weights", "weights %r given, expected none (equiprobable)" % (e["p"],)))
                    break
            elif e["p"] is None or len(e["p"]) != len(expect_p) or any(not near(a, b) for a, b in zip(e["p"], expect_p)):
                bad.append(("category-weights", "category weights %r, expected %r" % (e["p"], [float(x) for x in expect_p])))
                break
        else:
            a = e["args"]
            if len(a) != 2 or not near(a[0], w[1]) or not near(a[1], w[2]):
                bad.append(("normal-parameters", "draw %d (role %d: %s): normal%r requested, expected normal(%r, %r)" % (
                    k, r, ["number of units", "gap", "duration"][r], tuple(float(x) for x in a), float(w[1]), float(w[2]))))
                break
            if r == 2 and prev == 2:
                redraw = True
        prev = r
    # the sampled continuum equals the model's replay
    names = list(sample.annotators)
    if names != sorted(gts):
        bad.append(("sample-annotators", "annotators %r, ground truth %r" % (names, sorted(gts))))
    else:
        for a, us in zip(sorted(gts), anns):
            got = sorted((u.segment.start, u.segment.end, str(u.annotation)) for u in sample[a])
            wantu = sorted(set((float(s), float(e), str(cats[c])) for s, e, c in us))
            if len(got) != len(wantu) or any(not (near(x[0], y[0]) and near(x[1], y[1]) and x[2] == y[2]) for x, y in zip(got, wantu)):
                bad.append(("sampled-units", "annotator %r: units %r, model %r" % (a, got, wantu)))
                break
    # output-level validity
    if not sample:
        bad.append(("empty-sample", "the sample is empty"))
    for a, u in sample:
        if not (u.segment.end - u.segment.start > prec):
            bad.append(("short-segment", "segment %r not longer than the precision" % (u.segment,)))
        if str(u.annotation) not in [str(c) for c in cats]:
            bad.append(("foreign-category", "category %r not in %r" % (u.annotation, cats)))
    neg_gap = any(r == 1 and frac(e["result"]) < 0 for r, e in zip(roles, log))
    return bad, (redraw or neg_gap)


def run(rep, tier, seed, pa):
    from pyannote.core.segment import SEGMENT_PRECISION
    prec = SEGMENT_PRECISION
    rng = rng_for(seed, "C15")
    nref = 40 if tier == "quick" else 400
    plines, pmetas = [], []
    lines, metas = [], []
    shared = None
    for ri in range(nref):
        n = rng.choice([2, 3, 3, 4, 5])
        sizes = gen.sizes_for(rng, n, 6, allow_empty=(ri % 6 == 0))
        units = gen.gen_units(rng, n, sizes, rng.choice(["perturbed", "random", "disjoint", "nested", "intgrid"]), gen.LABEL_SETS[rng.choice(["abc", "words"])])
        if sum(len(u) for u in units) == 0:
            continue
        cont = gen.build_continuum(pa, units)
        names = list(cont.annotators)
        gts = names if rng.random() < 0.5 or n < 3 else sorted(rng.sample(names, rng.randrange(2, n + 1)))
        desc = {"units": units, "ground_truth": list(gts)}
        # the same sampler object is re-initialised on successive references (every other reference): nothing of an earlier reference may leak
        if ri % 2 == 0 or "shared_sampler" not in rep.extra:
            rep.extra["shared_sampler"] = True
            shared = pa.StatisticalContinuumSampler()
        sampler = shared
        try:
            sampler.init_sampling(cont, gts)
        except Exception as e:
            rep.case()
            rep.violation("init-raises:" + type(e).__name__, dict(desc, error=repr(e)), "init_sampling raised %r" % (e,))
            continue
        cats = list(cont.categories)
        cid = {c: i for i, c in enumerate(cats)}
        ref = [[(u.segment.start, u.segment.end, cid[u.annotation]) for u in cont[a]] for a in names]
        plines.append([611] + w_list(ref, lambda us: w_list(us, lambda u: q(u[0]) + q(u[1]) + [u[2]])) + [len(cats)])
        import types
        frozen = types.SimpleNamespace(**{k: getattr(sampler, k) for k in ("_avg_nb_units_per_annotator", "_std_nb_units_per_annotator", "_avg_gap", "_std_gap",
                                                                          "_avg_unit_duration", "_std_unit_duration")},
                                       _categories=list(sampler._categories), _categories_weight=list(sampler._categories_weight))
        pmetas.append((desc, frozen, cats))
        params = {"avg_nb": sampler._avg_nb_units_per_annotator, "std_nb": sampler._std_nb_units_per_annotator, "avg_gap": sampler._avg_gap,
                  "std_gap": sampler._std_gap, "avg_dur": sampler._avg_unit_duration, "std_dur": sampler._std_unit_duration}
        for _ in range(3):
            np.random.seed(rng.randrange(2 ** 31))
            bad, line, ctx = check_run(rep, desc, sampler, list(gts), cats, prec, params, None)
            if line is None:
                rep.case()
                for k2, w in bad:
                    rep.violation(k2, desc, w)
                continue
            lines.append(line)
            metas.append((dict(desc), bad, ctx, list(gts), cats, params, list(sampler._categories_weight), "reference"))
    # custom parameter sets
    custom_sampler = [None]
    previous = []
    for ci in range(15 if tier == "quick" else 150):
        anns = rng.sample(["x1", "b", "Zed", "a a", "k"], rng.randrange(1, 5))
        cats = rng.sample(["A", "B", "C", "dd", "e"], 3 if ci % 2 else rng.randrange(1, 5))
        weights = None
        if rng.random() < 0.6:
            w = [rng.randrange(1, 5) for _ in cats]
            weights = [x / sum(w) for x in w]
        params = {"avg_nb": rng.choice([0.4, 2.0, 5.5]), "std_nb": rng.choice([0.0, 1.0, 3.0]), "avg_gap": rng.choice([-1.0, 0.5, 3.0]),
                  "std_gap": rng.choice([0.0, 2.0]), "avg_dur": rng.choice([0.0, 1.5, 10.0]), "std_dur": rng.choice([0.5, 4.0])}
        # custom parameter sets re-initialise ONE sampler object again and again (weights given, then not given, ...): nothing may leak
        if custom_sampler[0] is None or ci % 5 == 4:
            custom_sampler[0] = pa.StatisticalContinuumSampler()
            previous = []
        sampler = custom_sampler[0]
        desc = {"custom": params, "annotators": anns, "categories": cats, "weights": weights, "earlier_initialisations": list(previous)}
        previous.append({"custom": params, "annotators": anns, "categories": cats, "weights": weights})
        try:
            sampler.init_sampling_custom(anns, params["avg_nb"], params["std_nb"], params["avg_gap"], params["std_gap"], params["avg_dur"], params["std_dur"],
                                         cats, weights)
        except Exception as e:
            rep.case()
            rep.violation("init-custom-raises:" + type(e).__name__, dict(desc, error=repr(e)), "init_sampling_custom raised %r" % (e,))
            continue
        for _ in range(2):
            np.random.seed(rng.randrange(2 ** 31))
            bad, line, ctx = check_run(rep, desc, sampler, list(anns), cats, prec, params, weights)
            if line is None:
                rep.case()
                for k2, w in bad:
                    rep.violation(k2, desc, w)
                continue
            lines.append(line)
            metas.append((dict(desc), bad, ctx, list(anns), cats, params, weights, "custom"))
    # far positions: gaps so large that the float spacing at a unit's start is comparable to the durations drawn (epoch-like timestamps).  The exact
    # model does not apply there (it has no rounding), so only the output-level clauses are judged: every draw returns a continuum, it has exactly
    # the requested annotators, none empty, every emitted segment at least the precision long, only the listed categories
    from pyannote.core.segment import SEGMENT_PRECISION
    for P in ([3.0, 1.0, 1e9, 10.0, 2e-6, 1e-6], [3.0, 1.0, 2e11, 100.0, 1e-4, 5e-5], [4.0, 0.0, 1e9, 0.0, 1.5e-6, 1e-6]):
        fs = pa.StatisticalContinuumSampler()
        fanns, fcats = ["a", "b"], ["A", "B"]
        pd = dict(zip(("avg_nb", "std_nb", "avg_gap", "std_gap", "avg_dur", "std_dur"), P))
        try:
            fs.init_sampling_custom(fanns, *P, fcats, None)
        except Exception as e:
            rep.violation("init-custom-raises:" + type(e).__name__, {"custom": pd, "annotators": fanns, "categories": fcats, "weights": None, "error": repr(e)},
                          "init_sampling_custom raised %r" % (e,))
            continue
        for di in range(12 if tier == "quick" else 120):
            npseed = rng.randrange(2 ** 31)
            desc = {"custom": pd, "annotators": fanns, "categories": fcats, "weights": None, "numpy_seed": npseed, "far_positions": True}
            rep.count("kind=far-positions")

            def draw():
                np.random.seed(npseed)
                c = fs.sample_from_continuum
                return [(a, u.segment.start, u.segment.end, u.annotation) for a, u in c], list(c.annotators)
            try:
                us, got_anns = ac.run_forked(30, draw)
            except ac.Watchdog:
                rep.case()
                rep.count("far_positions_redraw_does_not_end_skipped")    # the redraw loop of the unchanged code can spin when the spacing exceeds every draw
                continue
            except Exception as e:
                rep.case()
                rep.violation("sampler-raises:far-positions", dict(desc, error=str(e)[:300]), "sample_from_continuum raised: %s" % (str(e)[:200],))
                continue
            rep.case(sample={"kind": "far-positions", "units": len(us)}, nontrivial_key=repr(desc))
            if got_anns != sorted(fanns):
                rep.violation("sample-annotators", desc, "far positions: annotators %r, requested %r" % (got_anns, fanns))
            if not us:
                rep.violation("empty-sample", desc, "far positions: an empty continuum was sampled")
            if any(e - s0 < SEGMENT_PRECISION for _, s0, e, _ in us):
                rep.violation("short-segment", desc, "far positions: a segment shorter than the precision was emitted")
            if any(l not in fcats for _, _, _, l in us):
                rep.violation("foreign-category", desc, "far positions: a category outside the supplied list")
    # (1) parameters
    for (desc, sampler, cats), out in zip(pmetas, run_model(plines)):
        vals = [Fraction(out[2 * i], out[2 * i + 1]) for i in range(6)]
        nw = out[12]
        wts = [Fraction(out[13 + 2 * i], out[14 + 2 * i]) for i in range(nw)]
        got = [sampler._avg_nb_units_per_annotator, sampler._std_nb_units_per_annotator ** 2, sampler._avg_gap, sampler._std_gap ** 2,
               sampler._avg_unit_duration, sampler._std_unit_duration ** 2]
        namesp = ["mean number of units", "variance of the number of units", "mean gap", "variance of the gaps", "mean duration", "variance of the durations"]
        rep.count("parameter_sets_compared")
        for nm, g, v in zip(namesp, got, vals):
            if not near(g, v, Fraction(1, 10 ** 7)):
                rep.violation("measured-parameter:" + nm.replace(" ", "-"), dict(desc, measured=float(g), model=float(v)),
                              "%s measured on the reference is %r, the stated statistic is %r" % (nm, float(g), float(v)))
        if [str(c) for c in sampler._categories] != [str(c) for c in cats] or len(wts) != len(sampler._categories_weight) or \
                any(not near(a, b) for a, b in zip(sampler._categories_weight, wts)):
            rep.violation("measured-parameter:category-weights", dict(desc, measured=[float(x) for x in sampler._categories_weight], model=[float(x) for x in wts]),
                          "category weights %r, frequencies in the reference %r" % (list(sampler._categories_weight), [float(x) for x in wts]))
    # (2)+(3) samples
    for (desc, bad0, (sample, log), gts, cats, params, weights, kind), out in zip(metas, run_model(lines)):
        bad, interesting = judge_run(rep, desc, out, sample, log, gts, cats, frac(1e-6) if False else 1e-6, params, weights)
        gray = any(e["name"] == "normal" and abs(abs(frac(e["result"])) - frac(1e-6)) < Fraction(1, 10 ** 12) for e in log)
        rep.count("kind=" + kind)
        rep.count("sample_annotators=%d" % len(gts))
        desc["draws"] = [(e["name"], e.get("index"), None if e["name"] == "choice" else float(e["result"])) for e in log][:60]
        rep.case(sample={"kind": kind, "annotators": gts, "primitives": len(log), "units": sample.num_units, "agree": not (bad or bad0)},
                 nontrivial_key=repr(desc) if (len(gts) >= 2 and interesting) or ("ground_truth" in desc and len(gts) < len(desc.get("units", gts))) else None)
        if gray:
            rep.gray += 1
            continue
        for k2, w in bad0 + bad:
            rep.violation(k2, desc, w)
    if tier == "thorough":
        screen(rep, pa, rng)
    sample = [l for l in lines if len(l) < 400][:6]
    coq = coq_eval(sample)
    oc = run_model(sample)
    rep.extra["extraction_crosscheck"] = {"cases": len(sample), "agree": sum(1 for a, b in zip(oc, coq) if a == b)}
    if any(a != b for a, b in zip(oc, coq)):
        rep.violation("extraction", {}, "extracted model and vm_compute disagree no-failing-input-found")


def screen(rep, pa, rng):
    """SUPPORTING TEST ONLY (never raises a violation): empirical means of many draws against the supplied parameters"""
    s = pa.StatisticalContinuumSampler()
    s.init_sampling_custom(["a", "b"], 6.0, 1.0, 2.0, 0.5, 3.0, 0.5, ["A", "B", "C"], [0.5, 0.3, 0.2])
    np.random.seed(rng.randrange(2 ** 31))
    durs, cats = [], []
    for _ in range(300):
        c = s.sample_from_continuum
        for _, u in c:
            durs.append(u.segment.duration)
            cats.append(u.annotation)
    rep.extra["statistical_screen_supporting_only"] = {"units": len(durs), "mean_duration": float(np.mean(durs)), "expected_mean_duration": 3.0,
                                                       "category_frequencies": {k: cats.count(k) / len(cats) for k in "ABC"}, "expected": [0.5, 0.3, 0.2]}


def replay(rep, data, pa):
    print("  C15 replay: re-run the recorded draws %r ..." % (data.get("draws", [])[:6],))
    if data.get("far_positions"):
        pr = data["custom"]
        sampler = pa.StatisticalContinuumSampler()
        sampler.init_sampling_custom(data["annotators"], pr["avg_nb"], pr["std_nb"], pr["avg_gap"], pr["std_gap"], pr["avg_dur"], pr["std_dur"], data["categories"], None)
        np.random.seed(data["numpy_seed"])
        try:
            c = sampler.sample_from_continuum
        except Exception as e:
            print("  sample_from_continuum raised %r" % (e,))
            return False
        ok = list(c.annotators) == sorted(data["annotators"]) and c.num_units > 0 and \
            all(u.segment.end - u.segment.start >= 1e-6 and u.annotation in data["categories"] for _, u in c)
        print("  far positions: %d units, all clauses hold: %r" % (c.num_units, ok))
        return ok
    if "custom" in data:
        # custom parameters: the same sampler object goes through the recorded earlier initialisations first, then this one
        sampler = pa.StatisticalContinuumSampler()
        for d in list(data.get("earlier_initialisations") or []) + [data]:
            pr = d["custom"]
            sampler.init_sampling_custom(d["annotators"], pr["avg_nb"], pr["std_nb"], pr["avg_gap"], pr["std_gap"], pr["avg_dur"], pr["std_dur"], d["categories"], d["weights"])
        np.random.seed(data.get("seed", 0) % (2 ** 31))
        bad, line, ctx = check_run(rep, data, sampler, list(data["annotators"]), data["categories"], 1e-6, data["custom"], data["weights"])
        if line is not None:
            bad2, _ = judge_run(rep, data, run_model([line])[0], ctx[0], ctx[1], list(data["annotators"]), data["categories"], 1e-6, data["custom"], data["weights"])
            bad = list(bad) + list(bad2)
        for k, w in bad:
            print("  ", k, w)
        return not bad
    if "units" not in data:
        return False
    units = [[tuple(u) for u in us] for us in data["units"]]
    cont = gen.build_continuum(pa, units)
    sampler = pa.StatisticalContinuumSampler()
    sampler.init_sampling(cont, data["ground_truth"])
    script = [(n, i if n == "choice" else v) for n, i, v in data["draws"]]
    cats = list(cont.categories)
    params = {"avg_nb": sampler._avg_nb_units_per_annotator, "std_nb": sampler._std_nb_units_per_annotator, "avg_gap": sampler._avg_gap,
              "std_gap": sampler._std_gap, "avg_dur": sampler._avg_unit_duration, "std_dur": sampler._std_unit_duration}
    with Draws(script=script) as dr:
        sample = sampler.sample_from_continuum
    stream = [[1] + q(e["result"]) if e["name"] == "normal" else [0, e["index"]] for e in dr.log]
    out = run_model([[610] + q(1e-6) + [len(cats), len(data["ground_truth"])] + w_list(stream, lambda d: d)])[0]
    bad, _ = judge_run(rep, data, out, sample, dr.log, list(data["ground_truth"]), cats, 1e-6, params, list(sampler._categories_weight))
    for k, w in bad:
        print("  ", k, w)
    return not bad
