#!/bin/bash
# Full build: Coq development (all proofs), axiom/admit scan, extraction, OCaml driver.
set -e
cd "$(dirname "$0")"
ROOT=$(pwd)
cd "$ROOT/coq"
# generated tables must exist before coq_makefile lists them
# a translator failure must not take the other properties down: it is recorded and reported by the checks of the properties that depend on the failed table
if [ -x "$ROOT/harness/gen_tables.sh" ]; then
  # gen_tables.py writes gen/STATUS itself: one line `<generator> ok|failed: reason` per generated file (cli, const, dissim)
  rm -f gen/STATUS
  "$ROOT/harness/gen_tables.sh" 2> gen/STATUS.err || [ -s gen/STATUS ] || echo "cli failed: translator did not run
const failed: translator did not run
dissim failed: translator did not run" > gen/STATUS
fi
# property files (props/) are NOT part of this build: each check recompiles its own property file, so that a proof obligation broken by a
# change of /repo (e.g. props/C20.v over the regenerated table) only affects that property
{ echo "-Q theories PGA"; echo "-Q gen PGAgen";
  find theories gen -name '*.v' | LC_ALL=C sort; } > _CoqProject
timeout 3000 coq_makefile -f _CoqProject -o Makefile > /dev/null
timeout 3000 make -j16 2>&1 | grep -v '^COQDEP\|^COQC\|^make\[' || true
# make's status is lost by the pipe: re-run (no-op when complete) to get it
timeout 3000 make -j16 > /dev/null
# no escape hatches anywhere in the development
if grep -rnE '\b(Admitted|admit|Axiom|Parameter|Conjecture|Admit Obligations)\b|Unset Guard|bypass_check|type-in-type|impredicative-set' \
     --include='*.v' theories gen genprops props Extract.v | grep -v '^[^:]*:[0-9]*: *(\*' ; then
  echo "BUILD ERROR: forbidden vernacular found" >&2; exit 3
fi
mkdir -p extracted
( cd extracted && timeout 600 coqc -Q ../theories PGA -Q ../gen PGAgen ../Extract.v > /dev/null )
cp extracted/model.ml extracted/model.mli "$ROOT/ocaml/"
cd "$ROOT/ocaml"
timeout 600 ocamlfind ocamlopt -O3 -package unix -linkpkg model.mli model.ml driver.ml -o driver 2>/dev/null || \
timeout 600 ocamlfind ocamlopt -package unix -linkpkg model.mli model.ml driver.ml -o driver
echo "build ok"
