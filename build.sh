#!/bin/bash
# Full build: Coq development (all proofs), axiom/admit scan, extraction, OCaml driver.
set -e
cd "$(dirname "$0")"
ROOT=$(pwd)
cd "$ROOT/coq"
# generated tables must exist before coq_makefile lists them
if [ -x "$ROOT/harness/gen_tables.sh" ]; then "$ROOT/harness/gen_tables.sh"; fi
{ echo "-Q theories PGA"; echo "-Q gen PGAgen"; echo "-Q props PGAprops";
  find theories gen props -name '*.v' | LC_ALL=C sort; } > _CoqProject
timeout 3000 coq_makefile -f _CoqProject -o Makefile > /dev/null
timeout 3000 make -j16 2>&1 | grep -v '^COQDEP\|^COQC\|^make\[' || true
# make's status is lost by the pipe: re-run (no-op when complete) to get it
timeout 3000 make -j16 > /dev/null
# no escape hatches anywhere in the development
if grep -rnE '\b(Admitted|admit|Axiom|Parameter|Conjecture|Admit Obligations)\b|Unset Guard|bypass_check|type-in-type|impredicative-set' \
     --include='*.v' theories gen props Extract.v | grep -v '^[^:]*:[0-9]*: *(\*' ; then
  echo "BUILD ERROR: forbidden vernacular found" >&2; exit 3
fi
mkdir -p extracted
( cd extracted && timeout 600 coqc -Q ../theories PGA -Q ../gen PGAgen ../Extract.v > /dev/null )
cp extracted/model.ml extracted/model.mli "$ROOT/ocaml/"
cd "$ROOT/ocaml"
timeout 600 ocamlfind ocamlopt -O3 -package unix -linkpkg model.mli model.ml driver.ml -o driver 2>/dev/null || \
timeout 600 ocamlfind ocamlopt -package unix -linkpkg model.mli model.ml driver.ml -o driver
echo "build ok"
