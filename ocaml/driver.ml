(* Generic driver: each input line is a list of hexadecimal integers (optionally negative);
   the line is handed to the extracted [Model.run : z list -> z list]; the result is printed
   on one line in the same format.  "T" = per-line time limit exceeded, "E <msg>" = exception. *)
open Model

let pos_of_hex (s : string) (start : int) : positive option =
  (* most significant digit first; None when the value is zero *)
  let acc = ref None in
  for k = start to String.length s - 1 do
    let c = s.[k] in
    let d = match c with
      | '0'..'9' -> Char.code c - 48
      | 'a'..'f' -> Char.code c - 87
      | 'A'..'F' -> Char.code c - 55
      | _ -> failwith ("bad digit in " ^ s) in
    for b = 3 downto 0 do
      let bit = (d lsr b) land 1 = 1 in
      acc := (match !acc, bit with
              | None, false -> None
              | None, true -> Some XH
              | Some p, false -> Some (XO p)
              | Some p, true -> Some (XI p))
    done
  done;
  !acc

let z_of_token (s : string) : z =
  if s = "" then failwith "empty token" else
  let neg = s.[0] = '-' in
  match pos_of_hex s (if neg then 1 else 0) with
  | None -> Z0
  | Some p -> if neg then Zneg p else Zpos p

let hex_of_pos (p : positive) : string =
  (* collect bits least significant first *)
  let bits = ref [] in
  let rec go p = match p with
    | XH -> bits := true :: !bits
    | XO q -> bits := false :: !bits; go q
    | XI q -> bits := true :: !bits; go q in
  (* go pushes LSB first, so !bits ends MSB first after the walk *)
  go p;
  let l = Array.of_list !bits in   (* MSB first *)
  let n = Array.length l in
  let pad = (4 - n mod 4) mod 4 in
  let buf = Buffer.create (n / 4 + 2) in
  let get i = if i < pad then false else l.(i - pad) in
  let total = n + pad in
  let i = ref 0 in
  while !i < total do
    let d = (if get !i then 8 else 0) + (if get (!i+1) then 4 else 0)
            + (if get (!i+2) then 2 else 0) + (if get (!i+3) then 1 else 0) in
    Buffer.add_char buf "0123456789abcdef".[d];
    i := !i + 4
  done;
  Buffer.contents buf

let token_of_z (z : z) : string = match z with
  | Z0 -> "0"
  | Zpos p -> hex_of_pos p
  | Zneg p -> "-" ^ hex_of_pos p

exception Timeout

let () =
  let limit = if Array.length Sys.argv > 1 then int_of_string Sys.argv.(1) else 0 in
  Sys.set_signal Sys.sigalrm (Sys.Signal_handle (fun _ -> raise Timeout));
  (try
    while true do
      let line = input_line stdin in
      let toks = List.filter (fun s -> s <> "") (String.split_on_char ' ' (String.trim line)) in
      (try
        let args = List.map z_of_token toks in
        if limit > 0 then ignore (Unix.alarm limit);
        let res = (try let r = run_model args in ignore (Unix.alarm 0); Some r
                   with Timeout -> None) in
        (match res with
         | Some r -> print_string (String.concat " " (List.map token_of_z r))
         | None -> print_string "T")
      with
      | Timeout -> print_string "T"
      | Stack_overflow -> ignore (Unix.alarm 0); print_string "E stack_overflow"
      | Failure m -> ignore (Unix.alarm 0); print_string ("E " ^ m));
      print_newline ()
    done
  with End_of_file -> ())
