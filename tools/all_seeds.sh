#!/bin/bash
# tools/all_seeds.sh [repo] [shard nshards]: for every saved seeded change, apply it to <repo> (default /repo; must be clean), run the quick check of the property it
# breaks, undo it; prints one line per seed.  Evidence written meanwhile is restored.  Meant for `vp run --with-repo -- bash -c 'VERIF_REPO=$VP_RUN_REPO tools/all_seeds.sh $VP_RUN_REPO'`.
cd "$(dirname "$0")/.."
R=${1:-/repo}
export VERIF_REPO=$R
if ! git -C "$R" diff --quiet; then echo "$R has local changes, refusing"; exit 2; fi
bk=$(mktemp -d /tmp/pgaverif_evid.XXXXXX); cp -a evidence/. "$bk"/ 2>/dev/null
trap 'git -C "$R" checkout -- . ; rm -rf evidence; mkdir -p evidence; cp -a "$bk"/. evidence/; rm -rf "$bk"; rm -f replays/*.json; python3 harness/gen_tables.py' EXIT
missed=0
SH=${2:-0}; NSH=${3:-1}; k=0     # optional sharding: several `vp run --with-repo` snapshots in parallel, each taking every NSH-th seed
for d in seeded/*/; do
  n=$(basename "$d")
  k=$((k+1)); [ $((k % NSH)) -eq "$SH" ] || continue
  p=$(python3 -c "import json;m=json.load(open('$d/meta.json'));print(m.get('run_check', m['breaks_property']))")
  git -C "$R" apply "$(pwd)/$d/patch.diff" || { echo "$n: patch does not apply"; continue; }
  ./check "$p" quick > /tmp/all_seeds.$$.log 2>&1; rc=$?
  kinds=$(grep -o "^  ([a-zA-Z0-9:_-]*)" /tmp/all_seeds.$$.log | sort | uniq -c | tr '\n' ' ')
  proof=$(grep -o "proof [A-Za-z]*" /tmp/all_seeds.$$.log | tail -1)
  echo "$n: $p exit=$rc $proof | $kinds"
  [ $rc -eq 0 ] && missed=$((missed+1))
  git -C "$R" checkout -- .
  rm -f replays/*.json
done
rm -f /tmp/all_seeds.$$.log
echo "missed=$missed"
