#!/bin/bash
# tools/run_all.sh [tier] : run every claimed check once, print the summary lines; evidence files are rewritten.
cd "$(dirname "$0")/.."
tier=${1:-quick}
for p in $(python3 -c "import json;print(' '.join(c['property_id'] for c in json.load(open('MANIFEST.json'))['checks']))"); do
  ./check $p $tier 2>&1 | grep -E "VIOLATION|KNOWN-FINDING|$tier:" | cut -c1-300
done
