#!/usr/bin/env python3
"""Regenerates the table of DESIGN.md Appendix C from seeded/*/meta.json (a row is marked with a cross when its meta says a check had to be strengthened)."""
import glob, json, os, re
V = os.path.dirname(os.path.dirname(os.path.abspath(__file__)))
rows, strengthened = [], 0
for f in sorted(glob.glob(os.path.join(V, "seeded", "*", "meta.json"))):
    m = json.load(open(f))
    c = " ".join(m["checks_that_catch_it"].split())
    mark = bool(re.search(r"only after|after strengthening|- after |in response to this seed|missed before|after adding|needed the |now runs in a forked", c))
    strengthened += mark
    rows.append("| `%s` | %s | %s | %s%s |" % (os.path.basename(os.path.dirname(f)), m["breaks_property"], " ".join(m["needs_to_manifest"].split()).replace("|", "/"),
                                              "✚ " if mark else "", c.replace("|", "/")))
p = os.path.join(V, "DESIGN.md")
s = open(p).read()
head = "| seeded change | property | needs, to manifest | caught by |\n|---|---|---|---|\n"
a = s.index(head) + len(head)
b = s.index("\n\n", a)
s = s[:a] + "\n".join(rows) + s[b:]
s = re.sub(r"All \d+ are caught by the quick tier; \*\*\d+ required strengthening a check first\*\*",
           "All %d are caught by the quick tier; **%d required strengthening a check first**" % (len(rows), strengthened), s)
open(p, "w").write(s)
print(len(rows), "seeds,", strengthened, "needed strengthening")
