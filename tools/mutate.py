#!/usr/bin/env python3
"""tools/mutate.py <repo> <shard> <nshards> [max]: mutation campaign.  Enumerates single-point AST mutants of pygamma_agreement (comparison / arithmetic /
boolean operator swaps, small-constant changes, dropped `not`, `is None` flips) inside function bodies, applies each to <repo> (a scratch snapshot -
never /repo), runs the quick checks of the properties mapped to the mutated function, and prints one line per mutant: killed-by <check> or SURVIVED.
Survivors are either equivalent mutants or detection gaps to study.  Usage: vp run --with-repo -- bash -c './setup.sh; tools/mutate.py $VP_RUN_REPO 0 3 120'"""
import ast, copy, os, random, subprocess, sys, time

REPO, SHARD, NSH = sys.argv[1], int(sys.argv[2]), int(sys.argv[3])
MAX = int(sys.argv[4]) if len(sys.argv) > 4 else 100
START = int(sys.argv[5]) if len(sys.argv) > 5 else 0
V = os.path.dirname(os.path.dirname(os.path.abspath(__file__)))
assert os.path.realpath(REPO) != "/repo", "never mutate /repo itself"

FUNC_CHECKS = {
    ("dissimilarity.py", None): ["C04", "C07", "C03", "C01"],
    ("dissimilarity.py", "_get_all_valid_alignments"): ["C07", "C01", "C02"],
    ("dissimilarity.py", "_compute_alignment_disorders"): ["C03", "C12"],
    ("numba_utils.py", None): ["C07", "C01"],
    ("continuum.py", None): ["C13", "C14"],
    ("continuum.py", "get_best_alignment"): ["C01", "C02", "C08"],
    ("continuum.py", "get_best_soft_alignment"): ["C11", "C08"],
    ("continuum.py", "get_first_window"): ["C10"],
    ("continuum.py", "get_fast_alignment"): ["C10", "C03"],
    ("continuum.py", "measure_best_window_size"): ["C10", "C14"], ("continuum.py", "f"): ["C10", "C05"],
    ("continuum.py", "avg_num_annotations_per_annotator"): ["C03", "C19"], ("continuum.py", "avg_length_unit"): ["C16", "C19"],
    ("continuum.py", "category_weights"): ["C19", "C15"], ("continuum.py", "bounds"): ["C13", "C16"],
    ("continuum.py", "compute_gamma"): ["C05", "C06"],
    ("continuum.py", "gamma"): ["C05"], ("continuum.py", "expected_disorder"): ["C05"], ("continuum.py", "gamma_cat"): ["C12"], ("continuum.py", "gamma_k"): ["C12"],
    ("continuum.py", "from_csv"): ["C18"], ("continuum.py", "to_csv"): ["C18"], ("continuum.py", "add_textgrid"): ["C18"], ("continuum.py", "add_elan"): ["C18"],
    ("continuum.py", "from_rttm"): ["C18"], ("continuum.py", "add_annotation"): ["C18", "C13"],
    ("continuum.py", "_compute_fast_alignment_job"): ["C10", "C05"],
    ("alignment.py", None): ["C03", "C10"],
    ("alignment.py", "avg_num_annotations_per_annotator"): ["C03"], ("alignment.py", "disorder"): ["C03"], ("alignment.py", "gamma_k_disorder"): ["C12"], ("alignment.py", "check"): ["C17"], ("alignment.py", "nb_units"): ["C12"],
    ("sampler.py", None): ["C16", "C15", "C05"],
    ("cst.py", None): ["C19", "C14"],
    ("cli_apps.py", None): ["C20"],
}
SKIP_FUNCS = {"_repr_png_", "__repr__", "__str__", "approx_gamma_range", "check_if_dissim", "levenshtein"}


class Site:
    def __init__(self, fname, func, lineno, kind, apply):
        self.fname, self.func, self.lineno, self.kind, self.apply = fname, func, lineno, kind, apply


def sites_of(fname, tree):
    out = []

    def visit(node, func):
        for ch in ast.iter_child_nodes(node):
            f = func
            if isinstance(ch, (ast.FunctionDef,)):
                f = ch.name
                if f in SKIP_FUNCS:
                    continue
            if func is not None and not isinstance(ch, (ast.FunctionDef, ast.ClassDef)):
                if isinstance(ch, (ast.Raise, ast.Assert)) or (isinstance(ch, ast.Expr) and isinstance(ch.value, ast.Call) and ast.unparse(ch.value.func).startswith(("logging", "print", "warnings"))):
                    continue
                collect(ch, func)
            visit(ch, f)

    def collect(n, func):
        ln = getattr(n, "lineno", 0)
        if isinstance(n, ast.Compare) and len(n.ops) == 1:
            swaps = {ast.Lt: ast.LtE, ast.LtE: ast.Lt, ast.Gt: ast.GtE, ast.GtE: ast.Gt, ast.Eq: ast.NotEq, ast.NotEq: ast.Eq, ast.Is: ast.IsNot, ast.IsNot: ast.Is}
            t = swaps.get(type(n.ops[0]))
            if t:
                out.append(Site(fname, func, ln, "cmp:%s->%s" % (type(n.ops[0]).__name__, t.__name__), lambda m, t=t: setattr(m, "ops", [t()])))
        if isinstance(n, ast.BinOp):
            swaps = {ast.Add: ast.Sub, ast.Sub: ast.Add, ast.Mult: ast.Div, ast.Div: ast.Mult, ast.FloorDiv: ast.Mult}
            t = swaps.get(type(n.op))
            if t and not isinstance(n.left, ast.Constant) or (t and not isinstance(getattr(n.left, "value", None), str)):
                out.append(Site(fname, func, ln, "arith:%s->%s" % (type(n.op).__name__, t.__name__), lambda m, t=t: setattr(m, "op", t())))
        if isinstance(n, ast.BoolOp):
            t = ast.Or if isinstance(n.op, ast.And) else ast.And
            out.append(Site(fname, func, ln, "bool:%s->%s" % (type(n.op).__name__, t.__name__), lambda m, t=t: setattr(m, "op", t())))
        if isinstance(n, ast.UnaryOp) and isinstance(n.op, ast.Not):
            out.append(Site(fname, func, ln, "not-dropped", "dropnot"))
        if isinstance(n, ast.Constant) and isinstance(n.value, (int, float)) and not isinstance(n.value, bool) and abs(n.value) <= 10:
            out.append(Site(fname, func, ln, "const:%r->%r" % (n.value, n.value + 1), lambda m: setattr(m, "value", m.value + 1)))

    visit(tree, None)
    return out


def enumerate_mutants():
    muts = []
    for fname in ("dissimilarity.py", "continuum.py", "alignment.py", "sampler.py", "cst.py", "cli_apps.py", "numba_utils.py"):
        src = open(os.path.join(REPO, "pygamma_agreement", fname)).read()
        tree = ast.parse(src)
        # index nodes in a deterministic walk so that a site can be found again in a fresh copy
        nodes = list(ast.walk(tree))
        sites = sites_of(fname, tree)
        idx = {id(n): k for k, n in enumerate(nodes)}
        # re-run collection keeping node identity: simpler - enumerate by (walk index, kind)
        k = 0
        for n in nodes:
            pass
        muts += [(fname, s) for s in sites]
    return muts


def make_mutant(fname, target_k):
    """apply the target_k-th site of the file (in sites_of order) to a fresh tree; returns (source, site)"""
    src = open(os.path.join(REPO, "pygamma_agreement", fname)).read()
    tree = ast.parse(src)
    # collect sites with their nodes on this fresh tree
    found = []

    class C(ast.NodeVisitor):
        pass
    # re-implement collection with node capture
    def visit(node, func):
        for ch in ast.iter_child_nodes(node):
            f = func
            if isinstance(ch, ast.FunctionDef):
                f = ch.name
                if f in SKIP_FUNCS:
                    continue
            if func is not None and not isinstance(ch, (ast.FunctionDef, ast.ClassDef)):
                if isinstance(ch, (ast.Raise, ast.Assert)) or (isinstance(ch, ast.Expr) and isinstance(ch.value, ast.Call) and ast.unparse(ch.value.func).startswith(("logging", "print", "warnings"))):
                    continue
                n = ch
                if isinstance(n, ast.Compare) and len(n.ops) == 1 and type(n.ops[0]) in (ast.Lt, ast.LtE, ast.Gt, ast.GtE, ast.Eq, ast.NotEq, ast.Is, ast.IsNot):
                    found.append(n)
                if isinstance(n, ast.BinOp) and type(n.op) in (ast.Add, ast.Sub, ast.Mult, ast.Div, ast.FloorDiv):
                    found.append(n)
                if isinstance(n, ast.BoolOp):
                    found.append(n)
                if isinstance(n, ast.UnaryOp) and isinstance(n.op, ast.Not):
                    found.append(n)
                if isinstance(n, ast.Constant) and isinstance(n.value, (int, float)) and not isinstance(n.value, bool) and abs(n.value) <= 10:
                    found.append(n)
            visit(ch, f)
    visit(tree, None)
    return tree, found


def mutate_node(tree, n):
    if isinstance(n, ast.Compare):
        sw = {ast.Lt: ast.LtE, ast.LtE: ast.Lt, ast.Gt: ast.GtE, ast.GtE: ast.Gt, ast.Eq: ast.NotEq, ast.NotEq: ast.Eq, ast.Is: ast.IsNot, ast.IsNot: ast.Is}
        old = type(n.ops[0]).__name__
        n.ops = [sw[type(n.ops[0])]()]
        return "cmp:%s->%s" % (old, type(n.ops[0]).__name__)
    if isinstance(n, ast.BinOp):
        sw = {ast.Add: ast.Sub, ast.Sub: ast.Add, ast.Mult: ast.Div, ast.Div: ast.Mult, ast.FloorDiv: ast.Mult}
        old = type(n.op).__name__
        n.op = sw[type(n.op)]()
        return "arith:%s->%s" % (old, type(n.op).__name__)
    if isinstance(n, ast.BoolOp):
        old = type(n.op).__name__
        n.op = ast.Or() if isinstance(n.op, ast.And) else ast.And()
        return "bool:%s->%s" % (old, type(n.op).__name__)
    if isinstance(n, ast.UnaryOp):
        # replace `not x` by x in the parent
        for p in ast.walk(tree):
            for field, val in ast.iter_fields(p):
                if val is n:
                    setattr(p, field, n.operand)
                elif isinstance(val, list) and n in val:
                    val[val.index(n)] = n.operand
        return "not-dropped"
    if isinstance(n, ast.Constant):
        old = n.value
        n.value = old + 1
        return "const:%r->%r" % (old, n.value)


def func_of(tree, node):
    best = None
    for f in ast.walk(tree):
        if isinstance(f, ast.FunctionDef) and any(x is node for x in ast.walk(f)):
            best = f.name      # innermost wins because ast.walk is breadth-first: keep the last
    return best


def run(cmd, timeout):
    try:
        r = subprocess.run(cmd, shell=True, capture_output=True, text=True, timeout=timeout, cwd=V, env=dict(os.environ, VERIF_REPO=REPO))
        return r.returncode, r.stdout + r.stderr
    except subprocess.TimeoutExpired:
        return 124, "timeout"


def main():
    allm = []
    for fname in ("dissimilarity.py", "continuum.py", "alignment.py", "sampler.py", "cst.py", "cli_apps.py", "numba_utils.py"):
        tree, found = make_mutant(fname, None)
        for k in range(len(found)):
            allm.append((fname, k))
    rnd = random.Random(20261001)
    rnd.shuffle(allm)
    mine = [m for i, m in enumerate(allm) if i % NSH == SHARD][START:START + MAX]
    print("total mutation sites: %d; this shard runs %d" % (len(allm), len(mine)), flush=True)
    for fname, k in mine:
        path = os.path.join(REPO, "pygamma_agreement", fname)
        orig = open(path).read()
        tree, found = make_mutant(fname, k)
        node = found[k]
        fn = func_of(tree, node)
        ln = node.lineno
        kind = mutate_node(tree, node)
        try:
            new = ast.unparse(tree)
            compile(new, fname, "exec")
        except Exception as e:
            print("%s:%d %s in %s: does-not-compile" % (fname, ln, kind, fn), flush=True)
            continue
        checks = FUNC_CHECKS.get((fname, fn)) or FUNC_CHECKS.get((fname, None)) or ["C13"]
        open(path, "w").write(new)
        verdict, t0 = None, time.time()
        try:
            for c in checks:
                rc, out = run("./check %s quick" % c, 2400)
                if rc != 0:
                    last = [l for l in out.splitlines() if l.startswith("  (")][:1]
                    verdict = "killed-by %s %s" % (c, last[0].strip()[:100] if last else "")
                    break
            if verdict is None:
                # would the existing tests have noticed?  (only then is it not a 'realistic' change in the brief's sense)
                rc, out = run("cd %s && PYTHONPATH=%s timeout 1500 /venv/bin/python -m pytest -q -x -p no:cacheprovider --timeout=900 --deselect tests/test_cli.py 2>&1 | tail -3" % (REPO, REPO), 1600)
                verdict = "SURVIVED checks %s; test suite: %s" % (",".join(checks), "passes" if " passed" in out and "failed" not in out and "error" not in out.lower() else "FAILS (killed by the existing tests)")
        finally:
            open(path, "w").write(orig)
            subprocess.run("rm -f replays/*.json", shell=True, cwd=V)
        print("%s:%d %s in %s: %s [%.0fs]" % (fname, ln, kind, fn, verdict, time.time() - t0), flush=True)


if __name__ == "__main__":
    main()
