#!/bin/bash
# tools/replay_audit.sh [repo] [seed-name ...]: for one saved seed per property (or the named seeds): apply it, run the quick check, take the first replay file with a concrete input,
# re-run it with --replay on the seeded tree (must FAIL) and on the restored tree (must HOLD).  One line per property.
cd "$(dirname "$0")/.."
R=${1:-/repo}
export VERIF_REPO=$R
if ! git -C "$R" diff --quiet; then echo "$R has local changes, refusing"; exit 2; fi
bk=$(mktemp -d /tmp/pgaverif_evid.XXXXXX); cp -a evidence/. "$bk"/ 2>/dev/null
trap 'git -C "$R" checkout -- . ; rm -rf evidence; mkdir -p evidence; cp -a "$bk"/. evidence/; rm -rf "$bk"; rm -f replays/*.json; python3 harness/gen_tables.py' EXIT
shift
if [ $# -gt 0 ]; then list="$*"; else list=$(python3 -c "import json;print(' '.join(c['property_id'] for c in json.load(open('MANIFEST.json'))['checks']))"); fi
for it in $list; do
  if [ -d "seeded/$it" ]; then d="seeded/$it"; p=$(python3 -c "import json;m=json.load(open('$d/meta.json'));print(m.get('run_check', m['breaks_property']))"); else p=$it; d=$(ls -d seeded/$p-* | tail -1); fi
  rm -f replays/*.json
  git -C "$R" apply "$(pwd)/$d/patch.diff" || { echo "$p: patch does not apply"; continue; }
  ./check $p quick > /dev/null 2>&1
  f=$(ls replays/$p-*.json 2>/dev/null | grep -v "proof\|crash\|timeout" | head -1)
  if [ -z "$f" ]; then echo "$p ($(basename $d)): no replay with a concrete input"; git -C "$R" checkout -- .; continue; fi
  cp "$f" /tmp/replay_audit.$$.json
  a=$(./check $p --replay /tmp/replay_audit.$$.json 2>&1 | grep -o "replay: property [A-Z]*" | tail -1)
  git -C "$R" checkout -- .
  b=$(./check $p --replay /tmp/replay_audit.$$.json 2>&1 | grep -o "replay: property [A-Z]*" | tail -1)
  key=$(python3 -c "import json;print(json.load(open('/tmp/replay_audit.$$.json')).get('key'))")
  echo "$p ($(basename $d)) key=$key | seeded tree: ${a:-no verdict} | restored tree: ${b:-no verdict}"
done
rm -f /tmp/replay_audit.$$.json
