#!/usr/bin/env python3
"""Regenerates MANIFEST.json from the table below (properties.jsonl is never touched)."""
import json
import os
import subprocess

V = os.path.dirname(os.path.dirname(os.path.abspath(__file__)))
props = [json.loads(l)["id"] for l in open(os.path.join(V, "properties.jsonl"))]

TB = ("Trusted: Coq 8.16.1 kernel (vm_compute used for finite examples and the extraction cross-check, no native_compute); no axioms "
      "(Print Assumptions of every property theorem is re-run on each check and stored in the evidence); extraction with ExtrOcamlBasic "
      "only (no Extract Constant) + ocaml/driver.ml; the Python harness (generators, exact float->rational encoders, instrumentation). "
      "The Python code is modelled by hand-written Gallina, tied to /repo on every run by the differential correspondence described in the text. ")

CLAIMED = {
 "C01": ("4/C01", "theorems + verified checker on every returned alignment",
         "Theorems (all instances): the 0/1 constraint A x = 1 holds iff the decoded selection is a partition into well-formed tuples "
         "(Aeq1_iff_partition), the GLPK formulation has the same feasible set, candidates are well-formed, a feasible selection always exists. "
         "Tie to the code: every alignment returned by get_best_alignment on generated continua (incl. empty annotators, coinciding units, "
         "unlabelled units, both back-ends) is judged by the extracted checker is_partitionb whose meaning is the theorem is_partitionb_spec; "
         "build_A is compared entrywise with the model's rows.",
         TB + "Solver termination is only observed (watchdog)."),
 "C02": ("4/C02", "verified optimality certificate (budgeted exact-cover search) + pruning theorem",
         "Theorems: the verified search is sound and optimal over any candidate list; pruning at the cut never removes the minimum "
         "(pruning_sound, no sign condition on d); C02_best_is_minimal: a certificate over the pruned list bounds every partition. "
         "Tie: for each generated small continuum the exact cost of the library's alignment is certified minimal by the extracted search, "
         "its reported disorder must equal its exact disorder within 2^-15, and pruned vs unpruned optima are compared.",
         TB + "Costs are those of dissimilarity.d(); oracle reach is bounded by a per-case time limit (undecided cases are counted as skipped)."),
 "C07": ("4/C07", "theorems on the enumeration/filter/buffer model + verified merge walk on the library output",
         "Theorems: enumeration complete, duplicate-free, all-null last; candidates_spec; buffered computation = plain filter for every capacity "
         "c0 and divisor g with c0/g >= 1 and every candidate count; soundness and exactness of the judge c07_check. Tie: valid_alignments() "
         "output on generated continua and on shapes sitting on every buffer-growth boundary is judged by the extracted c07_check; the code's "
         "buffer constants are re-read from the source on each run and checked against the hypothesis of the theorem.",
         "Translator tie: c2n, the cut expression, the keep test, the final strip [:i_chosen - 1] and the loop shapes of _get_all_valid_alignments are "
         "translated from dissimilarity.py (genprops/KernelGen.v); C07_src_* re-prove cut / passes / removelast against them on every run. " +
         TB + "Gray zone of relative width 2^-15 around the cut."),
 "C08": ("4/C08", "formulation-equivalence theorem + three solver configurations judged by the verified checkers",
         "Theorems: A x = 1 <=> (A x <= 1 and A x >= 1); either vector decodes to a partition / cover; the selection logic ends in exactly one "
         "delivering solve. Tie: each case runs under CBC, cylp masked, and CBC raising SolverError; results judged by the verified checkers, "
         "certified minimal when small, compared across configurations, and the recorded solver calls must equal the selection model.",
         TB + "CBC and GLPK themselves are oracles."),
 "C11": ("4/C11", "verified minimum-cover certificate + cover/pruning theorems",
         "Theorems: A x >= 1 iff cover; cover search sound/optimal for non-negative costs; pruning sound for covers; C11_soft_is_minimal; "
         "soft <= best. Tie: library soft alignments judged by is_coverb, certified minimal by the extracted budgeted search, compared with best.",
         TB + "Costs are those of dissimilarity.d()."),
 "C12": ("4/C12", "theorems on the accumulator-loop model; gamma_cat / gamma_k value rule and job wiring translated from continuum.py and re-proved equal to the model on every run; exact-rational comparison of gamma_k_disorder / gamma_cat / gamma_k",
         "Theorems: the loop equals the weighted mean over considered pairs (gk_loop_eq_spec), exact characterisation of the conventional values, "
         "non-negativity, gamma-cat/gamma-k <= 1, zero disorder (gamma = 1) when categories agree and nothing is unaligned, order independence. "
         "Tie 1 (translator): the bodies of GammaResults.gamma_cat / gamma_k (value rule; which job is submitted with which category over which "
         "alignments) and the accumulator loop of Alignment.gamma_k_disorder (statement by statement: one turn of the pair loop as a state "
         "transformer, the weight base, the final value) are translated from the current sources and C12_src_* prove them equal to gamma_cat_of / "
         "gamma_of / gk_step / weight_base / gk_loop (the whole loop, by induction over the alignment). "
         "Tie 2 (correspondence): gamma_k_disorder on best / soft / random alignments x combined dissimilarities x categories, and gamma_cat / gamma_k of "
         "compute_gamma results, compared with the extracted model evaluated on the library's own positional/categorical unit values.",
         TB + "Unit-to-unit values are inputs (C04); tolerance 2^-15."),
 "C13": ("4/C13", "invariant + refinement theorems over all histories; exhaustive short and random long histories run against the model",
         "Theorems: strict total order on units; the invariant (sorted annotators, strictly sorted unit sets, categories covering labels, enclosing "
         "bounds, no zero-length unit) is preserved by every operation and hence by every history (run_ops_inv); each operation refines the "
         "set-per-annotator specification; canonical form; equality; tight bounds after reset; in-place = out-of-place merge. Tie: operation "
         "sequences (exhaustive to depth 2/3 over 52 operations, random to length 60) executed on real Continuum objects and on the extracted "
         "model with every observation compared exactly after every operation.",
         "Translator tie: Unit.__lt__, Continuum.__eq__ / __ne__ / __bool__ are translated from continuum.py (harness/gen_cont.py -> genprops/ContGen.v) and "
         "C13_src_* re-prove them equal to unit_ltb / cont_eqb / cont_bool on every run; the bodies of the container operations (add, remove, merge, "
         "reset_bounds, iteration, properties) are read as text (genprops/ShapesGen.v) and compared by C13_src_operations. " +
         TB + "sortedcontainers / pyannote Segment are reached through the Continuum API only; names and labels are order-preserving ranks."),
 "C17": ("4/C17", "exact characterisation theorems of both checks + outcome comparison on neighbours of valid alignments",
         "Theorems: check succeeds iff uniform lengths, every continuum pair present and no pair repeated (iff exactly once on own-pair alignments); "
         "soft check iff at least once; SetPartitionError characterised; independence of tuple order, slot order and continuum order. "
         "Tie: Alignment.check / SoftAlignment.check / constructors with check_validity=True on valid alignments and ~25 neighbours each, outcome "
         "enum compared exactly with the extracted model.",
         TB + "Python set/Counter semantics reached through the checks only."),
 "C04": ("4/C04", "algebraic-law theorems on the exact-rational formulas; formulas re-proved equal to the d() / kernel bodies translated from dissimilarity.py on every run; differential comparison of d() and the compiled kernels with the formulas",
         "Theorems: symmetry, non-negativity, zero on identical units for every class; array form = unit form for the absolute one; Levenshtein "
         "symmetric, bounded, hence normaliser 1 and value independent of the other labels; ordinal value independent of the supplied order and at "
         "most delta_empty; combined inherits the laws and uses one delta_empty. Tie 1 (translator): the bodies of d() and of the kernel built by "
         "compile_d_mat() for the positional, absolute, table and combined classes, _category_index and the row _build_arrays_continuum writes are "
         "translated expression by expression (fail-closed AST translator, genprops/DissimGen.v) and the C04_src_* theorems - source body = model "
         "formula, kernel on rows = d() on units, for all units - are re-proved against the translation on every run. Tie 2 (correspondence): for objects of every class built from generated constructor "
         "arguments (1..300 categories, label orders, components with another delta_empty) d(u1,u2) and the kernel value "
         "(UnitaryAlignment([(a,u1),(b,u2)]).compute_disorder) must equal the extracted model's exact formula within 2^-17.",
         TB + "harness/gen_tables.py (expression translator; numpy float32 arithmetic is read as exact rational arithmetic). The model description is "
         "built from constructor arguments only; float32 rounding tolerance 2^-17. Matrix construction of the Levenshtein / ordinal classes is tied by "
         "the correspondence only."),
 "C09": ("4/C09", "invariance theorems (dissimilarities, pair sums, delta_empty scaling of candidates/optima/gamma) + metamorphic runs on large continua",
         "Theorems: positional dissimilarity invariant under shift and positive scaling, absolute under injective renaming, ordinal under relisting; "
         "sum over unordered annotator pairs invariant under permutation; delta_empty * k multiplies every cost and the cut by k, keeps the candidate "
         "set, scales best and soft optima, leaves gamma unchanged. Tie: the relations are checked on the implementation for continua beyond the "
         "oracle (2x60, 3x15, 5x5) with float32-exact transformations, and seeded gamma under delta_empty scaling.",
         TB + "Implementation-only metamorphic comparison; tolerance 2^-15."),
 "C03": ("4/C03", "definition / slot-order / cached-value theorems + comparison of the four observation points with exact sums",
         "Theorems: the pair loop is the sum over the C(n,2) unordered annotator pairs; slots are placed by annotator rank so the listing order is "
         "irrelevant (row_of_ntuple_perm); annotator order irrelevant for symmetric costs; cached disorder = recomputed one; the faithful model of "
         "UnitaryAlignment.compute_disorder is REFUTED (definition x n/k with empty slots: known finding, pinned by a test). Tie: Alignment.disorder, "
         "[u.disorder], Alignment.compute_disorder, UnitaryAlignment.compute_disorder on best / soft / fast and hand-built alignments (shuffled "
         "slots, with / without continuum) against the extracted model's exact sums within 2^-15.",
         "Translator tie: the pair rule (delta_empty when either category cell is -1, else the kernel value), the divisor and the loop shape of "
         "_compute_alignment_disorders are translated from dissimilarity.py (harness/gen_kernel.py -> genprops/KernelGen.v) and C03_src_* re-prove them equal "
         "to pair_cost / c2n / pairs on every run. " +
         TB + "Pair costs are those of d() (C04)."),
 "C05": ("4/C05", "theorems on the sampling rule and on gamma, re-proved equal to the gamma / sample-count code translated from continuum.py on every run + recorded compute_gamma runs judged by the model and the verified checkers",
         "Theorems: total = max(n_samples, N_required), no extra sample without precision, second batch iff needed, N_required is the exact ceiling of "
         "conf^2 Var / (mean^2 p^2), gamma <= 1, gamma = 1 when observed is 0, identical annotations have a zero-cost partition hence optimum 0. "
         "Tie 1 (translator): GammaResults.gamma / expected_disorder, the required_samples expression, the test guarding the second batch and its size "
         "are translated from the current continuum.py (harness/gen_gamma.py -> genprops/GammaGen.v); C05_src_* prove them equal to gamma_of, "
         "n_required (with the source's confidence constant, for any std whose square is the population variance) and second_batch. "
         "Tie 2 (correspondence): compute_gamma over modes x samplers x precision x n_samples x ground-truth subsets with the sampler recorded: sample count equals the "
         "extracted rule evaluated exactly on the library's chance disorders, one fresh sample per chance alignment in draw order, chance "
         "alignments judged by the verified partition / cover checkers against their own continua, observed / expected / gamma recomputed.",
         TB + "Validity and laws of the samples themselves are C15 / C16; constants re-read from the source each run."),
 "C10": ("4/C10", "termination / partition theorems over an oracle window optimiser + per-iteration trace validation",
         "Theorems: windows consist of remaining units; the unrepaired step can stall (refutation witness = the defect that was fixed); the repaired "
         "step always removes a unit, so the loop terminates within #units iterations for every window size and oracle; taken + remaining always "
         "partition the original units; the chosen tuples come from the window's alignment and are all of it when every tuple ends before the limit. "
         "Tie: get_fast_alignment under a watchdog with get_first_window / window alignments recorded; the extracted model replays the loop and "
         "window, limit, chosen tuples and final alignment must coincide at every iteration; oracle answers and the result judged by the verified "
         "partition checker; disorder vs exact sums; >= best, = best on a full window; job dispatch of fast-mode gamma observed.",
         TB + "The window optimiser is an oracle (judged by C01/C02); the cost estimate of measure_best_window_size is not modelled."),
 "C15": ("4/C15", "validity theorems for every draw stream + recorded draws replayed in the model (parameters and requested primitives compared)",
         "Theorems: for EVERY stream of draws the sample has exactly the ground-truth annotators, is non-empty, every unit is at least the precision "
         "long and carries a listed category; durations are redrawn until long enough; category weights sum to 1, variances >= 0, gap list as stated. "
         "Tie: init_sampling's measured parameters equal the extracted model's exact statistics of the reference; samples drawn with np.random.* "
         "recorded must request exactly the primitives and parameters the model prescribes and equal the model's replay of the recorded values.",
         TB + "PARTIAL: that np.random.normal / choice follow their laws is NumPy's (a frequency screen in thorough is supporting only and can never raise a violation)."),
 "C16": ("4/C16", "availability-invariant theorems (float and integer pivots) + recorded / scripted draws replayed in the model",
         "Theorems: removing a zone leaves exactly the available points at least dist away; for every contract-respecting stream pivots lie in the bounds and "
         "pivots drawn while segments remain are >= dist from all earlier ones (float); integer pivots are whole and apart whenever the chosen segment holds a "
         "whole number; sampled annotators are wrapped translations (count, durations, labels kept); the ORIGINAL zone removal and integer rule are refuted "
         "(both repaired by fix commits). Tie: sample_from_continuum with np.random.* recorded: offered segments, weights, uniform bounds, annotator list and "
         "the sampled units must be the extracted model's; _remove_pivot_segment compared alone; scripted witness replayed.",
         TB + "PARTIAL: laws of the primitives are NumPy's; separation is claimed while segments remain."),
 "C19": ("4/C19", "confinement theorems per perturbation + recorded draws replayed in the model of corpus_shuffle",
         "Theorems: false negatives only remove and never empty an annotator; false positives only add; category shuffling keeps segments; shifting moves "
         "ends only (same category, start < end) and cannot add units; a real split keeps the total duration and adds one unit (fresh pieces); magnitude 0 "
         "changes nothing; positive durations and the number of annotators are preserved. Tie: corpus_shuffle over magnitudes x annotators x flag "
         "combinations with np.random.* recorded; the extracted model's replay must equal the library's corpus; output-level clauses checked directly.",
         TB + "PARTIAL: laws of the primitives; count-based clauses carry a freshness side condition; class constants re-read each run."),
 "C06": ("4/C06", "schedule-independence theorem + trace validation under forced schedules, real pools and hash seeds",
         "Theorems: for pure jobs with draws on the submitting thread, every execution order of the submitted jobs (any permutation, with re-executions) "
         "yields the sequential results, order and random state; sensitivity: with draws inside the jobs two schedules differ; the one shared cell samples copy (best_window_size) written before the draws gives the sequential samples, an unread write is harmless, a worker's write that draws read is schedule-dependent. Tie: the pool of "
         "compute_gamma / gamma_cat / gamma_k is replaced by a recording executor forcing FIFO / LIFO / random / delayed orders on worker threads and by real "
         "pools of 1, 2, 7, 16 workers (processor count following), incl. fast-mode runs on continua large enough to be windowed; np.random.* recorded: every draw on the submitting thread, collection in submission order, inputs unchanged and never written from a worker thread, and all "
         "results bit-identical across schedules, repetition, and subprocesses with other PYTHONHASHSEED values.",
         TB + "PARTIAL: races inside native code and third-party nondeterminism cannot be exhibited by the model."),
 "C14": ("4/C14", "separation / confinement theorems on a heap model + before/after snapshots and mutation of derived objects",
         "Theorems: every repaired constructor (new, copy, corpus_from_reference) yields a separated world; in a separated world a write through one "
         "continuum changes no other's view; the ORIGINAL corpus_from_reference is refuted (aliasing, repaired by a fix commit). Tie: ~25 entry points "
         "with deep snapshots of every argument before / after; every derived continuum mutated and its source re-read (and conversely); container "
         "identities pairwise distinct; random histories of new / copy / derive / add on real objects and the extracted heap model.",
         TB + "PARTIAL: purity of the Python computations is only checked per explored call."),
 "C18": ("4/C18", "CSV round-trip theorem on a character-level model of Python's csv module + byte-for-byte comparison and generated annotation files",
         "Theorems: read(write(rows)) = rows for every delimiter other than quote / CR / LF and ALL field texts (rows of >= 2 fields); the original "
         "text-mode layer is refuted for fields containing CR (repaired by a fix commit) and proved harmless otherwise; zero-length rows are discarded / "
         "rejected exactly as requested; tier importers yield exactly one unit per non-empty interval / annotation of the selected tiers with the file's "
         "times and the requested label. Tie: csv.writer / csv.reader vs the extracted writer / reader byte for byte on generated texts; to_csv -> from_csv "
         "round trips of generated continua (file content = model's); generated .TextGrid / .eaf / .rttm files loaded and compared with the model's adds.",
         TB + "PARTIAL: third-party parsers and float repr are oracles."),
 "C20": ("4/C20", "finite decisions over the option table regenerated from cli_apps.py on every run + in-process CLI vs API comparison",
         "Theorems (re-proved against coq/gen/CliGen.v, which harness/gen_tables.py regenerates from the current source): every -d choice the parser accepts "
         "is mapped to the documented class, no branch is dead, choices are injective, every semantic option is wired to the parameter it names. "
         "Tie: the command-line entry point run in-process on generated CSV / RTTM files over option combinations, numbers parsed from print / CSV / JSON "
         "output and compared with compute_gamma called with the denoted configuration and the same seed.",
         TB + "PARTIAL: translator (AST of cli_apps.py, fail-closed) is trusted; number formatting compared with tolerance 1e-6."),
}

checks = []
# source fragments translated / read from /repo on every run and the theorems re-proved against them (DESIGN 2.6); appended to the notes
SRC_TIE = {
 "C02": "Translator tie: the keep test over the source's cut is the model's passes (C02_src_kept_iff_passes, genprops/KernelGen.v) and the program minimises "
        "disorders . x over 0/1 vectors under A x = 1 (C02_src_objective, genprops/IlpGen.v); re-proved on every run. ",
 "C09": "Translator tie: the invariances are also stated and proved on the definitions translated from dissimilarity.py (C09_src_*: pos_d under shift / "
        "scaling / delta_empty, abs_d under injective renaming, the cut under delta_empty scaling), re-proved on every run. ",
 "C14": "Translator tie: the bodies of copy, copy_flush, merge, __add__, Continuum.__init__, corpus_from_reference and the tool's __init__ are read from the "
        "sources (genprops/ShapesGen.v); C14_src_constructors compares them with the text the heap model was written for, on every run. ",
 "C15": "Translator tie: the number of units, start / end of a unit, the redraw test and the gap expressions are translated from sampler.py "
        "(genprops/StatGen.v) and proved to be the model's (C15_src_*); the statements around them are compared as text; re-proved on every run. ",
 "C17": "Translator tie: the bodies of Alignment.check and SoftAlignment.check are read from alignment.py (genprops/ShapesGen.v); C17_src_checks compares "
        "them with the text the model was written for, on every run. ",
 "C18": "Translator tie: the bodies of from_csv, to_csv, from_rttm, add_textgrid, add_elan, add_annotation are read from continuum.py "
        "(genprops/ShapesGen.v); C18_src_readers_and_writer compares them with the text the models were written for, on every run. ",
 "C01": "Translator tie: the integer program of get_best_alignment (variable domain, objective, constraints, solvers, decoding) and build_A are read from "
        "continuum.py / numba_utils.py (genprops/IlpGen.v); C01_src_program / C01_src_build_A are re-proved against them on every run. ",
 "C06": "Translator tie: the pool section of compute_gamma (samples drawn inside the argument list of p.submit, results collected in submission order, "
        "both batches) is read from continuum.py (genprops/PoolGen.v); C06_src_pool_section is re-proved on every run. ",
 "C08": "Translator tie: the exceptions selecting the fallback and the solver named in each branch, for both alignments, are read from continuum.py "
        "(genprops/IlpGen.v); C08_src_backends is re-proved on every run. ",
 "C10": "Translator tie: to_take, the head's loop / take tests, the reachability threshold and the loop shapes of get_first_window / get_fast_alignment "
        "are translated from continuum.py (genprops/FastGen.v); C10_src_* are re-proved on every run. ",
 "C11": "Translator tie: the integer program of get_best_soft_alignment is read from continuum.py (genprops/IlpGen.v); C11_src_program is re-proved on "
        "every run. ",
 "C16": "Translator tie: _remove_pivot_segment, the integer rule of _random_from_segments and the shift / wrap of sample_from_continuum are translated from "
        "sampler.py (genprops/SamplerGen.v); C16_src_* prove them equal to the repaired model on every run. ",
 "C19": "Translator tie: the tool's arithmetic (amplitude, counts, shifted ends and retry test, removal test, added segment, transition entry, split bounds "
        "and pieces, order of the perturbations) is translated from cst.py (genprops/CstGen.v); C19_src_* are re-proved on every run, incl. magnitude 0 "
        "=> no amplitude / unit / round / removal and the identity transition row. ",
 "C05": "Also: job selection by mode, the job functions and the result object are read from continuum.py (genprops/PoolGen.v): C05_src_modes_and_result. ",
}
for p in props:
    if p not in CLAIMED:
        continue
    ref, tech, text, note = CLAIMED[p]
    note = SRC_TIE.get(p, "") + note
    checks.append({
        "property_id": p,
        "quick_cmd": "./check %s quick" % p,
        "thorough_cmd": "./check %s thorough" % p,
        "evidence_file": "/verif/evidence/%s.json" % p,
        "replay_cmd_template": "./check %s --replay {path}" % p,
        "engine": "coq-model+correspondence",
        "level_claimed": {"category": "proof", "text": text, "design_ref": "DESIGN.md section " + ref},
        "level_note": note,
        "technique": "machine-checked proof in Coq 8.16 (model + theorems) with extracted-model correspondence: " + tech,
    })

NA_REASON = {}
na = [{"property_id": p, "reason": NA_REASON.get(p, "not claimed yet: model/theorems/correspondence for this property are not finished at this "
       "commit (the technique applies; see DESIGN.md section 4 for the planned theorems)")} for p in props if p not in CLAIMED]

hook_commits = []
m = {
 "version": 1,
 "setup_cmd": "./setup.sh",
 "hooks": {"guard": "PYGAMMA_AGREEMENT_VERIF",
           "enable": "no repository hook is needed: instrumentation wraps names in the importing process (np.random.*, ThreadPoolExecutor, "
                     "cvxpy.Problem.solve, builtins.__import__); the checks set PYGAMMA_AGREEMENT_VERIF=1 but the library never reads it",
           "baseline_off_cmd": "cd /repo && /venv/bin/python -m pytest -ra -q -p no:cacheprovider --timeout=900 --continue-on-collection-errors",
           "source_commits": hook_commits, "add_only": True},
 "engines": [{"name": "coq-model+correspondence", "path": "coq/ ocaml/ harness/",
              "serves_properties": sorted(CLAIMED), "kind_free_text": "Gallina models and theorems (coq/theories, coq/props), extracted to OCaml "
              "and run against the implementation by the Python harness; property files re-checked by coqc on every run"}],
 "checks": checks,
 "notes": "All checks: ./check <id> quick|thorough|--replay <file>. VERIF_SEED seeds every generator; VERIF_REPO overrides /repo for self-tests. "
          "known_findings.txt lists recorded defects (finding:) and repaired ones (fixed:).",
 "not_applicable": na,
}
json.dump(m, open(os.path.join(V, "MANIFEST.json"), "w"), indent=1)
print("claimed:", sorted(CLAIMED), "unclaimed:", [x["property_id"] for x in na])
