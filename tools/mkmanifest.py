#!/usr/bin/env python3
"""Regenerates MANIFEST.json from the table below (properties.jsonl is never touched)."""
import json
import os
import subprocess

V = os.path.dirname(os.path.dirname(os.path.abspath(__file__)))
props = [json.loads(l)["id"] for l in open(os.path.join(V, "properties.jsonl"))]

TB = ("Trusted: Coq 8.16.1 kernel (vm_compute used for finite examples and the extraction cross-check, no native_compute); no axioms "
      "(Print Assumptions of every property theorem is re-run on each check and stored in the evidence); extraction with ExtrOcamlBasic "
      "only (no Extract Constant) + ocaml/driver.ml; the Python harness (generators, exact float->rational encoders, instrumentation). "
      "The Python code is modelled by hand-written Gallina, tied to /repo on every run by the differential correspondence described in the text. ")

CLAIMED = {
 "C01": ("4/C01", "theorems + verified checker on every returned alignment",
         "Theorems (all instances): the 0/1 constraint A x = 1 holds iff the decoded selection is a partition into well-formed tuples "
         "(Aeq1_iff_partition), the GLPK formulation has the same feasible set, candidates are well-formed, a feasible selection always exists. "
         "Tie to the code: every alignment returned by get_best_alignment on generated continua (incl. empty annotators, coinciding units, "
         "unlabelled units, both back-ends) is judged by the extracted checker is_partitionb whose meaning is the theorem is_partitionb_spec; "
         "build_A is compared entrywise with the model's rows.",
         TB + "Solver termination is only observed (watchdog)."),
 "C02": ("4/C02", "verified optimality certificate (budgeted exact-cover search) + pruning theorem",
         "Theorems: the verified search is sound and optimal over any candidate list; pruning at the cut never removes the minimum "
         "(pruning_sound, no sign condition on d); C02_best_is_minimal: a certificate over the pruned list bounds every partition. "
         "Tie: for each generated small continuum the exact cost of the library's alignment is certified minimal by the extracted search, "
         "its reported disorder must equal its exact disorder within 2^-15, and pruned vs unpruned optima are compared.",
         TB + "Costs are those of dissimilarity.d(); oracle reach is bounded by a per-case time limit (undecided cases are counted as skipped)."),
 "C07": ("4/C07", "theorems on the enumeration/filter/buffer model + verified merge walk on the library output",
         "Theorems: enumeration complete, duplicate-free, all-null last; candidates_spec; buffered computation = plain filter for every capacity "
         "c0 and divisor g with c0/g >= 1 and every candidate count; soundness and exactness of the judge c07_check. Tie: valid_alignments() "
         "output on generated continua and on shapes sitting on every buffer-growth boundary is judged by the extracted c07_check; the code's "
         "buffer constants are re-read from the source on each run and checked against the hypothesis of the theorem.",
         TB + "Gray zone of relative width 2^-15 around the cut."),
 "C08": ("4/C08", "formulation-equivalence theorem + three solver configurations judged by the verified checkers",
         "Theorems: A x = 1 <=> (A x <= 1 and A x >= 1); either vector decodes to a partition / cover; the selection logic ends in exactly one "
         "delivering solve. Tie: each case runs under CBC, cylp masked, and CBC raising SolverError; results judged by the verified checkers, "
         "certified minimal when small, compared across configurations, and the recorded solver calls must equal the selection model.",
         TB + "CBC and GLPK themselves are oracles."),
 "C11": ("4/C11", "verified minimum-cover certificate + cover/pruning theorems",
         "Theorems: A x >= 1 iff cover; cover search sound/optimal for non-negative costs; pruning sound for covers; C11_soft_is_minimal; "
         "soft <= best. Tie: library soft alignments judged by is_coverb, certified minimal by the extracted budgeted search, compared with best.",
         TB + "Costs are those of dissimilarity.d()."),
}

checks = []
for p in props:
    if p not in CLAIMED:
        continue
    ref, tech, text, note = CLAIMED[p]
    checks.append({
        "property_id": p,
        "quick_cmd": "./check %s quick" % p,
        "thorough_cmd": "./check %s thorough" % p,
        "evidence_file": "/verif/evidence/%s.json" % p,
        "replay_cmd_template": "./check %s --replay {path}" % p,
        "engine": "coq-model+correspondence",
        "level_claimed": {"category": "proof", "text": text, "design_ref": "DESIGN.md section " + ref},
        "level_note": note,
        "technique": "machine-checked proof in Coq 8.16 (model + theorems) with extracted-model correspondence: " + tech,
    })

NA_REASON = {}
na = [{"property_id": p, "reason": NA_REASON.get(p, "not claimed yet: model/theorems/correspondence for this property are not finished at this "
       "commit (the technique applies; see DESIGN.md section 4 for the planned theorems)")} for p in props if p not in CLAIMED]

hook_commits = []
m = {
 "version": 1,
 "setup_cmd": "./setup.sh",
 "hooks": {"guard": "PYGAMMA_AGREEMENT_VERIF",
           "enable": "no repository hook is needed: instrumentation wraps names in the importing process (np.random.*, ThreadPoolExecutor, "
                     "cvxpy.Problem.solve, builtins.__import__); the checks set PYGAMMA_AGREEMENT_VERIF=1 but the library never reads it",
           "baseline_off_cmd": "cd /repo && /venv/bin/python -m pytest -ra -q -p no:cacheprovider --timeout=900 --continue-on-collection-errors",
           "source_commits": hook_commits, "add_only": True},
 "engines": [{"name": "coq-model+correspondence", "path": "coq/ ocaml/ harness/",
              "serves_properties": sorted(CLAIMED), "kind_free_text": "Gallina models and theorems (coq/theories, coq/props), extracted to OCaml "
              "and run against the implementation by the Python harness; property files re-checked by coqc on every run"}],
 "checks": checks,
 "notes": "All checks: ./check <id> quick|thorough|--replay <file>. VERIF_SEED seeds every generator; VERIF_REPO overrides /repo for self-tests. "
          "known_findings.txt lists recorded defects (finding:) and repaired ones (fixed:).",
 "not_applicable": na,
}
json.dump(m, open(os.path.join(V, "MANIFEST.json"), "w"), indent=1)
print("claimed:", sorted(CLAIMED), "unclaimed:", [x["property_id"] for x in na])
