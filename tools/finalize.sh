#!/bin/bash
# tools/finalize.sh "<commit message>": full quick pass on the unchanged /repo, regenerate manifest + DESIGN appendix D, validate, commit.
cd "$(dirname "$0")/.."
if ! git -C /repo diff --quiet; then echo "/repo has local changes"; exit 2; fi
rm -f replays/*.json
tools/run_all.sh quick | tee /tmp/finalize.log | cut -c1-110
if grep -q VIOLATION /tmp/finalize.log; then echo "ALARM on the unchanged tree - not committing"; exit 1; fi
python3 tools/mkmanifest.py > /dev/null && python3 tools/mk_appendix_d.py > /dev/null && python3 tools/mk_appendix_c.py > /dev/null
python3-vt - <<'PY' || exit 1
import json, jsonschema, glob
s = json.load(open('/root/.vp/EVIDENCE.schema.json'))
for f in sorted(glob.glob('/verif/evidence/*.json')):
    e = json.load(open(f)); jsonschema.validate(e, s); assert e['violations'] == 0, f
jsonschema.validate(json.load(open('/verif/MANIFEST.json')), json.load(open('/root/.vp/MANIFEST.schema.json')))
print('evidence and manifest valid')
PY
git add -A && git commit -qm "${1:-full quick pass}" && echo committed
