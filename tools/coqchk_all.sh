#!/bin/bash
# tools/coqchk_all.sh : compile every property file (with the generated definitions) in a scratch directory and re-check all of them, and everything
# they depend on, with the independent checker; prints the axiom summary (coqchk -o).  Takes several minutes and a few GB.
cd "$(dirname "$0")/../coq"
d=$(mktemp -d /tmp/pgaverif_chk.XXXXXX)
trap 'rm -rf "$d"' EXIT
cp props/C*.v genprops/*.v "$d"/
for f in "$d"/*Gen.v "$d"/C*.v; do
  timeout 900 coqc -Q theories PGA -Q gen PGAgen -Q "$d" PGAprops "$f" > /dev/null 2>&1 || { echo "$(basename "$f") does not compile"; exit 1; }
done
mods=$(cd "$d" && ls C*.v | sed 's/\.v$//' | sed 's/^/PGAprops./' | tr '\n' ' ')
ulimit -s unlimited 2>/dev/null
timeout 7200 coqchk -silent -o -Q theories PGA -Q gen PGAgen -Q "$d" PGAprops $mods 2>&1 | tail -25
