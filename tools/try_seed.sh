#!/bin/bash
# tools/try_seed.sh <patch.diff> <check id>...   apply a seeded change to /repo, run the named quick checks, undo the change.
set -u
patch=$1; shift
cd /repo || exit 2
if ! git diff --quiet; then echo "/repo has local changes, refusing"; exit 2; fi
git apply "$patch" || { echo "patch does not apply"; exit 2; }
# evidence and replays written while the seeded change is applied must not survive: they describe a modified tree
bk=$(mktemp -d /tmp/pgaverif_evid.XXXXXX); cp -a /verif/evidence/. "$bk"/
trap 'git -C /repo checkout -- . ; rm -rf /verif/evidence; mkdir -p /verif/evidence; cp -a "$bk"/. /verif/evidence/; rm -rf "$bk"; rm -f /verif/replays/*.json; python3 /verif/harness/gen_tables.py' EXIT
cd /verif
for c in "$@"; do
  echo "=== $c with $(basename $(dirname $patch))/$(basename $patch)"
  ./check $c quick > /tmp/try_seed.$$.log 2>&1
  rc=$?
  grep -E "VIOLATION|KNOWN-FINDING|^  \(" /tmp/try_seed.$$.log | head -8
  grep -o "^  ([a-zA-Z0-9:_-]*)" /tmp/try_seed.$$.log | sort | uniq -c | tr '\n' ' '; echo
  grep -E "quick:" /tmp/try_seed.$$.log
  rm -f /tmp/try_seed.$$.log
  echo "exit=$rc"
done
