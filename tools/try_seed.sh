#!/bin/bash
# tools/try_seed.sh <patch.diff> <check id>...   apply a seeded change to /repo, run the named quick checks, undo the change.
set -u
patch=$1; shift
cd /repo || exit 2
if ! git diff --quiet; then echo "/repo has local changes, refusing"; exit 2; fi
git apply "$patch" || { echo "patch does not apply"; exit 2; }
trap 'git -C /repo checkout -- . ' EXIT
cd /verif
for c in "$@"; do
  echo "=== $c with $(basename $(dirname $patch))/$(basename $patch)"
  ./check $c quick 2>&1 | grep -E "VIOLATION|KNOWN-FINDING|quick:|^  \(" | head -8
  echo "exit=${PIPESTATUS[0]}"
done
