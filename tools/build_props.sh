#!/bin/bash
# compile every property file (used by setup and by tools/run_all.sh for a full from-clean verification of all proofs).
# Done in a scratch directory: generated per-property definitions (genprops/*.v, e.g. DissimGen.v for C04) are compiled first, under the same
# logical path as the property files.
cd "$(dirname "$0")/../coq"
d=$(mktemp -d /tmp/pgaverif_props.XXXXXX)
trap 'rm -rf "$d"' EXIT
cp props/C*.v "$d"/
cp genprops/*.v "$d"/ 2>/dev/null
rc=0
for f in "$d"/*Gen.v; do
  [ -e "$f" ] || continue
  timeout 900 coqc -Q theories PGA -Q gen PGAgen -Q "$d" PGAprops "$f" > /dev/null 2>&1 || { echo "generated file $(basename "$f") does not compile"; rc=1; }
done
for f in "$d"/C*.v; do
  timeout 900 coqc -Q theories PGA -Q gen PGAgen -Q "$d" PGAprops "$f" > /dev/null 2>&1 || { echo "property file props/$(basename "$f") does not check"; rc=1; }
done
exit $rc
