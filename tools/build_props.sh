#!/bin/bash
# compile every property file (used by setup and by tools/run_all.sh for a full from-clean verification of all proofs)
cd "$(dirname "$0")/../coq"
rc=0
for f in props/C*.v; do
  timeout 900 coqc -Q theories PGA -Q gen PGAgen -Q props PGAprops "$f" > /dev/null 2>&1 || { echo "property file $f does not check"; rc=1; }
done
exit $rc
