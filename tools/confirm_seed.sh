#!/bin/bash
# tools/confirm_seed.sh <id> : in the scratch worktree /tmp/seed_<id> confirm (1) demo fails with the change, (2) demo passes without,
# (3) the existing suite passes with the change. Writes /tmp/seed_<id>/confirm.log
id=$1; w=/tmp/seed_$id
cd $w || exit 2
{
git diff -- pygamma_agreement > /tmp/seed_$id.cur.diff
echo "## demo WITH change"; PYTHONPATH=$w timeout 1200 /venv/bin/python demo_$id.py > /tmp/seed_$id.demo1.log 2>&1; echo "exit=$?"
git checkout -- pygamma_agreement
echo "## demo WITHOUT change"; PYTHONPATH=$w timeout 1200 /venv/bin/python demo_$id.py > /tmp/seed_$id.demo0.log 2>&1; echo "exit=$?"
git apply /tmp/seed_$id.cur.diff
echo "## suite WITH change"; PYTHONPATH=$w timeout 3000 /venv/bin/python -m pytest -q -p no:cacheprovider --timeout=900 --deselect tests/test_cli.py 2>&1 | tail -3
} > $w/confirm.log 2>&1
