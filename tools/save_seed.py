#!/usr/bin/env python3
"""tools/save_seed.py <worktree id> <seed name> <property> "<needs>" "<caught by>"  - copy a confirmed seeded change into /verif/seeded/<name>/"""
import json, os, shutil, sys
wid, name, prop, needs, caught = sys.argv[1:6]
w = "/tmp/seed_%s" % wid
d = "/verif/seeded/%s" % name
os.makedirs(d, exist_ok=True)
shutil.copy(os.path.join(w, "patch.diff"), os.path.join(d, "patch.diff"))
shutil.copy(os.path.join(w, "demo_%s.py" % wid), os.path.join(d, "demo_%s.py" % wid))
if os.path.exists(os.path.join(w, "NOTES.md")):
    shutil.copy(os.path.join(w, "NOTES.md"), os.path.join(d, "NOTES.md"))
confirm = open(os.path.join(w, "confirm.log")).read() if os.path.exists(os.path.join(w, "confirm.log")) else ""
meta = {"breaks_property": prop, "needs_to_manifest": needs,
        "origin": "written by an independent sub-agent given only the property text and a scratch worktree",
        "confirmed_by_me": {"what_i_ran": "tools/confirm_seed.sh %s (demo with change: must fail; demo without: must pass; full suite with change "
                                          "minus the 3 always-failing CLI tests: must pass)" % wid, "log": confirm},
        "checks_that_catch_it": caught,
        "how_checked": "tools/try_seed.sh seeded/%s/patch.diff <checks> (git apply in /repo, run quick checks, git checkout -- .)" % name}
json.dump(meta, open(os.path.join(d, "meta.json"), "w"), indent=1)
print("saved", d)
