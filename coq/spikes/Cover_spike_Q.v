(* Spike from the design round: optimality of the exact-cover search over Q costs.
   Kept for reference; the development uses the Z port in theories/Align/CoverProofs.v. Not part of _CoqProject. *)

From Coq Require Import List Arith Lia QArith Lqa Bool Permutation.
Import ListNotations.
Local Close Scope Q_scope.
Local Open Scope nat_scope.

(* ---------- abstract exact-cover instance: rows 0..N-1, candidates = (cost, rows) ---------- *)
Record cand := { cost : Q; rows : list nat }.

Definition memb (r : nat) (l : list nat) : bool := existsb (Nat.eqb r) l.
Lemma memb_In r l : memb r l = true <-> In r l.
Proof. unfold memb. rewrite existsb_exists. split.
  - intros [x [H1 H2]]. apply Nat.eqb_eq in H2. subst. exact H1.
  - intros H. exists r. split; [exact H| apply Nat.eqb_refl]. Qed.

Definition disjointb (a b : list nat) : bool := forallb (fun r => negb (memb r b)) a.
Lemma disjointb_spec a b : disjointb a b = true <-> (forall r, In r a -> ~ In r b).
Proof. unfold disjointb. rewrite forallb_forall. split; intros H r Hr.
  - specialize (H r Hr). rewrite negb_true_iff in H. intro Hb. apply memb_In in Hb. congruence.
  - rewrite negb_true_iff. destruct (memb r b) eqn:E; [|reflexivity]. apply memb_In in E. exfalso. exact (H r Hr E). Qed.

(* first row < N not in covered, scanning upward *)
Fixpoint first_unc_from (k : nat) (cnt : nat) (cov : list nat) : option nat :=
  match cnt with
  | O => None
  | S c => if memb k cov then first_unc_from (S k) c cov else Some k
  end.
Definition first_unc (N : nat) cov := first_unc_from 0 N cov.

Lemma first_unc_from_some k cnt cov r :
  first_unc_from k cnt cov = Some r -> k <= r < k + cnt /\ ~ In r cov.
Proof. revert k. induction cnt as [|c IH]; simpl; intros k H; [discriminate|].
  destruct (memb k cov) eqn:E.
  - apply IH in H. destruct H as [H1 H2]. split; [lia|exact H2].
  - inversion H; subst. split; [lia|]. intro Hc. apply memb_In in Hc. congruence. Qed.
Lemma first_unc_from_none k cnt cov :
  first_unc_from k cnt cov = None -> forall r, k <= r < k + cnt -> In r cov.
Proof. revert k. induction cnt as [|c IH]; simpl; intros k H r Hr; [lia|].
  destruct (memb k cov) eqn:E; [|discriminate].
  destruct (Nat.eq_dec r k) as [->|Hne]; [apply memb_In; exact E|]. apply (IH (S k) H). lia. Qed.

(* minimum of optional values; None = infeasible *)
Definition omin (a b : option (Q * list cand)) : option (Q * list cand) :=
  match a, b with
  | None, x => x | x, None => x
  | Some (va, la), Some (vb, lb) => if Qle_bool va vb then a else b
  end.

Definition usable (r : nat) (cov : list nat) (c : cand) : bool :=
  memb r (rows c) && disjointb (rows c) cov.

Fixpoint search (fuel N : nat) (cs : list cand) (cov : list nat) : option (Q * list cand) :=
  match first_unc N cov with
  | None => Some (0%Q, [])
  | Some r =>
    match fuel with
    | O => None
    | S f =>
      fold_right (fun c acc =>
         if usable r cov c then
           omin (match search f N cs (rows c ++ cov) with
                 | Some (v, l) => Some (cost c + v, c :: l)%Q
                 | None => None end) acc
         else acc) None cs
    end
  end.

Definition total (l : list cand) : Q := fold_right (fun c acc => (cost c + acc)%Q) 0%Q l.

(* P completes cov to an exact cover of 0..N-1 *)
Definition all_rows (l : list cand) : list nat := flat_map rows l.
Definition completes (N : nat) (cov : list nat) (P : list cand) : Prop :=
  NoDup (all_rows P) /\ (forall r, In r (all_rows P) -> ~ In r cov /\ r < N) /\
  (forall r, r < N -> In r cov \/ In r (all_rows P)).

Lemma omin_le_l a b va la : a = Some (va, la) -> exists v l, omin a b = Some (v, l) /\ (v <= va)%Q.
Proof. intros ->. destruct b as [[vb lb]|]; simpl.
  - destruct (Qle_bool va vb) eqn:E.
    + exists va, la. split; [reflexivity|lra].
    + exists vb, lb. split; [reflexivity|]. 
      destruct (Qlt_le_dec vb va) as [H|H]; [lra|]. apply Qle_bool_iff in H. congruence.
  - exists va, la. split; [reflexivity|lra]. Qed.
Lemma omin_le_r a b vb lb : b = Some (vb, lb) -> exists v l, omin a b = Some (v, l) /\ (v <= vb)%Q.
Proof. intros ->. destruct a as [[va la]|]; simpl.
  - destruct (Qle_bool va vb) eqn:E.
    + exists va, la. split; [reflexivity|]. apply Qle_bool_iff in E. exact E.
    + exists vb, lb. split; [reflexivity|lra].
  - exists vb, lb. split; [reflexivity|lra]. Qed.

Lemma fold_bound (F : cand -> option (Q * list cand)) (g : cand -> bool) cs c v0 l0 :
  In c cs -> g c = true -> F c = Some (v0, l0) ->
  exists v l, fold_right (fun c acc => if g c then omin (F c) acc else acc) None cs = Some (v, l) /\ (v <= v0)%Q.
Proof. induction cs as [|x xs IH]; intros Hin Hg HF; [destruct Hin|].
  simpl. destruct Hin as [->|Hin].
  - rewrite Hg. eapply omin_le_l. exact HF.
  - destruct (IH Hin Hg HF) as (v & l & E & Hle).
    destruct (g x); [|exists v, l; split; assumption].
    destruct (omin_le_r (F x) _ v l E) as (v' & l' & E' & Hle').
    exists v', l'. split; [exact E'|lra]. Qed.

Lemma total_app a b : (total (a ++ b) == total a + total b)%Q.
Proof. induction a as [|x xs IH]; simpl; [lra|]. rewrite IH. lra. Qed.

Definition unc_count (N : nat) (cov : list nat) : nat := length (filter (fun r => negb (memb r cov)) (seq 0 N)).

Lemma unc_count_decr N cov rs r :
  In r rs -> r < N -> ~ In r cov -> unc_count N (rs ++ cov) < unc_count N cov.
Proof. intros Hr HN Hc. unfold unc_count.
  assert (Hin : In r (seq 0 N)) by (apply in_seq; lia).
  induction (seq 0 N) as [|x xs IH]; [destruct Hin|].
  simpl. 
  assert (Hmono: forall l, length (filter (fun r0 => negb (memb r0 (rs ++ cov))) l) <= length (filter (fun r0 => negb (memb r0 cov)) l)).
  { induction l as [|y ys IHl]; simpl; [lia|].
    destruct (memb y cov) eqn:E1; simpl.
    - assert (memb y (rs ++ cov) = true) as ->. { apply memb_In. apply in_or_app. right. apply memb_In. exact E1. } simpl. exact IHl.
    - destruct (memb y (rs ++ cov)); simpl; lia. }
  destruct Hin as [->|Hin].
  - assert (memb r (rs ++ cov) = true) as ->. { apply memb_In. apply in_or_app. left. exact Hr. }
    assert (memb r cov = false) as ->. { destruct (memb r cov) eqn:E; [apply memb_In in E; contradiction|reflexivity]. }
    simpl. specialize (Hmono xs). lia.
  - specialize (IH Hin). destruct (memb x cov) eqn:E1; simpl.
    + assert (memb x (rs ++ cov) = true) as ->. { apply memb_In. apply in_or_app. right. apply memb_In. exact E1. } simpl. exact IH.
    + destruct (memb x (rs ++ cov)); simpl; lia. Qed.



Lemma NoDup_app_l {A} (a b : list A) : NoDup (a ++ b) -> NoDup a.
Proof. induction a as [|x xs IH]; simpl; intros H; [constructor|]. inversion H; subst. constructor; [|apply IH; assumption].
  intro Hx. apply H2. apply in_or_app. left. exact Hx. Qed.
Lemma NoDup_app_r {A} (a b : list A) : NoDup (a ++ b) -> NoDup b.
Proof. induction a as [|x xs IH]; simpl; intros H; [exact H|]. inversion H; subst. apply IH. assumption. Qed.
Lemma NoDup_app_disj {A} (a b : list A) : NoDup (a ++ b) -> forall x, In x a -> In x b -> False.
Proof. induction a as [|y ys IH]; simpl; intros H x Ha Hb; [destruct Ha|]. inversion H; subst.
  destruct Ha as [->|Ha]; [apply H2; apply in_or_app; right; exact Hb|]. exact (IH H3 x Ha Hb). Qed.
Lemma NoDup_drop_mid {A} (a b c : list A) : NoDup (a ++ b ++ c) -> NoDup (a ++ c).
Proof. induction a as [|x xs IH]; simpl; intros H.
  - apply NoDup_app_r in H. exact H.
  - inversion H; subst. constructor; [|apply IH; assumption].
    intro Hx. apply H2. apply in_app_or in Hx. apply in_or_app. destruct Hx; [left; assumption|right; apply in_or_app; right; assumption]. Qed.
Lemma in_all_rows r P : In r (all_rows P) <-> exists c, In c P /\ In r (rows c).
Proof. unfold all_rows. rewrite in_flat_map. reflexivity. Qed.

Lemma all_rows_app a b : all_rows (a ++ b) = all_rows a ++ all_rows b.
Proof. unfold all_rows. apply flat_map_app. Qed.

Lemma first_unc_pos N cov r : first_unc N cov = Some r -> 0 < unc_count N cov.
Proof. intros E. apply first_unc_from_some in E. destruct E as [Hr Hc]. unfold unc_count.
  assert (H: In r (filter (fun r0 => negb (memb r0 cov)) (seq 0 N))).
  { apply filter_In. split; [apply in_seq; lia|]. destruct (memb r cov) eqn:E2; [apply memb_In in E2; contradiction|reflexivity]. }
  destruct (filter _ _); [destruct H|simpl; lia]. Qed.

Theorem search_optimal : forall fuel N cs cov P,
  (forall c, In c cs -> rows c <> []) ->
  unc_count N cov <= fuel ->
  (forall c, In c P -> In c cs) ->
  completes N cov P ->
  exists v l, search fuel N cs cov = Some (v, l) /\ (v <= total P)%Q.
Proof.
  induction fuel as [|f IH]; intros N cs cov P Hne Hfuel Hsub (Hnd & Hfresh & Hall).
  - simpl. destruct (first_unc N cov) as [r|] eqn:E.
    + apply first_unc_pos in E. lia.
    + exists 0%Q, []. split; [reflexivity|].
      destruct P as [|c P']; [simpl; lra|]. exfalso.
      assert (Hc: In c cs) by (apply Hsub; left; reflexivity).
      specialize (Hne c Hc). destruct (rows c) as [|r rs] eqn:Er; [congruence|].
      assert (Hin: In r (all_rows (c :: P'))). { apply in_all_rows. exists c. split; [left; reflexivity|rewrite Er; left; reflexivity]. }
      destruct (Hfresh r Hin) as [Hnc HrN].
      apply Hnc. eapply first_unc_from_none; [exact E|lia].
  - simpl. destruct (first_unc N cov) as [r|] eqn:E.
    2:{ exists 0%Q, []. split; [reflexivity|].
      destruct P as [|c P']; [simpl; lra|]. exfalso.
      assert (Hc: In c cs) by (apply Hsub; left; reflexivity).
      specialize (Hne c Hc). destruct (rows c) as [|r rs] eqn:Er; [congruence|].
      assert (Hin: In r (all_rows (c :: P'))). { apply in_all_rows. exists c. split; [left; reflexivity|rewrite Er; left; reflexivity]. }
      destruct (Hfresh r Hin) as [Hnc HrN].
      apply Hnc. eapply first_unc_from_none; [exact E|lia]. }
    pose proof (first_unc_from_some _ _ _ _ E) as [Hr Hrc].
    (* r is covered by some member c of P *)
    destruct (Hall r ltac:(lia)) as [Hbad|HrP]; [contradiction|].
    apply in_all_rows in HrP. destruct HrP as (c & HcP & Hrc').
    apply in_split in HcP. destruct HcP as (P1 & P2 & ->).
    set (P' := P1 ++ P2).
    assert (Hc_cs : In c cs). { apply Hsub. apply in_or_app. right. left. reflexivity. }
    (* rows c disjoint from cov *)
    assert (Hdisj : disjointb (rows c) cov = true).
    { apply disjointb_spec. intros x Hx. apply (Hfresh x). apply in_all_rows. exists c. split; [apply in_or_app; right; left; reflexivity|exact Hx]. }
    assert (Huse : usable r cov c = true).
    { unfold usable. rewrite Hdisj. rewrite andb_true_r. apply memb_In. exact Hrc'. }
    (* P' completes rows c ++ cov *)
    assert (Hnd' : NoDup (all_rows P1 ++ rows c ++ all_rows P2)).
    { rewrite all_rows_app in Hnd. simpl in Hnd. exact Hnd. }
    assert (Hcompl : completes N (rows c ++ cov) P').
    { unfold P'. split; [|split].
      - rewrite all_rows_app. apply NoDup_drop_mid with (b := rows c). exact Hnd'.
      - intros x Hx. rewrite all_rows_app in Hx.
        assert (HxP : In x (all_rows (P1 ++ c :: P2))).
        { rewrite all_rows_app. simpl. apply in_app_or in Hx. apply in_or_app. destruct Hx; [left; assumption|right; apply in_or_app; right; assumption]. }
        destruct (Hfresh x HxP) as [Hxc HxN]. split; [|exact HxN].
        intro Hx2. apply in_app_or in Hx2. destruct Hx2 as [Hx2|Hx2]; [|contradiction].
        (* x in rows c and in all_rows P1 ++ all_rows P2 contradicts NoDup *)
        apply in_app_or in Hx. 
        destruct Hx as [Hx|Hx].
        + apply (NoDup_app_disj _ _ Hnd' x Hx). apply in_or_app. left. exact Hx2.
        + apply NoDup_app_r in Hnd'. apply (NoDup_app_disj _ _ Hnd' x Hx2 Hx).
      - intros x HxN. destruct (Hall x HxN) as [H|H]; [left; apply in_or_app; right; exact H|].
        rewrite all_rows_app in H. simpl in H. apply in_app_or in H. destruct H as [H|H].
        + right. rewrite all_rows_app. apply in_or_app. left. exact H.
        + apply in_app_or in H. destruct H as [H|H]; [left; apply in_or_app; left; exact H|].
          right. rewrite all_rows_app. apply in_or_app. right. exact H. }
    assert (Hfuel' : unc_count N (rows c ++ cov) <= f).
    { pose proof (unc_count_decr N cov (rows c) r Hrc' ltac:(lia) Hrc). lia. }
    assert (Hsub' : forall c0, In c0 P' -> In c0 cs).
    { intros c0 H0. apply Hsub. unfold P' in H0. apply in_app_or in H0. apply in_or_app. destruct H0; [left; assumption|right; right; assumption]. }
    destruct (IH N cs (rows c ++ cov) P' Hne Hfuel' Hsub' Hcompl) as (v' & l' & Es & Hle).
    destruct (fold_bound (fun c => match search f N cs (rows c ++ cov) with
                 | Some (v, l) => Some (cost c + v, c :: l)%Q
                 | None => None end) (usable r cov) cs c (cost c + v')%Q (c :: l') Hc_cs Huse) as (v & l & Ef & Hv).
    { rewrite Es. reflexivity. }
    exists v, l. split; [exact Ef|].
    rewrite total_app. simpl. unfold P' in Hle. rewrite total_app in Hle. lra.
Qed.
Print Assumptions search_optimal.
