(* Model of sampler.StatisticalContinuumSampler (sampler.py:217-342) - C15.  Exact rationals; randomness is an explicit stream of
   primitive draws: SNormal x (value returned by np.random.normal) and SChoice i (index returned by np.random.choice).
   Definitions only. *)
From Coq Require Import List Arith ZArith QArith Qabs Qround Lia Bool.
Import ListNotations.
Local Open Scope Q_scope.

Inductive sdraw := SNormal (x : Q) | SChoice (i : nat).
Record sunit := mkSU { su_s : Q; su_e : Q; su_cat : nat }.

Definition Qltb (a b : Q) : bool := negb (Qle_bool b a).
(* abs(int(x)) : truncation toward zero, then absolute value *)
Definition abs_int (x : Q) : nat := Z.to_nat (Z.abs (if Qle_bool 0 x then Qfloor x else Qceiling x)).

(* end = start + |N(dur)|, redrawn while end - start < precision *)
Fixpoint draw_end (prec start : Q) (st : list sdraw) : option (Q * list sdraw) :=
  match st with
  | SNormal d :: st' => let e := start + Qabs d in
                        if Qltb (e - start) prec then draw_end prec start st' else Some (e, st')
  | _ => None
  end.

(* k units of one annotator, starting after [last] *)
Fixpoint draw_units (prec : Q) (ncat : nat) (k : nat) (last : Q) (st : list sdraw) : option (list sunit * list sdraw) :=
  match k with
  | O => Some ([], st)
  | S k' =>
    match st with
    | SNormal gap :: st1 =>
      let start := last + gap in
      match draw_end prec start st1 with
      | Some (e, SChoice c :: st2) =>
        if (c <? ncat)%nat then
          match draw_units prec ncat k' e st2 with
          | Some (us, st3) => Some (mkSU start e c :: us, st3)
          | None => None
          end
        else None
      | _ => None
      end
    | _ => None
    end
  end.

(* all ground-truth annotators in order; the first annotator reached while the sample is still empty gets at least one unit *)
Fixpoint draw_annotators (prec : Q) (ncat : nat) (nann : nat) (empty_so_far : bool) (st : list sdraw)
  : option (list (list sunit) * list sdraw) :=
  match nann with
  | O => Some ([], st)
  | S n' =>
    match st with
    | SNormal x :: st1 =>
      let nb := abs_int x in
      let nb := if empty_so_far then Nat.max 1 nb else nb in
      match draw_units prec ncat nb 0 st1 with
      | Some (us, st2) =>
        match draw_annotators prec ncat n' (empty_so_far && match us with [] => true | _ => false end) st2 with
        | Some (rest, st3) => Some (us :: rest, st3)
        | None => None
        end
      | None => None
      end
    | _ => None
    end
  end.
Definition stat_sample (prec : Q) (ncat nann : nat) (st : list sdraw) := draw_annotators prec ncat nann true st.

(* ---- parameters measured on a reference continuum (sampler.py:217-252) ---- *)
Definition qsum (l : list Q) : Q := fold_right Qplus 0 l.
Definition qlen (l : list Q) : Q := inject_Z (Z.of_nat (length l)).
Definition qmean (l : list Q) : Q := qsum l / qlen l.
Definition qvar (l : list Q) : Q := qsum (map (fun x => (x - qmean l) * (x - qmean l)) l) / qlen l.   (* np.std squared *)

Record runit := mkRU { ru_s : Q; ru_e : Q; ru_cat : nat }.
(* gaps of one annotator: between consecutive units *)
Fixpoint inner_gaps (us : list runit) : list Q :=
  match us with
  | u :: ((v :: _) as r) => (ru_s v - ru_e u) :: inner_gaps r
  | _ => []
  end.
Definition leading_gap (us : list runit) : list Q :=
  match us with u :: _ => if Qltb 0 (ru_s u) then [ru_s u] else [] | [] => [] end.
(* gaps = [0] ++ inner gaps of every annotator ++ leading gaps (first start, when positive) of every non-empty annotator *)
Definition all_gaps (ref : list (list runit)) : list Q :=
  0 :: flat_map inner_gaps ref ++ flat_map leading_gap ref.
Definition all_durations (ref : list (list runit)) : list Q := flat_map (map (fun u => ru_e u - ru_s u)) ref.
Definition all_counts (ref : list (list runit)) : list Q := map (fun us => inject_Z (Z.of_nat (length us))) ref.
Definition cat_weight (ref : list (list runit)) (c : nat) : Q :=
  inject_Z (Z.of_nat (length (filter (fun u => (ru_cat u =? c)%nat) (concat ref)))) / inject_Z (Z.of_nat (length (concat ref))).
