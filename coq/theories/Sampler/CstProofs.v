(* Proofs about the corpus shuffling tool model (Cst.v) - C19. *)
From Coq Require Import List Arith ZArith QArith Qabs Qround Lia Lqa Bool.
From PGA Require Import Sampler.Cst.
Import ListNotations.
Local Open Scope Q_scope.

Definition seg_eq (u v : cunit) : Prop := cs u == cs v /\ ce u == ce v.
Definition unit_eqv (u v : cunit) : Prop := seg_eq u v /\ cc u = cc v.
Definition InE (u : cunit) (l : list cunit) : Prop := exists v, In v l /\ unit_eqv u v.

(* ---------- basic facts ---------- *)
Lemma Qltb_true a b : Qltb a b = true -> a < b.
Proof.
  unfold Qltb. intros H. apply negb_true_iff in H.
  apply Qnot_le_lt. intros Hle. apply Qle_bool_iff in Hle. rewrite Hle in H. discriminate H.
Qed.

Lemma addable_lt prec v : addable prec v = true -> prec < ce v - cs v.
Proof. unfold addable, duration. apply Qltb_true. Qed.

Lemma addable_valid prec v : 0 <= prec -> addable prec v = true -> cs v < ce v.
Proof. intros Hp Ha. apply addable_lt in Ha. lra. Qed.

Lemma cunit_eqb_spec u v : cunit_eqb u v = true <-> unit_eqv u v.
Proof.
  unfold cunit_eqb, unit_eqv, seg_eq, Qeqb.
  rewrite !andb_true_iff, !Qeq_bool_iff, Nat.eqb_eq. tauto.
Qed.

Lemma unit_eqv_refl u : unit_eqv u u.
Proof. unfold unit_eqv, seg_eq. repeat split; reflexivity. Qed.

Lemma cunit_eqb_refl u : cunit_eqb u u = true.
Proof. apply cunit_eqb_spec, unit_eqv_refl. Qed.

Lemma duration_eqv u v : unit_eqv u v -> duration u == duration v.
Proof. unfold unit_eqv, seg_eq, duration. intros [[Hs He] _]. rewrite Hs, He. reflexivity. Qed.

Lemma total_duration_cons v r : total_duration (v :: r) = duration v + total_duration r.
Proof. reflexivity. Qed.

(* ---------- cins / cdel ---------- *)
Lemma cins_incl u l : incl l (cins u l).
Proof.
  induction l as [|v r IH]; cbn [cins].
  - intros x Hx. destruct Hx.
  - destruct (cunit_eqb u v) eqn:He.
    + apply incl_refl.
    + destruct (cunit_ltb u v) eqn:Hl.
      * apply incl_tl, incl_refl.
      * intros x [Hx|Hx]; [left; exact Hx | right; apply IH; exact Hx].
Qed.

Lemma cins_In u l x : In x (cins u l) -> x = u \/ In x l.
Proof.
  induction l as [|v r IH]; cbn [cins].
  - intros [H|[]]. left; symmetry; exact H.
  - destruct (cunit_eqb u v) eqn:He.
    + intros H. right. exact H.
    + destruct (cunit_ltb u v) eqn:Hl.
      * intros [H|H]; [left; symmetry; exact H | right; exact H].
      * intros [H|H]; [right; left; exact H|].
        destruct (IH H) as [H1|H1]; [left; exact H1 | right; right; exact H1].
Qed.

Lemma cins_has u l : InE u (cins u l).
Proof.
  induction l as [|v r IH]; cbn [cins].
  - exists u. split; [left; reflexivity | apply unit_eqv_refl].
  - destruct (cunit_eqb u v) eqn:He.
    + exists v. split; [left; reflexivity | apply cunit_eqb_spec; exact He].
    + destruct (cunit_ltb u v) eqn:Hl.
      * exists u. split; [left; reflexivity | apply unit_eqv_refl].
      * destruct IH as [w [Hw He']]. exists w. split; [right; exact Hw | exact He'].
Qed.

Lemma cdel_incl u l : incl (cdel u l) l.
Proof.
  induction l as [|v r IH]; cbn [cdel].
  - apply incl_refl.
  - destruct (cunit_eqb u v) eqn:He.
    + apply incl_tl, incl_refl.
    + intros x [Hx|Hx]; [left; exact Hx | right; apply IH; exact Hx].
Qed.

Lemma cdel_length u l : In u l -> length (cdel u l) = pred (length l).
Proof.
  induction l as [|v r IH]; cbn [cdel].
  - intros [].
  - intros H. destruct (cunit_eqb u v) eqn:He.
    + reflexivity.
    + destruct H as [H|H].
      * subst v. rewrite cunit_eqb_refl in He. discriminate He.
      * cbn [length pred]. rewrite (IH H). destruct r as [|w r']; [destruct H | reflexivity].
Qed.

Lemma cdel_length_le u l : (length (cdel u l) <= length l)%nat.
Proof.
  induction l as [|v r IH]; cbn [cdel].
  - apply le_n.
  - destruct (cunit_eqb u v); cbn [length]; lia.
Qed.

Lemma cins_length_le u l : (length (cins u l) <= S (length l))%nat.
Proof.
  induction l as [|v r IH]; cbn [cins].
  - apply le_n.
  - destruct (cunit_eqb u v); [cbn [length]; lia|].
    destruct (cunit_ltb u v); cbn [length]; lia.
Qed.

Lemma total_duration_cdel u l : In u l -> total_duration (cdel u l) == total_duration l - duration u.
Proof.
  induction l as [|v r IH]; cbn [cdel].
  - intros [].
  - intros H. rewrite total_duration_cons. destruct (cunit_eqb u v) eqn:He.
    + apply cunit_eqb_spec in He. pose proof (duration_eqv _ _ He) as Hd. lra.
    + destruct H as [H|H].
      * subst v. rewrite cunit_eqb_refl in He. discriminate He.
      * rewrite total_duration_cons. specialize (IH H). lra.
Qed.

Lemma InE_cons_not u v r : ~ InE u (v :: r) -> ~ unit_eqv u v /\ ~ InE u r.
Proof.
  intros H. split.
  - intros He. apply H. exists v. split; [left; reflexivity | exact He].
  - intros [w [Hw He]]. apply H. exists w. split; [right; exact Hw | exact He].
Qed.

Lemma total_duration_cins_fresh u l : ~ InE u l -> total_duration (cins u l) == duration u + total_duration l.
Proof.
  induction l as [|v r IH]; cbn [cins]; intros Hf.
  - reflexivity.
  - apply InE_cons_not in Hf. destruct Hf as [Hv Hr].
    destruct (cunit_eqb u v) eqn:He.
    + exfalso. apply Hv. apply cunit_eqb_spec. exact He.
    + destruct (cunit_ltb u v) eqn:Hl.
      * rewrite total_duration_cons. reflexivity.
      * rewrite !total_duration_cons. specialize (IH Hr). lra.
Qed.

Lemma length_cins_fresh u l : ~ InE u l -> length (cins u l) = S (length l).
Proof.
  induction l as [|v r IH]; cbn [cins]; intros Hf.
  - reflexivity.
  - apply InE_cons_not in Hf. destruct Hf as [Hv Hr].
    destruct (cunit_eqb u v) eqn:He.
    + exfalso. apply Hv. apply cunit_eqb_spec. exact He.
    + destruct (cunit_ltb u v) eqn:Hl.
      * reflexivity.
      * cbn [length]. rewrite (IH Hr). reflexivity.
Qed.

(* ---------- FALSE NEGATIVES ---------- *)
Theorem neg_units_incl m snapshot cur st r st' : neg_units m snapshot cur st = Some (r, st') -> incl r cur.
Proof.
  revert cur st. induction snapshot as [|u s IH]; intros cur st H; cbn [neg_units] in H.
  - injection H as H1 H2. subst r. apply incl_refl.
  - destruct st as [|d st0]; [discriminate H|]. destruct d as [x|x|x|i|i]; try discriminate H.
    apply IH in H. destruct (Qltb x m).
    + eapply incl_tran; [exact H | apply cdel_incl].
    + exact H.
Qed.

Theorem neg_annotator_confined m us st r st' : neg_annotator m us st = Some (r, st') -> incl r us /\ r <> [].
Proof.
  unfold neg_annotator. intros H.
  destruct st as [|d st0]; [discriminate H|]. destruct d as [x|x|x|i|i]; try discriminate H.
  destruct (nth_error us i) as [sec|] eqn:Hn; [|discriminate H].
  destruct (neg_units m us us st0) as [[l st'']|] eqn:Hu; [|discriminate H].
  destruct l as [|w l'].
  - injection H as H1 H2. subst r. split.
    + intros x [Hx|[]]. subst x. eapply nth_error_In. exact Hn.
    + discriminate.
  - injection H as H1 H2. subst r. split.
    + eapply neg_units_incl. exact Hu.
    + discriminate.
Qed.

Definition randoms_nonneg (st : list cdraw) : Prop := forall x, In (CRandom x) st -> 0 <= x.

Theorem neg_units_zero snapshot cur st r st' : randoms_nonneg st -> neg_units 0 snapshot cur st = Some (r, st') -> r = cur.
Proof.
  revert cur st. induction snapshot as [|u s IH]; intros cur st Hnn H; cbn [neg_units] in H.
  - injection H as H1 H2. symmetry. exact H1.
  - destruct st as [|d st0]; [discriminate H|]. destruct d as [x|x|x|i|i]; try discriminate H.
    assert (Hx : 0 <= x) by (apply Hnn; left; reflexivity).
    destruct (Qltb x 0) eqn:Hlt.
    + apply Qltb_true in Hlt. exfalso. lra.
    + apply IH in H; [exact H|]. intros y Hy. apply Hnn. right. exact Hy.
Qed.

(* ---------- FALSE POSITIVES ---------- *)
Theorem pos_units_superset prec k cur st r st' : pos_units prec k cur st = Some (r, st') -> incl cur r.
Proof.
  revert cur st. induction k as [|k IH]; intros cur st H; cbn [pos_units] in H.
  - injection H as H1 H2. subst r. apply incl_refl.
  - destruct st as [|d1 st1]; [discriminate H|]. destruct d1 as [x|x|x|c|c]; try discriminate H.
    destruct st1 as [|d2 st2]; [discriminate H|]. destruct d2 as [ctr|ctr|ctr|j|j]; try discriminate H.
    destruct st2 as [|d3 st3]; [discriminate H|]. destruct d3 as [d|d|d|j|j]; try discriminate H.
    cbv zeta in H.
    destruct (addable prec (mkCU (ctr - Qabs d / 2) (ctr + Qabs d / 2) c)) eqn:Ha; [|discriminate H].
    apply IH in H. eapply incl_tran; [apply cins_incl | exact H].
Qed.

Theorem pos_units_zero prec cur st : pos_units prec 0 cur st = Some (cur, st).
Proof. reflexivity. Qed.

Lemma Forall_cins (P : cunit -> Prop) u l : P u -> Forall P l -> Forall P (cins u l).
Proof.
  intros Hu Hl. apply Forall_forall. intros x Hx. apply cins_In in Hx. destruct Hx as [Hx|Hx].
  - subst x. exact Hu.
  - revert x Hx. apply Forall_forall. exact Hl.
Qed.

Lemma Forall_cdel (P : cunit -> Prop) u l : Forall P l -> Forall P (cdel u l).
Proof.
  intros Hl. apply Forall_forall. intros x Hx. apply cdel_incl in Hx.
  revert x Hx. apply Forall_forall. exact Hl.
Qed.

Theorem pos_units_valid prec k cur st r st' : 0 <= prec -> pos_units prec k cur st = Some (r, st') ->
  Forall (fun u => cs u < ce u) cur -> Forall (fun u => cs u < ce u) r.
Proof.
  intros Hp. revert cur st. induction k as [|k IH]; intros cur st H Hc; cbn [pos_units] in H.
  - injection H as H1 H2. subst r. exact Hc.
  - destruct st as [|d1 st1]; [discriminate H|]. destruct d1 as [x|x|x|c|c]; try discriminate H.
    destruct st1 as [|d2 st2]; [discriminate H|]. destruct d2 as [ctr|ctr|ctr|j|j]; try discriminate H.
    destruct st2 as [|d3 st3]; [discriminate H|]. destruct d3 as [d|d|d|j|j]; try discriminate H.
    cbv zeta in H.
    destruct (addable prec (mkCU (ctr - Qabs d / 2) (ctr + Qabs d / 2) c)) eqn:Ha; [|discriminate H].
    eapply IH; [exact H|]. apply Forall_cins; [|exact Hc].
    apply (addable_valid prec); [exact Hp | exact Ha].
Qed.

(* ---------- SHIFT ---------- *)
Lemma shift_draw_inv shift_max u st v st' : shift_draw shift_max u st = Some (v, st') ->
  exists a b, Qltb (cs u + a * shift_max) (ce u + b * shift_max) = true /\
              v = mkCU (cs u + a * shift_max) (ce u + b * shift_max) (cc u).
Proof.
  remember (length st) as n eqn:Hn. revert st Hn.
  induction n as [n IH] using lt_wf_ind. intros st Hn H.
  destruct st as [|d1 st1]; [discriminate H|]. destruct d1 as [a|a|a|j|j]; try discriminate H.
  destruct st1 as [|d2 st2]; [discriminate H|]. destruct d2 as [b|b|b|j|j]; try discriminate H.
  cbn [shift_draw] in H. cbv zeta in H.
  destruct (Qltb (cs u + a * shift_max) (ce u + b * shift_max)) eqn:Hlt.
  - injection H as H1 H2. exists a, b. split; [exact Hlt | symmetry; exact H1].
  - apply (IH (length st2)) in H; [exact H | | reflexivity].
    subst n. cbn [length]. lia.
Qed.

Theorem shift_draw_spec shift_max u st v st' : shift_draw shift_max u st = Some (v, st') ->
  cc v = cc u /\ cs v < ce v /\ exists a b, cs v == cs u + a * shift_max /\ ce v == ce u + b * shift_max.
Proof.
  intros H. apply shift_draw_inv in H. destruct H as [a [b [Hlt Hv]]]. subst v. cbn [cc cs ce].
  split; [reflexivity|]. split; [apply Qltb_true; exact Hlt|].
  exists a, b. split; reflexivity.
Qed.

Theorem shift_draw_zero u st v st' : shift_draw 0 u st = Some (v, st') -> unit_eqv v u.
Proof.
  intros H. apply shift_draw_inv in H. destruct H as [a [b [Hlt Hv]]]. subst v.
  unfold unit_eqv, seg_eq. cbn [cc cs ce]. split; [split; lra | reflexivity].
Qed.

Theorem shift_units_length prec shift_max snapshot cur st r st' :
  shift_units prec shift_max snapshot cur st = Some (r, st') -> (length r <= length cur + length snapshot)%nat.
Proof.
  revert cur st. induction snapshot as [|u s IH]; intros cur st H; cbn [shift_units] in H.
  - injection H as H1 H2. subst r. cbn [length]. lia.
  - destruct (shift_draw shift_max u st) as [[v st0]|] eqn:Hd; [|discriminate H].
    destruct (addable prec v) eqn:Ha; [|discriminate H].
    apply IH in H. pose proof (cins_length_le v (cdel u cur)) as H1.
    pose proof (cdel_length_le u cur) as H2. cbn [length]. lia.
Qed.

Theorem shift_units_valid prec shift_max snapshot cur st r st' : 0 <= prec ->
  shift_units prec shift_max snapshot cur st = Some (r, st') ->
  Forall (fun u => cs u < ce u) cur -> Forall (fun u => cs u < ce u) r.
Proof.
  intros Hp. revert cur st. induction snapshot as [|u s IH]; intros cur st H Hc; cbn [shift_units] in H.
  - injection H as H1 H2. subst r. exact Hc.
  - destruct (shift_draw shift_max u st) as [[v st0]|] eqn:Hd; [|discriminate H].
    destruct (addable prec v) eqn:Ha; [|discriminate H].
    eapply IH; [exact H|]. apply Forall_cins.
    + apply shift_draw_spec in Hd. destruct Hd as [_ [Hlt _]]. exact Hlt.
    + apply Forall_cdel. exact Hc.
Qed.

(* ---------- CATEGORY SHUFFLE ---------- *)
Theorem cat_units_segments snapshot cur st r st' : cat_units snapshot cur st = Some (r, st') ->
  forall v, In v r -> exists u, (In u cur \/ In u snapshot) /\ cs v = cs u /\ ce v = ce u.
Proof.
  revert cur st. induction snapshot as [|u s IH]; intros cur st H v Hv; cbn [cat_units] in H.
  - injection H as H1 H2. subst r. exists v. split; [left; exact Hv | split; reflexivity].
  - destruct st as [|d st0]; [discriminate H|]. destruct d as [x|x|x|c|c]; try discriminate H.
    destruct (IH _ _ H v Hv) as [w [[Hw|Hw] [Hs He]]].
    + apply cins_In in Hw. destruct Hw as [Hw|Hw].
      * subst w. cbn [cs ce] in Hs, He. exists u. split; [right; left; reflexivity | split; assumption].
      * apply cdel_incl in Hw. exists w. split; [left; exact Hw | split; assumption].
    + exists w. split; [right; right; exact Hw | split; assumption].
Qed.

Lemma cat_same_unit u : mkCU (cs u) (ce u) (cc u) = u.
Proof. destruct u as [s e c]. reflexivity. Qed.

(* ---------- SPLIT ---------- *)
Theorem split_one_cases prec us st r st' : split_one prec us st = Some (r, st') ->
  exists i cut u rest', st = CRandint i :: CUniform cut :: st' /\ nth_error us i = Some u /\
    let rest := cdel u us in let right := mkCU cut (ce u) (cc u) in let left := mkCU (cs u) cut (cc u) in
    (addable prec right = true /\ addable prec left = true /\ r = cins left (cins right rest)) \/
    (addable prec right = true /\ addable prec left = false /\ r = cins u (cdel right (cins right rest))) \/
    (addable prec right = false /\ r = cins u (cdel right rest)) /\ rest' = rest.
Proof.
  unfold split_one, split_one_gen. intros H.
  destruct st as [|d1 st1]; [discriminate H|]. destruct d1 as [x|x|x|j|i]; try discriminate H.
  destruct st1 as [|d2 st2]; [discriminate H|]. destruct d2 as [cut|x|x|j|j]; try discriminate H.
  destruct (nth_error us i) as [u|] eqn:Hn; [|discriminate H].
  cbv zeta in H.
  destruct (addable prec (mkCU cut (ce u) (cc u))) eqn:Har.
  - destruct (addable prec (mkCU (cs u) cut (cc u))) eqn:Hal.
    + injection H as H1 H2. subst r st2. exists i, cut, u, (cdel u us).
      split; [reflexivity|]. split; [exact Hn|].
      cbv zeta. left. split; [exact Har|]. split; [exact Hal | reflexivity].
    + injection H as H1 H2. subst r st2. exists i, cut, u, (cdel u us).
      split; [reflexivity|]. split; [exact Hn|].
      cbv zeta. right. left. split; [exact Har|]. split; [exact Hal | reflexivity].
  - injection H as H1 H2. subst r st2. exists i, cut, u, (cdel u us).
    split; [reflexivity|]. split; [exact Hn|].
    cbv zeta. right. right. split; [split; [exact Har | reflexivity] | reflexivity].
Qed.

Theorem split_one_duration prec us st r st' i cut u :
  st = CRandint i :: CUniform cut :: st' -> nth_error us i = Some u -> split_one prec us st = Some (r, st') ->
  addable prec (mkCU cut (ce u) (cc u)) = true -> addable prec (mkCU (cs u) cut (cc u)) = true ->
  ~ InE (mkCU cut (ce u) (cc u)) (cdel u us) -> ~ InE (mkCU (cs u) cut (cc u)) (cins (mkCU cut (ce u) (cc u)) (cdel u us)) ->
  total_duration r == total_duration us /\ length r = S (length us).
Proof.
  intros Hst Hn H Har Hal Hfr Hfl. subst st. unfold split_one, split_one_gen in H. rewrite Hn in H. cbv zeta in H.
  rewrite Har, Hal in H. injection H as H1. subst r.
  assert (Hin : In u us) by (eapply nth_error_In; exact Hn).
  split.
  - rewrite (total_duration_cins_fresh _ _ Hfl), (total_duration_cins_fresh _ _ Hfr), (total_duration_cdel _ _ Hin).
    unfold duration. cbn [cs ce]. lra.
  - rewrite (length_cins_fresh _ _ Hfl), (length_cins_fresh _ _ Hfr), (cdel_length _ _ Hin).
    destruct us as [|w us']; [destruct Hin | reflexivity].
Qed.

(* a unit that cannot be split (a piece would be too short for the container) is left as it was: withdrawing a fresh piece undoes its insertion *)
Lemma cunit_eqb_false_not_eqv u v : cunit_eqb u v = false -> ~ unit_eqv u v.
Proof. intros H E. apply cunit_eqb_spec in E. congruence. Qed.
Lemma cdel_fresh v l : ~ InE v l -> cdel v l = l.
Proof.
  induction l as [|w r IH]; intros Hf; [reflexivity|]. apply InE_cons_not in Hf. destruct Hf as [Hw Hr].
  cbn [cdel]. destruct (cunit_eqb v w) eqn:E; [apply cunit_eqb_spec in E; contradiction|]. rewrite (IH Hr). reflexivity.
Qed.
Lemma cdel_cins_fresh v l : ~ InE v l -> cdel v (cins v l) = l.
Proof.
  induction l as [|w r IH]; intros Hf.
  - cbn [cins cdel]. rewrite cunit_eqb_refl. reflexivity.
  - apply InE_cons_not in Hf. destruct Hf as [Hw Hr]. cbn [cins].
    destruct (cunit_eqb v w) eqn:E; [apply cunit_eqb_spec in E; contradiction|].
    destruct (cunit_ltb v w).
    + cbn [cdel]. rewrite cunit_eqb_refl. reflexivity.
    + cbn [cdel]. rewrite E, (IH Hr). reflexivity.
Qed.
Theorem split_one_unsplittable prec us st r st' i cut u :
  st = CRandint i :: CUniform cut :: st' -> nth_error us i = Some u -> split_one prec us st = Some (r, st') ->
  addable prec (mkCU cut (ce u) (cc u)) = false \/ addable prec (mkCU (cs u) cut (cc u)) = false ->
  ~ InE (mkCU cut (ce u) (cc u)) (cdel u us) ->
  r = cins u (cdel u us).
Proof.
  intros Hst Hn H Hbad Hfr. subst st. unfold split_one, split_one_gen in H. rewrite Hn in H. cbv zeta in H.
  destruct (addable prec (mkCU cut (ce u) (cc u))) eqn:Har.
  - destruct Hbad as [Hb|Hb]; [discriminate Hb|]. rewrite Hb in H. injection H as H1. subst r.
    rewrite (cdel_cins_fresh _ _ Hfr). reflexivity.
  - injection H as H1. subst r. rewrite (cdel_fresh _ _ Hfr). reflexivity.
Qed.
(* ... and re-inserting the popped unit among pairwise distinct units restores duration and count *)
Theorem split_one_unsplittable_keeps prec us st r st' i cut u :
  st = CRandint i :: CUniform cut :: st' -> nth_error us i = Some u -> split_one prec us st = Some (r, st') ->
  addable prec (mkCU cut (ce u) (cc u)) = false \/ addable prec (mkCU (cs u) cut (cc u)) = false ->
  ~ InE (mkCU cut (ce u) (cc u)) (cdel u us) -> ~ InE u (cdel u us) ->
  total_duration r == total_duration us /\ length r = length us.
Proof.
  intros Hst Hn H Hbad Hfr Hfu. rewrite (split_one_unsplittable prec us st r st' i cut u Hst Hn H Hbad Hfr).
  assert (Hin : In u us) by (eapply nth_error_In; exact Hn).
  split.
  - rewrite (total_duration_cins_fresh _ _ Hfu), (total_duration_cdel _ _ Hin). lra.
  - rewrite (length_cins_fresh _ _ Hfu), (cdel_length _ _ Hin). destruct us as [|w us']; [destruct Hin | reflexivity].
Qed.
(* the code as it was: the first piece stays AND the original comes back - the annotated duration is counted twice (the defect repaired by the fix commit) *)
Theorem split_original_counts_duration_twice :
  exists prec us st r st', split_one_gen false prec us st = Some (r, st') /\ ~ total_duration r == total_duration us /\
                          split_one_gen true prec us st = Some (us, st').
Proof.
  exists (1 # 1000000), [mkCU 0 (1 # 20000) 0], [CRandint 0; CUniform (9 # 10000000)].
  eexists. eexists. split; [vm_compute; reflexivity|]. split; [vm_compute; discriminate | vm_compute; reflexivity].
Qed.

Theorem split_rounds_zero prec corpus st : split_rounds prec 0 corpus st = Some (corpus, st).
Proof. reflexivity. Qed.

(* ---------- composition ---------- *)
Theorem cst_run_all_off prec m shift_max kpos ksplit corpus st :
  cst_run prec m shift_max kpos ksplit (mkOpts false false false false false) corpus st = Some (corpus, st).
Proof. reflexivity. Qed.

Theorem per_annotator_length f corpus st r st' : per_annotator f corpus st = Some (r, st') -> length r = length corpus.
Proof.
  revert st r. induction corpus as [|us c IH]; intros st r H; cbn [per_annotator] in H.
  - injection H as H1 H2. subst r. reflexivity.
  - destruct (f us st) as [[us' st0]|] eqn:Hf; [|discriminate H].
    destruct (per_annotator f c st0) as [[r' st1]|] eqn:Hp; [|discriminate H].
    injection H as H1 H2. subst r st1. cbn [length]. f_equal. eapply IH. exact Hp.
Qed.

Lemma split_round_length prec corpus st r st' : split_round prec corpus st = Some (r, st') -> length r = length corpus.
Proof.
  revert st r. induction corpus as [|us c IH]; intros st r H; cbn [split_round] in H.
  - injection H as H1 H2. subst r. reflexivity.
  - destruct (split_one prec us st) as [[us' st0]|] eqn:Hf; [|discriminate H].
    destruct (split_round prec c st0) as [[r' st1]|] eqn:Hp; [|discriminate H].
    injection H as H1 H2. subst r st1. cbn [length]. f_equal. eapply IH. exact Hp.
Qed.

Theorem split_rounds_length prec k corpus st r st' : split_rounds prec k corpus st = Some (r, st') -> length r = length corpus.
Proof.
  revert corpus st. induction k as [|k IH]; intros corpus st H; cbn [split_rounds] in H.
  - injection H as H1 H2. subst r. reflexivity.
  - destruct (split_round prec corpus st) as [[c' st0]|] eqn:Hr; [|discriminate H].
    apply IH in H. apply split_round_length in Hr. congruence.
Qed.

Print Assumptions cunit_eqb_spec.
Print Assumptions cins_incl.
Print Assumptions cins_In.
Print Assumptions cins_has.
Print Assumptions cdel_incl.
Print Assumptions cdel_length.
Print Assumptions total_duration_cdel.
Print Assumptions total_duration_cins_fresh.
Print Assumptions length_cins_fresh.
Print Assumptions neg_units_incl.
Print Assumptions neg_annotator_confined.
Print Assumptions neg_units_zero.
Print Assumptions pos_units_superset.
Print Assumptions pos_units_zero.
Print Assumptions pos_units_valid.
Print Assumptions shift_draw_spec.
Print Assumptions shift_draw_zero.
Print Assumptions shift_units_length.
Print Assumptions shift_units_valid.
Print Assumptions cat_units_segments.
Print Assumptions cat_same_unit.
Print Assumptions split_one_cases.
Print Assumptions split_one_duration.
Print Assumptions split_rounds_zero.
Print Assumptions cst_run_all_off.
Print Assumptions per_annotator_length.
Print Assumptions split_round_length.
Print Assumptions split_rounds_length.
