(* The retry loop of ShuffleContinuumSampler.sample_from_continuum (`while not new_continuum`, sampler.py:176) - C16 "every drawn continuum is
   non-empty".  A pass whose chosen annotators all have no unit is discarded (its draws are consumed) and another pass is made. *)
From Coq Require Import List Arith ZArith QArith Qround Lia Bool.
From PGA Require Import Sampler.Shuffle.
Import ListNotations.

Definition pass_empty (anns : list (nat * list unitS)) : bool :=
  forallb (fun a => match snd a with [] => true | _ => false end) anns.

Fixpoint sample_retry (fuel : nat) (repaired int_mode : bool) (dist binf bsup : Q) (gt : list (list unitS)) (st : list draw)
  : option (list (Q * bool) * list (nat * list unitS) * list draw) :=
  match fuel with
  | O => None
  | S f =>
    match sample_once repaired int_mode dist binf bsup gt st with
    | Some (ps, anns, st') => if pass_empty anns then sample_retry f repaired int_mode dist binf bsup gt st' else Some (ps, anns, st')
    | None => None
    end
  end.

(* what is returned is the result of ONE pass over some later part of the stream, and it holds a unit *)
Theorem sample_retry_spec fuel repaired int_mode dist binf bsup gt st ps anns st' :
  sample_retry fuel repaired int_mode dist binf bsup gt st = Some (ps, anns, st') ->
  pass_empty anns = false /\ exists st0, sample_once repaired int_mode dist binf bsup gt st0 = Some (ps, anns, st').
Proof.
  revert st. induction fuel as [|f IH]; intros st H; [discriminate|].
  cbn [sample_retry] in H. destruct (sample_once repaired int_mode dist binf bsup gt st) as [[[ps0 anns0] st0]|] eqn:E; [|discriminate].
  destruct (pass_empty anns0) eqn:P.
  - exact (IH _ H).
  - injection H as -> -> ->. split; [exact P | exists st; exact E].
Qed.
Theorem sample_retry_nonempty fuel repaired int_mode dist binf bsup gt st ps anns st' :
  sample_retry fuel repaired int_mode dist binf bsup gt st = Some (ps, anns, st') ->
  exists a u us, In (a, u :: us) anns.
Proof.
  intros H. apply sample_retry_spec in H. destruct H as [P _].
  unfold pass_empty in P. induction anns as [|[a l] r IH]; [discriminate|].
  cbn [forallb snd] in P. destruct l as [|u us].
  - destruct (IH P) as (a' & u' & us' & Hin). exists a', u', us'. right. exact Hin.
  - exists a, u, us. left. reflexivity.
Qed.

(* shape of a pass's annotators: the k-th sampled annotator is the shifted copy of the chosen ground-truth annotator *)
Lemma sample_pass_anns repaired int_mode dist binf bsup gt : forall k avail st ps anns st',
  sample_pass repaired int_mode dist binf bsup gt k avail st = Some (ps, anns, st') ->
  Forall (fun a => exists p, snd a = map (shift_unit p binf bsup) (nth (fst a) gt [])) anns.
Proof.
  induction k as [|k IH]; intros avail st ps anns st' H; cbn [sample_pass] in H.
  - injection H as <- <- <-. constructor.
  - destruct (draw_pivot repaired int_mode dist binf bsup avail st) as [[[p avail'] [|[a|x] st1]]|]; try discriminate.
    destruct (sample_pass repaired int_mode dist binf bsup gt k avail' st1) as [[[ps1 anns1] st2]|] eqn:E; [|discriminate].
    injection H as <- <- <-. constructor; [exists p; reflexivity | exact (IH _ _ _ _ _ E)].
Qed.

(* when every ground-truth annotator has a unit (and there is one to sample), the first pass is never discarded: no retry *)
Theorem no_retry_when_all_annotators_have_units fuel repaired int_mode dist binf bsup gt st r :
  gt <> [] -> Forall (fun us => us <> []) gt ->
  sample_once repaired int_mode dist binf bsup gt st = Some r ->
  (forall a, In a (snd (fst r)) -> (fst a < length gt)%nat) ->
  sample_retry (S fuel) repaired int_mode dist binf bsup gt st = Some r.
Proof.
  intros Hne Hall E Hidx. destruct r as [[ps anns] st']. cbn [sample_retry]. rewrite E.
  assert (P : pass_empty anns = false).
  { unfold sample_once in E. pose proof (sample_pass_anns _ _ _ _ _ _ _ _ _ _ _ _ E) as F.
    destruct anns as [|[a l] r0].
    - (* a pass over a non-empty ground truth yields at least one annotator *)
      destruct gt as [|g gt']; [contradiction|]. cbn [length sample_pass] in E.
      destruct (draw_pivot repaired int_mode dist binf bsup [(binf, bsup)] st) as [[[p av] [|[a|x] st1]]|]; try discriminate.
      destruct (sample_pass repaired int_mode dist binf bsup (g :: gt') (length gt') av st1) as [[[ps1 anns1] st2]|]; discriminate.
    - cbn [pass_empty forallb snd]. inversion F as [|x l0 [p Hp] _]; subst. cbn [fst snd] in Hp.
      assert (Hlt : (a < length gt)%nat) by (apply (Hidx (a, l)); left; reflexivity).
      assert (Hn : nth a gt [] <> []).
      { rewrite Forall_forall in Hall. apply Hall. apply nth_In. exact Hlt. }
      rewrite Hp. destruct (nth a gt []) as [|u us]; [contradiction|]. reflexivity. }
  rewrite P. reflexivity.
Qed.

(* the same loop, reporting how many passes were discarded and where in the stream the kept pass starts (used by the correspondence) *)
Fixpoint retry_skip (fuel : nat) (repaired int_mode : bool) (dist binf bsup : Q) (gt : list (list unitS)) (st : list draw)
  : option (nat * list draw) :=
  match fuel with
  | O => None
  | S f =>
    match sample_once repaired int_mode dist binf bsup gt st with
    | Some (_, anns, st') =>
      if pass_empty anns then
        match retry_skip f repaired int_mode dist binf bsup gt st' with Some (k, s) => Some (S k, s) | None => None end
      else Some (0%nat, st)
    | None => None
    end
  end.
Theorem retry_skip_spec fuel repaired int_mode dist binf bsup gt st r :
  sample_retry fuel repaired int_mode dist binf bsup gt st = Some r ->
  exists k s, retry_skip fuel repaired int_mode dist binf bsup gt st = Some (k, s) /\ sample_once repaired int_mode dist binf bsup gt s = Some r.
Proof.
  revert st. induction fuel as [|f IH]; intros st H; [discriminate|].
  cbn [sample_retry retry_skip] in *. destruct (sample_once repaired int_mode dist binf bsup gt st) as [[[ps0 anns0] st0]|] eqn:E; [|discriminate].
  destruct (pass_empty anns0) eqn:P.
  - destruct (IH _ H) as (k & s & Hk & Hs). rewrite Hk. exists (S k), s. split; [reflexivity | exact Hs].
  - exists 0%nat, st. split; [reflexivity|]. rewrite E. exact H.
Qed.
