(* Model of sampler.ShuffleContinuumSampler (sampler.py:121-191) - C16.  Exact rationals; randomness is an explicit stream of
   primitive draws: Choice i (index returned by np.random.choice) and Uniform x (value returned by np.random.uniform).
   Definitions only. *)
From Coq Require Import List Arith ZArith QArith Qround Lia Bool.
Import ListNotations.
Local Open Scope Q_scope.

Definition seg := (Q * Q)%type.
Definition qmaxq (a b : Q) : Q := if Qle_bool a b then b else a.
Definition qminq (a b : Q) : Q := if Qle_bool a b then a else b.
Definition Qlt_bool (a b : Q) : bool := negb (Qle_bool b a).

(* what one available segment becomes when [p - dist, p + dist] is removed.
   repaired = true : segments lying wholly on one side of the zone are left untouched (max / min);
   repaired = false: the code as it was, which moves the start of a segment on the right of the zone LEFT to p + dist and the end of a
   segment on the left RIGHT to p - dist (widening) *)
Definition piece (repaired : bool) (p dist : Q) (sg : seg) : list seg :=
  let (s, e) := sg in
  if Qle_bool (p - dist) s then
    if Qle_bool e (p + dist) then []
    else [((if repaired then qmaxq s (p + dist) else p + dist), e)]
  else
    if Qlt_bool (p + dist) e then [(s, p - dist); (p + dist, e)]
    else [(s, (if repaired then qminq e (p - dist) else p - dist))].
(* the list is consumed from its end (segments.pop()) *)
Definition remove_pivot (repaired : bool) (p dist : Q) (segs : list seg) : list seg :=
  flat_map (piece repaired p dist) (rev segs).

Inductive draw := Choice (i : nat) | Uniform (x : Q).

(* int(np.random.uniform(...)): truncation toward zero *)
Definition qtrunc (x : Q) : Q := inject_Z (if Qle_bool 0 x then Qfloor x else Qceiling x).

(* integer mode.  Original code: int(x).  Repaired code: the truncated value is kept when it lies in the chosen segment [s, e],
   otherwise floor(x), then ceil(x), is taken if it does; if the segment holds no whole number the truncated value stays. *)
Definition in_closed (sg : seg) (t : Q) : bool := Qle_bool (fst sg) t && Qle_bool t (snd sg).
Definition int_pivot (repaired : bool) (sg : seg) (x : Q) : Q :=
  let t := qtrunc x in
  if negb repaired then t
  else if in_closed sg t then t
  else let f := inject_Z (Qfloor x) in
       if in_closed sg f then f
       else let c := inject_Z (Qceiling x) in if in_closed sg c then c else t.

(* one pivot: from the available segments when there are some, else anywhere in the bounds.  Returns pivot, new available, rest of stream.
   [repaired] governs both repairs (zone removal and integer rule). *)
Definition draw_pivot (repaired int_mode : bool) (dist binf bsup : Q) (avail : list seg) (st : list draw)
  : option (Q * list seg * list draw) :=
  match avail with
  | [] => match st with
          | Uniform x :: st' => Some (x, [], st')
          | _ => None
          end
  | _ => match st with
         | Choice i :: Uniform x :: st' =>
           let p := if int_mode then int_pivot repaired (nth i avail (0, 0)) x else x in
           Some (p, remove_pivot repaired p dist avail, st')
         | _ => None
         end
  end.

Record unitS := mkUS { ss : Q; se : Q; sl : Z }.
(* translation by the pivot, wrapped around by the continuum's length when the start would pass the upper bound *)
Definition shift_unit (p binf bsup : Q) (u : unitS) : unitS :=
  if Qlt_bool bsup (ss u + p) then mkUS (ss u + p + binf - bsup) (se u + p + binf - bsup) (sl u)
  else mkUS (ss u + p) (se u + p) (sl u).

(* one pass over the ground-truth annotators: k sampled annotators; gt = units of each ground-truth annotator *)
Fixpoint sample_pass (repaired int_mode : bool) (dist binf bsup : Q) (gt : list (list unitS)) (k : nat)
         (avail : list seg) (st : list draw) : option (list (Q * bool) * list (nat * list unitS) * list draw) :=
  match k with
  | O => Some ([], [], st)
  | S k' =>
    match draw_pivot repaired int_mode dist binf bsup avail st with
    | Some (p, avail', Choice a :: st') =>
      match sample_pass repaired int_mode dist binf bsup gt k' avail' st' with
      | Some (ps, anns, st'') =>
        (* the flag records whether the pivot was drawn from the available segments (true) or, these being exhausted, from the whole bounds *)
        Some ((p, match avail with [] => false | _ => true end) :: ps, (a, map (shift_unit p binf bsup) (nth a gt [])) :: anns, st'')
      | None => None
      end
    | _ => None
    end
  end.
Definition sample_once (repaired int_mode : bool) (dist binf bsup : Q) (gt : list (list unitS)) (st : list draw) :=
  sample_pass repaired int_mode dist binf bsup gt (length gt) [(binf, bsup)] st.

(* "x belongs to an available segment" and "x is at least dist away from p" *)
Definition in_seg (x : Q) (sg : seg) : Prop := fst sg <= x /\ x < snd sg.
Definition available (x : Q) (segs : list seg) : Prop := exists sg, In sg segs /\ in_seg x sg.
Definition far (dist p x : Q) : Prop := x < p - dist \/ p + dist <= x.
(* "at least dist apart" (closed on both sides) *)
Definition apart (dist p x : Q) : Prop := x <= p - dist \/ p + dist <= x.
(* the chosen segment holds a whole number *)
Definition has_int (sg : seg) : Prop := exists z : Z, fst sg <= inject_Z z /\ inject_Z z <= snd sg.

(* removal of the zones of a list of pivots, in order, from the whole bounds *)
Definition avail_after (repaired : bool) (dist binf bsup : Q) (ps : list Q) : list seg :=
  fold_left (fun av p => remove_pivot repaired p dist av) ps [(binf, bsup)].

(* the contract of the primitive draws along one pass: np.random.choice returns the index of one of the available segments,
   np.random.uniform(a, b) a value of [a, b) *)
Fixpoint contract (repaired int_mode : bool) (dist binf bsup : Q) (k : nat) (avail : list seg) (st : list draw) : Prop :=
  match k with
  | O => True
  | S k' =>
    match avail, st with
    | [], Uniform x :: Choice a :: st' => (binf <= x /\ x < bsup) /\ contract repaired int_mode dist binf bsup k' [] st'
    | _ :: _, Choice i :: Uniform x :: Choice a :: st' =>
        (exists sg, nth_error avail i = Some sg /\ in_seg x sg) /\
        contract repaired int_mode dist binf bsup k' (remove_pivot repaired (if int_mode then int_pivot repaired (nth i avail (0, 0)) x else x) dist avail) st'
    | _, _ => False
    end
  end.
