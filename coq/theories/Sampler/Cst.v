(* Model of cst.CorpusShufflingTool (cst.py:73-252) - C19.  Exact rationals; randomness is an explicit stream of primitive draws.
   A corpus is one sorted unit list per generated annotator (SortedSet semantics: inserting a unit already present changes nothing).
   Categories are numbers preserving the order of the label strings.  Definitions only. *)
From Coq Require Import List Arith ZArith QArith Qabs Qround Lia Bool.
Import ListNotations.
Local Open Scope Q_scope.

Record cunit := mkCU { cs : Q; ce : Q; cc : nat }.
Inductive cdraw :=
| CUniform (x : Q)      (* np.random.uniform *)
| CNormal (x : Q)       (* np.random.normal *)
| CRandom (x : Q)       (* np.random.random *)
| CChoice (i : nat)     (* np.random.choice: index returned *)
| CRandint (i : nat).   (* np.random.randint *)

Definition Qltb (a b : Q) : bool := negb (Qle_bool b a).
Definition Qeqb (a b : Q) : bool := Qeq_bool a b.
Definition cunit_eqb (u v : cunit) : bool := Qeqb (cs u) (cs v) && Qeqb (ce u) (ce v) && (cc u =? cc v)%nat.
(* Unit order: start, end, then category *)
Definition cunit_ltb (u v : cunit) : bool :=
  if Qeqb (cs u) (cs v) then (if Qeqb (ce u) (ce v) then (cc u <? cc v)%nat else Qltb (ce u) (ce v)) else Qltb (cs u) (cs v).
Fixpoint cins (u : cunit) (l : list cunit) : list cunit :=
  match l with
  | [] => [u]
  | v :: r => if cunit_eqb u v then l else if cunit_ltb u v then u :: l else v :: cins u r
  end.
Fixpoint cdel (u : cunit) (l : list cunit) : list cunit :=
  match l with [] => [] | v :: r => if cunit_eqb u v then r else v :: cdel u r end.
Definition duration (u : cunit) : Q := ce u - cs u.
Definition total_duration (l : list cunit) : Q := fold_right (fun u acc => duration u + acc) 0 l.

(* Continuum.add rejects segments not longer than the precision *)
Definition addable (prec : Q) (u : cunit) : bool := Qltb prec (duration u).

(* ---------- shift (cst.py:87-101): each unit of the snapshot is removed and re-added with both ends moved by U(-1,1) * shift_max,
   redrawn until start < end ---------- *)
(* (Continuum.add raises on a segment not longer than the precision: modelled as None, the run does not return) *)
Fixpoint shift_draw (shift_max : Q) (u : cunit) (st : list cdraw) : option (cunit * list cdraw) :=
  match st with
  | CUniform a :: CUniform b :: st' =>
    let s := cs u + a * shift_max in let e := ce u + b * shift_max in
    if Qltb s e then Some (mkCU s e (cc u), st') else shift_draw shift_max u st'
  | _ => None
  end.
Fixpoint shift_units (prec shift_max : Q) (snapshot : list cunit) (cur : list cunit) (st : list cdraw) : option (list cunit * list cdraw) :=
  match snapshot with
  | [] => Some (cur, st)
  | u :: r => match shift_draw shift_max u st with
              | Some (v, st') => if addable prec v then shift_units prec shift_max r (cins v (cdel u cur)) st' else None
              | None => None
              end
  end.

(* ---------- false negatives (103-116): a security unit is chosen first; each unit is removed when random() < magnitude;
   an annotator left empty gets the security unit back ---------- *)
Fixpoint neg_units (m : Q) (snapshot cur : list cunit) (st : list cdraw) : option (list cunit * list cdraw) :=
  match snapshot with
  | [] => Some (cur, st)
  | u :: r => match st with
              | CRandom x :: st' => neg_units m r (if Qltb x m then cdel u cur else cur) st'
              | _ => None
              end
  end.
Definition neg_annotator (m : Q) (us : list cunit) (st : list cdraw) : option (list cunit * list cdraw) :=
  match st with
  | CChoice i :: st' =>
    match nth_error us i with
    | Some sec => match neg_units m us us st' with
                  | Some ([], st'') => Some ([sec], st'')
                  | Some (l, st'') => Some (l, st'')
                  | None => None
                  end
    | None => None
    end
  | _ => None
  end.

(* ---------- false positives (118-139): k new units: category ~ choice, centre ~ uniform, duration ~ |normal| ---------- *)
Fixpoint pos_units (prec : Q) (k : nat) (cur : list cunit) (st : list cdraw) : option (list cunit * list cdraw) :=
  match k with
  | O => Some (cur, st)
  | S k' => match st with
            | CChoice c :: CUniform center :: CNormal d :: st' =>
              let h := Qabs d / 2 in
              let v := mkCU (center - h) (center + h) c in
              if addable prec v then pos_units prec k' (cins v cur) st' else None
            | _ => None
            end
  end.

(* ---------- category shuffle (141-193): every unit keeps its segment and gets a category drawn by choice ---------- *)
Fixpoint cat_units (snapshot cur : list cunit) (st : list cdraw) : option (list cunit * list cdraw) :=
  match snapshot with
  | [] => Some (cur, st)
  | u :: r => match st with
              | CChoice c :: st' => cat_units r (cins (mkCU (cs u) (ce u) c) (cdel u cur)) st'
              | _ => None
              end
  end.

(* ---------- splits (195-217): one split per annotator per round: pop the unit at a random index, cut it at uniform(start + 1% of its
   length, end); if a piece is too short for the container the unit is left as it was.
   repaired = true : the current code (after the fix commit): the first piece, when it was added before the second one failed, is withdrawn;
   repaired = false: the code as it was, which then re-added the original unit ON TOP of the first piece (duration counted twice) ---------- *)
Definition split_one_gen (repaired : bool) (prec : Q) (us : list cunit) (st : list cdraw) : option (list cunit * list cdraw) :=
  match st with
  | CRandint i :: CUniform cut :: st' =>
    match nth_error us i with
    | Some u =>
      let rest := cdel u us in
      let right := mkCU cut (ce u) (cc u) in
      let left := mkCU (cs u) cut (cc u) in
      if addable prec right then
        if addable prec left then Some (cins left (cins right rest), st')
        else if repaired then Some (cins u (cdel right (cins right rest)), st')   (* first add done, second raised: piece withdrawn, unit back *)
        else Some (cins u (cins right rest), st')
      else Some (cins u (if repaired then cdel right rest else rest), st')          (* discard of a piece that was never added, then unit back *)
    | None => None
    end
  | _ => None
  end.
Definition split_one := split_one_gen true.
Fixpoint split_round (prec : Q) (corpus : list (list cunit)) (st : list cdraw) : option (list (list cunit) * list cdraw) :=
  match corpus with
  | [] => Some ([], st)
  | us :: r => match split_one prec us st with
               | Some (us', st') => match split_round prec r st' with
                                    | Some (r', st'') => Some (us' :: r', st'')
                                    | None => None
                                    end
               | None => None
               end
  end.
Fixpoint split_rounds (prec : Q) (k : nat) (corpus : list (list cunit)) (st : list cdraw) : option (list (list cunit) * list cdraw) :=
  match k with
  | O => Some (corpus, st)
  | S k' => match split_round prec corpus st with
            | Some (c', st') => split_rounds prec k' c' st'
            | None => None
            end
  end.

(* apply a per-annotator perturbation to every annotator in order, threading the stream *)
Fixpoint per_annotator (f : list cunit -> list cdraw -> option (list cunit * list cdraw))
         (corpus : list (list cunit)) (st : list cdraw) : option (list (list cunit) * list cdraw) :=
  match corpus with
  | [] => Some ([], st)
  | us :: r => match f us st with
               | Some (us', st') => match per_annotator f r st' with
                                    | Some (r', st'') => Some (us' :: r', st'')
                                    | None => None
                                    end
               | None => None
               end
  end.

Record cst_opts := mkOpts { o_shift : bool; o_fpos : bool; o_fneg : bool; o_cat : bool; o_split : bool }.
(* corpus_shuffle: shift, false positives, false negatives, categories, splits - in this order (234-244) *)
Definition cst_run (prec m shift_max : Q) (kpos ksplit : nat) (o : cst_opts) (corpus : list (list cunit)) (st : list cdraw)
  : option (list (list cunit) * list cdraw) :=
  let step (on : bool) (f : list (list cunit) -> list cdraw -> option (list (list cunit) * list cdraw)) acc :=
      match acc with
      | Some (c, s) => if on then f c s else Some (c, s)
      | None => None
      end in
  step (o_split o) (split_rounds prec ksplit)
    (step (o_cat o) (per_annotator (fun us s => cat_units us us s))
      (step (o_fneg o) (per_annotator (neg_annotator m))
        (step (o_fpos o) (per_annotator (pos_units prec kpos))
          (step (o_shift o) (per_annotator (fun us s => shift_units prec shift_max us us s)) (Some (corpus, st)))))).
