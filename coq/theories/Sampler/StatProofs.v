(* Proofs about the model of sampler.StatisticalContinuumSampler (Stat.v) - C15. *)
From Coq Require Import List Arith ZArith QArith Qabs Qround Lia Lqa Bool.
From PGA Require Import Sampler.Stat.
Import ListNotations.
Local Open Scope Q_scope.

(* ------------------------------------------------------------------ *)
(* generation                                                          *)
(* ------------------------------------------------------------------ *)

Lemma draw_end_spec prec start st e st' : draw_end prec start st = Some (e, st') -> prec <= e - start.
Proof.
  revert e st'. induction st as [|d st IH]; intros e st' H; simpl in H; [discriminate|].
  destruct d as [x|i]; [|discriminate].
  destruct (Qltb (start + Qabs x - start) prec) eqn:E.
  - eapply IH; eauto.
  - injection H as He Hst. subst e. unfold Qltb in E.
    apply negb_false_iff in E. apply Qle_bool_iff in E. exact E.
Qed.

Definition unit_ok (prec : Q) (ncat : nat) (u : sunit) : Prop := prec <= su_e u - su_s u /\ (su_cat u < ncat)%nat.

Lemma draw_units_S_inv prec ncat k last st us st' :
  draw_units prec ncat (S k) last st = Some (us, st') ->
  exists gap st1 e c st2 us0,
    st = SNormal gap :: st1 /\
    draw_end prec (last + gap) st1 = Some (e, SChoice c :: st2) /\
    (c < ncat)%nat /\
    draw_units prec ncat k e st2 = Some (us0, st') /\
    us = mkSU (last + gap) e c :: us0.
Proof.
  intros H. simpl in H.
  destruct st as [|[gap|i] st1]; try discriminate.
  destruct (draw_end prec (last + gap) st1) as [[e [|[y|c] st2]]|] eqn:E; try discriminate.
  destruct (c <? ncat)%nat eqn:C; try discriminate.
  destruct (draw_units prec ncat k e st2) as [[us0 st3]|] eqn:D; try discriminate.
  injection H as H1 H2. subst.
  exists gap, st1, e, c, st2, us0. apply Nat.ltb_lt in C. repeat split; auto.
Qed.

Theorem draw_units_valid prec ncat k last st us st' :
  draw_units prec ncat k last st = Some (us, st') -> length us = k /\ Forall (unit_ok prec ncat) us.
Proof.
  revert last st us st'. induction k as [|k IH]; intros last st us st' H.
  - simpl in H. injection H as H1 H2. subst. split; auto.
  - apply draw_units_S_inv in H.
    destruct H as (gap & st1 & e & c & st2 & us0 & Hst & HE & HC & HD & Hus). subst.
    apply IH in HD. destruct HD as [D1 D2]. split; simpl; [congruence|].
    constructor; auto. split; simpl; auto. eapply draw_end_spec; eauto.
Qed.

Theorem draw_units_chain prec ncat k last st us st' :
  draw_units prec ncat k last st = Some (us, st') ->
  match us with [] => True | u :: _ => exists gap, su_s u == last + gap end.
Proof.
  destruct k as [|k]; intros H.
  - simpl in H. injection H as H1 H2. subst. exact I.
  - apply draw_units_S_inv in H.
    destruct H as (gap & st1 & e & c & st2 & us0 & Hst & HE & HC & HD & Hus). subst.
    exists gap. simpl. reflexivity.
Qed.

(* stronger form of the chain: the first unit starts at last + (the gap that heads the stream), and the
   remaining units are drawn starting from the end of that first unit *)
Theorem draw_units_chain_strong prec ncat k last st us st' :
  draw_units prec ncat (S k) last st = Some (us, st') ->
  exists gap st1 u us0 st2,
    st = SNormal gap :: st1 /\ us = u :: us0 /\ su_s u = last + gap /\
    draw_units prec ncat k (su_e u) st2 = Some (us0, st').
Proof.
  intros H. apply draw_units_S_inv in H.
  destruct H as (gap & st1 & e & c & st2 & us0 & Hst & HE & HC & HD & Hus). subst.
  exists gap, st1, (mkSU (last + gap) e c), us0, st2. repeat split; auto.
Qed.

Lemma draw_annotators_S_inv prec ncat n flag st anns st' :
  draw_annotators prec ncat (S n) flag st = Some (anns, st') ->
  exists x st1 us st2 rest,
    st = SNormal x :: st1 /\
    draw_units prec ncat (if flag then Nat.max 1 (abs_int x) else abs_int x) 0 st1 = Some (us, st2) /\
    draw_annotators prec ncat n (flag && match us with [] => true | _ => false end) st2 = Some (rest, st') /\
    anns = us :: rest.
Proof.
  intros H. cbn [draw_annotators] in H.
  destruct st as [|[x|i] st1]; try discriminate.
  destruct (draw_units prec ncat (if flag then Nat.max 1 (abs_int x) else abs_int x) 0 st1)
    as [[us st2]|] eqn:D; try discriminate.
  destruct (draw_annotators prec ncat n (flag && match us with [] => true | _ => false end) st2)
    as [[rest st3]|] eqn:A; try discriminate.
  injection H as H1 H2. subst.
  exists x, st1, us, st2, rest. repeat split; auto.
Qed.

Lemma draw_annotators_valid prec ncat nann flag st anns st' :
  draw_annotators prec ncat nann flag st = Some (anns, st') ->
  length anns = nann /\ Forall (Forall (unit_ok prec ncat)) anns.
Proof.
  revert flag st anns st'. induction nann as [|n IH]; intros flag st anns st' H.
  - simpl in H. injection H as H1 H2. subst. split; auto.
  - apply draw_annotators_S_inv in H.
    destruct H as (x & st1 & us & st2 & rest & Hst & HD & HA & Hanns). subst.
    apply IH in HA. destruct HA as [A1 A2].
    apply draw_units_valid in HD. destruct HD as [D1 D2].
    split; simpl; [congruence|]. constructor; auto.
Qed.

Theorem stat_sample_valid prec ncat nann st anns st' :
  stat_sample prec ncat nann st = Some (anns, st') ->
  length anns = nann /\ Forall (Forall (unit_ok prec ncat)) anns.
Proof.
  unfold stat_sample. apply draw_annotators_valid.
Qed.

Lemma draw_annotators_true_first_nonempty prec ncat n st anns st' :
  draw_annotators prec ncat (S n) true st = Some (anns, st') ->
  exists u us rest, anns = (u :: us) :: rest.
Proof.
  intros H. apply draw_annotators_S_inv in H.
  destruct H as (x & st1 & us & st2 & rest & Hst & HD & HA & Hanns). subst.
  apply draw_units_valid in HD. destruct HD as [D1 D2].
  destruct us as [|u us].
  - cbn [length] in D1. exfalso. pose proof (Nat.le_max_l 1 (abs_int x)) as Hm. lia.
  - exists u, us, rest. reflexivity.
Qed.

Theorem stat_sample_nonempty prec ncat nann st anns st' :
  (1 <= nann)%nat -> stat_sample prec ncat nann st = Some (anns, st') -> concat anns <> [].
Proof.
  intros Hn H. unfold stat_sample in H.
  destruct nann as [|n]; [lia|].
  apply draw_annotators_true_first_nonempty in H.
  destruct H as (u & us & rest & Hanns). subst. simpl. discriminate.
Qed.

Corollary unit_ok_positive prec ncat u : 0 < prec -> unit_ok prec ncat u -> su_s u < su_e u.
Proof.
  intros Hp [Hd Hc]. lra.
Qed.

(* ------------------------------------------------------------------ *)
(* abs_int                                                             *)
(* ------------------------------------------------------------------ *)

Lemma abs_int_nonneg_trunc x : 0 <= x -> abs_int x = Z.to_nat (Qfloor x).
Proof.
  intros Hx. unfold abs_int.
  assert (Hb : Qle_bool 0 x = true) by (apply Qle_bool_iff; exact Hx).
  rewrite Hb.
  assert (Hf : (0 <= Qfloor x)%Z).
  { change 0%Z with (Qfloor 0). apply Qfloor_resp_le. exact Hx. }
  rewrite Z.abs_eq; auto.
Qed.

Lemma abs_int_neg x : x < 0 -> abs_int x = Z.to_nat (- Qceiling x).
Proof.
  intros Hx. unfold abs_int.
  assert (Hb : Qle_bool 0 x = false).
  { destruct (Qle_bool 0 x) eqn:E; auto. apply Qle_bool_iff in E. lra. }
  rewrite Hb.
  assert (Hf : (Qceiling x <= 0)%Z).
  { change 0%Z with (Qceiling 0). apply Qceiling_resp_le. lra. }
  rewrite Z.abs_neq; auto.
Qed.

(* ------------------------------------------------------------------ *)
(* measured parameters                                                 *)
(* ------------------------------------------------------------------ *)

Lemma qsum_cons x l : qsum (x :: l) = x + qsum l.
Proof. reflexivity. Qed.

Lemma inject_nat_nonzero n : (1 <= n)%nat -> ~ inject_Z (Z.of_nat n) == 0.
Proof.
  intros Hn. unfold Qeq. simpl. lia.
Qed.

Lemma inject_nat_nonneg n : 0 <= inject_Z (Z.of_nat n).
Proof.
  unfold Qle. simpl. lia.
Qed.

Lemma qsum_div_nat (f : nat -> nat) (d : Q) (s : list nat) :
  qsum (map (fun c => inject_Z (Z.of_nat (f c)) / d) s) == inject_Z (Z.of_nat (list_sum (map f s))) / d.
Proof.
  induction s as [|a s IH].
  - simpl. unfold Qdiv. ring.
  - simpl map. rewrite qsum_cons. rewrite IH. simpl list_sum.
    rewrite Nat2Z.inj_add. rewrite inject_Z_plus. unfold Qdiv. ring.
Qed.

Lemma list_sum_map_plus (g h : nat -> nat) (s : list nat) :
  list_sum (map (fun c => (g c + h c)%nat) s) = (list_sum (map g s) + list_sum (map h s))%nat.
Proof.
  induction s as [|a s IH]; simpl; [reflexivity|]. rewrite IH. lia.
Qed.

Lemma list_sum_indicator k n :
  list_sum (map (fun c => if (k =? c)%nat then 1%nat else 0%nat) (seq 0 n)) = if (k <? n)%nat then 1%nat else 0%nat.
Proof.
  induction n as [|n IH].
  - simpl. reflexivity.
  - rewrite seq_S. rewrite map_app. rewrite list_sum_app. rewrite IH.
    cbn [map list_sum fold_right Nat.add].
    destruct (Nat.eqb_spec k n) as [E1|E1]; destruct (Nat.ltb_spec k n) as [E2|E2];
      destruct (Nat.ltb_spec k (S n)) as [E3|E3]; lia.
Qed.

Lemma counts_partition ncat (l : list runit) :
  (forall u, In u l -> (ru_cat u < ncat)%nat) ->
  list_sum (map (fun c => length (filter (fun u => (ru_cat u =? c)%nat) l)) (seq 0 ncat)) = length l.
Proof.
  induction l as [|u l IH]; intros Hl.
  - simpl. induction (seq 0 ncat) as [|a s IHs]; simpl; auto.
  - assert (Hext : forall c, length (filter (fun v => (ru_cat v =? c)%nat) (u :: l)) =
                     ((if (ru_cat u =? c)%nat then 1 else 0) + length (filter (fun v => (ru_cat v =? c)%nat) l))%nat).
    { intros c. simpl. destruct (ru_cat u =? c)%nat; reflexivity. }
    rewrite (map_ext _ _ Hext).
    rewrite list_sum_map_plus. rewrite list_sum_indicator. rewrite IH.
    + assert (Hu : (ru_cat u < ncat)%nat) by (apply Hl; left; reflexivity).
      apply Nat.ltb_lt in Hu. rewrite Hu. simpl. reflexivity.
    + intros v Hv. apply Hl. right. exact Hv.
Qed.

Theorem cat_weights_sum_to_1 ref ncat :
  concat ref <> [] -> (forall u, In u (concat ref) -> (ru_cat u < ncat)%nat) ->
  qsum (map (cat_weight ref) (seq 0 ncat)) == 1.
Proof.
  intros Hne Hcat. unfold cat_weight.
  rewrite (qsum_div_nat (fun c => length (filter (fun u => (ru_cat u =? c)%nat) (concat ref)))).
  rewrite counts_partition; auto.
  assert (Hlen : (1 <= length (concat ref))%nat).
  { destruct (concat ref) as [|u l]; [congruence|]. simpl. lia. }
  field. apply inject_nat_nonzero. exact Hlen.
Qed.

Lemma Qsquare_nonneg x : 0 <= x * x.
Proof.
  destruct (Qlt_le_dec x 0) as [Hneg|Hpos].
  - assert (H : x * x == (- x) * (- x)) by ring. rewrite H.
    apply Qmult_le_0_compat; lra.
  - apply Qmult_le_0_compat; exact Hpos.
Qed.

Lemma qsum_nonneg l : Forall (fun x => 0 <= x) l -> 0 <= qsum l.
Proof.
  induction 1 as [|x l Hx Hl IH]; simpl.
  - lra.
  - change (0 <= x + qsum l). lra.
Qed.

Lemma Qdiv_nonneg a b : 0 <= a -> 0 <= b -> 0 <= a / b.
Proof.
  intros Ha Hb. unfold Qdiv. apply Qmult_le_0_compat; auto. apply Qinv_le_0_compat. exact Hb.
Qed.

Theorem qvar_nonneg l : 0 <= qvar l.
Proof.
  unfold qvar. apply Qdiv_nonneg.
  - apply qsum_nonneg. apply Forall_forall. intros y Hy.
    apply in_map_iff in Hy. destruct Hy as (x & Hx & _). subst y. apply Qsquare_nonneg.
  - unfold qlen. apply inject_nat_nonneg.
Qed.

Lemma qsum_repeat c n : qsum (repeat c n) == inject_Z (Z.of_nat n) * c.
Proof.
  induction n as [|n IH].
  - simpl. ring.
  - simpl repeat. rewrite qsum_cons. rewrite IH.
    rewrite Nat2Z.inj_succ. unfold Z.succ. rewrite inject_Z_plus. ring.
Qed.

Theorem qmean_const c n : (1 <= n)%nat -> qmean (repeat c n) == c.
Proof.
  intros Hn. unfold qmean, qlen. rewrite repeat_length. rewrite qsum_repeat.
  field. apply inject_nat_nonzero. exact Hn.
Qed.

Lemma inner_gaps_cons2 a b r : inner_gaps (a :: b :: r) = (ru_s b - ru_e a) :: inner_gaps (b :: r).
Proof. reflexivity. Qed.

Lemma inner_gaps_In pre u v post : In (ru_s v - ru_e u) (inner_gaps (pre ++ u :: v :: post)).
Proof.
  induction pre as [|a pre IH].
  - simpl app. rewrite inner_gaps_cons2. left. reflexivity.
  - simpl app. destruct (pre ++ u :: v :: post) as [|b r] eqn:E.
    + destruct pre; discriminate.
    + rewrite inner_gaps_cons2. right. exact IH.
Qed.

Theorem all_gaps_spec ref : exists rest, all_gaps ref = 0 :: rest /\
  forall us u v pre post, In us ref -> us = pre ++ u :: v :: post -> In (ru_s v - ru_e u) rest.
Proof.
  exists (flat_map inner_gaps ref ++ flat_map leading_gap ref). split; [reflexivity|].
  intros us u v pre post Hin Hus. apply in_or_app. left. apply in_flat_map.
  exists us. split; auto. subst us. apply inner_gaps_In.
Qed.

Print Assumptions draw_end_spec.
Print Assumptions draw_units_valid.
Print Assumptions draw_units_chain.
Print Assumptions draw_units_chain_strong.
Print Assumptions stat_sample_valid.
Print Assumptions stat_sample_nonempty.
Print Assumptions unit_ok_positive.
Print Assumptions abs_int_nonneg_trunc.
Print Assumptions abs_int_neg.
Print Assumptions cat_weights_sum_to_1.
Print Assumptions qvar_nonneg.
Print Assumptions qmean_const.
Print Assumptions all_gaps_spec.
