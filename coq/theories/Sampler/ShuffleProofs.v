From Coq Require Import List Arith ZArith QArith Qround Lia Lqa Bool Permutation.
From PGA Require Import Sampler.Shuffle.
Import ListNotations.
Local Open Scope Q_scope.

(* Proofs about the model of ShuffleContinuumSampler (Shuffle.v) - C16. *)

Local Arguments remove_pivot : simpl never.
Local Arguments qtrunc : simpl never.
Local Arguments piece : simpl never.
Local Arguments shift_unit : simpl never.

(* ---------- boolean comparisons ---------- *)
Lemma Qle_bool_false a b : Qle_bool a b = false -> b < a.
Proof.
  intros H. destruct (Qlt_le_dec b a) as [L|L]; [exact L|].
  apply Qle_bool_iff in L. congruence.
Qed.
Lemma Qlt_bool_true a b : Qlt_bool a b = true -> a < b.
Proof. unfold Qlt_bool. intros H. apply negb_true_iff in H. apply Qle_bool_false; exact H. Qed.
Lemma Qlt_bool_false a b : Qlt_bool a b = false -> b <= a.
Proof. unfold Qlt_bool. intros H. apply negb_false_iff in H. apply Qle_bool_iff; exact H. Qed.

Lemma qmaxq_le x a b : qmaxq a b <= x <-> (a <= x /\ b <= x).
Proof.
  unfold qmaxq. destruct (Qle_bool a b) eqn:E;
    [apply Qle_bool_iff in E | apply Qle_bool_false in E]; split; intros H; try split; lra.
Qed.
Lemma qmaxq_lt x a b : qmaxq a b < x <-> (a < x /\ b < x).
Proof.
  unfold qmaxq. destruct (Qle_bool a b) eqn:E;
    [apply Qle_bool_iff in E | apply Qle_bool_false in E]; split; intros H; try split; lra.
Qed.
Lemma qminq_lt x a b : x < qminq a b <-> (x < a /\ x < b).
Proof.
  unfold qminq. destruct (Qle_bool a b) eqn:E;
    [apply Qle_bool_iff in E | apply Qle_bool_false in E]; split; intros H; try split; lra.
Qed.

(* ---------- availability over lists ---------- *)
Lemma available_nil x : available x [] <-> False.
Proof. unfold available. split; [intros [sg [[] _]] | intros []]. Qed.
Lemma available_cons x sg l : available x (sg :: l) <-> (in_seg x sg \/ available x l).
Proof.
  unfold available. split.
  - intros [sg' [[E|I] H]]; [subst; left; exact H | right; exists sg'; split; assumption].
  - intros [H|[sg' [I H]]]; [exists sg; split; [left; reflexivity | exact H] | exists sg'; split; [right; exact I | exact H]].
Qed.
Lemma available_app x l1 l2 : available x (l1 ++ l2) <-> (available x l1 \/ available x l2).
Proof.
  unfold available. split.
  - intros [sg [I H]]. apply in_app_or in I. destruct I as [I|I]; [left|right]; exists sg; split; assumption.
  - intros [[sg [I H]]|[sg [I H]]]; exists sg; (split; [apply in_or_app; auto | exact H]).
Qed.
Lemma available_flat_map x (f : seg -> list seg) l :
  available x (flat_map f l) <-> exists sg, In sg l /\ available x (f sg).
Proof.
  unfold available. split.
  - intros [sg' [I H]]. apply in_flat_map in I. destruct I as [sg [I1 I2]].
    exists sg. split; [exact I1|]. exists sg'. split; assumption.
  - intros [sg [I1 [sg' [I2 H]]]]. exists sg'. split; [|exact H].
    apply in_flat_map. exists sg. split; assumption.
Qed.
Lemma available_rev x l : available x (rev l) <-> available x l.
Proof.
  unfold available. split; intros [sg [I H]]; exists sg; (split; [|exact H]).
  - apply in_rev; exact I.
  - apply in_rev in I; exact I.
Qed.

(* ---------- removal of one zone (repaired) ---------- *)
Lemma piece_spec p dist sg x : 0 <= dist ->
  (available x (piece true p dist sg) <-> (in_seg x sg /\ far dist p x)).
Proof.
  intros Hd. destruct sg as [s e]. unfold piece.
  destruct (Qle_bool (p - dist) s) eqn:E1; [apply Qle_bool_iff in E1 | apply Qle_bool_false in E1].
  - destruct (Qle_bool e (p + dist)) eqn:E2; [apply Qle_bool_iff in E2 | apply Qle_bool_false in E2].
    + rewrite available_nil. unfold in_seg, far; simpl. split; [intros [] | intros H; lra].
    + rewrite available_cons, available_nil. unfold in_seg, far; simpl. rewrite qmaxq_le.
      split; intros H; lra.
  - destruct (Qlt_bool (p + dist) e) eqn:E2; [apply Qlt_bool_true in E2 | apply Qlt_bool_false in E2].
    + rewrite !available_cons, available_nil. unfold in_seg, far; simpl. split; intros H; lra.
    + rewrite available_cons, available_nil. unfold in_seg, far; simpl. rewrite qminq_lt.
      split; intros H; lra.
Qed.

Theorem remove_pivot_spec p dist segs x : 0 <= dist ->
  (available x (remove_pivot true p dist segs) <-> (available x segs /\ far dist p x)).
Proof.
  intros Hd. unfold remove_pivot. rewrite available_flat_map. split.
  - intros [sg [I H]]. apply piece_spec in H; [|exact Hd]. destruct H as [H1 H2].
    split; [|exact H2]. exists sg. split; [apply in_rev; exact I | exact H1].
  - intros [[sg [I H1]] H2]. exists sg. split; [apply in_rev in I; exact I|].
    apply piece_spec; [exact Hd|]. split; assumption.
Qed.

(* segments stay well-formed (start < end) *)
Definition wf_segs (segs : list seg) : Prop := forall sg, In sg segs -> fst sg < snd sg.

Lemma piece_wf p dist sg sg' : 0 <= dist -> fst sg < snd sg -> In sg' (piece true p dist sg) -> fst sg' < snd sg'.
Proof.
  intros Hd W I. destruct sg as [s e]. simpl in W. unfold piece in I.
  destruct (Qle_bool (p - dist) s) eqn:E1; [apply Qle_bool_iff in E1 | apply Qle_bool_false in E1].
  - destruct (Qle_bool e (p + dist)) eqn:E2; [apply Qle_bool_iff in E2 | apply Qle_bool_false in E2].
    + destruct I.
    + destruct I as [I|[]]. subst sg'. simpl. apply qmaxq_lt. split; lra.
  - destruct (Qlt_bool (p + dist) e) eqn:E2; [apply Qlt_bool_true in E2 | apply Qlt_bool_false in E2].
    + destruct I as [I|[I|[]]]; subst sg'; simpl; lra.
    + destruct I as [I|[]]. subst sg'. simpl. apply qminq_lt. split; lra.
Qed.

Theorem remove_pivot_wf p dist segs : 0 <= dist -> wf_segs segs -> wf_segs (remove_pivot true p dist segs).
Proof.
  intros Hd W sg' I. unfold remove_pivot in I. apply in_flat_map in I. destruct I as [sg [I1 I2]].
  apply (piece_wf p dist sg sg' Hd); [|exact I2]. apply W. apply in_rev in I1. exact I1.
Qed.

(* ---------- after removing several zones ---------- *)
Lemma fold_remove_spec dist ps : 0 <= dist -> forall segs x,
  (available x (fold_left (fun av p => remove_pivot true p dist av) ps segs)
   <-> (available x segs /\ forall p, In p ps -> far dist p x)).
Proof.
  intros Hd. induction ps as [|p ps IH]; intros segs x; simpl.
  - split; [intros H; split; [exact H | intros p []] | intros [H _]; exact H].
  - rewrite IH. rewrite remove_pivot_spec by exact Hd. split.
    + intros [[A B] C]. split; [exact A|]. intros q [E|I]; [subst q; exact B | apply C; exact I].
    + intros [A C]. split; [split; [exact A | apply C; left; reflexivity] | intros q I; apply C; right; exact I].
Qed.

Theorem avail_after_spec dist binf bsup ps x : 0 <= dist ->
  (available x (avail_after true dist binf bsup ps) <-> ((binf <= x /\ x < bsup) /\ forall p, In p ps -> far dist p x)).
Proof.
  intros Hd. unfold avail_after. rewrite fold_remove_spec by exact Hd.
  rewrite available_cons, available_nil. unfold in_seg; simpl. tauto.
Qed.

(* ---------- refutations on the original code ---------- *)
Theorem widening_refuted :
  exists dist binf bsup p1 p2 x,
    0 <= dist /\ available x (avail_after false dist binf bsup [p1; p2]) /\ ~ far dist p1 x.
Proof.
  exists (5#2), 0, 100, 50, 10, (101#2).
  split; [unfold Qle; simpl; lia|]. split.
  - unfold available. eexists. split.
    + vm_compute. left; reflexivity.
    + unfold in_seg; simpl. split; [unfold Qle; simpl; lia | unfold Qlt; simpl; lia].
  - unfold far. intros [H|H]; revert H; [unfold Qlt | unfold Qle]; simpl; lia.
Qed.

Theorem int_pivot_refuted :
  exists dist binf bsup (gt : list (list unitS)) st ps anns st',
    0 <= dist /\ contract false true dist binf bsup 2 [(binf, bsup)] st /\
    sample_pass false true dist binf bsup gt 2 [(binf, bsup)] st = Some (ps, anns, st') /\
    exists p q, map fst ps = [p; q] /\ ~ far dist p q.
Proof.
  exists (5#2), 0, 100, [[]; []],
    [Choice 0; Uniform (186#5); Choice 0; Choice 1; Uniform (397#10); Choice 0].
  eexists. eexists. eexists.
  split; [unfold Qle; simpl; lia|]. split; [|split].
  - cbn [contract]. split.
    + eexists. split; [reflexivity|]. unfold in_seg; simpl.
      split; [unfold Qle; simpl; lia | unfold Qlt; simpl; lia].
    + match goal with |- context [remove_pivot ?r ?p ?d ?a] =>
        let v := eval vm_compute in (remove_pivot r p d a) in change (remove_pivot r p d a) with v end.
      cbn iota. split; [|exact I].
      eexists. split; [reflexivity|]. unfold in_seg; simpl.
      split; [unfold Qle; simpl; lia | unfold Qlt; simpl; lia].
  - vm_compute. reflexivity.
  - exists 37, 39. split; [reflexivity|].
    unfold far. intros [H|H]; revert H; [unfold Qlt | unfold Qle]; simpl; lia.
Qed.

(* ---------- float mode, repaired: separation of the pivots ---------- *)
Lemma nth_error_In_seg x (avail : list seg) i sg : nth_error avail i = Some sg -> in_seg x sg -> available x avail.
Proof. intros H1 H2. exists sg. split; [eapply nth_error_In; exact H1 | exact H2]. Qed.

Lemma pivots_separated_gen dist binf bsup gt : 0 <= dist ->
  forall k avail seen st ps anns st',
  (forall x, available x avail -> (binf <= x /\ x < bsup) /\ forall p, In p seen -> far dist p x) ->
  contract true false dist binf bsup k avail st ->
  sample_pass true false dist binf bsup gt k avail st = Some (ps, anns, st') ->
  (forall p b, In (p, b) ps -> binf <= p /\ p < bsup) /\
  (forall i p, nth_error ps i = Some (p, true) ->
      (forall q, In q seen -> far dist q p) /\
      (forall j q b, (j < i)%nat -> nth_error ps j = Some (q, b) -> far dist q p)).
Proof.
  intros Hd. induction k as [|k IH]; intros avail seen st ps anns st' Inv C S.
  - simpl in S. inversion S; subst. split; [intros p b [] | intros [|i] p H; discriminate H].
  - destruct avail as [|sg0 rest].
    + cbn [contract] in C.
      destruct st as [|[i0|x] st]; try contradiction.
      destruct st as [|[a|y] st]; try contradiction.
      destruct C as [Bx C]. cbn [sample_pass draw_pivot] in S.
      destruct (sample_pass true false dist binf bsup gt k [] st) as [[[ps' anns'] st'']|] eqn:R; [|discriminate S].
      inversion S; subst; clear S.
      assert (Inv' : forall x0, available x0 [] -> (binf <= x0 /\ x0 < bsup) /\ forall p, In p (seen ++ [x]) -> far dist p x0)
        by (intros x0 H; apply available_nil in H; destruct H).
      destruct (IH [] (seen ++ [x]) st ps' anns' st' Inv' C R) as [IH1 IH2].
      split.
      * intros p b [E|I]; [inversion E; subst; exact Bx | eapply IH1; exact I].
      * intros [|i] p H; [discriminate H|]. simpl in H. destruct (IH2 i p H) as [F1 F2]. split.
        -- intros q I. apply F1. apply in_or_app. left; exact I.
        -- intros [|j] q b L Hj; simpl in Hj.
           ++ inversion Hj; subst. apply F1. apply in_or_app. right; left; reflexivity.
           ++ apply (F2 j q b); [lia | exact Hj].
    + cbn [contract] in C.
      destruct st as [|[i0|x0] st]; try contradiction.
      destruct st as [|[a0|x] st]; try contradiction.
      destruct st as [|[a|y] st]; try contradiction.
      destruct C as [[sg [Hn Hs]] C]. cbn [sample_pass draw_pivot] in S.
      set (avail := sg0 :: rest) in *.
      destruct (sample_pass true false dist binf bsup gt k (remove_pivot true x dist avail) st)
        as [[[ps' anns'] st'']|] eqn:R; [|discriminate S].
      inversion S; subst ps anns st''; clear S.
      assert (Ax : available x avail) by (eapply nth_error_In_seg; eassumption).
      destruct (Inv x Ax) as [Bx Fx].
      assert (Inv' : forall x1, available x1 (remove_pivot true x dist avail) ->
                (binf <= x1 /\ x1 < bsup) /\ forall p, In p (seen ++ [x]) -> far dist p x1).
      { intros x1 H. apply remove_pivot_spec in H; [|exact Hd]. destruct H as [H1 H2].
        destruct (Inv x1 H1) as [B1 F1]. split; [exact B1|].
        intros p I. apply in_app_or in I. destruct I as [I|[E|[]]]; [apply F1; exact I | subst p; exact H2]. }
      destruct (IH _ (seen ++ [x]) st ps' anns' st' Inv' C R) as [IH1 IH2].
      split.
      * intros p b [E|I]; [inversion E; subst; exact Bx | eapply IH1; exact I].
      * intros [|i] p H; simpl in H.
        -- inversion H; subst p. split; [exact Fx | intros j q b L; lia].
        -- destruct (IH2 i p H) as [F1 F2]. split.
           ++ intros q I. apply F1. apply in_or_app. left; exact I.
           ++ intros [|j] q b L Hj; simpl in Hj.
              ** inversion Hj; subst. apply F1. apply in_or_app. right; left; reflexivity.
              ** apply (F2 j q b); [lia | exact Hj].
Qed.

Theorem pivots_separated_float dist binf bsup gt k prev st ps anns st' :
  0 <= dist -> binf < bsup ->
  contract true false dist binf bsup k (avail_after true dist binf bsup prev) st ->
  sample_pass true false dist binf bsup gt k (avail_after true dist binf bsup prev) st = Some (ps, anns, st') ->
  (forall p b, In (p, b) ps -> binf <= p /\ p < bsup) /\
  (forall i p, nth_error ps i = Some (p, true) ->
      (forall q, In q prev -> far dist q p) /\ (forall j q b, (j < i)%nat -> nth_error ps j = Some (q, b) -> far dist q p)).
Proof.
  intros Hd Hb C S.
  apply (pivots_separated_gen dist binf bsup gt Hd k (avail_after true dist binf bsup prev) prev st ps anns st'); [|exact C|exact S].
  intros x H. apply avail_after_spec in H; [exact H | exact Hd].
Qed.

(* ---------- integer mode, repaired: separation of the pivots ---------- *)
(* stronger, segment-wise invariant: every available segment lies wholly on one side of every earlier pivot's zone *)
Definition seg_clear (dist : Q) (seen : list Q) (binf bsup : Q) (sg : seg) : Prop :=
  fst sg < snd sg /\ binf <= fst sg /\ snd sg <= bsup /\ forall q, In q seen -> (snd sg <= q - dist \/ q + dist <= fst sg).

Lemma piece_clear dist seen binf bsup p sg sg' : 0 <= dist ->
  seg_clear dist seen binf bsup sg -> In sg' (piece true p dist sg) -> seg_clear dist (seen ++ [p]) binf bsup sg'.
Proof.
  intros Hd [W [B1 [B2 F]]] I. destruct sg as [s e]. simpl in W, B1, B2, F. unfold piece in I.
  assert (G : forall s' e' : Q, s <= s' -> e' <= e -> s' < e' -> (e' <= p - dist \/ p + dist <= s') ->
              seg_clear dist (seen ++ [p]) binf bsup (s', e')).
  { intros s' e' L1 L2 L3 L4. unfold seg_clear; simpl.
    split; [exact L3|]. split; [lra|]. split; [lra|].
    intros q Iq. apply in_app_or in Iq. destruct Iq as [Iq|[E|[]]].
    - destruct (F q Iq) as [H|H]; [left; lra | right; lra].
    - subst q. exact L4. }
  destruct (Qle_bool (p - dist) s) eqn:E1; [apply Qle_bool_iff in E1 | apply Qle_bool_false in E1].
  - destruct (Qle_bool e (p + dist)) eqn:E2; [apply Qle_bool_iff in E2 | apply Qle_bool_false in E2].
    + destruct I.
    + destruct I as [I|[]]. subst sg'. unfold qmaxq.
      destruct (Qle_bool s (p + dist)) eqn:E3; [apply Qle_bool_iff in E3 | apply Qle_bool_false in E3];
        apply G; try lra.
  - destruct (Qlt_bool (p + dist) e) eqn:E2; [apply Qlt_bool_true in E2 | apply Qlt_bool_false in E2].
    + destruct I as [I|[I|[]]]; subst sg'; apply G; lra.
    + destruct I as [I|[]]. subst sg'. unfold qminq.
      destruct (Qle_bool e (p - dist)) eqn:E3; [apply Qle_bool_iff in E3 | apply Qle_bool_false in E3];
        apply G; try lra.
Qed.

Lemma remove_pivot_clear dist seen binf bsup p segs : 0 <= dist ->
  (forall sg, In sg segs -> seg_clear dist seen binf bsup sg) ->
  (forall sg, In sg (remove_pivot true p dist segs) -> seg_clear dist (seen ++ [p]) binf bsup sg).
Proof.
  intros Hd Inv sg' I. unfold remove_pivot in I. apply in_flat_map in I. destruct I as [sg [I1 I2]].
  apply (piece_clear dist seen binf bsup p sg sg' Hd); [|exact I2]. apply Inv. apply in_rev in I1. exact I1.
Qed.

Lemma in_closed_true sg t : in_closed sg t = true -> fst sg <= t /\ t <= snd sg.
Proof.
  unfold in_closed. intros H. apply andb_true_iff in H. destruct H as [H1 H2].
  apply Qle_bool_iff in H1. apply Qle_bool_iff in H2. split; assumption.
Qed.
Lemma in_closed_false sg t : in_closed sg t = false -> t < fst sg \/ snd sg < t.
Proof.
  unfold in_closed. intros H. apply andb_false_iff in H. destruct H as [H|H]; apply Qle_bool_false in H; [left|right]; exact H.
Qed.

(* the repaired integer rule keeps the pivot inside the closed chosen segment whenever that segment holds a whole number *)
Lemma int_pivot_in_segment sg x : fst sg <= x -> x < snd sg -> has_int sg ->
  fst sg <= int_pivot true sg x /\ int_pivot true sg x <= snd sg.
Proof.
  intros L1 L2 [z [Z1 Z2]]. unfold int_pivot. cbn [negb].
  destruct (in_closed sg (qtrunc x)) eqn:E1; [apply in_closed_true; exact E1|].
  destruct (in_closed sg (inject_Z (Qfloor x))) eqn:E2; [apply in_closed_true; exact E2|].
  destruct (in_closed sg (inject_Z (Qceiling x))) eqn:E3; [apply in_closed_true; exact E3|].
  exfalso. apply in_closed_false in E2. apply in_closed_false in E3.
  pose proof (Qfloor_le x) as F1. pose proof (Qlt_floor x) as F2.
  pose proof (Qle_ceiling x) as C1. pose proof (Qceiling_lt x) as C2.
  destruct E2 as [E2|E2]; [|lra]. destruct E3 as [E3|E3]; [lra|].
  assert (A : (Qfloor x < z)%Z) by (rewrite Zlt_Qlt; lra).
  assert (B : (z < Qceiling x)%Z) by (rewrite Zlt_Qlt; lra).
  assert (A' : inject_Z (Qfloor x + 1) <= inject_Z z) by (rewrite <- Zle_Qle; lia).
  assert (B' : inject_Z z <= inject_Z (Qceiling x - 1)) by (rewrite <- Zle_Qle; lia).
  lra.
Qed.

(* every segment chosen along the way holds a whole number (same shape as [contract]) *)
Fixpoint chosen_have_int (dist binf bsup : Q) (k : nat) (avail : list seg) (st : list draw) : Prop :=
  match k with
  | O => True
  | S k' =>
    match avail, st with
    | [], Uniform x :: Choice a :: st' => chosen_have_int dist binf bsup k' [] st'
    | _ :: _, Choice i :: Uniform x :: Choice a :: st' =>
        has_int (nth i avail (0, 0)) /\
        chosen_have_int dist binf bsup k' (remove_pivot true (int_pivot true (nth i avail (0, 0)) x) dist avail) st'
    | _, _ => True
    end
  end.

Lemma pivots_separated_int_gen dist binf bsup gt : 0 <= dist ->
  forall k avail seen st ps anns st',
  (forall sg, In sg avail -> seg_clear dist seen binf bsup sg) ->
  contract true true dist binf bsup k avail st ->
  chosen_have_int dist binf bsup k avail st ->
  sample_pass true true dist binf bsup gt k avail st = Some (ps, anns, st') ->
  (avail = [] -> forall p b, In (p, b) ps -> b = false) /\
  (forall i p, nth_error ps i = Some (p, true) ->
      (forall q, In q seen -> apart dist q p) /\
      (forall j q b, (j < i)%nat -> nth_error ps j = Some (q, b) -> apart dist q p)).
Proof.
  intros Hd. induction k as [|k IH]; intros avail seen st ps anns st' Inv C H S.
  - simpl in S. inversion S; subst. split; [intros _ p b [] | intros [|i] p Hn; discriminate Hn].
  - destruct avail as [|sg0 rest].
    + cbn [contract] in C. cbn [chosen_have_int] in H.
      destruct st as [|[i0|x] st]; try contradiction.
      destruct st as [|[a|y] st]; try contradiction.
      destruct C as [Bx C]. cbn [sample_pass draw_pivot] in S.
      destruct (sample_pass true true dist binf bsup gt k [] st) as [[[ps' anns'] st'']|] eqn:R; [|discriminate S].
      inversion S; subst; clear S.
      assert (Inv' : forall sg, In sg [] -> seg_clear dist (seen ++ [x]) binf bsup sg) by (intros sg []).
      destruct (IH [] (seen ++ [x]) st ps' anns' st' Inv' C H R) as [IH1 _].
      assert (AllF : forall p b, In (p, b) ((x, false) :: ps') -> b = false).
      { intros p b [E|I]; [inversion E; reflexivity | apply (IH1 eq_refl p b I)]. }
      split; [intros _; exact AllF|].
      intros i p Hn. apply nth_error_In in Hn. apply AllF in Hn. discriminate Hn.
    + cbn [contract] in C. cbn [chosen_have_int] in H.
      destruct st as [|[i0|x0] st]; try contradiction.
      destruct st as [|[a0|x] st]; try contradiction.
      destruct st as [|[a|y] st]; try contradiction.
      destruct C as [[sg [Hn Hs]] C]. destruct H as [HI H]. cbn [sample_pass draw_pivot] in S.
      set (avail := sg0 :: rest) in *.
      assert (En : nth i0 avail (0, 0) = sg) by (apply nth_error_nth; exact Hn).
      rewrite En in *.
      set (p0 := int_pivot true sg x) in *.
      destruct (sample_pass true true dist binf bsup gt k (remove_pivot true p0 dist avail) st)
        as [[[ps' anns'] st'']|] eqn:R; [|discriminate S].
      inversion S; subst ps anns st''; clear S.
      assert (Isg : In sg avail) by (eapply nth_error_In; exact Hn).
      destruct (Inv sg Isg) as [W [B1 [B2 F]]].
      destruct Hs as [Hs1 Hs2].
      destruct (int_pivot_in_segment sg x Hs1 Hs2 HI) as [P1 P2]. fold p0 in P1, P2.
      assert (Fx : forall q, In q seen -> apart dist q p0).
      { intros q Iq. unfold apart. destruct (F q Iq) as [G|G]; [left; lra | right; lra]. }
      assert (Inv' : forall sg1, In sg1 (remove_pivot true p0 dist avail) -> seg_clear dist (seen ++ [p0]) binf bsup sg1)
        by (apply remove_pivot_clear; assumption).
      destruct (IH _ (seen ++ [p0]) st ps' anns' st' Inv' C H R) as [_ IH2].
      split; [intros E; discriminate E|].
      intros [|i] p Hi; simpl in Hi.
      * inversion Hi; subst p. split; [exact Fx | intros j q b L; lia].
      * destruct (IH2 i p Hi) as [F1 F2]. split.
        -- intros q I. apply F1. apply in_or_app. left; exact I.
        -- intros [|j] q b L Hj; simpl in Hj.
           ++ inversion Hj; subst. apply F1. apply in_or_app. right; left; reflexivity.
           ++ apply (F2 j q b); [lia | exact Hj].
Qed.

Theorem pivots_separated_int dist binf bsup gt k st ps anns st' :
  0 <= dist -> binf < bsup ->
  contract true true dist binf bsup k [(binf, bsup)] st ->
  (* every segment chosen along the way holds a whole number *)
  chosen_have_int dist binf bsup k [(binf, bsup)] st ->
  sample_pass true true dist binf bsup gt k [(binf, bsup)] st = Some (ps, anns, st') ->
  forall i j p q (b b' : bool), (j < i)%nat -> nth_error ps i = Some (p, true) -> nth_error ps j = Some (q, b') -> apart dist q p.
Proof.
  intros Hd Hb C H S i j p q b b' L Hi Hj.
  assert (Inv : forall sg, In sg [(binf, bsup)] -> seg_clear dist [] binf bsup sg).
  { intros sg [E|[]]. subst sg. unfold seg_clear; simpl.
    split; [exact Hb|]. split; [apply Qle_refl|]. split; [apply Qle_refl|]. intros q0 []. }
  destruct (pivots_separated_int_gen dist binf bsup gt Hd k [(binf, bsup)] [] st ps anns st' Inv C H S) as [_ G].
  destruct (G i p Hi) as [_ G2]. exact (G2 j q b' L Hj).
Qed.

(* ---------- structure of a sample: wrapped translations ---------- *)
Lemma shift_unit_duration p binf bsup u : se (shift_unit p binf bsup u) - ss (shift_unit p binf bsup u) == se u - ss u.
Proof. unfold shift_unit. destruct (Qlt_bool bsup (ss u + p)); simpl; ring. Qed.
Lemma shift_unit_label p binf bsup u : sl (shift_unit p binf bsup u) = sl u.
Proof. unfold shift_unit. destruct (Qlt_bool bsup (ss u + p)); reflexivity. Qed.
Lemma shift_unit_start p binf bsup u :
  (ss u + p <= bsup -> ss (shift_unit p binf bsup u) == ss u + p) /\
  (bsup < ss u + p -> ss (shift_unit p binf bsup u) == ss u + p - (bsup - binf)).
Proof.
  unfold shift_unit.
  destruct (Qlt_bool bsup (ss u + p)) eqn:E; [apply Qlt_bool_true in E | apply Qlt_bool_false in E];
    simpl; split; intros H; try lra; ring.
Qed.

Theorem sample_pass_structure repaired int_mode dist binf bsup gt k avail st ps anns st' :
  sample_pass repaired int_mode dist binf bsup gt k avail st = Some (ps, anns, st') ->
  length ps = k /\ length anns = k /\
  forall i a us, nth_error anns i = Some (a, us) ->
    exists p b, nth_error ps i = Some (p, b) /\ us = map (shift_unit p binf bsup) (nth a gt []) /\ length us = length (nth a gt []).
Proof.
  revert avail st ps anns st'. induction k as [|k IH]; intros avail st ps anns st' S.
  - simpl in S. inversion S; subst. split; [reflexivity|]. split; [reflexivity|].
    intros [|i] a us H; discriminate H.
  - cbn [sample_pass] in S.
    destruct (draw_pivot repaired int_mode dist binf bsup avail st) as [[[p avail'] [|[a0|y] st1]]|] eqn:D;
      try discriminate S.
    destruct (sample_pass repaired int_mode dist binf bsup gt k avail' st1) as [[[ps' anns'] st'']|] eqn:R;
      [|discriminate S].
    inversion S; subst ps anns st''; clear S.
    destruct (IH _ _ _ _ _ R) as [L1 [L2 IH3]].
    split; [simpl; rewrite L1; reflexivity|]. split; [simpl; rewrite L2; reflexivity|].
    intros [|i] a us H; simpl in H.
    + inversion H; subst a us. eexists p, _. split; [reflexivity|]. split; [reflexivity|]. apply map_length.
    + destruct (IH3 i a us H) as [p' [b' [H1 H2]]]. exists p', b'. split; [exact H1 | exact H2].
Qed.

(* in integer mode every pivot drawn from the segments is a whole number *)
Lemma int_pivot_whole repaired sg x : exists z : Z, int_pivot repaired sg x = inject_Z z.
Proof.
  unfold int_pivot, qtrunc.
  destruct (negb repaired); [eexists; reflexivity|].
  destruct (in_closed sg _); [eexists; reflexivity|].
  destruct (in_closed sg _); [eexists; reflexivity|].
  destruct (in_closed sg _); eexists; reflexivity.
Qed.

Theorem int_pivots_whole repaired dist binf bsup gt k avail st ps anns st' :
  sample_pass repaired true dist binf bsup gt k avail st = Some (ps, anns, st') ->
  forall p, In (p, true) ps -> exists z : Z, p = inject_Z z.
Proof.
  revert avail st ps anns st'. induction k as [|k IH]; intros avail st ps anns st' S p I.
  - simpl in S. inversion S; subst. destruct I.
  - cbn [sample_pass] in S.
    destruct (draw_pivot repaired true dist binf bsup avail st) as [[[p0 avail'] [|[a0|y] st1]]|] eqn:D;
      try discriminate S.
    destruct (sample_pass repaired true dist binf bsup gt k avail' st1) as [[[ps' anns'] st'']|] eqn:R;
      [|discriminate S].
    inversion S; subst ps anns st''; clear S.
    destruct I as [E|I]; [|eapply IH; eassumption].
    destruct avail as [|sg0 rest]; [inversion E|].
    cbn [draw_pivot] in D.
    destruct st as [|[i0|x0] st]; try discriminate D.
    destruct st as [|[i1|x] st]; try discriminate D.
    inversion D; subst. inversion E; subst. apply int_pivot_whole.
Qed.

Print Assumptions piece_spec.
Print Assumptions remove_pivot_spec.
Print Assumptions remove_pivot_wf.
Print Assumptions avail_after_spec.
Print Assumptions widening_refuted.
Print Assumptions int_pivot_refuted.
Print Assumptions pivots_separated_float.
Print Assumptions piece_clear.
Print Assumptions remove_pivot_clear.
Print Assumptions int_pivot_in_segment.
Print Assumptions pivots_separated_int.
Print Assumptions shift_unit_duration.
Print Assumptions shift_unit_label.
Print Assumptions shift_unit_start.
Print Assumptions sample_pass_structure.
Print Assumptions int_pivots_whole.
