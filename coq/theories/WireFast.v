(* Wire function of the fast-alignment model (C10): replay the loop over the recorded oracle answers and report, per iteration,
   the window, the limit and the chosen unitary alignments. *)
From Coq Require Import List Arith ZArith Lia Bool.
From PGA Require Import Wire Fast.Model.
Import ListNotations.
Local Open Scope Z_scope.

Definition getFUnit : P funit := i <- getNat ;; s <- getZ ;; e <- getZ ;; r <- getZ ;; ret (mkFU i s e r).
Definition lookup (all : list funit) (i : nat) : option funit := find (fun u => Nat.eqb (fid u) i) all.
Definition getSlot (all : list funit) : P (option funit) :=
  o <- getOpt getNat ;;
  match o with
  | None => ret None
  | Some i => match lookup all i with Some u => ret (Some u) | None => fun _ => None end
  end.
Definition putSlot (s : option funit) : list Z := match s with None => [0] | Some u => [1; Z.of_nat (fid u)] end.

Fixpoint fast_trace (repaired : bool) (dtab : nat -> nat -> Z) (thr : Z) (w : nat) (st : fstate) (oracle : list (list ftuple)) : list Z :=
  match total_units st with
  | O => [0]
  | _ => match oracle with
         | [] => [2] ++ putList (fun i => [Z.of_nat i]) (ids_of st)          (* answers exhausted, units left *)
         | al :: rest =>
           let '(win, xl) := first_window dtab thr w st in
           let '(ch, st') := fast_step repaired dtab thr w st al in
           [1] ++ putList (fun u => [Z.of_nat (fid u)]) win ++ [xl] ++ putList (putList putSlot) ch ++
           fast_trace repaired dtab thr w st' rest
         end
  end.

Definition run_fast (fn : nat) : list Z -> list Z :=
  match fn with
  | 0%nat =>
    fun s =>
    match (repaired <- getBool ;; w <- getNat ;; thr <- getZ ;; st <- getList (getList getFUnit) ;;
           tab <- getList (getList getZ) ;; ret (repaired, w, thr, st, tab)) s with
    | Some ((repaired, w, thr, st, tab), s') =>
      let all := concat st in
      match getList (getList (getList (getSlot all))) s' with
      | Some (oracle, []) =>
        let dtab := fun i j => nth j (nth i tab []) 0 in
        fast_trace repaired dtab thr w st oracle
      | _ => [-1]
      end
    | None => [-1]
    end
  | _ => fun _ => [-2]
  end.
