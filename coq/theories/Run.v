(* Single entry point of the executable model: function number, then its arguments. *)
From Coq Require Import List ZArith.
From PGA Require Import Wire.
Import ListNotations.
Local Open Scope Z_scope.

Definition run (s : list Z) : list Z :=
  match s with
  | f :: r =>
    if f <? 0 then [-3]
    else if f <? 100 then run_align (Z.to_nat f) r
    else [-2]
  | [] => [-3]
  end.
