(* Single entry point of the executable model: function number, then its arguments. *)
From Coq Require Import List ZArith.
From PGA Require Import Wire WireCont WireMisc WireDissim WireAlign2 WireFast WireSampler WireHeap WireIo.
Import ListNotations.
Local Open Scope Z_scope.

Definition run_model (s : list Z) : list Z :=
  match s with
  | f :: r =>
    if f <? 0 then [-3]
    else if f <? 100 then run_align (Z.to_nat f) r
    else if f <? 200 then run_cont (Z.to_nat (f - 100)) r
    else if f <? 300 then run_misc (Z.to_nat (f - 200)) r
    else if f <? 400 then run_dissim (Z.to_nat (f - 300)) r
    else if f <? 500 then run_align2 (Z.to_nat (f - 400)) r
    else if f <? 600 then run_fast (Z.to_nat (f - 500)) r
    else if f <? 700 then run_sampler (Z.to_nat (f - 600)) r
    else if f <? 800 then run_heap (Z.to_nat (f - 700)) r
    else if f <? 900 then run_io (Z.to_nat (f - 800)) r
    else [-2]
  | [] => [-3]
  end.
