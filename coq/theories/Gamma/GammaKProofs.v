(* Proofs about the gamma_k_disorder loop model and the gamma family (C12). *)
From Coq Require Import List Arith ZArith QArith Qabs Lia Lqa Bool Permutation Setoid.
From PGA Require Import Gamma.GammaK.
Import ListNotations.
Local Open Scope Q_scope.

(* ---------- small equations on the declarative pieces ---------- *)

Lemma terms_cons c l :
  terms (c :: l) = (match c with Term v w _ => [(v, w)] | _ => [] end) ++ terms l.
Proof. reflexivity. Qed.

Lemma wsum_cons v w l : wsum ((v, w) :: l) = v * w + wsum l.
Proof. reflexivity. Qed.

Lemma wtot_cons v w l : wtot ((v, w) :: l) = w + wtot l.
Proof. reflexivity. Qed.

(* ---------- the fold computes the sums and flags ---------- *)

Lemma gk_fold l td tw nc nl :
  let '(td', tw', nc', nl') := fold_left gk_step l (td, tw, nc, nl) in
  td' == td + wsum (terms l) /\ tw' == tw + wtot (terms l) /\
  nl' = (nl && negb (has_real l))%bool /\
  nc' = (nc && forallb (fun c => match c with Skip => true | _ => false end) l)%bool.
Proof.
  revert td tw nc nl.
  induction l as [|c l IH]; intros td tw nc nl.
  - cbn [fold_left terms flat_map wsum wtot fold_right has_real existsb forallb negb].
    rewrite !andb_true_r. repeat split; lra.
  - cbn [fold_left].
    destruct c as [| |v w real].
    + cbn [gk_step].
      specialize (IH td tw nc nl).
      destruct (fold_left gk_step l (td, tw, nc, nl)) as [[[td' tw'] nc'] nl'].
      destruct IH as (H1 & H2 & H3 & H4).
      rewrite terms_cons. cbn [app has_real existsb forallb orb andb].
      repeat split; assumption.
    + cbn [gk_step].
      specialize (IH td tw false nl).
      destruct (fold_left gk_step l (td, tw, false, nl)) as [[[td' tw'] nc'] nl'].
      destruct IH as (H1 & H2 & H3 & H4).
      rewrite terms_cons. cbn [app has_real existsb forallb orb andb].
      rewrite andb_false_r. cbn [andb] in H4.
      repeat split; assumption.
    + cbn [gk_step].
      specialize (IH (td + v * w) (tw + w) false (if real then false else nl)).
      destruct (fold_left gk_step l (td + v * w, tw + w, false, if real then false else nl))
        as [[[td' tw'] nc'] nl'].
      destruct IH as (H1 & H2 & H3 & H4).
      rewrite terms_cons. cbn [app]. rewrite wsum_cons, wtot_cons.
      cbn [forallb andb]. rewrite andb_false_r. cbn [andb] in H4.
      split; [lra|]. split; [lra|]. split; [|assumption].
      rewrite H3. cbn [has_real existsb].
      destruct real; cbn [orb negb andb].
      * rewrite andb_false_r. reflexivity.
      * reflexivity.
Qed.

(* ---------- loop vs specification ---------- *)

Theorem gk_loop_eq_spec alpha de cat al :
  has_real (contribs alpha de cat al) = true -> ~ wsum (terms (contribs alpha de cat al)) == 0 ->
  gk_loop alpha de cat al == gk_spec alpha de cat al.
Proof.
  intros Hreal Hns.
  unfold gk_loop, gk_spec.
  pose proof (gk_fold (contribs alpha de cat al) 0 0 true true) as HF.
  destruct (fold_left gk_step (contribs alpha de cat al) (0, 0, true, true)) as [[[td tw] nc] nl].
  destruct HF as (H1 & H2 & H3 & H4).
  rewrite Hreal in H3. cbn [negb andb] in H3. subst nl.
  assert (E1 : td == wsum (terms (contribs alpha de cat al))) by lra.
  assert (E2 : tw == wtot (terms (contribs alpha de cat al))) by lra.
  destruct (Qeq_bool td 0) eqn:E.
  - apply Qeq_bool_iff in E. exfalso. apply Hns. lra.
  - rewrite E1, E2. reflexivity.
Qed.

Theorem gk_loop_zero alpha de cat al :
  has_real (contribs alpha de cat al) = true -> wsum (terms (contribs alpha de cat al)) == 0 ->
  gk_loop alpha de cat al == 0.
Proof.
  intros Hreal Hz.
  unfold gk_loop.
  pose proof (gk_fold (contribs alpha de cat al) 0 0 true true) as HF.
  destruct (fold_left gk_step (contribs alpha de cat al) (0, 0, true, true)) as [[[td tw] nc] nl].
  destruct HF as (H1 & H2 & H3 & H4).
  rewrite Hreal in H3. cbn [negb andb] in H3. subst nl.
  destruct (Qeq_bool td 0) eqn:E.
  - reflexivity.
  - apply Qeq_bool_neq in E. exfalso. apply E. lra.
Qed.

Theorem gk_degenerate alpha de cat al :
  has_real (contribs alpha de cat al) = false ->
  gk_loop alpha de cat al =
    if forallb (fun c => match c with Skip => true | _ => false end) (contribs alpha de cat al) then 1 else 0.
Proof.
  intros Hreal.
  unfold gk_loop.
  pose proof (gk_fold (contribs alpha de cat al) 0 0 true true) as HF.
  destruct (fold_left gk_step (contribs alpha de cat al) (0, 0, true, true)) as [[[td tw] nc] nl].
  destruct HF as (H1 & H2 & H3 & H4).
  rewrite Hreal in H3. cbn [negb andb] in H3. cbn [andb] in H4. subst nl nc.
  reflexivity.
Qed.

(* ---------- structure of the contribution list ---------- *)

Lemma in_terms vw l :
  In vw (terms l) -> exists r, In (Term (fst vw) (snd vw) r) l.
Proof.
  unfold terms. intros H. apply in_flat_map in H.
  destruct H as (c & Hc & Hin).
  destruct c as [| |v w r]; cbn [In] in Hin; try contradiction.
  destruct Hin as [Heq|[]]. subst vw. exists r. exact Hc.
Qed.

Lemma in_contribs alpha de cat al c :
  In c (contribs alpha de cat al) ->
  exists u sp pv, In u al /\ In (sp, pv) (combine (pairs_of (slots u)) (pvals u)) /\
                  c = contrib_of alpha de cat (weight_base u) sp pv.
Proof.
  unfold contribs. intros H. apply in_flat_map in H.
  destruct H as (u & Hu & Hin).
  apply in_map_iff in Hin. destruct Hin as ([sp pv] & Heq & Hin).
  exists u, sp, pv. cbn [fst snd] in Heq. repeat split; auto.
Qed.

Lemma contrib_of_term alpha de cat wb sp pv v w r :
  contrib_of alpha de cat wb sp pv = Term v w r ->
  (r = true /\ v = snd pv /\ w = wb * Qmax0 (1 - alpha * fst pv)) \/
  (r = false /\ v = de /\ w = de /\ (fst sp = None \/ snd sp = None)).
Proof.
  unfold contrib_of.
  destruct sp as [[a|] [b|]]; destruct cat as [k|]; cbn [fst snd];
    try destruct (negb (is_cat k (Some a)) && negb (is_cat k (Some b)))%bool;
    try destruct (negb (is_cat k (Some a)) && negb (is_cat k None))%bool;
    try destruct (negb (is_cat k None) && negb (is_cat k (Some b)))%bool;
    try destruct (negb (is_cat k None) && negb (is_cat k None))%bool;
    intros H; try discriminate H; inversion H; subst; auto 10.
Qed.

Lemma in_pairs_of {A} (l : list A) x y :
  In (x, y) (pairs_of l) -> In x l /\ In y l.
Proof.
  induction l as [|a l IH]; cbn [pairs_of]; intros H.
  - contradiction.
  - apply in_app_or in H. destruct H as [H|H].
    + apply in_map_iff in H. destruct H as (z & Heq & Hz).
      inversion Heq; subst. split; [left; reflexivity | right; assumption].
    + destruct (IH H) as [Hx Hy]. split; right; assumption.
Qed.

(* ---------- non-negativity ---------- *)

Definition vals_nonneg (al : list ua) : Prop := forall u pv, In u al -> In pv (pvals u) -> 0 <= snd pv.

Lemma inject_nat_ge_2 n : (2 <= n)%nat -> 2 <= inject_Z (Z.of_nat n).
Proof.
  intros H. change 2 with (inject_Z 2). rewrite <- Zle_Qle. lia.
Qed.

Lemma weight_base_nonneg u : 0 <= weight_base u.
Proof.
  unfold weight_base.
  destruct (nb_units u <? 2)%nat eqn:E.
  - apply Qle_refl.
  - apply Nat.ltb_ge in E. apply inject_nat_ge_2 in E.
    unfold Qdiv. rewrite Qmult_1_l.
    apply Qlt_le_weak, Qinv_lt_0_compat. lra.
Qed.

Lemma Qmax0_nonneg x : 0 <= Qmax0 x.
Proof.
  unfold Qmax0. destruct (Qle_bool 0 x) eqn:E.
  - apply Qle_bool_iff in E. exact E.
  - apply Qle_refl.
Qed.

Theorem terms_nonneg alpha de cat al : 0 <= de -> vals_nonneg al ->
  forall vw, In vw (terms (contribs alpha de cat al)) -> 0 <= fst vw /\ 0 <= snd vw.
Proof.
  intros Hde Hv vw Hin.
  apply in_terms in Hin. destruct Hin as (r & Hin).
  apply in_contribs in Hin. destruct Hin as (u & sp & pv & Hu & Hc & Heq).
  symmetry in Heq. apply contrib_of_term in Heq.
  destruct Heq as [(Hr & Hval & Hw) | (Hr & Hval & Hw & _)].
  - rewrite Hval, Hw. split.
    + apply (Hv u pv Hu). apply in_combine_r in Hc. exact Hc.
    + apply Qmult_le_0_compat; [apply weight_base_nonneg | apply Qmax0_nonneg].
  - rewrite Hval, Hw. split; exact Hde.
Qed.

Lemma wsum_nonneg l :
  (forall vw, In vw l -> 0 <= fst vw /\ 0 <= snd vw) -> 0 <= wsum l.
Proof.
  induction l as [|[v w] l IH]; intros H.
  - apply Qle_refl.
  - rewrite wsum_cons.
    assert (Hvw : 0 <= v /\ 0 <= w) by (apply (H (v, w)); left; reflexivity).
    assert (Hp : 0 <= v * w) by (apply Qmult_le_0_compat; tauto).
    assert (Hl : 0 <= wsum l) by (apply IH; intros vw Hvw'; apply H; right; exact Hvw').
    lra.
Qed.

Lemma wtot_nonneg l :
  (forall vw, In vw l -> 0 <= fst vw /\ 0 <= snd vw) -> 0 <= wtot l.
Proof.
  induction l as [|[v w] l IH]; intros H.
  - apply Qle_refl.
  - rewrite wtot_cons.
    assert (Hvw : 0 <= v /\ 0 <= w) by (apply (H (v, w)); left; reflexivity).
    assert (Hl : 0 <= wtot l) by (apply IH; intros vw Hvw'; apply H; right; exact Hvw').
    lra.
Qed.

Theorem gk_loop_nonneg alpha de cat al : 0 <= de -> vals_nonneg al -> 0 <= gk_loop alpha de cat al.
Proof.
  intros Hde Hv.
  destruct (has_real (contribs alpha de cat al)) eqn:Hreal.
  - destruct (Qeq_dec (wsum (terms (contribs alpha de cat al))) 0) as [Hz|Hnz].
    + rewrite (gk_loop_zero alpha de cat al Hreal Hz). apply Qle_refl.
    + rewrite (gk_loop_eq_spec alpha de cat al Hreal Hnz).
      unfold gk_spec, Qdiv.
      apply Qmult_le_0_compat.
      * apply wsum_nonneg. apply terms_nonneg; assumption.
      * apply Qinv_le_0_compat. apply wtot_nonneg. apply terms_nonneg; assumption.
  - rewrite (gk_degenerate alpha de cat al Hreal).
    destruct (forallb _ _); lra.
Qed.

(* ---------- gamma family bounds ---------- *)

Theorem gamma_of_le_1 obs chance : 0 <= obs -> 0 < qmean chance -> gamma_of obs chance <= 1.
Proof.
  intros Hobs Hm. unfold gamma_of.
  destruct (Qeq_bool obs 0).
  - apply Qle_refl.
  - assert (Hd : 0 <= obs / qmean chance) by (apply Qle_shift_div_l; [exact Hm | lra]).
    set (x := obs / qmean chance) in *. lra.
Qed.

Theorem gamma_cat_of_le_1 obs chance : 0 <= obs -> 0 <= qmean chance -> gamma_cat_of obs chance <= 1.
Proof.
  intros Hobs Hm. unfold gamma_cat_of.
  destruct (Qeq_bool obs 0).
  - apply Qle_refl.
  - destruct (Qeq_bool (qmean chance) 0) eqn:E.
    + lra.
    + apply Qeq_bool_neq in E.
      assert (Hm' : 0 < qmean chance).
      { apply Qle_lteq in Hm. destruct Hm as [Hlt|Heq]; [exact Hlt|].
        exfalso. apply E. symmetry. exact Heq. }
      assert (Hd : 0 <= obs / qmean chance) by (apply Qle_shift_div_l; [exact Hm' | lra]).
      set (x := obs / qmean chance) in *. lra.
Qed.

Theorem gamma_of_zero_obs chance : gamma_of 0 chance == 1.
Proof. unfold gamma_of. reflexivity. Qed.

Theorem gamma_cat_of_zero_obs chance : gamma_cat_of 0 chance == 1.
Proof. unfold gamma_cat_of. reflexivity. Qed.

(* ---------- agreement gives zero disorder ---------- *)

Definition no_empty (al : list ua) : Prop := forall u s, In u al -> In s (slots u) -> s <> None.
Definition cat_agree (al : list ua) : Prop := forall u pv, In u al -> In pv (pvals u) -> snd pv == 0.

Lemma wsum_zero l : (forall vw, In vw l -> fst vw == 0) -> wsum l == 0.
Proof.
  induction l as [|[v w] l IH]; intros H.
  - reflexivity.
  - rewrite wsum_cons.
    assert (Hv : v == 0) by (apply (H (v, w)); left; reflexivity).
    assert (Hl : wsum l == 0) by (apply IH; intros vw Hvw; apply H; right; exact Hvw).
    rewrite Hv, Hl. ring.
Qed.

Theorem gk_zero_when_agreeing alpha de cat al : no_empty al -> cat_agree al ->
  has_real (contribs alpha de cat al) = true -> gk_loop alpha de cat al == 0.
Proof.
  intros Hne Hag Hreal.
  apply gk_loop_zero; [exact Hreal|].
  apply wsum_zero. intros vw Hin.
  apply in_terms in Hin. destruct Hin as (r & Hin).
  apply in_contribs in Hin. destruct Hin as (u & sp & pv & Hu & Hc & Heq).
  symmetry in Heq. apply contrib_of_term in Heq.
  destruct Heq as [(Hr & Hval & Hw) | (Hr & Hval & Hw & Hnone)].
  - rewrite Hval. apply (Hag u pv Hu). apply in_combine_r in Hc. exact Hc.
  - exfalso. apply in_combine_l in Hc. destruct sp as [s1 s2].
    apply in_pairs_of in Hc. destruct Hc as [Hs1 Hs2]. cbn [fst snd] in Hnone.
    destruct Hnone as [Hn|Hn].
    + exact (Hne u s1 Hu Hs1 Hn).
    + exact (Hne u s2 Hu Hs2 Hn).
Qed.

(* ---------- permutation invariance ---------- *)

Lemma wsum_perm l l' : Permutation l l' -> wsum l == wsum l'.
Proof.
  intros P. induction P as [|[v w] l l' P IH|[v w] [v' w'] l|l l' l'' P1 IH1 P2 IH2].
  - reflexivity.
  - rewrite !wsum_cons. lra.
  - rewrite !wsum_cons. lra.
  - lra.
Qed.

Lemma wtot_perm l l' : Permutation l l' -> wtot l == wtot l'.
Proof.
  intros P. induction P as [|[v w] l l' P IH|[v w] [v' w'] l|l l' l'' P1 IH1 P2 IH2].
  - reflexivity.
  - rewrite !wtot_cons. lra.
  - rewrite !wtot_cons. lra.
  - lra.
Qed.

Lemma existsb_perm {A} (f : A -> bool) l l' : Permutation l l' -> existsb f l = existsb f l'.
Proof.
  intros P. induction P as [|x l l' P IH|x y l|l l' l'' P1 IH1 P2 IH2]; cbn [existsb].
  - reflexivity.
  - rewrite IH. reflexivity.
  - destruct (f x), (f y); reflexivity.
  - congruence.
Qed.

Lemma forallb_perm {A} (f : A -> bool) l l' : Permutation l l' -> forallb f l = forallb f l'.
Proof.
  intros P. induction P as [|x l l' P IH|x y l|l l' l'' P1 IH1 P2 IH2]; cbn [forallb].
  - reflexivity.
  - rewrite IH. reflexivity.
  - destruct (f x), (f y); reflexivity.
  - congruence.
Qed.

Lemma flat_map_perm {A B} (f : A -> list B) l l' :
  Permutation l l' -> Permutation (flat_map f l) (flat_map f l').
Proof.
  intros P. induction P as [|x l l' P IH|x y l|l l' l'' P1 IH1 P2 IH2]; cbn [flat_map].
  - apply perm_nil.
  - apply Permutation_app_head. exact IH.
  - rewrite !app_assoc. apply Permutation_app_tail. apply Permutation_app_comm.
  - eapply perm_trans; eassumption.
Qed.

Lemma contribs_perm alpha de cat al al' :
  Permutation al al' -> Permutation (contribs alpha de cat al) (contribs alpha de cat al').
Proof. intros P. unfold contribs. apply flat_map_perm. exact P. Qed.

Theorem gk_loop_perm alpha de cat al al' : Permutation al al' -> gk_loop alpha de cat al == gk_loop alpha de cat al'.
Proof.
  intros P.
  pose proof (contribs_perm alpha de cat al al' P) as PC.
  assert (PT : Permutation (terms (contribs alpha de cat al)) (terms (contribs alpha de cat al')))
    by (unfold terms; apply flat_map_perm; exact PC).
  pose proof (wsum_perm _ _ PT) as HS.
  pose proof (wtot_perm _ _ PT) as HT.
  assert (HR : has_real (contribs alpha de cat al) = has_real (contribs alpha de cat al'))
    by (unfold has_real; apply existsb_perm; exact PC).
  pose proof (forallb_perm (fun c => match c with Skip => true | _ => false end) _ _ PC) as HA.
  destruct (has_real (contribs alpha de cat al)) eqn:Hreal; symmetry in HR.
  - destruct (Qeq_dec (wsum (terms (contribs alpha de cat al))) 0) as [Hz|Hnz].
    + rewrite (gk_loop_zero alpha de cat al Hreal Hz).
      rewrite (gk_loop_zero alpha de cat al' HR); [reflexivity|]. lra.
    + rewrite (gk_loop_eq_spec alpha de cat al Hreal Hnz).
      rewrite (gk_loop_eq_spec alpha de cat al' HR).
      * unfold gk_spec. rewrite HS, HT. reflexivity.
      * intros Hz. apply Hnz. lra.
  - rewrite (gk_degenerate alpha de cat al Hreal), (gk_degenerate alpha de cat al' HR).
    rewrite HA. reflexivity.
Qed.

Print Assumptions gk_fold.
Print Assumptions gk_loop_eq_spec.
Print Assumptions gk_loop_zero.
Print Assumptions gk_degenerate.
Print Assumptions weight_base_nonneg.
Print Assumptions Qmax0_nonneg.
Print Assumptions terms_nonneg.
Print Assumptions gk_loop_nonneg.
Print Assumptions gamma_of_le_1.
Print Assumptions gamma_cat_of_le_1.
Print Assumptions gamma_of_zero_obs.
Print Assumptions gamma_cat_of_zero_obs.
Print Assumptions gk_zero_when_agreeing.
Print Assumptions gk_loop_perm.
