(* Model of Alignment.gamma_k_disorder (alignment.py:247-298) and GammaResults.gamma / gamma_cat / gamma_k (continuum.py:986-1030) - C12.
   Exact rationals.  A unitary alignment is given as its slots (category number of the unit, None for the empty unit) and, for each
   slot pair i < j in reading order, the positional and categorical dissimilarity of the two units (meaningful when both are real).
   Definitions only. *)
From Coq Require Import List Arith ZArith QArith Lia Bool.
Import ListNotations.
Local Open Scope Q_scope.

Record ua := mkUA { slots : list (option Z); pvals : list (Q * Q) }.    (* pvals: (positional d, categorical d) per pair i<j *)

(* slot pairs i < j in the order of the double loop: for i, for j in i+1.. *)
Fixpoint pairs_of {A} (l : list A) : list (A * A) :=
  match l with
  | [] => []
  | x :: r => map (fun y => (x, y)) r ++ pairs_of r
  end.

Definition nb_units (u : ua) : nat := length (filter (fun s => match s with Some _ => true | None => false end) (slots u)).
Definition weight_base (u : ua) : Q :=
  if (nb_units u <? 2)%nat then 0 else 1 / (inject_Z (Z.of_nat (nb_units u)) - 1).

Definition is_cat (k : Z) (s : option Z) : bool := match s with Some c => (c =? k)%Z | None => false end.
Definition Qmax0 (x : Q) : Q := if Qle_bool 0 x then x else 0.

(* one contribution: (skip?, value, weight, counts-as-real-pair) *)
Inductive contrib := Skip | Silent | Term (value weight : Q) (real : bool).
(* Skip = filtered out by the category; Silent = both empty (only clears no_cat) *)
Definition contrib_of (alpha de : Q) (cat : option Z) (wb : Q) (sp : (option Z * option Z)) (pv : Q * Q) : contrib :=
  let (s1, s2) := sp in
  match cat with
  | Some k => if negb (is_cat k s1) && negb (is_cat k s2) then Skip else
      match s1, s2 with
      | Some _, Some _ => Term (snd pv) (wb * Qmax0 (1 - alpha * fst pv)) true
      | None, None => Silent
      | _, _ => Term de de false
      end
  | None =>
      match s1, s2 with
      | Some _, Some _ => Term (snd pv) (wb * Qmax0 (1 - alpha * fst pv)) true
      | None, None => Silent
      | _, _ => Term de de false
      end
  end.

Definition contribs (alpha de : Q) (cat : option Z) (al : list ua) : list contrib :=
  flat_map (fun u => map (fun x => contrib_of alpha de cat (weight_base u) (fst x) (snd x))
                         (combine (pairs_of (slots u)) (pvals u))) al.

(* the loop: accumulators (total_disorder, total_weight, no_cat, no_loop) *)
Definition gk_step (st : Q * Q * bool * bool) (c : contrib) : Q * Q * bool * bool :=
  let '(td, tw, no_cat, no_loop) := st in
  match c with
  | Skip => st
  | Silent => (td, tw, false, no_loop)
  | Term v w real => (td + v * w, tw + w, false, if real then false else no_loop)
  end.
Definition gk_loop (alpha de : Q) (cat : option Z) (al : list ua) : Q :=
  let '(td, tw, no_cat, no_loop) := fold_left gk_step (contribs alpha de cat al) (0, 0, true, true) in
  if no_loop then (if no_cat then 1 else 0)
  else if Qeq_bool td 0 then 0 else td / tw.

(* declarative form: weighted mean over the considered pairs *)
Definition terms (l : list contrib) : list (Q * Q) :=
  flat_map (fun c => match c with Term v w _ => [(v, w)] | _ => [] end) l.
Definition wsum (l : list (Q * Q)) : Q := fold_right (fun vw acc => fst vw * snd vw + acc) 0 l.
Definition wtot (l : list (Q * Q)) : Q := fold_right (fun vw acc => snd vw + acc) 0 l.
Definition has_real (l : list contrib) : bool := existsb (fun c => match c with Term _ _ true => true | _ => false end) l.
Definition gk_spec (alpha de : Q) (cat : option Z) (al : list ua) : Q :=
  let l := terms (contribs alpha de cat al) in wsum l / wtot l.

(* gamma family from an observed value and the chance values *)
Definition qmean (l : list Q) : Q := fold_right Qplus 0 l / inject_Z (Z.of_nat (length l)).
Definition gamma_of (obs : Q) (chance : list Q) : Q := if Qeq_bool obs 0 then 1 else 1 - obs / qmean chance.
Definition gamma_cat_of (obs : Q) (chance : list Q) : Q :=
  if Qeq_bool obs 0 then 1 else if Qeq_bool (qmean chance) 0 then 0 else 1 - obs / qmean chance.
