From Coq Require Import List Arith ZArith QArith Qround Lia Lqa Bool Permutation.
From PGA Require Import Gamma.GammaK Gamma.GammaKProofs Gamma.GammaRun Align.Tuples Align.Cover Align.Inst Align.PartProofs Align.OptProofs.
Import ListNotations.

(* Proofs about the sampling rule of compute_gamma (C05) and about identical annotations:
   observed disorder 0, hence gamma = 1. *)

(* ------------------------------------------------------------------ *)
(* Part A: the sampling rule                                           *)
(* ------------------------------------------------------------------ *)

Theorem total_no_precision conf n first : total_samples conf n None first = Z.of_nat n.
Proof. reflexivity. Qed.

Theorem total_is_max conf n p first :
  total_samples conf n (Some p) first = Z.max (Z.of_nat n) (n_required conf p first).
Proof.
  unfold total_samples. cbv zeta.
  destruct (Z.ltb_spec (Z.of_nat n) (n_required conf p first)) as [Hlt|Hge]; lia.
Qed.

Theorem total_ge_n conf n prec first : (Z.of_nat n <= total_samples conf n prec first)%Z.
Proof.
  destruct prec as [p|].
  - rewrite total_is_max. lia.
  - rewrite total_no_precision. lia.
Qed.

Theorem second_batch_nonneg conf n prec first : (0 <= second_batch conf n prec first)%Z.
Proof.
  unfold second_batch. pose proof (total_ge_n conf n prec first) as Hge. lia.
Qed.

Theorem second_batch_only_if_needed conf n p first :
  (0 < second_batch conf n (Some p) first)%Z <-> (Z.of_nat n < n_required conf p first)%Z.
Proof.
  unfold second_batch. rewrite total_is_max. lia.
Qed.

Theorem second_batch_none conf n first : second_batch conf n None first = 0%Z.
Proof.
  unfold second_batch. rewrite total_no_precision. lia.
Qed.

(* N_required is the least integer above the real-valued expression *)
Theorem n_required_spec conf p ds :
  (required_real conf p ds <= inject_Z (n_required conf p ds))%Q /\
  (inject_Z (n_required conf p ds) - 1 < required_real conf p ds)%Q.
Proof.
  unfold n_required. split.
  - apply Qle_ceiling.
  - pose proof (Qceiling_lt (required_real conf p ds)) as Hlt.
    assert (E : inject_Z (Qceiling (required_real conf p ds) - 1)
                == inject_Z (Qceiling (required_real conf p ds)) - 1).
    { unfold Z.sub. rewrite inject_Z_plus, inject_Z_opp. reflexivity. }
    rewrite <- E. exact Hlt.
Qed.

Theorem n_required_zero_variance conf p ds : (qvar ds == 0)%Q -> n_required conf p ds = 0%Z.
Proof.
  intros Hv. unfold n_required.
  assert (E : required_real conf p ds == 0).
  { unfold required_real, Qdiv. rewrite Hv. ring. }
  rewrite (Qceiling_comp _ _ E). reflexivity.
Qed.

(* ------------------------------------------------------------------ *)
(* Part B: identical annotations                                       *)
(* ------------------------------------------------------------------ *)

Definition identical (I : inst) (m : nat) : Prop :=
  (forall a, a < nann I -> size I a = m)%nat /\
  (forall a b i, b < a -> a < nann I -> i < m -> dget I a b i i = 0%Z)%nat.
Definition diag (I : inst) (m : nat) : list tuple := map (fun i => repeat i (nann I)) (seq 0 m).

Lemma nth_repeat_lt (i n a : nat) : (a < n)%nat -> nth a (repeat i n) 0%nat = i.
Proof.
  intros Ha. rewrite (nth_indep _ 0%nat i) by (rewrite repeat_length; exact Ha).
  apply nth_repeat.
Qed.

Lemma zsum_zero (l : list Z) : (forall z, In z l -> z = 0%Z) -> zsum l = 0%Z.
Proof.
  induction l as [|z l IH]; intros H; [reflexivity|].
  unfold zsum in *. cbn [fold_right].
  rewrite IH by (intros y Hy; apply H; right; exact Hy).
  rewrite (H z) by (left; reflexivity). reflexivity.
Qed.

Lemma zsum_nonneg (l : list Z) : (forall z, In z l -> (0 <= z)%Z) -> (0 <= zsum l)%Z.
Proof.
  induction l as [|z l IH]; intros H; [unfold zsum; simpl; lia|].
  unfold zsum in *. cbn [fold_right].
  assert (Hz : (0 <= z)%Z) by (apply H; left; reflexivity).
  assert (Hl : (0 <= fold_right Z.add 0%Z l)%Z) by (apply IH; intros y Hy; apply H; right; exact Hy).
  lia.
Qed.

Lemma pair_cost_diag I m a b i : identical I m -> (b < a)%nat -> (a < nann I)%nat -> (i < m)%nat ->
  pair_cost I a b (repeat i (nann I)) = 0%Z.
Proof.
  intros [Hs Hd] Hba Ha Hi. unfold pair_cost. cbv zeta.
  rewrite !nth_repeat_lt by lia.
  rewrite (Hs a) by exact Ha. rewrite (Hs b) by lia.
  replace (i =? m)%nat with false by (symmetry; apply Nat.eqb_neq; lia).
  cbn [orb]. apply Hd; assumption.
Qed.

Lemma ua_sum_diag I m i : identical I m -> (i < m)%nat -> ua_sum I (repeat i (nann I)) = 0%Z.
Proof.
  intros Hid Hi. unfold ua_sum. apply zsum_zero. intros z Hz.
  apply in_map_iff in Hz. destruct Hz as ([a b] & Ez & Hab).
  apply in_pairs in Hab. destruct Hab as [Hba Ha]. subst z. cbn [fst snd].
  apply (pair_cost_diag I m); assumption.
Qed.

Lemma length_filter_eqb_seq (j m : nat) :
  length (filter (fun k => k =? j)%nat (seq 0 m)) = if (j <? m)%nat then 1%nat else 0%nat.
Proof.
  induction m as [|m IH]; [reflexivity|].
  rewrite seq_S, filter_app, app_length, IH. cbn [filter plus].
  destruct (Nat.eqb_spec m j) as [E|N].
  - subst m. rewrite Nat.ltb_irrefl.
    replace (j <? S j)%nat with true by (symmetry; apply Nat.ltb_lt; lia). reflexivity.
  - destruct (Nat.ltb_spec j m) as [H1|H1]; destruct (Nat.ltb_spec j (S m)) as [H2|H2];
      cbn [length]; lia.
Qed.

Lemma occ_diag I m a j : (a < nann I)%nat -> (j < m)%nat -> occ a j (diag I m) = 1%nat.
Proof.
  intros Ha Hj. unfold occ, diag. rewrite length_filter_map.
  rewrite (filter_ext_in _ (fun k => k =? j)%nat).
  - rewrite length_filter_eqb_seq.
    replace (j <? m)%nat with true by (symmetry; apply Nat.ltb_lt; exact Hj). reflexivity.
  - intros k _. rewrite nth_repeat_lt by exact Ha. reflexivity.
Qed.

Lemma wf_diag I m i : (1 <= nann I)%nat -> identical I m -> (i < m)%nat ->
  wf_tuple (sz I) (repeat i (nann I)).
Proof.
  intros Hn [Hs _] Hi. unfold wf_tuple. fold (nann I). split; [|split].
  - apply repeat_length.
  - intros a Ha. rewrite nth_repeat_lt by exact Ha.
    change (nth a (sz I) 0%nat) with (size I a). rewrite (Hs a Ha). lia.
  - exists 0%nat. split; [lia|]. rewrite nth_repeat_lt by lia.
    change (nth 0 (sz I) 0%nat) with (size I 0). rewrite (Hs 0%nat) by lia. exact Hi.
Qed.

Theorem diag_partition I m : (1 <= nann I)%nat -> (1 <= m)%nat -> identical I m -> partition (sz I) (diag I m).
Proof.
  intros Hn Hm Hid. unfold partition. split.
  - apply Forall_forall. intros t Ht. unfold diag in Ht.
    apply in_map_iff in Ht. destruct Ht as (i & Et & Hi). subst t.
    apply in_seq in Hi. apply (wf_diag I m); [exact Hn|exact Hid|lia].
  - intros a j Ha Hj. fold (nann I) in Ha. change (nth a (sz I) 0%nat) with (size I a) in Hj.
    destruct Hid as [Hs Hd]. rewrite (Hs a Ha) in Hj.
    apply occ_diag; assumption.
Qed.

Theorem diag_zero_cost I m : identical I m -> al_sum I (diag I m) = 0%Z.
Proof.
  intros Hid. unfold al_sum. apply zsum_zero. intros z Hz.
  apply in_map_iff in Hz. destruct Hz as (t & Ez & Ht). subst z.
  unfold diag in Ht. apply in_map_iff in Ht. destruct Ht as (i & Et & Hi). subst t.
  apply in_seq in Hi. apply (ua_sum_diag I m); [exact Hid|lia].
Qed.

(* with non-negative costs nothing is below 0, so the optimum over any candidate list containing the diagonal is 0 *)
Theorem identical_optimum_zero I m cs : (1 <= nann I)%nat -> (1 <= m)%nat -> identical I m ->
  Forall (wf_tuple (sz I)) cs -> incl (diag I m) cs -> (forall t, In t cs -> (0 <= ua_sum I t)%Z) ->
  exists l, opt_partition I cs = Some (0%Z, l).
Proof.
  intros Hn Hm Hid Hw Hincl Hnn.
  destruct (opt_partition_optimal I cs (diag I m) Hw (diag_partition I m Hn Hm Hid) Hincl)
    as (v & l & Hopt & Hle).
  rewrite (diag_zero_cost I m Hid) in Hle.
  destruct (opt_partition_sound I cs v l Hw Hopt) as (al & Hi & _ & _ & Hv).
  assert (Hge : (0 <= v)%Z).
  { rewrite Hv. unfold al_sum. apply zsum_nonneg. intros z Hz.
    apply in_map_iff in Hz. destruct Hz as (t & Ez & Ht). subst z.
    apply Hnn. apply Hi. exact Ht. }
  assert (E : v = 0%Z) by lia.
  exists l. rewrite Hopt, E. reflexivity.
Qed.

Theorem gamma_identical chance : (gamma_of 0 chance == 1)%Q.
Proof. apply gamma_of_zero_obs. Qed.

Print Assumptions total_no_precision.
Print Assumptions total_ge_n.
Print Assumptions total_is_max.
Print Assumptions second_batch_nonneg.
Print Assumptions second_batch_only_if_needed.
Print Assumptions second_batch_none.
Print Assumptions n_required_spec.
Print Assumptions n_required_zero_variance.
Print Assumptions ua_sum_diag.
Print Assumptions diag_partition.
Print Assumptions diag_zero_cost.
Print Assumptions identical_optimum_zero.
Print Assumptions gamma_identical.
