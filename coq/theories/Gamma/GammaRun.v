(* Model of the sampling rule of Continuum.compute_gamma (continuum.py:863-909) and of GammaResults - C05.
   Exact rationals: the chance disorders are the exact values of the floats the library holds. *)
From Coq Require Import List Arith ZArith QArith Qround Lia Bool.
From PGA Require Import Gamma.GammaK.
Import ListNotations.
Local Open Scope Q_scope.

Definition qlen (l : list Q) : Q := inject_Z (Z.of_nat (length l)).
(* population variance (np.std with ddof = 0, squared) *)
Definition qvar (l : list Q) : Q :=
  fold_right Qplus 0 (map (fun x => (x - qmean l) * (x - qmean l)) l) / qlen l.

(* required_samples = ceil((variation_coeff * confidence / precision)^2), variation_coeff = std / mean:
   the square removes the root: conf^2 * var / (mean^2 * precision^2) *)
Definition required_real (conf p : Q) (ds : list Q) : Q :=
  conf * conf * qvar ds / (qmean ds * qmean ds * p * p).
Definition n_required (conf p : Q) (ds : list Q) : Z := Qceiling (required_real conf p ds).

(* number of chance alignments held by the result: n_samples first, then (required - n_samples) more if required > n_samples *)
Definition total_samples (conf : Q) (n : nat) (prec : option Q) (first : list Q) : Z :=
  match prec with
  | None => Z.of_nat n
  | Some p => let r := n_required conf p first in if (Z.of_nat n <? r)%Z then r else Z.of_nat n
  end.
Definition second_batch (conf : Q) (n : nat) (prec : option Q) (first : list Q) : Z :=
  (total_samples conf n prec first - Z.of_nat n)%Z.
