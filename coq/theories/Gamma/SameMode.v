(* "Each chance alignment is the same kind of alignment as the observed one" in fast mode - C05.
   The fast job decides its route from the window size carried by the continuum it is handed (Fast/Window.v: fast_job_route).  The input carries
   the size measured by measure_best_window_size; a sample carries what copy_flush copied from the SAMPLER'S REFERENCE at the time it was drawn.
   Model of the main-thread program of compute_gamma as far as this one attribute goes. *)
From Coq Require Import List ZArith.
From PGA Require Import Fast.Window.
Import ListNotations.

Inductive ref := Alias | Snapshot (w : option Z).            (* the sampler's reference: the input object itself, or a copy taken at init time *)
Inductive pev := InitAlias | InitSnapshot | Measure (w : option Z) | Sample.

(* state: the input's window size, the sampler's reference; output: the window size carried by each sample, in draw order *)
Fixpoint prog (evs : list pev) (input : option Z) (r : ref) : list (option Z) * option Z :=
  match evs with
  | [] => ([], input)
  | InitAlias :: t => prog t input Alias
  | InitSnapshot :: t => prog t input (Snapshot input)
  | Measure w :: t => prog t w r
  | Sample :: t => let (l, fin) := prog t input r in ((match r with Alias => input | Snapshot w => w end) :: l, fin)
  end.

(* compute_gamma(fast=True): init_sampling (keeps the input itself), then measure, then n draws *)
Definition fast_gamma_program (w : option Z) (n : nat) : list pev := InitAlias :: Measure w :: repeat Sample n.

Lemma prog_samples_alias n input : prog (repeat Sample n) input Alias = (repeat input n, input).
Proof. induction n as [|n IH]; cbn [repeat prog]; [reflexivity|]. rewrite IH. reflexivity. Qed.

(* every sample carries the size measured on the input, so every chance job takes the route of the observed one *)
Theorem samples_carry_measured_window w n w0 r0 : prog (fast_gamma_program w n) w0 r0 = (repeat w n, w).
Proof. unfold fast_gamma_program. cbn [prog]. apply prog_samples_alias. Qed.

Theorem chance_route_is_observed_route w n w0 r0 s :
  In s (fst (prog (fast_gamma_program w n) w0 r0)) -> fast_job_route s = fast_job_route (snd (prog (fast_gamma_program w n) w0 r0)).
Proof. rewrite samples_carry_measured_window. cbn [fst snd]. intros H. apply repeat_spec in H. subst s. reflexivity. Qed.

(* more generally, with the input itself as reference, a sample always carries the input's size at the time it is drawn, whatever happened before *)
Theorem alias_sample_carries_current_window evs w w0 r0 :
  exists l, prog (evs ++ [InitAlias; Measure w; Sample]) w0 r0 = (l ++ [w], w).
Proof.
  revert w0 r0. induction evs as [|e evs IH]; intros w0 r0.
  - exists []. reflexivity.
  - destruct e; cbn [app prog].
    + apply IH.
    + apply IH.
    + apply IH.
    + destruct (IH w0 r0) as [l Hl]. rewrite Hl. eexists (_ :: l). reflexivity.
Qed.

(* SENSITIVITY: a sampler that snapshots its reference at init time (before the size is measured) hands out samples that take ANOTHER route *)
Theorem snapshot_before_measure_differs :
  exists w n s, In s (fst (prog (InitSnapshot :: Measure w :: repeat Sample n) None Alias)) /\
                fast_job_route s <> fast_job_route (snd (prog (InitSnapshot :: Measure w :: repeat Sample n) None Alias)).
Proof. exists (Some 2%Z), 1%nat, None. cbn. split; [left; reflexivity | discriminate]. Qed.

Print Assumptions samples_carry_measured_window.
Print Assumptions chance_route_is_observed_route.
Print Assumptions alias_sample_carries_current_window.
Print Assumptions snapshot_before_measure_differs.
