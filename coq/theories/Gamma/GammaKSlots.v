From Coq Require Import List Arith ZArith QArith Qabs Lia Lqa Bool Permutation Setoid.
From PGA Require Import Gamma.GammaK Gamma.GammaKProofs.
Import ListNotations.
Local Open Scope Q_scope.

(* Invariance of the gamma-k / gamma-cat disorder under a re-listing of the slots inside the unitary alignments (C12 / C09). *)

(* a unitary alignment from its slots and a table of pair values indexed by slot positions *)
Definition ua_fun (slots : list (option Z)) (pv : nat -> nat -> Q * Q) : ua :=
  mkUA slots (map (fun ij => pv (fst ij) (snd ij)) (pairs_of (seq 0 (length slots)))).
(* the same tuple with its slots listed in another order: new position k shows old position (nth k s 0) *)
Definition perm_ua (s : list nat) (slots : list (option Z)) (pv : nat -> nat -> Q * Q) : ua :=
  ua_fun (map (fun k => nth k slots None) s) (fun i j => pv (nth i s 0%nat) (nth j s 0%nat)).

(* ---------- a slot pair contributes symmetrically ---------- *)

Lemma contrib_of_sym alpha de cat wb s1 s2 pv12 :
  contrib_of alpha de cat wb (s1, s2) pv12 = contrib_of alpha de cat wb (s2, s1) pv12.
Proof.
  unfold contrib_of.
  destruct cat as [k|].
  - rewrite (andb_comm (negb (is_cat k s1)) (negb (is_cat k s2))).
    destruct (negb (is_cat k s2) && negb (is_cat k s1))%bool; [reflexivity|].
    destruct s1 as [a|], s2 as [b|]; reflexivity.
  - destruct s1 as [a|], s2 as [b|]; reflexivity.
Qed.

(* ---------- number of real units ---------- *)

Lemma nb_units_perm slots slots' pv pv' :
  Permutation slots slots' -> nb_units (mkUA slots pv) = nb_units (mkUA slots' pv').
Proof.
  intros P. unfold nb_units. cbn [GammaK.slots].
  apply Permutation_length.
  induction P as [|x l l' P IH|x y l|l l' l'' P1 IH1 P2 IH2]; cbn [filter].
  - apply perm_nil.
  - destruct x as [c|]; [apply perm_skip|]; exact IH.
  - destruct x as [c|], y as [c'|]; try apply Permutation_refl. apply perm_swap.
  - eapply perm_trans; eassumption.
Qed.

(* ---------- list helpers ---------- *)

Lemma pairs_of_cons {A} (x : A) l : pairs_of (x :: l) = map (fun y => (x, y)) l ++ pairs_of l.
Proof. reflexivity. Qed.

Lemma pairs_of_map {A B} (g : A -> B) (l : list A) :
  pairs_of (map g l) = map (fun xy => (g (fst xy), g (snd xy))) (pairs_of l).
Proof.
  induction l as [|x l IH].
  - reflexivity.
  - cbn [map]. rewrite !pairs_of_cons. rewrite map_app, !map_map. cbn [fst snd].
    rewrite IH. reflexivity.
Qed.

Lemma map_nth_seq {A} (l : list A) (d : A) : map (fun k => nth k l d) (seq 0 (length l)) = l.
Proof.
  induction l as [|a l IH].
  - reflexivity.
  - cbn [length seq map nth]. rewrite <- seq_shift, map_map. cbn [nth].
    rewrite IH. reflexivity.
Qed.

Lemma combine_map_map {A B C} (g1 : A -> B) (g2 : A -> C) (l : list A) :
  combine (map g1 l) (map g2 l) = map (fun x => (g1 x, g2 x)) l.
Proof.
  induction l as [|x l IH].
  - reflexivity.
  - cbn [map combine]. rewrite IH. reflexivity.
Qed.

(* contributions of one tuple whose slots are read through an index list *)
Lemma contribs_idx alpha de cat wb (g : nat -> option Z) (pv : nat -> nat -> Q * Q) (idx : list nat) sl :
  sl = map g idx ->
  map (fun x => contrib_of alpha de cat wb (fst x) (snd x))
      (combine (pairs_of sl) (map (fun xy => pv (fst xy) (snd xy)) (pairs_of idx))) =
  map (fun xy => contrib_of alpha de cat wb (g (fst xy), g (snd xy)) (pv (fst xy) (snd xy))) (pairs_of idx).
Proof.
  intros E. subst sl.
  rewrite pairs_of_map, combine_map_map, map_map. cbn [fst snd]. reflexivity.
Qed.

Lemma pvals_through (h : nat -> nat -> Q * Q) (s : list nat) :
  map (fun ij => h (nth (fst ij) s 0%nat) (nth (snd ij) s 0%nat)) (pairs_of (seq 0 (length s))) =
  map (fun xy => h (fst xy) (snd xy)) (pairs_of s).
Proof.
  transitivity (map (fun xy => h (fst xy) (snd xy))
                    (pairs_of (map (fun k => nth k s 0%nat) (seq 0 (length s))))).
  - rewrite pairs_of_map, map_map. cbn [fst snd]. reflexivity.
  - rewrite map_nth_seq. reflexivity.
Qed.

Lemma contribs_single alpha de cat u :
  contribs alpha de cat [u] =
  map (fun x => contrib_of alpha de cat (weight_base u) (fst x) (snd x)) (combine (pairs_of (slots u)) (pvals u)).
Proof. unfold contribs. cbn [flat_map]. apply app_nil_r. Qed.

Lemma contribs_cons alpha de cat u al :
  contribs alpha de cat (u :: al) = contribs alpha de cat [u] ++ contribs alpha de cat al.
Proof. unfold contribs. cbn [flat_map]. rewrite app_nil_r. reflexivity. Qed.

(* the contribution of positions (i, j) of the plain listing *)
Definition pair_contrib alpha de cat wb (slots : list (option Z)) (pv : nat -> nat -> Q * Q) (ij : nat * nat) : contrib :=
  contrib_of alpha de cat wb (nth (fst ij) slots None, nth (snd ij) slots None) (pv (fst ij) (snd ij)).

Lemma pair_contrib_sym alpha de cat wb slots pv :
  (forall i j, pv i j = pv j i) ->
  forall i j, pair_contrib alpha de cat wb slots pv (i, j) = pair_contrib alpha de cat wb slots pv (j, i).
Proof.
  intros Hpv i j. unfold pair_contrib. cbn [fst snd].
  rewrite (Hpv i j). apply contrib_of_sym.
Qed.

Lemma contribs_ua_fun alpha de cat slots pv :
  contribs alpha de cat [ua_fun slots pv] =
  map (pair_contrib alpha de cat (weight_base (ua_fun slots pv)) slots pv) (pairs_of (seq 0 (length slots))).
Proof.
  rewrite contribs_single. unfold ua_fun at 2 3. cbn [GammaK.slots pvals].
  apply (contribs_idx alpha de cat (weight_base (ua_fun slots pv)) (fun k => nth k slots None) pv).
  symmetry. apply map_nth_seq.
Qed.

Lemma contribs_perm_ua alpha de cat s slots pv :
  contribs alpha de cat [perm_ua s slots pv] =
  map (pair_contrib alpha de cat (weight_base (perm_ua s slots pv)) slots pv) (pairs_of s).
Proof.
  rewrite contribs_single. unfold perm_ua at 2 3. unfold ua_fun. cbn [GammaK.slots pvals].
  rewrite map_length.
  rewrite (pvals_through pv s).
  apply (contribs_idx alpha de cat (weight_base (perm_ua s slots pv)) (fun k => nth k slots None) pv).
  reflexivity.
Qed.

(* ---------- the slot pairs of a permuted list ---------- *)

Lemma map_pairs_of_perm {A B} (F : A * A -> B) (l l' : list A) :
  (forall x y, F (x, y) = F (y, x)) -> Permutation l l' ->
  Permutation (map F (pairs_of l)) (map F (pairs_of l')).
Proof.
  intros Hsym P.
  induction P as [|x l l' P IH|x y l|l l' l'' P1 IH1 P2 IH2].
  - apply perm_nil.
  - rewrite !pairs_of_cons, !map_app, !map_map.
    apply Permutation_app; [|exact IH].
    apply Permutation_map. exact P.
  - rewrite !pairs_of_cons. cbn [map app]. rewrite !map_app.
    rewrite (Hsym y x). apply perm_skip.
    rewrite !app_assoc. apply Permutation_app_tail. apply Permutation_app_comm.
  - eapply perm_trans; eassumption.
Qed.

(* ---------- one tuple ---------- *)

Lemma perm_slots_perm (s : list nat) (slots : list (option Z)) :
  Permutation s (seq 0 (length slots)) -> Permutation (map (fun k => nth k slots None) s) slots.
Proof.
  intros P.
  pose proof (Permutation_map (fun k => nth k slots None) P) as PM.
  rewrite map_nth_seq in PM. exact PM.
Qed.

Lemma weight_base_perm_ua s slots pv :
  Permutation s (seq 0 (length slots)) -> weight_base (perm_ua s slots pv) = weight_base (ua_fun slots pv).
Proof.
  intros P. unfold weight_base, perm_ua, ua_fun.
  rewrite (nb_units_perm _ slots _ (map (fun ij => pv (fst ij) (snd ij)) (pairs_of (seq 0 (length slots))))
             (perm_slots_perm s slots P)).
  reflexivity.
Qed.

Theorem contribs_slot_perm alpha de cat s slots pv :
  Permutation s (seq 0 (length slots)) -> (forall i j, pv i j = pv j i) ->
  Permutation (contribs alpha de cat [perm_ua s slots pv]) (contribs alpha de cat [ua_fun slots pv]).
Proof.
  intros P Hpv.
  rewrite contribs_perm_ua, contribs_ua_fun.
  rewrite (weight_base_perm_ua s slots pv P).
  apply map_pairs_of_perm; [|exact P].
  apply pair_contrib_sym. exact Hpv.
Qed.

(* ---------- a permutation of the contribution list leaves the disorder unchanged ---------- *)

Lemma gk_loop_contribs_perm alpha de cat al al' :
  Permutation (contribs alpha de cat al) (contribs alpha de cat al') ->
  gk_loop alpha de cat al == gk_loop alpha de cat al'.
Proof.
  intros PC.
  assert (PT : Permutation (terms (contribs alpha de cat al)) (terms (contribs alpha de cat al')))
    by (unfold terms; apply flat_map_perm; exact PC).
  pose proof (wsum_perm _ _ PT) as HS.
  pose proof (wtot_perm _ _ PT) as HT.
  assert (HR : has_real (contribs alpha de cat al) = has_real (contribs alpha de cat al'))
    by (unfold has_real; apply existsb_perm; exact PC).
  pose proof (forallb_perm (fun c => match c with Skip => true | _ => false end) _ _ PC) as HA.
  destruct (has_real (contribs alpha de cat al)) eqn:Hreal; symmetry in HR.
  - destruct (Qeq_dec (wsum (terms (contribs alpha de cat al))) 0) as [Hz|Hnz].
    + rewrite (gk_loop_zero alpha de cat al Hreal Hz).
      rewrite (gk_loop_zero alpha de cat al' HR); [reflexivity|]. lra.
    + rewrite (gk_loop_eq_spec alpha de cat al Hreal Hnz).
      rewrite (gk_loop_eq_spec alpha de cat al' HR).
      * unfold gk_spec. rewrite HS, HT. reflexivity.
      * intros Hz. apply Hnz. lra.
  - rewrite (gk_degenerate alpha de cat al Hreal), (gk_degenerate alpha de cat al' HR).
    rewrite HA. reflexivity.
Qed.

(* ---------- all tuples, each with its own permutation ---------- *)

Lemma contribs_slot_perm_all alpha de cat (l : list (list nat * list (option Z) * (nat -> nat -> Q * Q))) :
  (forall s slots pv, In (s, slots, pv) l -> Permutation s (seq 0 (length slots)) /\ forall i j, pv i j = pv j i) ->
  Permutation (contribs alpha de cat (map (fun x => perm_ua (fst (fst x)) (snd (fst x)) (snd x)) l))
              (contribs alpha de cat (map (fun x => ua_fun (snd (fst x)) (snd x)) l)).
Proof.
  induction l as [|[[s slots] pv] l IH]; intros H.
  - apply Permutation_refl.
  - cbn [map fst snd].
    rewrite (contribs_cons alpha de cat (perm_ua s slots pv)), (contribs_cons alpha de cat (ua_fun slots pv)).
    apply Permutation_app.
    + destruct (H s slots pv (or_introl eq_refl)) as [P Hpv].
      apply contribs_slot_perm; assumption.
    + apply IH. intros s' slots' pv' Hin. apply H. right. exact Hin.
Qed.

Theorem gk_loop_slot_perm alpha de cat (l : list (list nat * list (option Z) * (nat -> nat -> Q * Q))) :
  (forall s slots pv, In (s, slots, pv) l -> Permutation s (seq 0 (length slots)) /\ forall i j, pv i j = pv j i) ->
  gk_loop alpha de cat (map (fun x => perm_ua (fst (fst x)) (snd (fst x)) (snd x)) l) ==
  gk_loop alpha de cat (map (fun x => ua_fun (snd (fst x)) (snd x)) l).
Proof.
  intros H. apply gk_loop_contribs_perm. apply contribs_slot_perm_all. exact H.
Qed.

Print Assumptions contrib_of_sym.
Print Assumptions nb_units_perm.
Print Assumptions contribs_slot_perm.
Print Assumptions gk_loop_slot_perm.
