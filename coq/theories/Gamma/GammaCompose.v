(* The whole of compute_gamma + GammaResults.gamma as one function of the draw-ordered chance disorders (C05): sample k has disorder d k (the
   sampler and the aligner are oracles; what matters here is WHICH samples enter the mean).  Definitions and proofs. *)
From Coq Require Import List Arith ZArith QArith Qround Lia Bool.
From PGA Require Import Gamma.GammaK Gamma.GammaRun Gamma.GammaRunProofs.
Import ListNotations.

Definition chance_of (d : nat -> Q) (k : nat) : list Q := map d (seq 0 k).

Record gamma_run := mkRun { chance : list Q; observed : Q; gamma_value : Q }.

(* first batch of n samples, then (if a precision is given and more are required) the samples n .. total-1; the mean is over ALL of them *)
Definition run_gamma (conf : Q) (n : nat) (prec : option Q) (d : nat -> Q) (obs : Q) : gamma_run :=
  let first := chance_of d n in
  let total := Z.to_nat (total_samples conf n prec first) in
  let all := chance_of d total in
  mkRun all obs (gamma_of obs all).

Lemma chance_of_length d k : length (chance_of d k) = k.
Proof. unfold chance_of. rewrite map_length, seq_length. reflexivity. Qed.

Lemma total_ge_n conf n prec first : (Z.of_nat n <= total_samples conf n prec first)%Z.
Proof.
  unfold total_samples. destruct prec as [p|]; [|lia].
  cbv zeta. destruct (Z.ltb_spec (Z.of_nat n) (n_required conf p first)); lia.
Qed.

(* exactly max(n_samples, N_required) chance values enter the mean (N_required from the first n), n_samples when no precision is given *)
Theorem run_gamma_count conf n p d obs :
  length (chance (run_gamma conf n (Some p) d obs)) = Z.to_nat (Z.max (Z.of_nat n) (n_required conf p (chance_of d n))).
Proof. unfold run_gamma. cbn [chance]. rewrite chance_of_length, total_is_max. reflexivity. Qed.
Theorem run_gamma_count_no_precision conf n d obs : length (chance (run_gamma conf n None d obs)) = n.
Proof. unfold run_gamma. cbn [chance]. rewrite chance_of_length. unfold total_samples. apply Nat2Z.id. Qed.

(* the first batch is a prefix of what is averaged: no sample is dropped, recomputed or reordered by the second batch *)
Theorem run_gamma_first_batch_kept conf n prec d obs :
  firstn n (chance (run_gamma conf n prec d obs)) = chance_of d n.
Proof.
  unfold run_gamma. cbn [chance]. set (t := Z.to_nat (total_samples conf n prec (chance_of d n))).
  assert (Hle : (n <= t)%nat) by (unfold t; pose proof (total_ge_n conf n prec (chance_of d n)); lia).
  unfold chance_of. rewrite firstn_map. f_equal.
  replace t with (n + (t - n))%nat by lia. rewrite seq_app, firstn_app, seq_length, Nat.sub_diag. cbn [firstn].
  rewrite app_nil_r. rewrite <- (seq_length n 0) at 1. apply firstn_all.
Qed.

(* gamma is 1 - observed / mean over ALL chance values (1 when the observed disorder is 0) *)
Theorem run_gamma_value conf n prec d obs :
  gamma_value (run_gamma conf n prec d obs) = gamma_of obs (chance (run_gamma conf n prec d obs)).
Proof. reflexivity. Qed.

(* a result whose mean ignores the second batch is a different number as soon as the extra samples move the mean: witness *)
Example mean_over_first_batch_only_differs :
  let d := fun k => match k with 0%nat => 1 | 1%nat => 3 | _ => 5 end%Q in
  let r := run_gamma 2 2 (Some (1#4)) d 1 in
  (length (chance r) = 16%nat) /\ ~ (gamma_value r == gamma_of 1 (chance_of d 2))%Q.
Proof. vm_compute. split; [reflexivity | intros H; discriminate H]. Qed.
