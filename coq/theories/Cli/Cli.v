(* C20 - decision procedures over the tables regenerated from cli_apps.py on every run (gen/CliGen.v). *)
From Coq Require Import List String Bool.
From PGAgen Require Import CliGen.
Import ListNotations.
Local Open Scope string_scope.

Definition opt_dest (o : list string * string * string * string * list string) : string := snd (fst (fst (fst o))).
Definition opt_choices (o : list string * string * string * string * list string) : list string := snd o.
Definition opt_default (o : list string * string * string * string * list string) : string := snd (fst o).
Definition find_opt (dest : string) := find (fun o => String.eqb (opt_dest o) dest) options.
Definition choices_of (dest : string) : list string := match find_opt dest with Some o => opt_choices o | None => [] end.
Definition has_opt (dest : string) : bool := match find_opt dest with Some _ => true | None => false end.

(* the class constructed for a value of -d; "" = no branch taken = the default absolute categorical dissimilarity *)
Definition class_of_choice (c : string) : string :=
  match find (fun b => String.eqb (fst b) c) cat_dissim_branches with Some (_, cls) => cls | None => "" end.
(* the documented meaning of the choices *)
Definition expected_class (c : string) : option string :=
  if String.eqb c "absolute" then Some ""
  else if String.eqb c "numerical" then Some "NumericalCategoricalDissimilarity"
  else if String.eqb c "levenshtein" then Some "LevenshteinCategoricalDissimilarity"
  else None.

(* every string the parser accepts for -d is mapped to the documented class ... *)
Definition choices_all_handled : bool :=
  negb (match choices_of "cat_dissim" with [] => true | _ => false end) &&
  forallb (fun c => match expected_class c with Some e => String.eqb (class_of_choice c) e | None => false end) (choices_of "cat_dissim").
(* ... and every branch of the mapping is reachable (its literal is an accepted choice) *)
Definition no_dead_branch : bool :=
  forallb (fun b => existsb (String.eqb (fst b)) (choices_of "cat_dissim")) cat_dissim_branches.
(* distinct choices give distinct classes: the option is injective into the configuration *)
Fixpoint nodupb (l : list string) : bool :=
  match l with [] => true | x :: r => negb (existsb (String.eqb x) r) && nodupb r end.
Definition choices_injective : bool := nodupb (map class_of_choice (choices_of "cat_dissim")).

Definition wired (w : list (string * string)) (kw src : string) : bool :=
  existsb (fun p => String.eqb (fst p) kw && String.eqb (snd p) src) w.
(* each semantic option reaches the parameter it names *)
Definition options_take_effect : bool :=
  forallb has_opt ["alpha"; "beta"; "empty_delta"; "precision_level"; "n_samples"; "cat_dissim"; "mathet_sampler"; "seed"; "separator";
                   "gamma_cat"; "gamma_k"; "output_csv"; "output_json"; "format"] &&
  wired combined_wiring "alpha" "alpha" && wired combined_wiring "beta" "beta" && wired combined_wiring "delta_empty" "empty_delta" &&
  wired combined_wiring "cat_dissim" "<var:cat_dissim>" &&
  wired compute_gamma_wiring "dissimilarity" "<lit:dissim>" && wired compute_gamma_wiring "precision_level" "precision_level" &&
  wired compute_gamma_wiring "n_samples" "n_samples" && wired compute_gamma_wiring "sampler" "<lit:sampler>" &&
  wired compute_gamma_wiring "fast" "<lit:True>" &&
  (match mathet_sampler_class with Some c => String.eqb c "ShuffleContinuumSampler" | None => false end) &&
  seeds_numpy && existsb (String.eqb "from_csv:delimiter=separator") readers.
