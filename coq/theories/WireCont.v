(* Wire functions of the container model (C13): run a history, report outcome and every observation after each operation. *)
From Coq Require Import List Arith ZArith Lia Bool.
From PGA Require Import Wire Cont.Model.
Import ListNotations.
Local Open Scope Z_scope.

Definition getUnit : P unit_ :=
  s <- getZ ;; e <- getZ ;; l <- getOpt getZ ;; ret (mkU s e l).
Definition getOp : P op :=
  code <- getNat ;;
  match code with
  | 0%nat => r <- getNat ;; a <- getZ ;; u <- getUnit ;; ret (OAdd r a u)
  | 1%nat => r <- getNat ;; a <- getZ ;; ret (OAddAnnotator r a)
  | 2%nat => r <- getNat ;; a <- getZ ;; u <- getUnit ;; ret (ORemove r a u)
  | 3%nat => r <- getNat ;; s <- getNat ;; ret (OMergeInPlace r s)
  | 4%nat => d <- getNat ;; r <- getNat ;; s <- getNat ;; ret (OMergeNew d r s)
  | 5%nat => d <- getNat ;; r <- getNat ;; ret (OCopy d r)
  | 6%nat => d <- getNat ;; r <- getNat ;; ret (OCopyFlush d r)
  | 7%nat => r <- getNat ;; ret (OResetBounds r)
  | _ => fun _ => None
  end.

Definition putUnit (u : unit_) : list Z :=
  [us u; ue u] ++ match ul u with None => [0] | Some l => [1; l] end.
Definition putCont (c : cont) : list Z :=
  putList (fun al => fst al :: putList putUnit (snd al)) (anns c) ++
  putList (fun x => [x]) (cats c) ++ [binf c; bsup c] ++
  putBool (cont_bool c) ++ [Z.of_nat (length (anns c)); Z.of_nat (length (all_pairs c))].
Definition putOutcome (o : outcome) : list Z :=
  match o with Ok => [0] | ErrZeroLength => [1] | ErrKey => [2] end.
Definition putEq (rs : regs) : list Z :=
  flat_map (fun c => flat_map (fun d => putBool (cont_eqb c d)) rs) rs.

Fixpoint trace (prec : Z) (rs : regs) (ops : list op) : list Z :=
  match ops with
  | [] => []
  | o :: r => let (rs', out) := step prec rs o in
              putOutcome out ++ flat_map putCont rs' ++ putEq rs' ++ trace prec rs' r
  end.

Definition run_cont (fn : nat) : list Z -> list Z :=
  match fn with
  | 0%nat => finish (prec <- getZ ;; n <- getNat ;; ops <- getList getOp ;; ret (prec, n, ops))
                    (fun '(prec, n, ops) => trace prec (repeat empty_cont n) ops)
  | 1%nat => (* outcomes of all operations, then the final observation only *)
    finish (prec <- getZ ;; n <- getNat ;; ops <- getList getOp ;; ret (prec, n, ops))
           (fun '(prec, n, ops) =>
              let '(rs, outs) := fold_left (fun st o => let '(rs, outs) := st in
                                                       let (rs', out) := step prec rs o in (rs', outs ++ putOutcome out))
                                           ops (repeat empty_cont n, []) in
              outs ++ flat_map putCont rs ++ putEq rs)
  | _ => fun _ => [-2]
  end.
