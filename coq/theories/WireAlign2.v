(* Wire functions for disorder values (C03), gamma (C05) and the fast alignment (C10). *)
From Coq Require Import List Arith ZArith QArith Lia Bool.
From PGA Require Import Wire WireMisc Align.Tuples Align.Cover Align.Inst Align.Disorder Gamma.GammaK Gamma.GammaRun.
Import ListNotations.
Local Open Scope Z_scope.

Definition getSlots : P (list (nat * option nat)) := getList (getPair getNat (getOpt getNat)).

Definition run_align2 (fn : nat) : list Z -> list Z :=
  match fn with
  | 0%nat => (* n-tuples in user slot order -> rows, per-tuple sums, total *)
    finish (J <- getInst ;; al <- getList getSlots ;; ret (J, al))
           (fun '(J, al) =>
              let rows := map (row_of_ntuple (sz J)) al in
              al_sum J rows :: putList (fun t => putTuple t ++ [ua_sum J t]) rows)
  | 1%nat => (* sampling rule of compute_gamma: confidence, precision option, n_samples, first chance disorders *)
    finish (conf <- getQ ;; p <- getOpt getQ ;; n <- getNat ;; ds <- getList getQ ;; ret (conf, p, n, ds))
           (fun '(conf, p, n, ds) =>
              [total_samples conf n p ds; second_batch conf n p ds] ++
              match p with Some pp => n_required conf pp ds :: putQ (required_real conf pp ds) | None => [] end)
  | _ => fun _ => [-2]
  end.
