(* Wire function of the heap model (C14): a history of new / copy / derive / add, reporting every object's view after every operation. *)
From Coq Require Import List Arith ZArith Lia Bool.
From PGA Require Import Wire Heap.Heap.
Import ListNotations.
Local Open Scope Z_scope.

Inductive hop := HNew | HCopy (i : nat) | HDerive (i : nat) | HAdd (i : nat) (x : nat).
Definition getHop : P hop :=
  k <- getNat ;; a <- getNat ;; b <- getNat ;;
  match k with
  | 0%nat => ret HNew
  | 1%nat => ret (HCopy a)
  | 2%nat => ret (HDerive a)
  | 3%nat => ret (HAdd a b)
  | _ => fun _ => None
  end.
Definition hstep (st : heap * list cobj) (o : hop) : heap * list cobj :=
  let (h, objs) := st in
  let dflt := mkObj 0%nat 0%nat in
  match o with
  | HNew => let (h', ob) := new_cont h in (h', objs ++ [ob])
  | HCopy i => let (h', ob) := copy_cont h (nth i objs dflt) in (h', objs ++ [ob])
  | HDerive i => let (h', ob) := derive_repaired h (nth i objs dflt) in (h', objs ++ [ob])
  | HAdd i x => (add_cat (add_ann h (nth i objs dflt) x) (nth i objs dflt) x, objs)     (* Continuum.add stores the unit and its label *)
  end.
Definition putView (h : heap) (o : cobj) : list Z :=
  putList (fun x => [Z.of_nat x]) (fst (view h o)) ++ putList (fun x => [Z.of_nat x]) (snd (view h o)).
Fixpoint htrace (st : heap * list cobj) (ops : list hop) : list Z :=
  match ops with
  | [] => []
  | o :: r => let st' := hstep st o in
              Z.of_nat (length (snd st')) :: flat_map (putView (fst st')) (snd st') ++ htrace st' r
  end.
Definition run_heap (fn : nat) : list Z -> list Z :=
  match fn with
  | 0%nat => finish (getList getHop) (fun ops => htrace ([], []) ops)
  | _ => fun _ => [-2]
  end.
