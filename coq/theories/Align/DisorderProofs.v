From Coq Require Import List Arith ZArith QArith Lia Lqa Bool Permutation.
From PGA Require Import Align.Tuples Align.Cover Align.Inst Align.Invar Align.InvarProofs Align.Disorder.
From PGA Require Import Align.CandProofs.
Import ListNotations.
Local Close Scope Q_scope.
Local Open Scope nat_scope.

(* C03 - proofs about the placement of n-tuple slots by annotator rank and about the disorder values. *)

(* ---------- set_nth ---------- *)
Lemma set_nth_length {A} n (x : A) l : length (set_nth n x l) = length l.
Proof.
  revert n. induction l as [|y r IH]; intros n; [destruct n; reflexivity|].
  destruct n as [|n']; simpl; [reflexivity|]. now rewrite IH.
Qed.

Lemma nth_set_nth_same {A} n (x d : A) l : n < length l -> nth n (set_nth n x l) d = x.
Proof.
  revert n. induction l as [|y r IH]; intros n Hn; simpl in Hn; [lia|].
  destruct n as [|n']; simpl; [reflexivity|]. apply IH. lia.
Qed.

Lemma nth_set_nth_other {A} n m (x d : A) l : n <> m -> nth m (set_nth n x l) d = nth m l d.
Proof.
  revert n m. induction l as [|y r IH]; intros n m Hnm; [destruct n; reflexivity|].
  destruct n as [|n'], m as [|m']; simpl; try reflexivity; [lia|].
  apply IH. lia.
Qed.

Lemma set_nth_comm {A} n m (x y : A) l : n <> m ->
  set_nth n x (set_nth m y l) = set_nth m y (set_nth n x l).
Proof.
  revert n m. induction l as [|z r IH]; intros n m Hnm; [destruct n, m; reflexivity|].
  destruct n as [|n'], m as [|m']; simpl; try reflexivity; [lia|].
  f_equal. apply IH. lia.
Qed.

(* ---------- row_of_ntuple ---------- *)
Definition put (sizes : list nat) (row : tuple) (au : nat * option nat) : tuple :=
  set_nth (fst au) (slot_value sizes au) row.

Lemma row_of_ntuple_fold sizes nt : row_of_ntuple sizes nt = fold_left (put sizes) nt sizes.
Proof. reflexivity. Qed.

Lemma fold_put_perm sizes nt nt' : Permutation nt nt' -> NoDup (map fst nt) ->
  forall row, fold_left (put sizes) nt row = fold_left (put sizes) nt' row.
Proof.
  intros HP. induction HP as [|x l l' HP IH|x y l|l l' l'' HP1 IH1 HP2 IH2]; intros HND row.
  - reflexivity.
  - simpl. apply IH. simpl in HND. now inversion HND.
  - simpl. f_equal. unfold put. apply set_nth_comm.
    simpl in HND. inversion HND as [|k ks Hnin HND']; subst.
    intros Heq. apply Hnin. left. exact Heq.
  - rewrite IH1 by exact HND. apply IH2.
    apply (Permutation_NoDup (l := map fst l)); [|exact HND].
    apply Permutation_map. exact HP1.
Qed.

Theorem row_of_ntuple_perm sizes nt nt' : NoDup (map fst nt) -> Permutation nt nt' ->
  row_of_ntuple sizes nt = row_of_ntuple sizes nt'.
Proof.
  intros HND HP. rewrite !row_of_ntuple_fold. now apply fold_put_perm.
Qed.

Lemma fold_put_length sizes nt : forall row, length (fold_left (put sizes) nt row) = length row.
Proof.
  induction nt as [|au nt IH]; intros row; [reflexivity|].
  simpl. rewrite IH. unfold put. apply set_nth_length.
Qed.

Theorem row_of_ntuple_length sizes nt : length (row_of_ntuple sizes nt) = length sizes.
Proof. rewrite row_of_ntuple_fold. apply fold_put_length. Qed.

Lemma fold_put_untouched sizes nt a : ~ In a (map fst nt) ->
  forall row, nth a (fold_left (put sizes) nt row) 0 = nth a row 0.
Proof.
  induction nt as [|au nt IH]; intros Hnin row; [reflexivity|].
  simpl. simpl in Hnin. rewrite IH by tauto.
  unfold put. apply nth_set_nth_other. tauto.
Qed.

Lemma fold_put_spec sizes nt a : NoDup (map fst nt) ->
  forall row, a < length row ->
  nth a (fold_left (put sizes) nt row) 0 =
  match find (fun au => fst au =? a) nt with Some au => slot_value sizes au | None => nth a row 0 end.
Proof.
  induction nt as [|au nt IH]; intros HND row Ha; [reflexivity|].
  simpl in HND. inversion HND as [|k ks Hnin HND']; subst.
  simpl. destruct (Nat.eqb_spec (fst au) a) as [Heq|Hne].
  - rewrite fold_put_untouched by (rewrite <- Heq; exact Hnin).
    unfold put. rewrite Heq. apply nth_set_nth_same. exact Ha.
  - rewrite IH; [|exact HND'|unfold put; rewrite set_nth_length; exact Ha].
    destruct (find (fun au0 => fst au0 =? a) nt) as [au'|]; [reflexivity|].
    unfold put. apply nth_set_nth_other. exact Hne.
Qed.

Theorem row_of_ntuple_spec sizes nt a : NoDup (map fst nt) -> a < length sizes ->
  nth a (row_of_ntuple sizes nt) 0 =
  match find (fun au => fst au =? a) nt with Some au => slot_value sizes au | None => nth a sizes 0 end.
Proof.
  intros HND Ha. rewrite row_of_ntuple_fold. now apply fold_put_spec.
Qed.

(* ---------- unitary disorder = mean over annotator pairs ---------- *)
Theorem ua_sum_is_pair_sum I t : ua_sum I t = pair_sum (nann I) (fun a b => pair_cost I a b t).
Proof. reflexivity. Qed.

Theorem pairs_count n : length (pairs n) = c2n n.
Proof. apply length_pairs. Qed.

(* ---------- rational disorders ---------- *)
Lemma Qmake_add (a b : Z) (s : positive) : (Qmake (a + b) s == Qmake a s + Qmake b s)%Q.
Proof.
  unfold Qeq, Qplus. simpl. rewrite Pos2Z.inj_mul. ring.
Qed.

Lemma qsum_ua scale I al :
  (qsum (map (ua_disorder_q scale I) al) ==
   Qmake (al_sum I al) scale / inject_Z (Z.of_nat (c2n (nann I))))%Q.
Proof.
  induction al as [|t al IH].
  - simpl. unfold al_sum. simpl. unfold Qdiv, Qeq, Qmult. simpl. reflexivity.
  - simpl. rewrite IH. unfold al_sum. simpl. fold (al_sum I al).
    unfold ua_disorder_q. rewrite Qmake_add. unfold Qdiv. ring.
Qed.

Theorem cached_eq_recomputed scale I al units :
  (disorder_q scale I al units == disorder_of_sum scale I (al_sum I al) units)%Q.
Proof.
  unfold disorder_q, disorder_of_sum. rewrite qsum_ua. reflexivity.
Qed.

Lemma c2n_pos n : 2 <= n -> 1 <= c2n n.
Proof.
  intros Hn. unfold c2n. apply Nat.div_le_lower_bound; [lia|]. nia.
Qed.

Lemma inject_nat_pos n : 1 <= n -> (0 < inject_Z (Z.of_nat n))%Q.
Proof.
  intros Hn. unfold Qlt, inject_Z. simpl. lia.
Qed.

Lemma Qmake_le (a b : Z) (s : positive) : (a <= b)%Z -> (Qmake a s <= Qmake b s)%Q.
Proof.
  intros Hab. unfold Qle. simpl. apply Z.mul_le_mono_nonneg_r; [lia|exact Hab].
Qed.

Lemma Qdiv_le_pos (x y c : Q) : (0 < c)%Q -> (x <= y)%Q -> (x / c <= y / c)%Q.
Proof.
  intros Hc Hxy. unfold Qdiv. apply Qmult_le_compat_r; [exact Hxy|].
  apply Qinv_le_0_compat. apply Qlt_le_weak. exact Hc.
Qed.

Theorem disorder_of_sum_monotone scale I s1 s2 units : 2 <= nann I -> 1 <= units -> (s1 <= s2)%Z ->
  (disorder_of_sum scale I s1 units <= disorder_of_sum scale I s2 units)%Q.
Proof.
  intros Hn Hu Hs. unfold disorder_of_sum.
  apply Qdiv_le_pos.
  - unfold Qdiv. apply Qmult_lt_0_compat; [apply inject_nat_pos; exact Hu|].
    apply Qinv_lt_0_compat. apply inject_nat_pos. lia.
  - apply Qdiv_le_pos; [apply inject_nat_pos; apply c2n_pos; exact Hn|].
    apply Qmake_le. exact Hs.
Qed.

Print Assumptions set_nth_length.
Print Assumptions nth_set_nth_same.
Print Assumptions nth_set_nth_other.
Print Assumptions set_nth_comm.
Print Assumptions row_of_ntuple_perm.
Print Assumptions row_of_ntuple_spec.
Print Assumptions row_of_ntuple_length.
Print Assumptions ua_sum_is_pair_sum.
Print Assumptions pairs_count.
Print Assumptions cached_eq_recomputed.
Print Assumptions disorder_of_sum_monotone.
