From Coq Require Import List Arith ZArith Lia Bool Permutation.
From PGA Require Import Align.Cover.
Import ListNotations.
Local Open Scope nat_scope.

(* Proofs about the exact-cover / cover searches of Cover.v:
   soundness and optimality of [search] and [search_c], reflection of [admissibleb],
   completeness of the budgeted decision search [better], admissibility of [htable]. *)

(* ---------- membership / disjointness ---------- *)
Lemma memb_In r l : memb r l = true <-> In r l.
Proof. unfold memb. rewrite existsb_exists. split.
  - intros [x [H1 H2]]. apply Nat.eqb_eq in H2. subst. exact H1.
  - intros H. exists r. split; [exact H| apply Nat.eqb_refl]. Qed.

Lemma memb_false r l : memb r l = false <-> ~ In r l.
Proof. split.
  - intros H Hin. apply memb_In in Hin. congruence.
  - intros H. destruct (memb r l) eqn:E; [|reflexivity]. apply memb_In in E. contradiction. Qed.

Lemma disjointb_spec a b : disjointb a b = true <-> (forall r, In r a -> ~ In r b).
Proof. unfold disjointb. rewrite forallb_forall. split; intros H r Hr.
  - specialize (H r Hr). rewrite negb_true_iff in H. apply memb_false. exact H.
  - rewrite negb_true_iff. apply memb_false. exact (H r Hr). Qed.

(* ---------- first uncovered row ---------- *)
Lemma first_unc_from_some k cnt cov r :
  first_unc_from k cnt cov = Some r -> k <= r < k + cnt /\ ~ In r cov.
Proof. revert k. induction cnt as [|c IH]; simpl; intros k H; [discriminate|].
  destruct (memb k cov) eqn:E.
  - apply IH in H. destruct H as [H1 H2]. split; [lia|exact H2].
  - inversion H; subst. split; [lia|]. apply memb_false. exact E. Qed.

Lemma first_unc_from_none k cnt cov :
  first_unc_from k cnt cov = None -> forall r, k <= r < k + cnt -> In r cov.
Proof. revert k. induction cnt as [|c IH]; simpl; intros k H r Hr; [lia|].
  destruct (memb k cov) eqn:E; [|discriminate].
  destruct (Nat.eq_dec r k) as [->|Hne]; [apply memb_In; exact E|]. apply (IH (S k) H). lia. Qed.

Lemma first_unc_some N cov r : first_unc N cov = Some r -> r < N /\ ~ In r cov.
Proof. intros E. apply first_unc_from_some in E. destruct E as [H1 H2]. split; [lia|exact H2]. Qed.

Lemma first_unc_none N cov : first_unc N cov = None -> forall r, r < N -> In r cov.
Proof. intros E r Hr. apply (first_unc_from_none 0 N cov E). lia. Qed.

(* ---------- omin and the fold over candidates ---------- *)
Lemma omin_le_l a b va la : a = Some (va, la) -> exists v l, omin a b = Some (v, l) /\ (v <= va)%Z.
Proof. intros ->. destruct b as [[vb lb]|]; unfold omin.
  - destruct (Z.leb_spec va vb) as [H|H].
    + exists va, la. split; [reflexivity|lia].
    + exists vb, lb. split; [reflexivity|lia].
  - exists va, la. split; [reflexivity|lia]. Qed.

Lemma omin_le_r a b vb lb : b = Some (vb, lb) -> exists v l, omin a b = Some (v, l) /\ (v <= vb)%Z.
Proof. intros ->. destruct a as [[va la]|]; unfold omin.
  - destruct (Z.leb_spec va vb) as [H|H].
    + exists va, la. split; [reflexivity|lia].
    + exists vb, lb. split; [reflexivity|lia].
  - exists vb, lb. split; [reflexivity|lia]. Qed.

Lemma omin_cases a b x : omin a b = Some x -> a = Some x \/ b = Some x.
Proof. destruct a as [[va la]|]; destruct b as [[vb lb]|]; unfold omin;
  try destruct (va <=? vb)%Z; intros H; first [left; exact H | right; exact H | discriminate]. Qed.

Lemma fold_bound (F : cand -> option (Z * list cand)) (g : cand -> bool) cs c v0 l0 :
  In c cs -> g c = true -> F c = Some (v0, l0) ->
  exists v l, fold_right (fun c acc => if g c then omin (F c) acc else acc) None cs = Some (v, l) /\ (v <= v0)%Z.
Proof. induction cs as [|x xs IH]; intros Hin Hg HF; [destruct Hin|].
  simpl. destruct Hin as [->|Hin].
  - rewrite Hg. eapply omin_le_l. exact HF.
  - destruct (IH Hin Hg HF) as (v & l & E & Hle).
    destruct (g x); [|exists v, l; split; assumption].
    destruct (omin_le_r (F x) _ v l E) as (v' & l' & E' & Hle').
    exists v', l'. split; [exact E'|lia]. Qed.

Lemma fold_sound (F : cand -> option (Z * list cand)) (g : cand -> bool) cs x :
  fold_right (fun c acc => if g c then omin (F c) acc else acc) None cs = Some x ->
  exists c, In c cs /\ g c = true /\ F c = Some x.
Proof. induction cs as [|y ys IH]; simpl; intros H; [discriminate|].
  destruct (g y) eqn:Eg.
  - apply omin_cases in H. destruct H as [H|H].
    + exists y. split; [left; reflexivity|]. split; assumption.
    + destruct (IH H) as (c & Hc & Hg & HF). exists c. split; [right; exact Hc|]. split; assumption.
  - destruct (IH H) as (c & Hc & Hg & HF). exists c. split; [right; exact Hc|]. split; assumption. Qed.

(* ---------- total / all_rows / hsum: structural equations ---------- *)
Lemma total_cons c l : total (c :: l) = (cost c + total l)%Z.
Proof. reflexivity. Qed.
Lemma total_app a b : total (a ++ b) = (total a + total b)%Z.
Proof. induction a as [|x xs IH]; [reflexivity|].
  change ((x :: xs) ++ b) with (x :: (xs ++ b)). rewrite !total_cons, IH. lia. Qed.

Lemma all_rows_cons c l : all_rows (c :: l) = rows c ++ all_rows l.
Proof. reflexivity. Qed.
Lemma all_rows_app a b : all_rows (a ++ b) = all_rows a ++ all_rows b.
Proof. unfold all_rows. apply flat_map_app. Qed.
Lemma in_all_rows r P : In r (all_rows P) <-> exists c, In c P /\ In r (rows c).
Proof. unfold all_rows. rewrite in_flat_map. reflexivity. Qed.

Lemma hsum_cons h r l : hsum h (r :: l) = (h r + hsum h l)%Z.
Proof. reflexivity. Qed.
Lemma hsum_app h a b : hsum h (a ++ b) = (hsum h a + hsum h b)%Z.
Proof. induction a as [|x xs IH]; [reflexivity|].
  change ((x :: xs) ++ b) with (x :: (xs ++ b)). rewrite !hsum_cons, IH. lia. Qed.

(* ---------- NoDup helpers ---------- *)
Lemma NoDup_app_l {A} (a b : list A) : NoDup (a ++ b) -> NoDup a.
Proof. induction a as [|x xs IH]; simpl; intros H; [constructor|]. inversion H as [|y ys Hx Hnd]; subst.
  constructor; [|apply IH; assumption].
  intro Hin. apply Hx. apply in_or_app. left. exact Hin. Qed.
Lemma NoDup_app_r {A} (a b : list A) : NoDup (a ++ b) -> NoDup b.
Proof. induction a as [|x xs IH]; simpl; intros H; [exact H|]. inversion H as [|y ys Hx Hnd]; subst. apply IH. assumption. Qed.
Lemma NoDup_app_disj {A} (a b : list A) : NoDup (a ++ b) -> forall x, In x a -> In x b -> False.
Proof. induction a as [|y ys IH]; simpl; intros H x Ha Hb; [destruct Ha|]. inversion H as [|z zs Hy Hnd]; subst.
  destruct Ha as [->|Ha]; [apply Hy; apply in_or_app; right; exact Hb|]. exact (IH Hnd x Ha Hb). Qed.
Lemma NoDup_drop_mid {A} (a b c : list A) : NoDup (a ++ b ++ c) -> NoDup (a ++ c).
Proof. induction a as [|x xs IH]; simpl; intros H.
  - apply NoDup_app_r in H. exact H.
  - inversion H as [|y ys Hx Hnd]; subst. constructor; [|apply IH; assumption].
    intro Hin. apply Hx. apply in_app_or in Hin. apply in_or_app.
    destruct Hin; [left; assumption|right; apply in_or_app; right; assumption]. Qed.
Lemma NoDup_app_intro {A} (a b : list A) :
  NoDup a -> NoDup b -> (forall x, In x a -> ~ In x b) -> NoDup (a ++ b).
Proof. induction a as [|x xs IH]; simpl; intros Ha Hb Hd; [exact Hb|].
  inversion Ha as [|y ys Hx Hnd]; subst. constructor.
  - intro Hin. apply in_app_or in Hin. destruct Hin as [Hin|Hin]; [contradiction|].
    apply (Hd x); [left; reflexivity|exact Hin].
  - apply IH; [exact Hnd|exact Hb|]. intros z Hz. apply Hd. right. exact Hz. Qed.

(* ---------- uncovered rows ---------- *)
Lemma in_uncovered N cov r : In r (uncovered N cov) <-> r < N /\ ~ In r cov.
Proof. unfold uncovered. rewrite filter_In, in_seq, negb_true_iff, memb_false. split; intros [H1 H2]; split; try assumption; lia. Qed.

Lemma NoDup_uncovered N cov : NoDup (uncovered N cov).
Proof. unfold uncovered. apply NoDup_filter. apply seq_NoDup. Qed.

Lemma unc_count_decr N cov rs r :
  In r rs -> r < N -> ~ In r cov -> unc_count N (rs ++ cov) < unc_count N cov.
Proof. intros Hr HN Hc. unfold unc_count, uncovered.
  assert (Hin : In r (seq 0 N)) by (apply in_seq; lia).
  assert (Hmono: forall l, length (filter (fun r0 => negb (memb r0 (rs ++ cov))) l)
                           <= length (filter (fun r0 => negb (memb r0 cov)) l)).
  { induction l as [|y ys IHl]; simpl; [lia|].
    destruct (memb y cov) eqn:E1; simpl.
    - assert (memb y (rs ++ cov) = true) as ->.
      { apply memb_In. apply in_or_app. right. apply memb_In. exact E1. }
      simpl. exact IHl.
    - destruct (memb y (rs ++ cov)); simpl; lia. }
  induction (seq 0 N) as [|x xs IH]; [destruct Hin|].
  simpl.
  destruct Hin as [->|Hin].
  - assert (memb r (rs ++ cov) = true) as ->. { apply memb_In. apply in_or_app. left. exact Hr. }
    assert (memb r cov = false) as ->. { apply memb_false. exact Hc. }
    simpl. specialize (Hmono xs). lia.
  - specialize (IH Hin). destruct (memb x cov) eqn:E1; simpl.
    + assert (memb x (rs ++ cov) = true) as ->.
      { apply memb_In. apply in_or_app. right. apply memb_In. exact E1. }
      simpl. exact IH.
    + specialize (Hmono xs). destruct (memb x (rs ++ cov)); simpl; lia. Qed.

Lemma first_unc_pos N cov r : first_unc N cov = Some r -> 0 < unc_count N cov.
Proof. intros E. apply first_unc_some in E. destruct E as [Hr Hc]. unfold unc_count.
  assert (H: In r (uncovered N cov)) by (apply in_uncovered; split; assumption).
  destruct (uncovered N cov); [destruct H|simpl; lia]. Qed.

(* ---------- unfolding equations (independent of the shape of fuel) ---------- *)
Lemma search_unfold fuel N cs cov :
  search fuel N cs cov =
  match first_unc N cov with
  | None => Some (0%Z, [])
  | Some r =>
    match fuel with
    | O => None
    | S f =>
      fold_right (fun c acc =>
         if usable r cov c then
           omin (match search f N cs (rows c ++ cov) with
                 | Some (v, l) => Some (cost c + v, c :: l)%Z
                 | None => None end) acc
         else acc) None cs
    end
  end.
Proof. destruct fuel; reflexivity. Qed.

Lemma search_c_unfold fuel N cs cov :
  search_c fuel N cs cov =
  match first_unc N cov with
  | None => Some (0%Z, [])
  | Some r =>
    match fuel with
    | O => None
    | S f =>
      fold_right (fun c acc =>
         if usable_c r c then
           omin (match search_c f N cs (rows c ++ cov) with
                 | Some (v, l) => Some (cost c + v, c :: l)%Z
                 | None => None end) acc
         else acc) None cs
    end
  end.
Proof. destruct fuel; reflexivity. Qed.

Lemma better_unfold part fuel N h cs cov b :
  better part fuel N h cs cov b =
  match first_unc N cov with
  | None => (0 <? b)%Z
  | Some r =>
    match fuel with
    | O => true
    | S f =>
      if (b <=? hsum h (uncovered N cov))%Z then false
      else existsb (fun c =>
             (if part then usable r cov c else usable_c r c) &&
             better part f N h cs (rows c ++ cov) (b - cost c)) cs
    end
  end.
Proof. destruct fuel; reflexivity. Qed.

(* ---------- completes / covers: structural steps ---------- *)
Lemma completes_nil N cov : first_unc N cov = None -> completes N cov [].
Proof. intros E. split; [constructor|]. split.
  - intros r Hr. destruct Hr.
  - intros r Hr. left. exact (first_unc_none N cov E r Hr). Qed.

Lemma completes_covers N cov P : completes N cov P -> covers N cov P.
Proof. intros (_ & _ & H). exact H. Qed.

Lemma completes_cons N cov r c l :
  usable r cov c = true -> NoDup (rows c) -> (forall x, In x (rows c) -> x < N) ->
  completes N (rows c ++ cov) l -> completes N cov (c :: l).
Proof. intros Hu Hndc Hrng (Hnd & Hfresh & Hall).
  unfold usable in Hu. apply andb_true_iff in Hu. destruct Hu as [_ Hdisj].
  pose proof (proj1 (disjointb_spec _ _) Hdisj) as Hd.
  split; [|split].
  - rewrite all_rows_cons. apply NoDup_app_intro; [exact Hndc|exact Hnd|].
    intros x Hx Hx'. destruct (Hfresh x Hx') as [Hn _]. apply Hn. apply in_or_app. left. exact Hx.
  - intros x Hx. rewrite all_rows_cons in Hx. apply in_app_or in Hx. destruct Hx as [Hx|Hx].
    + split; [apply Hd; exact Hx|apply Hrng; exact Hx].
    + destruct (Hfresh x Hx) as [Hn HN]. split; [|exact HN].
      intro Hc. apply Hn. apply in_or_app. right. exact Hc.
  - intros x Hx. destruct (Hall x Hx) as [H|H].
    + apply in_app_or in H. destruct H as [H|H]; [|left; exact H].
      right. rewrite all_rows_cons. apply in_or_app. left. exact H.
    + right. rewrite all_rows_cons. apply in_or_app. right. exact H. Qed.

Lemma covers_nil N cov : first_unc N cov = None -> covers N cov [].
Proof. intros E r Hr. left. exact (first_unc_none N cov E r Hr). Qed.

Lemma covers_cons N cov c l : covers N (rows c ++ cov) l -> covers N cov (c :: l).
Proof. intros Hall x Hx. destruct (Hall x Hx) as [H|H].
  - apply in_app_or in H. destruct H as [H|H]; [|left; exact H].
    right. rewrite all_rows_cons. apply in_or_app. left. exact H.
  - right. rewrite all_rows_cons. apply in_or_app. right. exact H. Qed.

(* the member of P containing the least uncovered row can be taken first *)
Lemma completes_step N cov P r :
  completes N cov P -> first_unc N cov = Some r ->
  exists c P1 P2, P = P1 ++ c :: P2 /\ usable r cov c = true /\ completes N (rows c ++ cov) (P1 ++ P2).
Proof. intros (Hnd & Hfresh & Hall) E.
  destruct (first_unc_some _ _ _ E) as [Hr Hrc].
  destruct (Hall r Hr) as [Hbad|HrP]; [contradiction|].
  apply in_all_rows in HrP. destruct HrP as (c & HcP & Hrc').
  apply in_split in HcP. destruct HcP as (P1 & P2 & ->).
  exists c, P1, P2. split; [reflexivity|].
  assert (Hdisj : disjointb (rows c) cov = true).
  { apply disjointb_spec. intros x Hx. apply (Hfresh x). apply in_all_rows. exists c.
    split; [apply in_or_app; right; left; reflexivity|exact Hx]. }
  split.
  { unfold usable. rewrite Hdisj. rewrite andb_true_r. apply memb_In. exact Hrc'. }
  assert (Hnd' : NoDup (all_rows P1 ++ rows c ++ all_rows P2)).
  { rewrite all_rows_app, all_rows_cons in Hnd. exact Hnd. }
  split; [|split].
  - rewrite all_rows_app. apply NoDup_drop_mid with (b := rows c). exact Hnd'.
  - intros x Hx. rewrite all_rows_app in Hx.
    assert (HxP : In x (all_rows (P1 ++ c :: P2))).
    { rewrite all_rows_app, all_rows_cons. apply in_app_or in Hx. apply in_or_app.
      destruct Hx; [left; assumption|right; apply in_or_app; right; assumption]. }
    destruct (Hfresh x HxP) as [Hxc HxN]. split; [|exact HxN].
    intro Hx2. apply in_app_or in Hx2. destruct Hx2 as [Hx2|Hx2]; [|contradiction].
    apply in_app_or in Hx. destruct Hx as [Hx|Hx].
    + apply (NoDup_app_disj _ _ Hnd' x Hx). apply in_or_app. left. exact Hx2.
    + apply NoDup_app_r in Hnd'. apply (NoDup_app_disj _ _ Hnd' x Hx2 Hx).
  - intros x HxN. destruct (Hall x HxN) as [H|H]; [left; apply in_or_app; right; exact H|].
    rewrite all_rows_app, all_rows_cons in H. apply in_app_or in H. destruct H as [H|H].
    + right. rewrite all_rows_app. apply in_or_app. left. exact H.
    + apply in_app_or in H. destruct H as [H|H]; [left; apply in_or_app; left; exact H|].
      right. rewrite all_rows_app. apply in_or_app. right. exact H. Qed.

Lemma covers_step N cov P r :
  covers N cov P -> first_unc N cov = Some r ->
  exists c P1 P2, P = P1 ++ c :: P2 /\ usable_c r c = true /\ covers N (rows c ++ cov) (P1 ++ P2).
Proof. intros Hall E.
  destruct (first_unc_some _ _ _ E) as [Hr Hrc].
  destruct (Hall r Hr) as [Hbad|HrP]; [contradiction|].
  apply in_all_rows in HrP. destruct HrP as (c & HcP & Hrc').
  apply in_split in HcP. destruct HcP as (P1 & P2 & ->).
  exists c, P1, P2. split; [reflexivity|]. split.
  { unfold usable_c. apply memb_In. exact Hrc'. }
  intros x HxN. destruct (Hall x HxN) as [H|H]; [left; apply in_or_app; right; exact H|].
  rewrite all_rows_app, all_rows_cons in H. apply in_app_or in H. destruct H as [H|H].
  - right. rewrite all_rows_app. apply in_or_app. left. exact H.
  - apply in_app_or in H. destruct H as [H|H]; [left; apply in_or_app; left; exact H|].
    right. rewrite all_rows_app. apply in_or_app. right. exact H. Qed.

Lemma sub_drop_mid (cs P1 P2 : list cand) c :
  (forall c0, In c0 (P1 ++ c :: P2) -> In c0 cs) ->
  In c cs /\ forall c0, In c0 (P1 ++ P2) -> In c0 cs.
Proof. intros Hsub. split.
  - apply Hsub. apply in_or_app. right. left. reflexivity.
  - intros c0 H0. apply Hsub. apply in_app_or in H0. apply in_or_app.
    destruct H0; [left; assumption|right; right; assumption]. Qed.

Lemma total_drop_mid P1 c P2 : total (P1 ++ c :: P2) = (cost c + total (P1 ++ P2))%Z.
Proof. rewrite !total_app, total_cons. lia. Qed.

(* ---------- exact cover search: soundness and optimality ---------- *)
Theorem search_sound : forall fuel N cs cov v l,
  (forall c, In c cs -> NoDup (rows c) /\ forall r, In r (rows c) -> r < N) ->
  search fuel N cs cov = Some (v, l) ->
  (forall c, In c l -> In c cs) /\ completes N cov l /\ v = total l.
Proof.
  induction fuel as [|f IH]; intros N cs cov v l Hcs H; rewrite search_unfold in H;
    destruct (first_unc N cov) as [r|] eqn:E.
  - discriminate.
  - inversion H; subst. split; [intros c Hc; destruct Hc|]. split; [apply completes_nil; exact E|reflexivity].
  - apply (fold_sound (fun c => match search f N cs (rows c ++ cov) with
                 | Some (v, l) => Some (cost c + v, c :: l)%Z
                 | None => None end) (usable r cov)) in H.
    destruct H as (c & Hc & Hg & HF).
    destruct (search f N cs (rows c ++ cov)) as [[v' l']|] eqn:Es; [|discriminate].
    inversion HF; subst.
    destruct (IH N cs (rows c ++ cov) v' l' Hcs Es) as (Hsub & Hcomp & Hv).
    destruct (Hcs c Hc) as [Hndc Hrng].
    split; [|split].
    + intros c0 [<-|H0]; [exact Hc|apply Hsub; exact H0].
    + apply (completes_cons N cov r c l' Hg Hndc Hrng Hcomp).
    + rewrite total_cons, Hv. reflexivity.
  - inversion H; subst. split; [intros c Hc; destruct Hc|]. split; [apply completes_nil; exact E|reflexivity].
Qed.

Theorem search_optimal : forall fuel N cs cov P,
  (forall c, In c cs -> rows c <> []) ->
  unc_count N cov <= fuel ->
  (forall c, In c P -> In c cs) ->
  completes N cov P ->
  exists v l, search fuel N cs cov = Some (v, l) /\ (v <= total P)%Z.
Proof.
  induction fuel as [|f IH]; intros N cs cov P Hne Hfuel Hsub Hcomp; rewrite search_unfold;
    destruct (first_unc N cov) as [r|] eqn:E.
  - apply first_unc_pos in E. lia.
  - exists 0%Z, []. split; [reflexivity|].
    destruct P as [|c P']; [simpl; lia|]. exfalso.
    destruct Hcomp as (Hnd & Hfresh & Hall).
    assert (Hc: In c cs) by (apply Hsub; left; reflexivity).
    specialize (Hne c Hc). destruct (rows c) as [|r rs] eqn:Er; [congruence|].
    assert (Hin: In r (all_rows (c :: P'))).
    { apply in_all_rows. exists c. split; [left; reflexivity|rewrite Er; left; reflexivity]. }
    destruct (Hfresh r Hin) as [Hnc HrN].
    apply Hnc. exact (first_unc_none N cov E r HrN).
  - destruct (completes_step N cov P r Hcomp E) as (c & P1 & P2 & -> & Huse & Hcompl).
    destruct (sub_drop_mid cs P1 P2 c Hsub) as [Hc_cs Hsub'].
    destruct (first_unc_some _ _ _ E) as [Hr Hrc].
    assert (Hrc' : In r (rows c)).
    { unfold usable in Huse. apply andb_true_iff in Huse. apply memb_In. exact (proj1 Huse). }
    assert (Hfuel' : unc_count N (rows c ++ cov) <= f).
    { pose proof (unc_count_decr N cov (rows c) r Hrc' Hr Hrc). lia. }
    destruct (IH N cs (rows c ++ cov) (P1 ++ P2) Hne Hfuel' Hsub' Hcompl) as (v' & l' & Es & Hle).
    destruct (fold_bound (fun c => match search f N cs (rows c ++ cov) with
                 | Some (v, l) => Some (cost c + v, c :: l)%Z
                 | None => None end) (usable r cov) cs c (cost c + v')%Z (c :: l') Hc_cs Huse) as (v & l & Ef & Hv).
    { rewrite Es. reflexivity. }
    exists v, l. split; [exact Ef|]. rewrite total_drop_mid. lia.
  - exists 0%Z, []. split; [reflexivity|].
    destruct P as [|c P']; [simpl; lia|]. exfalso.
    destruct Hcomp as (Hnd & Hfresh & Hall).
    assert (Hc: In c cs) by (apply Hsub; left; reflexivity).
    specialize (Hne c Hc). destruct (rows c) as [|r rs] eqn:Er; [congruence|].
    assert (Hin: In r (all_rows (c :: P'))).
    { apply in_all_rows. exists c. split; [left; reflexivity|rewrite Er; left; reflexivity]. }
    destruct (Hfresh r Hin) as [Hnc HrN].
    apply Hnc. exact (first_unc_none N cov E r HrN).
Qed.

(* ---------- cover search ---------- *)
Theorem search_c_sound : forall fuel N cs cov v l,
  search_c fuel N cs cov = Some (v, l) ->
  (forall c, In c l -> In c cs) /\ covers N cov l /\ v = total l.
Proof.
  induction fuel as [|f IH]; intros N cs cov v l H; rewrite search_c_unfold in H;
    destruct (first_unc N cov) as [r|] eqn:E.
  - discriminate.
  - inversion H; subst. split; [intros c Hc; destruct Hc|]. split; [apply covers_nil; exact E|reflexivity].
  - apply (fold_sound (fun c => match search_c f N cs (rows c ++ cov) with
                 | Some (v, l) => Some (cost c + v, c :: l)%Z
                 | None => None end) (usable_c r)) in H.
    destruct H as (c & Hc & Hg & HF).
    destruct (search_c f N cs (rows c ++ cov)) as [[v' l']|] eqn:Es; [|discriminate].
    inversion HF; subst.
    destruct (IH N cs (rows c ++ cov) v' l' Es) as (Hsub & Hcov & Hv).
    split; [|split].
    + intros c0 [<-|H0]; [exact Hc|apply Hsub; exact H0].
    + apply covers_cons. exact Hcov.
    + rewrite total_cons, Hv. reflexivity.
  - inversion H; subst. split; [intros c Hc; destruct Hc|]. split; [apply covers_nil; exact E|reflexivity].
Qed.

Lemma total_nonneg_cost cs P :
  (forall c, In c cs -> (0 <= cost c)%Z) -> (forall c, In c P -> In c cs) -> (0 <= total P)%Z.
Proof. intros Hpos. induction P as [|c P' IH]; intros Hsub; [simpl; lia|].
  rewrite total_cons.
  assert (Ha : (0 <= cost c)%Z) by (apply Hpos; apply Hsub; left; reflexivity).
  assert (Hb : (0 <= total P')%Z) by (apply IH; intros c0 Hc0; apply Hsub; right; exact Hc0).
  lia. Qed.

Theorem search_c_optimal : forall fuel N cs cov P,
  (forall c, In c cs -> (0 <= cost c)%Z) ->
  unc_count N cov <= fuel ->
  (forall c, In c P -> In c cs) ->
  covers N cov P ->
  exists v l, search_c fuel N cs cov = Some (v, l) /\ (v <= total P)%Z.
Proof.
  induction fuel as [|f IH]; intros N cs cov P Hpos Hfuel Hsub Hcov; rewrite search_c_unfold;
    destruct (first_unc N cov) as [r|] eqn:E.
  - apply first_unc_pos in E. lia.
  - exists 0%Z, []. split; [reflexivity|]. exact (total_nonneg_cost cs P Hpos Hsub).
  - destruct (covers_step N cov P r Hcov E) as (c & P1 & P2 & -> & Huse & Hcov').
    destruct (sub_drop_mid cs P1 P2 c Hsub) as [Hc_cs Hsub'].
    destruct (first_unc_some _ _ _ E) as [Hr Hrc].
    assert (Hrc' : In r (rows c)). { apply memb_In. exact Huse. }
    assert (Hfuel' : unc_count N (rows c ++ cov) <= f).
    { pose proof (unc_count_decr N cov (rows c) r Hrc' Hr Hrc). lia. }
    destruct (IH N cs (rows c ++ cov) (P1 ++ P2) Hpos Hfuel' Hsub' Hcov') as (v' & l' & Es & Hle).
    destruct (fold_bound (fun c => match search_c f N cs (rows c ++ cov) with
                 | Some (v, l) => Some (cost c + v, c :: l)%Z
                 | None => None end) (usable_c r) cs c (cost c + v')%Z (c :: l') Hc_cs Huse) as (v & l & Ef & Hv).
    { rewrite Es. reflexivity. }
    exists v, l. split; [exact Ef|]. rewrite total_drop_mid. lia.
  - exists 0%Z, []. split; [reflexivity|]. exact (total_nonneg_cost cs P Hpos Hsub).
Qed.

(* ---------- reflection of the admissibility checker ---------- *)
Lemma admissibleb_spec h cs N : admissibleb h cs N = true <->
  (forall r, r < N -> (0 <= h r)%Z) /\
  (forall c, In c cs -> (hsum h (rows c) <= cost c)%Z /\ forall r, In r (rows c) -> r < N).
Proof. unfold admissibleb. rewrite andb_true_iff, !forallb_forall. split.
  - intros [H1 H2]. split.
    + intros r Hr. apply Z.leb_le. apply H1. apply in_seq. lia.
    + intros c Hc. specialize (H2 c Hc). apply andb_true_iff in H2. destruct H2 as [H2 H3].
      split; [apply Z.leb_le; exact H2|].
      intros r Hr. rewrite forallb_forall in H3. apply Nat.ltb_lt. apply H3. exact Hr.
  - intros [H1 H2]. split.
    + intros r Hr. apply in_seq in Hr. apply Z.leb_le. apply H1. lia.
    + intros c Hc. destruct (H2 c Hc) as [H3 H4]. apply andb_true_iff. split; [apply Z.leb_le; exact H3|].
      apply forallb_forall. intros r Hr. apply Nat.ltb_lt. apply H4. exact Hr. Qed.

(* ---------- lower bound from an admissible h ---------- *)
Lemma hsum_nonneg h l : (forall r, In r l -> (0 <= h r)%Z) -> (0 <= hsum h l)%Z.
Proof. induction l as [|x xs IH]; intros H; [simpl; lia|]. rewrite hsum_cons.
  assert (Ha : (0 <= h x)%Z) by (apply H; left; reflexivity).
  assert (Hb : (0 <= hsum h xs)%Z) by (apply IH; intros r Hr; apply H; right; exact Hr). lia. Qed.

Lemma hsum_incl h l : forall m,
  (forall r, In r m -> (0 <= h r)%Z) -> NoDup l -> incl l m -> (hsum h l <= hsum h m)%Z.
Proof. induction l as [|x xs IH]; intros m Hpos Hnd Hincl.
  - simpl. apply hsum_nonneg. exact Hpos.
  - inversion Hnd as [|y ys Hx Hnd']; subst.
    assert (Hxm : In x m) by (apply Hincl; left; reflexivity).
    apply in_split in Hxm. destruct Hxm as (m1 & m2 & ->).
    rewrite hsum_cons, hsum_app, hsum_cons.
    assert (Hle : (hsum h xs <= hsum h (m1 ++ m2))%Z).
    { apply IH; [|exact Hnd'|].
      - intros r Hr. apply Hpos. apply in_app_or in Hr. apply in_or_app.
        destruct Hr; [left; assumption|right; right; assumption].
      - intros r Hr. assert (Hrm : In r (m1 ++ x :: m2)) by (apply Hincl; right; exact Hr).
        apply in_app_or in Hrm. apply in_or_app. destruct Hrm as [Hrm|[Hrm|Hrm]].
        + left; exact Hrm.
        + subst. contradiction.
        + right; exact Hrm. }
    rewrite hsum_app in Hle. lia. Qed.

Lemma hsum_all_rows h P :
  (forall c, In c P -> (hsum h (rows c) <= cost c)%Z) -> (hsum h (all_rows P) <= total P)%Z.
Proof. induction P as [|c P' IH]; intros H; [simpl; lia|].
  rewrite all_rows_cons, hsum_app, total_cons.
  assert (Ha : (hsum h (rows c) <= cost c)%Z) by (apply H; left; reflexivity).
  assert (Hb : (hsum h (all_rows P') <= total P')%Z) by (apply IH; intros c0 Hc0; apply H; right; exact Hc0).
  lia. Qed.

Lemma adm_lower_bound h cs N cov P :
  admissibleb h cs N = true -> (forall c, In c P -> In c cs) -> covers N cov P ->
  (hsum h (uncovered N cov) <= total P)%Z.
Proof. intros Hadm Hsub Hcov. apply admissibleb_spec in Hadm. destruct Hadm as [Hpos Hcs].
  apply Z.le_trans with (hsum h (all_rows P)).
  - apply hsum_incl; [|apply NoDup_uncovered|].
    + intros r Hr. apply Hpos. apply in_all_rows in Hr. destruct Hr as (c & Hc & Hr).
      destruct (Hcs c (Hsub c Hc)) as [_ Hrng]. apply Hrng. exact Hr.
    + intros r Hr. apply in_uncovered in Hr. destruct Hr as [HrN Hrc].
      destruct (Hcov r HrN) as [H|H]; [contradiction|exact H].
  - apply hsum_all_rows. intros c Hc. destruct (Hcs c (Hsub c Hc)) as [H _]. exact H. Qed.

Lemma adm_total_nonneg h cs N P :
  admissibleb h cs N = true -> (forall c, In c P -> In c cs) -> (0 <= total P)%Z.
Proof. intros Hadm Hsub. apply admissibleb_spec in Hadm. destruct Hadm as [Hpos Hcs].
  induction P as [|c P' IH]; [simpl; lia|]. rewrite total_cons.
  assert (Hc : In c cs) by (apply Hsub; left; reflexivity).
  destruct (Hcs c Hc) as [Hle Hrng].
  assert (Ha : (0 <= hsum h (rows c))%Z) by (apply hsum_nonneg; intros r Hr; apply Hpos; apply Hrng; exact Hr).
  assert (Hb : (0 <= total P')%Z) by (apply IH; intros c0 Hc0; apply Hsub; right; exact Hc0).
  lia. Qed.

(* ---------- completeness of the budgeted search ---------- *)
Theorem better_partition_complete : forall fuel N h cs cov b P,
  admissibleb h cs N = true ->
  (forall c, In c P -> In c cs) ->
  completes N cov P ->
  (total P < b)%Z ->
  better true fuel N h cs cov b = true.
Proof.
  induction fuel as [|f IH]; intros N h cs cov b P Hadm Hsub Hcomp Hlt; rewrite better_unfold;
    destruct (first_unc N cov) as [r|] eqn:E.
  - reflexivity.
  - apply Z.ltb_lt. pose proof (adm_total_nonneg h cs N P Hadm Hsub). lia.
  - pose proof (adm_lower_bound h cs N cov P Hadm Hsub (completes_covers _ _ _ Hcomp)) as Hlb.
    destruct (Z.leb_spec b (hsum h (uncovered N cov))) as [Hle|Hgt]; [lia|].
    destruct (completes_step N cov P r Hcomp E) as (c & P1 & P2 & -> & Huse & Hcompl).
    destruct (sub_drop_mid cs P1 P2 c Hsub) as [Hc_cs Hsub'].
    apply existsb_exists. exists c. split; [exact Hc_cs|].
    apply andb_true_iff. split; [exact Huse|].
    apply (IH N h cs (rows c ++ cov) (b - cost c)%Z (P1 ++ P2) Hadm Hsub' Hcompl).
    rewrite total_drop_mid in Hlt. lia.
  - apply Z.ltb_lt. pose proof (adm_total_nonneg h cs N P Hadm Hsub). lia.
Qed.

Theorem better_cover_complete : forall fuel N h cs cov b P,
  admissibleb h cs N = true ->
  (forall c, In c P -> In c cs) ->
  covers N cov P ->
  (total P < b)%Z ->
  better false fuel N h cs cov b = true.
Proof.
  induction fuel as [|f IH]; intros N h cs cov b P Hadm Hsub Hcov Hlt; rewrite better_unfold;
    destruct (first_unc N cov) as [r|] eqn:E.
  - reflexivity.
  - apply Z.ltb_lt. pose proof (adm_total_nonneg h cs N P Hadm Hsub). lia.
  - pose proof (adm_lower_bound h cs N cov P Hadm Hsub Hcov) as Hlb.
    destruct (Z.leb_spec b (hsum h (uncovered N cov))) as [Hle|Hgt]; [lia|].
    destruct (covers_step N cov P r Hcov E) as (c & P1 & P2 & -> & Huse & Hcov').
    destruct (sub_drop_mid cs P1 P2 c Hsub) as [Hc_cs Hsub'].
    apply existsb_exists. exists c. split; [exact Hc_cs|].
    apply andb_true_iff. split; [exact Huse|].
    apply (IH N h cs (rows c ++ cov) (b - cost c)%Z (P1 ++ P2) Hadm Hsub' Hcov').
    rewrite total_drop_mid in Hlt. lia.
  - apply Z.ltb_lt. pose proof (adm_total_nonneg h cs N P Hadm Hsub). lia.
Qed.

(* ---------- the run-time table bound is admissible ---------- *)
Definition mfold (cs : list cand) (r : nat) : option Z :=
  fold_right (fun c acc => if memb r (rows c)
                           then match acc with None => Some (share c) | Some m => Some (Z.min m (share c)) end
                           else acc) None cs.

Lemma minshare_mfold cs r :
  minshare cs r = match mfold cs r with Some m => Z.max 0 m | None => 0%Z end.
Proof. reflexivity. Qed.

Lemma mfold_cons c cs r :
  mfold (c :: cs) r =
  if memb r (rows c)
  then match mfold cs r with None => Some (share c) | Some m => Some (Z.min m (share c)) end
  else mfold cs r.
Proof. reflexivity. Qed.

Lemma mfold_le cs r c :
  In c cs -> In r (rows c) -> exists m, mfold cs r = Some m /\ (m <= share c)%Z.
Proof. induction cs as [|x xs IH]; intros Hc Hr; [destruct Hc|].
  rewrite mfold_cons. destruct Hc as [->|Hc].
  - assert (memb r (rows c) = true) as -> by (apply memb_In; exact Hr).
    destruct (mfold xs r) as [m|].
    + exists (Z.min m (share c)). split; [reflexivity|lia].
    + exists (share c). split; [reflexivity|lia].
  - destruct (IH Hc Hr) as (m & Em & Hm). rewrite Em.
    destruct (memb r (rows x)).
    + exists (Z.min m (share x)). split; [reflexivity|lia].
    + exists m. split; [reflexivity|exact Hm]. Qed.

Lemma minshare_nonneg cs r : (0 <= minshare cs r)%Z.
Proof. rewrite minshare_mfold. destruct (mfold cs r) as [m|]; lia. Qed.

Lemma minshare_le cs r c :
  In c cs -> In r (rows c) -> (0 <= share c)%Z -> (minshare cs r <= share c)%Z.
Proof. intros Hc Hr Hs. rewrite minshare_mfold.
  destruct (mfold_le cs r c Hc Hr) as (m & -> & Hm). lia. Qed.

Lemma hlookup_htable cs N r : r < N -> hlookup (htable cs N) r = minshare cs r.
Proof. intros Hr. unfold hlookup, htable.
  rewrite (nth_indep _ 0%Z (minshare cs 0)) by (rewrite map_length, seq_length; exact Hr).
  rewrite map_nth. rewrite seq_nth by exact Hr. reflexivity. Qed.

Lemma hsum_le_mul h l s :
  (forall r, In r l -> (h r <= s)%Z) -> (hsum h l <= Z.of_nat (length l) * s)%Z.
Proof. induction l as [|x xs IH]; intros H; [simpl; lia|].
  rewrite hsum_cons. change (length (x :: xs)) with (S (length xs)). rewrite Nat2Z.inj_succ.
  assert (Ha : (h x <= s)%Z) by (apply H; left; reflexivity).
  assert (Hb : (hsum h xs <= Z.of_nat (length xs) * s)%Z) by (apply IH; intros r Hr; apply H; right; exact Hr).
  lia. Qed.

Lemma htable_admissible cs N :
  (forall c, In c cs -> (0 <= cost c)%Z /\ rows c <> [] /\ NoDup (rows c) /\ forall r, In r (rows c) -> r < N) ->
  admissibleb (hlookup (htable cs N)) cs N = true.
Proof. intros H. apply admissibleb_spec. split.
  - intros r Hr. rewrite hlookup_htable by exact Hr. apply minshare_nonneg.
  - intros c Hc. destruct (H c Hc) as (Hpos & Hne & _ & Hrng). split; [|exact Hrng].
    assert (Hlen : (0 < Z.of_nat (length (rows c)))%Z).
    { destruct (rows c) as [|x xs]; [congruence|]. simpl length. lia. }
    assert (Hs : (0 <= share c)%Z). { unfold share. apply Z.div_pos; [exact Hpos|exact Hlen]. }
    apply Z.le_trans with (Z.of_nat (length (rows c)) * share c)%Z.
    + apply hsum_le_mul. intros r Hr. rewrite hlookup_htable by (apply Hrng; exact Hr).
      apply minshare_le; assumption.
    + unfold share. apply Z.mul_div_le. exact Hlen. Qed.

Print Assumptions memb_In.
Print Assumptions disjointb_spec.
Print Assumptions search_sound.
Print Assumptions search_optimal.
Print Assumptions search_c_sound.
Print Assumptions search_c_optimal.
Print Assumptions admissibleb_spec.
Print Assumptions better_partition_complete.
Print Assumptions better_cover_complete.
Print Assumptions htable_admissible.
