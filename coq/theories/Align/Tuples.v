(* Model of numba_utils.iter_tuples: mixed-radix enumeration, index 0 fastest.
   With radices [map S sizes] the last tuple is [sizes], the all-null tuple. *)
From Coq Require Import List Arith Lia FinFun.
Import ListNotations.

Fixpoint all_tuples (ss : list nat) : list (list nat) :=
  match ss with
  | [] => [[]]
  | s :: rest => flat_map (fun tr => map (fun i => i :: tr) (seq 0 s)) (all_tuples rest)
  end.

Example order_22 : all_tuples [2;2] = [[0;0];[1;0];[0;1];[1;1]].
Proof. reflexivity. Qed.

Lemma all_tuples_complete ss t : In t (all_tuples ss) <-> Forall2 lt t ss.
Proof.
  revert t. induction ss as [|s rest IH]; intros t; simpl.
  - split.
    + intros [<-|[]]. constructor.
    + intros H. inversion H. left. reflexivity.
  - rewrite in_flat_map. split.
    + intros (tr & Htr & Hin). apply in_map_iff in Hin. destruct Hin as (i & <- & Hi).
      apply in_seq in Hi. constructor; [lia|]. apply IH. exact Htr.
    + intros H. inversion H as [|i s' tr rest' Hlt Hrest]; subst.
      exists tr. split; [apply IH; exact Hrest|]. apply in_map_iff. exists i. split; [reflexivity|]. apply in_seq. lia.
Qed.

Lemma NoDup_flat_map_disj {A B} (f : A -> list B) (l : list A) :
  NoDup l -> (forall a, In a l -> NoDup (f a)) ->
  (forall a1 a2 b, In a1 l -> In a2 l -> In b (f a1) -> In b (f a2) -> a1 = a2) ->
  NoDup (flat_map f l).
Proof.
  induction l as [|a l IH]; simpl; intros Hnd Hf Hdisj; [constructor|].
  inversion Hnd as [|? ? Hnotin Hnd']; subst.
  assert (Hrest : NoDup (flat_map f l)).
  { apply IH; [exact Hnd'| intros; apply Hf; right; assumption |
      intros a1 a2 b H1 H2; apply Hdisj; right; assumption]. }
  assert (Hfa : NoDup (f a)) by (apply Hf; left; reflexivity).
  clear IH. revert Hfa.
  assert (Hsep : forall b, In b (f a) -> ~ In b (flat_map f l)).
  { intros b Hb Hb'. apply in_flat_map in Hb'. destruct Hb' as (a2 & Ha2 & Hb2).
    assert (a = a2) by (apply (Hdisj a a2 b); [left; reflexivity|right; exact Ha2|exact Hb|exact Hb2]).
    subst. contradiction. }
  induction (f a) as [|b bs IHb]; simpl; intros Hfa; [exact Hrest|].
  inversion Hfa; subst. constructor.
  - intro Hin. apply in_app_or in Hin. destruct Hin as [Hin|Hin]; [contradiction|].
    apply (Hsep b); [left; reflexivity|exact Hin].
  - apply IHb; [|assumption]. intros b' Hb'. apply Hsep. right. exact Hb'.
Qed.

Lemma all_tuples_NoDup ss : NoDup (all_tuples ss).
Proof.
  induction ss as [|s rest IH]; simpl.
  - constructor; [intros []|constructor].
  - apply NoDup_flat_map_disj; [exact IH| |].
    + intros tr _. apply FinFun.Injective_map_NoDup; [|apply seq_NoDup].
      intros i j H. inversion H. reflexivity.
    + intros t1 t2 b _ _ H1 H2. apply in_map_iff in H1. apply in_map_iff in H2.
      destruct H1 as (i & <- & _). destruct H2 as (j & Hj & _). inversion Hj. reflexivity.
Qed.

Lemma last_app_ne {A} (l1 l2 : list A) d : l2 <> [] -> last (l1 ++ l2) d = last l2 d.
Proof. induction l1 as [|a l1 IH]; intros H; [reflexivity|]. simpl.
  destruct (l1 ++ l2) eqn:E; [apply app_eq_nil in E; destruct E; congruence|]. apply IH. exact H. Qed.
Lemma last_map_cons_seq s (tr : list nat) : 0 < s -> last (map (fun i => i :: tr) (seq 0 s)) [] = pred s :: tr.
Proof. intros Hs. destruct s; [lia|]. rewrite seq_S, map_app. simpl. rewrite last_app_ne; [reflexivity|discriminate]. Qed.
Lemma last_flat_map_nonempty {A B} (f : A -> list B) (l : list A) (da : A) (db : B) :
  l <> [] -> (forall a, f a <> []) -> last (flat_map f l) db = last (f (last l da)) db.
Proof.
  induction l as [|a l IH]; intros Hne Hf; [congruence|].
  simpl. destruct l as [|a' l'].
  - simpl. rewrite app_nil_r. reflexivity.
  - rewrite last_app_ne.
    + apply IH; [discriminate|exact Hf].
    + simpl. pose proof (Hf a'). destruct (f a'); [congruence|discriminate].
Qed.

Lemma all_tuples_nonempty ss : Forall (fun s => 0 < s) ss -> all_tuples ss <> [].
Proof.
  induction 1 as [|s rest Hs _ IH]; simpl; [discriminate|].
  destruct (all_tuples rest) as [|tr trs]; [congruence|]. simpl.
  destruct s; [lia|]. simpl. discriminate.
Qed.

(* the last tuple yielded is (s_0 - 1, ..., s_{n-1} - 1) *)
Lemma all_tuples_last ss : Forall (fun s => 0 < s) ss -> last (all_tuples ss) [] = map pred ss.
Proof.
  induction 1 as [|s rest Hs Hrest IH]; simpl; [reflexivity|].
  rewrite (last_flat_map_nonempty _ _ [] []).
  - rewrite IH. rewrite last_map_cons_seq by exact Hs. reflexivity.
  - apply all_tuples_nonempty. exact Hrest.
  - intros tr. destruct s; [lia|]. simpl. discriminate.
Qed.

Lemma all_tuples_S_last sizes : last (all_tuples (map S sizes)) [] = sizes.
Proof.
  rewrite all_tuples_last.
  - rewrite map_map. simpl. apply map_id.
  - apply Forall_forall. intros s Hs. apply in_map_iff in Hs. destruct Hs as (x & <- & _). lia.
Qed.
