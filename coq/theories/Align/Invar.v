(* Transformations of instances used by C09 (invariance under renaming / permutation of annotators, translation, scaling).
   Translation, time scaling and category renaming leave every pair dissimilarity unchanged (Dissim/Proofs.v: dpos_shift,
   dpos_scale, dabs_rename, dord_perm ...), hence produce the same instance.  Here: scaling of delta_empty (every cost and
   the cut are multiplied by k > 0) and permutation of annotators (the disorder of a tuple is a sum over unordered pairs). *)
From Coq Require Import List Arith ZArith Lia Bool Permutation.
From PGA Require Import Align.Tuples Align.Cover Align.Inst.
Import ListNotations.

(* every pair dissimilarity and delta_empty multiplied by k *)
Definition scale_inst (k : Z) (I : inst) : inst :=
  mkInst (sz I) (map (map (map (map (Z.mul k)))) (dm I)) (k * de I)%Z.
Definition scale_cand (k : Z) (c : cand) : cand := mkCand (k * cost c)%Z (rows c).

(* sum over unordered pairs {a, b}, b < a < n, of a symmetric function *)
Definition pair_sum (n : nat) (c : nat -> nat -> Z) : Z :=
  zsum (map (fun ab => c (fst ab) (snd ab)) (pairs n)).
(* a permutation of 0..n-1 given as the list of images *)
Definition is_perm (n : nat) (s : list nat) : Prop := Permutation s (seq 0 n).
Definition app_perm (s : list nat) (a : nat) : nat := nth a s 0.
