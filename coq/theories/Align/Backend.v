(* Model of the back-end selection of get_best_alignment / get_best_soft_alignment (continuum.py:593-598, 769-775):
     try: import cylp; Problem(obj, CBC constraints).solve(CBC)
     except (ImportError, SolverError): Problem(obj, GLPK constraints).solve(GLPK_MI)          *)
From Coq Require Import List Bool.
Import ListNotations.

Inductive solver := CBC | GLPK.
Inductive formulation := EqOne | LeGeOne | GeOne.

Record env := { cylp_importable : bool; cbc_raises_solver_error : bool }.

(* the list of solve calls that are started, and the one that delivers the result *)
Definition solve_calls (soft : bool) (e : env) : list (solver * formulation) * (solver * formulation) :=
  let f_cbc := if soft then GeOne else EqOne in
  let f_glpk := if soft then GeOne else LeGeOne in
  if cylp_importable e then
    if cbc_raises_solver_error e then ([(CBC, f_cbc); (GLPK, f_glpk)], (GLPK, f_glpk))
    else ([(CBC, f_cbc)], (CBC, f_cbc))
  else ([(GLPK, f_glpk)], (GLPK, f_glpk)).

Lemma fallback_total soft e :
  let (calls, final) := solve_calls soft e in
  last calls final = final /\ In final calls /\
  (fst final = CBC <-> cylp_importable e = true /\ cbc_raises_solver_error e = false) /\
  (forall c, In c calls -> c <> final -> c = (CBC, if soft then GeOne else EqOne) /\ cbc_raises_solver_error e = true).
Proof.
  unfold solve_calls. destruct e as [imp err]; destruct imp, err, soft; cbn;
    (split; [reflexivity|]); (split; [tauto|]); (split; [intuition congruence|]);
    intros c Hc Hne; intuition (subst; try congruence; auto).
Qed.
