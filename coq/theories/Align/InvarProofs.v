(* Proofs for Align/Invar.v (C09): scaling of delta_empty commutes with every stage of the alignment core,
   gamma is invariant under a common positive factor, and the disorder of a tuple is invariant under
   permutation of annotators. *)
From Coq Require Import List Arith ZArith QArith Lia Lqa Bool Permutation.
From PGA Require Import Align.Tuples Align.Cover Align.Inst Align.CoverProofs Align.CandProofs Align.OptProofs Align.Invar Gamma.GammaK.
Import ListNotations.
Local Close Scope Q_scope.
Local Open Scope nat_scope.

(* ---------- scaling of the instance ---------- *)
Lemma nth_map_nil {A B} (f : A -> B) (n : nat) (l : list (list A)) :
  nth n (map (map f) l) [] = map f (nth n l []).
Proof. exact (map_nth (map f) l [] n). Qed.

Lemma nth_map_mul (k : Z) (n : nat) (l : list Z) :
  nth n (map (Z.mul k) l) 0%Z = (k * nth n l 0)%Z.
Proof.
  replace 0%Z with (k * 0)%Z at 1 by lia.
  apply (map_nth (Z.mul k)).
Qed.

Lemma dget_scale k I a b i j : dget (scale_inst k I) a b i j = (k * dget I a b i j)%Z.
Proof.
  unfold dget, scale_inst. simpl dm.
  rewrite !nth_map_nil. apply nth_map_mul.
Qed.

Lemma pair_cost_scale k I a b t : pair_cost (scale_inst k I) a b t = (k * pair_cost I a b t)%Z.
Proof.
  unfold pair_cost. cbv zeta. unfold size. simpl sz. simpl de.
  destruct ((nth a t 0 =? nth a (sz I) 0) || (nth b t 0 =? nth b (sz I) 0)).
  - reflexivity.
  - apply dget_scale.
Qed.

Lemma zsum_cons (x : Z) (l : list Z) : zsum (x :: l) = (x + zsum l)%Z.
Proof. reflexivity. Qed.

Lemma zsum_map_scale {A} (k : Z) (f : A -> Z) (l : list A) :
  zsum (map (fun x => (k * f x)%Z) l) = (k * zsum (map f l))%Z.
Proof.
  induction l as [|x l IH].
  - simpl. lia.
  - cbn [map]. rewrite !zsum_cons, IH. lia.
Qed.

Theorem ua_sum_scale k I t : ua_sum (scale_inst k I) t = (k * ua_sum I t)%Z.
Proof.
  unfold ua_sum. change (nann (scale_inst k I)) with (nann I).
  rewrite <- zsum_map_scale. f_equal. apply map_ext. intros ab. apply pair_cost_scale.
Qed.

Theorem cut_scale k I : cut (scale_inst k I) = (k * cut I)%Z.
Proof.
  unfold cut. change (nann (scale_inst k I)) with (nann I). simpl de. ring.
Qed.

Lemma leb_mul_pos k x y : (0 < k)%Z -> (k * x <=? k * y)%Z = (x <=? y)%Z.
Proof.
  intros Hk. destruct (Z.leb_spec x y) as [H|H]; destruct (Z.leb_spec (k * x) (k * y)) as [H'|H'];
    try reflexivity; exfalso; nia.
Qed.

Theorem passes_scale k I t : (0 < k)%Z -> passes (scale_inst k I) t = passes I t.
Proof.
  intros Hk. unfold passes. rewrite ua_sum_scale, cut_scale. apply leb_mul_pos. exact Hk.
Qed.

Theorem candidates_scale k I : (0 < k)%Z -> candidates (scale_inst k I) = candidates I.
Proof.
  intros Hk. unfold candidates. simpl sz. f_equal. apply filter_ext. intros t. apply passes_scale. exact Hk.
Qed.

Theorem al_sum_scale k I al : al_sum (scale_inst k I) al = (k * al_sum I al)%Z.
Proof.
  unfold al_sum. rewrite <- zsum_map_scale. f_equal. apply map_ext. intros t. apply ua_sum_scale.
Qed.

Lemma cand_of_scale k I t : cand_of (scale_inst k I) t = scale_cand k (cand_of I t).
Proof.
  unfold cand_of, scale_cand. simpl. rewrite ua_sum_scale. reflexivity.
Qed.

(* ---------- the searches commute with scaling ---------- *)
Definition scale_res (k : Z) (o : option (Z * list cand)) : option (Z * list cand) :=
  match o with Some (v, l) => Some ((k * v)%Z, map (scale_cand k) l) | None => None end.

Lemma omin_scale k a b : (0 < k)%Z -> omin (scale_res k a) (scale_res k b) = scale_res k (omin a b).
Proof.
  intros Hk. destruct a as [[va la]|]; destruct b as [[vb lb]|]; simpl; try reflexivity.
  rewrite (leb_mul_pos k va vb Hk). destruct (va <=? vb)%Z; reflexivity.
Qed.

Lemma fold_scale k (F F' : cand -> option (Z * list cand)) (g g' : cand -> bool) (cs : list cand) :
  (0 < k)%Z ->
  (forall c, g' (scale_cand k c) = g c) ->
  (forall c, F' (scale_cand k c) = scale_res k (F c)) ->
  fold_right (fun c acc => if g' c then omin (F' c) acc else acc) None (map (scale_cand k) cs) =
  scale_res k (fold_right (fun c acc => if g c then omin (F c) acc else acc) None cs).
Proof.
  intros Hk Hg HF. induction cs as [|c cs IH].
  - reflexivity.
  - simpl. rewrite Hg. destruct (g c).
    + rewrite IH, HF. apply omin_scale. exact Hk.
    + exact IH.
Qed.

Lemma step_scale k c (o : option (Z * list cand)) :
  match scale_res k o with
  | Some (v, l) => Some ((cost (scale_cand k c) + v)%Z, scale_cand k c :: l)
  | None => None
  end =
  scale_res k (match o with Some (v, l) => Some ((cost c + v)%Z, c :: l) | None => None end).
Proof.
  destruct o as [[v l]|]; simpl; [|reflexivity].
  rewrite Z.mul_add_distr_l. reflexivity.
Qed.

Lemma search_scale_res k fuel N cs : (0 < k)%Z -> forall cov,
  search fuel N (map (scale_cand k) cs) cov = scale_res k (search fuel N cs cov).
Proof.
  intros Hk. induction fuel as [|f IH]; intros cov.
  - simpl. destruct (first_unc N cov); simpl; [reflexivity|rewrite Z.mul_0_r; reflexivity].
  - rewrite (search_unfold (S f) N (map (scale_cand k) cs)), (search_unfold (S f) N cs).
    destruct (first_unc N cov) as [r|]; [|simpl; rewrite Z.mul_0_r; reflexivity].
    apply (fold_scale k
             (fun c => match search f N cs (rows c ++ cov) with
                       | Some (v, l) => Some ((cost c + v)%Z, c :: l) | None => None end)
             (fun c => match search f N (map (scale_cand k) cs) (rows c ++ cov) with
                       | Some (v, l) => Some ((cost c + v)%Z, c :: l) | None => None end)
             (usable r cov) (usable r cov) cs Hk).
    + intros c. reflexivity.
    + intros c. rewrite IH. change (rows (scale_cand k c)) with (rows c). apply step_scale.
Qed.

Theorem search_scale k fuel N cs cov : (0 < k)%Z ->
  search fuel N (map (scale_cand k) cs) cov =
  match search fuel N cs cov with Some (v, l) => Some ((k * v)%Z, map (scale_cand k) l) | None => None end.
Proof. intros Hk. exact (search_scale_res k fuel N cs Hk cov). Qed.

Lemma search_c_scale_res k fuel N cs : (0 < k)%Z -> forall cov,
  search_c fuel N (map (scale_cand k) cs) cov = scale_res k (search_c fuel N cs cov).
Proof.
  intros Hk. induction fuel as [|f IH]; intros cov.
  - simpl. destruct (first_unc N cov); simpl; [reflexivity|rewrite Z.mul_0_r; reflexivity].
  - rewrite (search_c_unfold (S f) N (map (scale_cand k) cs)), (search_c_unfold (S f) N cs).
    destruct (first_unc N cov) as [r|]; [|simpl; rewrite Z.mul_0_r; reflexivity].
    apply (fold_scale k
             (fun c => match search_c f N cs (rows c ++ cov) with
                       | Some (v, l) => Some ((cost c + v)%Z, c :: l) | None => None end)
             (fun c => match search_c f N (map (scale_cand k) cs) (rows c ++ cov) with
                       | Some (v, l) => Some ((cost c + v)%Z, c :: l) | None => None end)
             (usable_c r) (usable_c r) cs Hk).
    + intros c. reflexivity.
    + intros c. rewrite IH. change (rows (scale_cand k c)) with (rows c). apply step_scale.
Qed.

Theorem search_c_scale k fuel N cs cov : (0 < k)%Z ->
  search_c fuel N (map (scale_cand k) cs) cov =
  match search_c fuel N cs cov with Some (v, l) => Some ((k * v)%Z, map (scale_cand k) l) | None => None end.
Proof. intros Hk. exact (search_c_scale_res k fuel N cs Hk cov). Qed.

Lemma map_cand_of_scale k I cs :
  map (cand_of (scale_inst k I)) cs = map (scale_cand k) (map (cand_of I) cs).
Proof. rewrite map_map. apply map_ext. intros t. apply cand_of_scale. Qed.

Theorem opt_partition_scale k I cs : (0 < k)%Z ->
  opt_partition (scale_inst k I) cs =
  match opt_partition I cs with Some (v, l) => Some ((k * v)%Z, map (scale_cand k) l) | None => None end.
Proof.
  intros Hk. unfold opt_partition. change (nunits (scale_inst k I)) with (nunits I).
  rewrite map_cand_of_scale. apply search_scale. exact Hk.
Qed.

Theorem opt_cover_scale k I cs : (0 < k)%Z ->
  opt_cover (scale_inst k I) cs =
  match opt_cover I cs with Some (v, l) => Some ((k * v)%Z, map (scale_cand k) l) | None => None end.
Proof.
  intros Hk. unfold opt_cover. change (nunits (scale_inst k I)) with (nunits I).
  rewrite map_cand_of_scale. apply search_c_scale. exact Hk.
Qed.

(* ---------- gamma under a common positive factor ---------- *)
Lemma qsum_scale (k : Q) (l : list Q) :
  (fold_right Qplus 0 (map (Qmult k) l) == k * fold_right Qplus 0 l)%Q.
Proof.
  induction l as [|x l IH].
  - simpl. ring.
  - simpl. rewrite IH. ring.
Qed.

Lemma qmean_scale (k : Q) (l : list Q) : (qmean (map (Qmult k) l) == k * qmean l)%Q.
Proof.
  unfold qmean. rewrite map_length, qsum_scale. unfold Qdiv. ring.
Qed.

Lemma qscale_zero (k x : Q) : (0 < k)%Q -> ((k * x == 0)%Q <-> (x == 0)%Q).
Proof.
  intros Hk. split.
  - intros H. apply Qmult_integral in H. destruct H as [H|H]; [|exact H].
    exfalso. rewrite H in Hk. apply (Qlt_irrefl 0). exact Hk.
  - intros H. rewrite H. ring.
Qed.

Lemma qeq_bool_scale (k x : Q) : (0 < k)%Q -> Qeq_bool (k * x) 0 = Qeq_bool x 0.
Proof.
  intros Hk. destruct (Qeq_bool x 0) eqn:E.
  - apply Qeq_bool_iff. apply Qeq_bool_iff in E. apply (qscale_zero k x Hk). exact E.
  - destruct (Qeq_bool (k * x) 0) eqn:E'; [|reflexivity].
    apply Qeq_bool_iff in E'. apply (qscale_zero k x Hk) in E'. apply Qeq_bool_iff in E'.
    rewrite E' in E. discriminate E.
Qed.

Lemma qdiv_scale (k x m : Q) : (0 < k)%Q -> ((k * x) / (k * m) == x / m)%Q.
Proof.
  intros Hk. destruct (Qeq_dec m 0) as [Hm|Hm].
  - rewrite Hm. rewrite Qmult_0_r. unfold Qdiv. change (/ 0)%Q with 0%Q. ring.
  - field. split; [exact Hm|]. intros H. rewrite H in Hk. apply (Qlt_irrefl 0). exact Hk.
Qed.

Theorem gamma_scale (k obs : Q) (chance : list Q) : (0 < k)%Q -> chance <> [] ->
  (gamma_of (k * obs) (map (Qmult k) chance) == gamma_of obs chance)%Q.
Proof.
  intros Hk _. unfold gamma_of. rewrite (qeq_bool_scale k obs Hk).
  destruct (Qeq_bool obs 0); [reflexivity|].
  rewrite qmean_scale, (qdiv_scale k obs (qmean chance) Hk). reflexivity.
Qed.

Theorem gamma_cat_scale (k obs : Q) (chance : list Q) : (0 < k)%Q -> chance <> [] ->
  (gamma_cat_of (k * obs) (map (Qmult k) chance) == gamma_cat_of obs chance)%Q.
Proof.
  intros Hk _. unfold gamma_cat_of. rewrite (qeq_bool_scale k obs Hk).
  destruct (Qeq_bool obs 0); [reflexivity|].
  assert (Hb : Qeq_bool (qmean (map (Qmult k) chance)) 0 = Qeq_bool (qmean chance) 0).
  { rewrite <- (qeq_bool_scale k (qmean chance) Hk).
    destruct (Qeq_bool (k * qmean chance) 0) eqn:E.
    - apply Qeq_bool_iff. rewrite qmean_scale. apply Qeq_bool_iff. exact E.
    - destruct (Qeq_bool (qmean (map (Qmult k) chance)) 0) eqn:E'; [|reflexivity].
      apply Qeq_bool_iff in E'. rewrite qmean_scale in E'. apply Qeq_bool_iff in E'.
      rewrite E' in E. discriminate E. }
  rewrite Hb. destruct (Qeq_bool (qmean chance) 0); [reflexivity|].
  rewrite qmean_scale, (qdiv_scale k obs (qmean chance) Hk). reflexivity.
Qed.

(* ---------- permutation of annotators ---------- *)
Lemma zsum_app (l1 l2 : list Z) : zsum (l1 ++ l2) = (zsum l1 + zsum l2)%Z.
Proof.
  induction l1 as [|x l1 IH].
  - reflexivity.
  - cbn [app]. rewrite !zsum_cons, IH. lia.
Qed.

Lemma zsum_map_add {A} (f g : A -> Z) (l : list A) :
  zsum (map (fun x => (f x + g x)%Z) l) = (zsum (map f l) + zsum (map g l))%Z.
Proof.
  induction l as [|x l IH].
  - reflexivity.
  - cbn [map]. rewrite !zsum_cons, IH. lia.
Qed.

Lemma zsum_perm (l1 l2 : list Z) : Permutation l1 l2 -> zsum l1 = zsum l2.
Proof.
  intros P. induction P as [|x l l' P IH|x y l|l l' l'' P1 IH1 P2 IH2].
  - reflexivity.
  - rewrite !zsum_cons, IH. reflexivity.
  - rewrite !zsum_cons. lia.
  - rewrite IH1. exact IH2.
Qed.

Definition rowsum (m : nat) (c : nat -> nat -> Z) (a : nat) : Z := zsum (map (c a) (seq 0 m)).
Definition full (n : nat) (c : nat -> nat -> Z) : Z := zsum (map (rowsum n c) (seq 0 n)).
Definition diag (n : nat) (c : nat -> nat -> Z) : Z := zsum (map (fun a => c a a) (seq 0 n)).

Lemma rowsum_S m c a : rowsum (S m) c a = (rowsum m c a + c a m)%Z.
Proof.
  unfold rowsum. rewrite seq_S, map_app, zsum_app. simpl. lia.
Qed.

Lemma pair_sum_S n c : pair_sum (S n) c = (pair_sum n c + rowsum n c n)%Z.
Proof.
  unfold pair_sum, rowsum. rewrite pairs_S, map_app, zsum_app, map_map. reflexivity.
Qed.

Lemma diag_S n c : diag (S n) c = (diag n c + c n n)%Z.
Proof.
  unfold diag. rewrite seq_S, map_app, zsum_app. simpl. lia.
Qed.

Lemma full_S n c : (forall a b, c a b = c b a) ->
  full (S n) c = (full n c + 2 * rowsum n c n + c n n)%Z.
Proof.
  intros Hsym. unfold full. rewrite seq_S, map_app, zsum_app. simpl map.
  rewrite (map_ext (rowsum (S n) c) (fun a => (rowsum n c a + c a n)%Z) (fun a => rowsum_S n c a)).
  rewrite zsum_map_add. rewrite rowsum_S.
  assert (E : zsum (map (fun a => c a n) (seq 0 n)) = rowsum n c n).
  { unfold rowsum. f_equal. apply map_ext. intros a. apply Hsym. }
  rewrite E, zsum_cons. change (zsum []) with 0%Z. cbn [Nat.add]. lia.
Qed.

Lemma pair_full_diag n c : (forall a b, c a b = c b a) ->
  (2 * pair_sum n c + diag n c = full n c)%Z.
Proof.
  intros Hsym. induction n as [|n IH].
  - reflexivity.
  - rewrite pair_sum_S, diag_S, (full_S n c Hsym). lia.
Qed.

Lemma map_nth_seq (s : list nat) : map (fun a => nth a s 0) (seq 0 (length s)) = s.
Proof.
  induction s as [|x s IH].
  - reflexivity.
  - simpl length. simpl seq. rewrite <- seq_shift. cbn [map]. rewrite map_map. simpl. f_equal. exact IH.
Qed.

Lemma map_app_perm n s : is_perm n s -> map (app_perm s) (seq 0 n) = s.
Proof.
  intros P. assert (L : length s = n).
  { apply Permutation_length in P. rewrite seq_length in P. exact P. }
  subst n. apply map_nth_seq.
Qed.

Lemma zsum_reindex n s (g : nat -> Z) : is_perm n s ->
  zsum (map (fun a => g (app_perm s a)) (seq 0 n)) = zsum (map g (seq 0 n)).
Proof.
  intros P. rewrite <- (map_map (app_perm s) g), (map_app_perm n s P).
  apply zsum_perm. apply Permutation_map. exact P.
Qed.

Lemma full_perm n c s : is_perm n s ->
  full n (fun a b => c (app_perm s a) (app_perm s b)) = full n c.
Proof.
  intros P. unfold full.
  rewrite (map_ext (rowsum n (fun a b => c (app_perm s a) (app_perm s b)))
                   (fun a => rowsum n c (app_perm s a))).
  - apply (zsum_reindex n s (rowsum n c) P).
  - intros a. unfold rowsum. apply (zsum_reindex n s (c (app_perm s a)) P).
Qed.

Lemma diag_perm n c s : is_perm n s ->
  diag n (fun a b => c (app_perm s a) (app_perm s b)) = diag n c.
Proof.
  intros P. unfold diag. apply (zsum_reindex n s (fun a => c a a) P).
Qed.

Theorem pair_sum_perm n (c : nat -> nat -> Z) (s : list nat) :
  (forall a b, c a b = c b a) -> is_perm n s ->
  pair_sum n (fun a b => c (app_perm s a) (app_perm s b)) = pair_sum n c.
Proof.
  intros Hsym P.
  pose proof (pair_full_diag n c Hsym) as H1.
  pose proof (pair_full_diag n (fun a b => c (app_perm s a) (app_perm s b))
                (fun a b => Hsym (app_perm s a) (app_perm s b))) as H2.
  rewrite (full_perm n c s P), (diag_perm n c s P) in H2. lia.
Qed.

Print Assumptions ua_sum_scale.
Print Assumptions cut_scale.
Print Assumptions passes_scale.
Print Assumptions candidates_scale.
Print Assumptions al_sum_scale.
Print Assumptions search_scale.
Print Assumptions search_c_scale.
Print Assumptions opt_partition_scale.
Print Assumptions opt_cover_scale.
Print Assumptions gamma_scale.
Print Assumptions gamma_cat_scale.
Print Assumptions pair_sum_perm.
