(* Abstract exact-cover / cover instances: rows 0..N-1 are the flattened units of a continuum
   (as in numba_utils.build_A); a candidate is its integer cost and the rows it contains.
   Costs are integers: the harness scales the (dyadic) float costs by a common power of two.
   Definitions only; proofs are in CoverProofs.v so that the model still runs if a proof breaks. *)
From Coq Require Import List Arith ZArith Lia Bool.
Import ListNotations.

Record cand := mkCand { cost : Z; rows : list nat }.

Definition memb (r : nat) (l : list nat) : bool := existsb (Nat.eqb r) l.
Definition disjointb (a b : list nat) : bool := forallb (fun r => negb (memb r b)) a.

(* least row < N not in cov *)
Fixpoint first_unc_from (k : nat) (cnt : nat) (cov : list nat) : option nat :=
  match cnt with
  | O => None
  | S c => if memb k cov then first_unc_from (S k) c cov else Some k
  end.
Definition first_unc (N : nat) cov := first_unc_from 0 N cov.

Definition omin (a b : option (Z * list cand)) : option (Z * list cand) :=
  match a, b with
  | None, x => x | x, None => x
  | Some (va, la), Some (vb, lb) => if (va <=? vb)%Z then a else b
  end.

Definition total (l : list cand) : Z := fold_right (fun c acc => (cost c + acc)%Z) 0%Z l.
Definition all_rows (l : list cand) : list nat := flat_map rows l.
Definition uncovered (N : nat) (cov : list nat) : list nat :=
  filter (fun r => negb (memb r cov)) (seq 0 N).
Definition unc_count (N : nat) (cov : list nat) : nat := length (uncovered N cov).

(* ---------- exact cover (partition): C01 / C02 ---------- *)
Definition usable (r : nat) (cov : list nat) (c : cand) : bool :=
  memb r (rows c) && disjointb (rows c) cov.

Fixpoint search (fuel N : nat) (cs : list cand) (cov : list nat) : option (Z * list cand) :=
  match first_unc N cov with
  | None => Some (0%Z, [])
  | Some r =>
    match fuel with
    | O => None
    | S f =>
      fold_right (fun c acc =>
         if usable r cov c then
           omin (match search f N cs (rows c ++ cov) with
                 | Some (v, l) => Some (cost c + v, c :: l)%Z
                 | None => None end) acc
         else acc) None cs
    end
  end.

(* P completes cov to an exact cover of 0..N-1 *)
Definition completes (N : nat) (cov : list nat) (P : list cand) : Prop :=
  NoDup (all_rows P) /\ (forall r, In r (all_rows P) -> ~ In r cov /\ r < N) /\
  (forall r, r < N -> In r cov \/ In r (all_rows P)).

(* ---------- cover (soft alignment): C11 ---------- *)
Definition usable_c (r : nat) (c : cand) : bool := memb r (rows c).

Fixpoint search_c (fuel N : nat) (cs : list cand) (cov : list nat) : option (Z * list cand) :=
  match first_unc N cov with
  | None => Some (0%Z, [])
  | Some r =>
    match fuel with
    | O => None
    | S f =>
      fold_right (fun c acc =>
         if usable_c r c then
           omin (match search_c f N cs (rows c ++ cov) with
                 | Some (v, l) => Some (cost c + v, c :: l)%Z
                 | None => None end) acc
         else acc) None cs
    end
  end.

(* P together with cov covers 0..N-1 (members may overlap, may touch cov) *)
Definition covers (N : nat) (cov : list nat) (P : list cand) : Prop :=
  forall r, r < N -> In r cov \/ In r (all_rows P).

(* ---------- budgeted decision search with an admissible per-row lower bound ----------
   [better] answers "might some completion cost strictly less than b ?".  [false] is a
   certificate that none does (theorems better_partition_complete / better_cover_complete);
   running out of fuel answers [true] (= cannot certify), so no fuel hypothesis is needed. *)
Definition hsum (h : nat -> Z) (l : list nat) : Z := fold_right (fun r acc => (h r + acc)%Z) 0%Z l.

Definition admissibleb (h : nat -> Z) (cs : list cand) (N : nat) : bool :=
  forallb (fun r => (0 <=? h r)%Z) (seq 0 N) &&
  forallb (fun c => (hsum h (rows c) <=? cost c)%Z && forallb (fun r => r <? N) (rows c)) cs.

Fixpoint better (part : bool) (fuel N : nat) (h : nat -> Z) (cs : list cand) (cov : list nat) (b : Z) : bool :=
  match first_unc N cov with
  | None => (0 <? b)%Z
  | Some r =>
    match fuel with
    | O => true
    | S f =>
      if (b <=? hsum h (uncovered N cov))%Z then false
      else existsb (fun c =>
             (if part then usable r cov c else usable_c r c) &&
             better part f N h cs (rows c ++ cov) (b - cost c)) cs
    end
  end.

(* the lower bound used by the harness: a row's share of the cheapest candidate containing it *)
Definition share (c : cand) : Z := (cost c / Z.of_nat (length (rows c)))%Z.
Definition minshare (cs : list cand) (r : nat) : Z :=
  match fold_right (fun c acc => if memb r (rows c)
                           then match acc with None => Some (share c) | Some m => Some (Z.min m (share c)) end
                           else acc) None cs with
  | Some m => Z.max 0 m
  | None => 0%Z
  end.

(* table form: h is looked up in a precomputed list, 0 outside *)
Definition htable (cs : list cand) (N : nat) : list Z := map (minshare cs) (seq 0 N).
Definition hlookup (tbl : list Z) (r : nat) : Z := nth r tbl 0%Z.
