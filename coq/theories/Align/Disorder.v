(* C03 - disorder values: placement of the slots of an n-tuple by annotator rank (dissimilarity._build_arrays_alignment),
   the unitary disorder (mean over the C(n,2) annotator pairs) and the alignment disorder (sum / mean units per annotator). *)
From Coq Require Import List Arith ZArith QArith Lia Bool Permutation.
From PGA Require Import Align.Tuples Align.Cover Align.Inst Align.Invar.
Import ListNotations.
Local Close Scope Q_scope.

Fixpoint set_nth {A} (n : nat) (x : A) (l : list A) : list A :=
  match l, n with
  | [], _ => []
  | _ :: r, O => x :: r
  | y :: r, S n' => y :: set_nth n' x r
  end.

(* an n-tuple as listed by the user: (rank of the annotator, unit index or None), in ANY slot order.
   Each slot is written at the annotator's rank; the row starts as the all-null tuple. *)
Definition slot_value (sizes : list nat) (au : nat * option nat) : nat :=
  match snd au with Some i => i | None => nth (fst au) sizes 0 end.
Definition row_of_ntuple (sizes : list nat) (nt : list (nat * option nat)) : tuple :=
  fold_left (fun row au => set_nth (fst au) (slot_value sizes au) row) nt sizes.

Definition ntuples_sum (I : inst) (al : list (list (nat * option nat))) : Z :=
  al_sum I (map (row_of_ntuple (sz I)) al).

(* disorders as rationals: costs are scaled by [scale] *)
Definition ua_disorder_q (scale : positive) (I : inst) (t : tuple) : Q :=
  (Qmake (ua_sum I t) scale / inject_Z (Z.of_nat (c2n (nann I))))%Q.
Definition qsum (l : list Q) : Q := fold_right Qplus 0%Q l.
(* avg = units / annotators; the alignment disorder is the sum of the unitary disorders divided by it *)
Definition disorder_q (scale : positive) (I : inst) (al : list tuple) (units : nat) : Q :=
  (qsum (map (ua_disorder_q scale I) al) / (inject_Z (Z.of_nat units) / inject_Z (Z.of_nat (nann I))))%Q.
(* the same from the total integer sum (what the harness compares the library's value with) *)
Definition disorder_of_sum (scale : positive) (I : inst) (s : Z) (units : nat) : Q :=
  (Qmake s scale / inject_Z (Z.of_nat (c2n (nann I))) / (inject_Z (Z.of_nat units) / inject_Z (Z.of_nat (nann I))))%Q.

(* faithful model of UnitaryAlignment.compute_disorder (alignment.py:126-132): a one-element alignment WITHOUT continuum, whose
   mean number of units per annotator is (real units of the tuple) / n *)
Definition real_count (I : inst) (t : tuple) : nat :=
  length (filter (fun a => nth a t 0 <? size I a) (seq 0 (nann I))).
Definition ua_compute_faithful (scale : positive) (I : inst) (t : tuple) : Q :=
  disorder_q scale I [t] (real_count I t).
