From Coq Require Import List Arith ZArith Lia Bool Permutation.
From PGA Require Import Align.Tuples Align.Cover Align.Inst Align.Invar Align.InvarProofs Align.PartProofs Align.CandProofs Align.OptProofs.
From PGA Require Import Align.PermInst.
Import ListNotations.

(* C09 - permutation of annotators at the instance level: the disorder of a tuple, partitions, covers and the total cost of an
   alignment do not depend on the order of the annotators. *)

(* ---------- list helpers ---------- *)
Lemma nth_map_seq {A} (f : nat -> A) (n k : nat) (d : A) : k < n -> nth k (map f (seq 0 n)) d = f k.
Proof.
  intros Hk. rewrite (nth_indep _ d (f 0)) by (rewrite map_length, seq_length; exact Hk).
  rewrite map_nth, seq_nth by exact Hk. reflexivity.
Qed.

Lemma nth_map_nat (f : nat -> nat) (s : list nat) (k : nat) : k < length s -> nth k (map f s) 0 = f (nth k s 0).
Proof.
  intros Hk. rewrite (nth_indep _ 0 (f 0)) by (rewrite map_length; exact Hk).
  apply map_nth.
Qed.

(* ---------- permutations of 0..n-1 ---------- *)
Lemma perm_length s n : is_perm n s -> length s = n.
Proof.
  intros P. apply Permutation_length in P. rewrite seq_length in P. exact P.
Qed.

Lemma perm_lt s n k : is_perm n s -> k < n -> nth k s 0 < n.
Proof.
  intros P Hk. pose proof (perm_length s n P) as L.
  assert (Hin : In (nth k s 0) (seq 0 n)).
  { apply (Permutation_in _ P). apply nth_In. lia. }
  apply in_seq in Hin. lia.
Qed.

Lemma perm_inj s n a b : is_perm n s -> a < n -> b < n -> nth a s 0 = nth b s 0 -> a = b.
Proof.
  intros P Ha Hb E. pose proof (perm_length s n P) as L.
  assert (ND : NoDup s).
  { apply (Permutation_NoDup (Permutation_sym P)). apply seq_NoDup. }
  apply (proj1 (NoDup_nth s 0) ND a b); [lia|lia|exact E].
Qed.

(* every old rank occurs at some new position *)
Lemma perm_surj s n x : is_perm n s -> x < n -> exists k, k < n /\ nth k s 0 = x.
Proof.
  intros P Hx. pose proof (perm_length s n P) as L.
  assert (Hin : In x s).
  { apply (Permutation_in _ (Permutation_sym P)). apply in_seq. lia. }
  destruct (In_nth s x 0 Hin) as (k & Hk & E).
  exists k. split; [lia|exact E].
Qed.

(* ---------- the permuted instance ---------- *)
Lemma nann_perm s I : nann (perm_inst s I) = length s.
Proof.
  unfold nann, perm_inst, perm_sizes. simpl. apply map_length.
Qed.

Lemma size_perm s I k : k < length s -> size (perm_inst s I) k = size I (nth k s 0).
Proof.
  intros Hk. unfold size at 1. unfold perm_inst, perm_sizes. simpl sz.
  apply (nth_map_nat (fun k0 => size I k0) s k Hk).
Qed.

Lemma nth_perm_tuple s t k : k < length s -> nth k (perm_tuple s t) 0 = nth (nth k s 0) t 0.
Proof.
  intros Hk. unfold perm_tuple. apply (nth_map_nat (fun k0 => nth k0 t 0) s k Hk).
Qed.

Lemma de_perm s I : de (perm_inst s I) = de I.
Proof. reflexivity. Qed.

Lemma dget_perm s I a b i j : is_perm (nann I) s -> b < a -> a < nann I -> i < size I (nth a s 0) -> j < size I (nth b s 0) ->
  dget (perm_inst s I) a b i j = sym_dget I (nth a s 0) (nth b s 0) i j.
Proof.
  intros P Hba Ha Hi Hj. pose proof (perm_length s _ P) as L.
  unfold dget. unfold perm_inst. simpl dm. unfold perm_dm.
  rewrite (nth_map_seq _ (length s) a []) by lia.
  rewrite (nth_map_seq _ a b []) by exact Hba.
  rewrite (nth_map_seq _ (size I (nth a s 0)) i []) by exact Hi.
  rewrite (nth_map_seq _ (size I (nth b s 0)) j 0%Z) by exact Hj.
  reflexivity.
Qed.

Lemma wf_tuple_le s t a : wf_tuple s t -> a < length s -> nth a t 0 <= nth a s 0.
Proof.
  intros (_ & H & _) Ha. apply H. exact Ha.
Qed.

Lemma pair_cost_perm s I t a b : is_perm (nann I) s -> wf_tuple (sz I) t -> b < a -> a < nann I ->
  pair_cost (perm_inst s I) a b (perm_tuple s t) = sym_pair_cost I t (nth a s 0) (nth b s 0).
Proof.
  intros P W Hba Ha. pose proof (perm_length s _ P) as L.
  assert (Hb : b < nann I) by lia.
  pose proof (perm_lt s _ a P Ha) as Hx.
  pose proof (perm_lt s _ b P Hb) as Hy.
  unfold pair_cost at 1. cbv zeta.
  rewrite (nth_perm_tuple s t a) by lia.
  rewrite (nth_perm_tuple s t b) by lia.
  rewrite (size_perm s I a) by lia.
  rewrite (size_perm s I b) by lia.
  rewrite de_perm.
  set (x := nth a s 0) in *. set (y := nth b s 0) in *.
  pose proof (wf_tuple_le (sz I) t x W Hx) as Lx.
  pose proof (wf_tuple_le (sz I) t y W Hy) as Ly.
  fold (size I x) in Lx. fold (size I y) in Ly.
  unfold sym_pair_cost, pair_cost. cbv zeta.
  destruct (nth x t 0 =? size I x) eqn:Ex; destruct (nth y t 0 =? size I y) eqn:Ey; simpl orb;
    try (destruct (y <? x); reflexivity).
  apply Nat.eqb_neq in Ex. apply Nat.eqb_neq in Ey.
  unfold x, y. rewrite (dget_perm s I a b _ _ P Hba Ha).
  - fold x. fold y. unfold sym_dget. reflexivity.
  - fold x. lia.
  - fold y. lia.
Qed.

(* ---------- the disorder of a tuple ---------- *)
Lemma sym_pair_cost_sym I t x y : sym_pair_cost I t x y = sym_pair_cost I t y x.
Proof.
  unfold sym_pair_cost.
  destruct (y <? x) eqn:E1; destruct (x <? y) eqn:E2; try reflexivity.
  - apply Nat.ltb_lt in E1. apply Nat.ltb_lt in E2. lia.
  - apply Nat.ltb_ge in E1. apply Nat.ltb_ge in E2. assert (x = y) by lia. subst y. reflexivity.
Qed.

Lemma pair_sum_ext n (c c' : nat -> nat -> Z) :
  (forall a b, b < a -> a < n -> c a b = c' a b) -> pair_sum n c = pair_sum n c'.
Proof.
  intros H. unfold pair_sum. f_equal. apply map_ext_in. intros (a, b) Hin.
  apply in_pairs in Hin. simpl. apply H; lia.
Qed.

Lemma ua_sum_pair_sum I t : ua_sum I t = pair_sum (nann I) (fun a b => pair_cost I a b t).
Proof. reflexivity. Qed.

Theorem ua_sum_perm s I t : is_perm (nann I) s -> wf_tuple (sz I) t ->
  ua_sum (perm_inst s I) (perm_tuple s t) = ua_sum I t.
Proof.
  intros P W. pose proof (perm_length s _ P) as L.
  rewrite !ua_sum_pair_sum. rewrite nann_perm, L.
  rewrite (pair_sum_ext (nann I) _ (fun a b => sym_pair_cost I t (app_perm s a) (app_perm s b))).
  - rewrite (pair_sum_perm (nann I) (sym_pair_cost I t) s (sym_pair_cost_sym I t) P).
    apply pair_sum_ext. intros a b Hba Ha. unfold sym_pair_cost.
    apply Nat.ltb_lt in Hba. rewrite Hba. reflexivity.
  - intros a b Hba Ha. unfold app_perm. apply (pair_cost_perm s I t a b P W Hba Ha).
Qed.

(* ---------- partitions and covers ---------- *)
Lemma sz_perm_length s I : length (sz (perm_inst s I)) = length s.
Proof. exact (nann_perm s I). Qed.

Lemma nth_sz_perm s I a : a < length s -> nth a (sz (perm_inst s I)) 0 = size I (nth a s 0).
Proof. exact (size_perm s I a). Qed.

Lemma wf_tuple_perm s I t : is_perm (nann I) s -> wf_tuple (sz I) t -> wf_tuple (sz (perm_inst s I)) (perm_tuple s t).
Proof.
  intros P W. pose proof (perm_length s _ P) as L.
  destruct W as (WL & Wle & (a0 & Ha0 & Hlt)).
  unfold wf_tuple. rewrite sz_perm_length. split; [|split].
  - unfold perm_tuple. apply map_length.
  - intros a Ha. rewrite (nth_perm_tuple s t a Ha), (nth_sz_perm s I a Ha).
    unfold size. apply Wle. apply (perm_lt s _ a P). lia.
  - destruct (perm_surj s (nann I) a0 P Ha0) as (k & Hk & E).
    exists k. split; [lia|].
    rewrite (nth_perm_tuple s t k) by lia. rewrite (nth_sz_perm s I k) by lia.
    rewrite E. unfold size. exact Hlt.
Qed.

Lemma occ_perm s I al a i : is_perm (nann I) s -> a < nann I -> occ a i (map (perm_tuple s) al) = occ (nth a s 0) i al.
Proof.
  intros P Ha. pose proof (perm_length s _ P) as L.
  unfold occ. rewrite length_filter_map. f_equal. apply filter_ext.
  intros t. rewrite (nth_perm_tuple s t a) by lia. reflexivity.
Qed.

Lemma Forall_wf_perm s I al : is_perm (nann I) s -> Forall (wf_tuple (sz I)) al ->
  Forall (wf_tuple (sz (perm_inst s I))) (map (perm_tuple s) al).
Proof.
  intros P F. apply Forall_map. apply (Forall_impl _ (fun t W => wf_tuple_perm s I t P W) F).
Qed.

Theorem partition_perm s I al : is_perm (nann I) s -> partition (sz I) al -> partition (sz (perm_inst s I)) (map (perm_tuple s) al).
Proof.
  intros P (F & Hocc). pose proof (perm_length s _ P) as L. split.
  - apply (Forall_wf_perm s I al P F).
  - intros a i Ha Hi. rewrite sz_perm_length in Ha. rewrite (nth_sz_perm s I a Ha) in Hi.
    rewrite (occ_perm s I al a i P) by lia.
    apply Hocc; [apply (perm_lt s _ a P); lia | exact Hi].
Qed.

Theorem cover_perm s I al : is_perm (nann I) s -> cover (sz I) al -> cover (sz (perm_inst s I)) (map (perm_tuple s) al).
Proof.
  intros P (F & Hocc). pose proof (perm_length s _ P) as L. split.
  - apply (Forall_wf_perm s I al P F).
  - intros a i Ha Hi. rewrite sz_perm_length in Ha. rewrite (nth_sz_perm s I a Ha) in Hi.
    rewrite (occ_perm s I al a i P) by lia.
    apply Hocc; [apply (perm_lt s _ a P); lia | exact Hi].
Qed.

Theorem al_sum_perm s I al : is_perm (nann I) s -> Forall (wf_tuple (sz I)) al ->
  al_sum (perm_inst s I) (map (perm_tuple s) al) = al_sum I al.
Proof.
  intros P F. unfold al_sum. induction F as [|t al W F IH].
  - reflexivity.
  - cbn [map]. rewrite !zsum_cons, IH, (ua_sum_perm s I t P W). reflexivity.
Qed.

Theorem lower_bound_transfers s I b : is_perm (nann I) s ->
  (forall al', partition (sz (perm_inst s I)) al' -> (b <= al_sum (perm_inst s I) al')%Z) ->
  forall al, partition (sz I) al -> (b <= al_sum I al)%Z.
Proof.
  intros P Hlb al Hp.
  rewrite <- (al_sum_perm s I al P (proj1 Hp)).
  apply Hlb. apply (partition_perm s I al P Hp).
Qed.

Print Assumptions ua_sum_perm.
Print Assumptions partition_perm.
Print Assumptions cover_perm.
Print Assumptions al_sum_perm.
Print Assumptions lower_bound_transfers.
