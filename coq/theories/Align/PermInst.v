(* C09 - permutation of annotators at the instance level.  s lists, for every NEW annotator rank k, the OLD rank (nth k s 0) it comes from.
   Pair dissimilarities are stored for b < a only, so the permuted instance reads them through the symmetric completion. Definitions only. *)
From Coq Require Import List Arith ZArith Lia Bool Permutation.
From PGA Require Import Align.Tuples Align.Cover Align.Inst Align.Invar.
Import ListNotations.

Definition sym_dget (I : inst) (x y i j : nat) : Z := if y <? x then dget I x y i j else dget I y x j i.
Definition perm_sizes (s : list nat) (I : inst) : list nat := map (fun k => size I k) s.
Definition perm_dm (s : list nat) (I : inst) : list (list (list (list Z))) :=
  map (fun a => map (fun b =>
         map (fun i => map (fun j => sym_dget I (nth a s 0) (nth b s 0) i j) (seq 0 (size I (nth b s 0))))
             (seq 0 (size I (nth a s 0))))
       (seq 0 a)) (seq 0 (length s)).
Definition perm_inst (s : list nat) (I : inst) : inst := mkInst (perm_sizes s I) (perm_dm s I) (de I).
(* new slot k holds what old slot (nth k s 0) held *)
Definition perm_tuple (s : list nat) (t : tuple) : tuple := map (fun k => nth k t 0) s.
(* symmetric completion of the pair cost of a tuple *)
Definition sym_pair_cost (I : inst) (t : tuple) (x y : nat) : Z := if y <? x then pair_cost I x y t else pair_cost I y x t.
(* inverse permutation: position of k in s *)
Fixpoint index_in (k : nat) (s : list nat) : nat :=
  match s with [] => 0 | x :: r => if x =? k then 0 else S (index_in k r) end.
Definition inv_perm (s : list nat) : list nat := map (fun k => index_in k s) (seq 0 (length s)).
