(* Index-level model of the alignment core (dissimilarity._get_all_valid_alignments,
   numba_utils.build_A, continuum.get_best_alignment / get_best_soft_alignment decoding).
   Annotators in sorted order; units of annotator a are 0..size a - 1 in the continuum's order;
   index [size a] is the empty ("null") unit, exactly as in the library's int16 index tuples.
   Costs are integers (float costs scaled by a common power of two by the harness).
   Definitions only. *)
From Coq Require Import List Arith ZArith Lia Bool.
From PGA Require Import Align.Tuples Align.Cover.
Import ListNotations.

Definition tuple := list nat.

Record inst := mkInst {
  sz : list nat;                          (* units per annotator *)
  dm : list (list (list (list Z)));       (* dm a b i j, b < a : pair dissimilarity of real units *)
  de : Z                                  (* delta_empty *)
}.

Definition nann (I : inst) : nat := length (sz I).
Definition size (I : inst) (a : nat) : nat := nth a (sz I) 0.
Definition nunits (I : inst) : nat := fold_right Nat.add 0 (sz I).
Definition dget (I : inst) (a b i j : nat) : Z :=
  nth j (nth i (nth b (nth a (dm I) []) []) []) 0%Z.

(* precomputation[a][b][i, j] with the delta_empty row and column (dissimilarity.py:211-228) *)
Definition pair_cost (I : inst) (a b : nat) (t : tuple) : Z :=
  let i := nth a t 0 in let j := nth b t 0 in
  if (i =? size I a) || (j =? size I b) then de I else dget I a b i j.

Definition pairs (n : nat) : list (nat * nat) :=
  flat_map (fun a => map (fun b => (a, b)) (seq 0 a)) (seq 0 n).

Definition zsum (l : list Z) : Z := fold_right Z.add 0%Z l.

(* sum over annotator pairs b < a (the inner loop at dissimilarity.py:236-240) *)
Definition ua_sum (I : inst) (t : tuple) : Z :=
  zsum (map (fun ab => pair_cost I (fst ab) (snd ab) t) (pairs (nann I))).

Definition c2n (n : nat) : nat := n * (n - 1) / 2.
(* criterium = c2n * delta_empty * nb_annotators (dissimilarity.py:197) *)
Definition cut (I : inst) : Z := (Z.of_nat (c2n (nann I)) * de I * Z.of_nat (nann I))%Z.
Definition passes (I : inst) (t : tuple) : bool := (ua_sum I t <=? cut I)%Z.

(* the plain specification of the candidate list: filter, then drop the final (all-null) entry *)
Definition candidates (I : inst) : list tuple :=
  removelast (filter (passes I) (all_tuples (map S (sz I)))).

(* ----- faithful buffered version (dissimilarity.py:231-253), parametric in the initial
   capacity c0 and the growth divisor g (10000 and 2 in the code, see gen/ConstGen.v) ----- *)
Record buf := mkBuf { cap : nat; items_rev : list tuple }.   (* fill level = length items_rev *)
Definition buf_push (g : nat) (b : option buf) (t : tuple) : option buf :=
  match b with
  | None => None
  | Some b =>
    if length (items_rev b) <? cap b then                    (* the write is in bounds *)
      let items' := t :: items_rev b in
      if length items' =? cap b
      then Some (mkBuf (cap b + cap b / g) items')           (* grow when full, after the write *)
      else Some (mkBuf (cap b) items')
    else None                                                (* out-of-bounds write *)
  end.
Definition candidates_buf (c0 g : nat) (I : inst) : option (list tuple) :=
  match fold_left (fun b t => if passes I t then buf_push g b t else b)
                  (all_tuples (map S (sz I))) (Some (mkBuf c0 [])) with
  | None => None
  | Some b => let items := rev (items_rev b) in Some (firstn (length items - 1) items)
  end.

(* ----- rows of a tuple: flattened unit numbers, offsets by running sizes (numba_utils.build_A) ----- *)
Fixpoint rows_from (off : nat) (s : list nat) (t : tuple) : list nat :=
  match s, t with
  | sa :: s', i :: t' => (if i =? sa then [] else [off + i]) ++ rows_from (off + sa) s' t'
  | _, _ => []
  end.
Definition rows_of (I : inst) (t : tuple) : list nat := rows_from 0 (sz I) t.
Definition cand_of (I : inst) (t : tuple) : cand := mkCand (ua_sum I t) (rows_of I t).

(* A[r, k] = 1 iff row r belongs to candidate k *)
Definition A_entry (I : inst) (cs : list tuple) (r k : nat) : bool :=
  memb r (rows_of I (nth k cs [])).
Definition A_row_sum (I : inst) (cs : list tuple) (x : list bool) (r : nat) : nat :=
  length (filter (fun k => nth k x false && A_entry I cs r k) (seq 0 (length cs))).
Definition Aeq1 (I : inst) cs x : Prop := forall r, r < nunits I -> A_row_sum I cs x r = 1.
Definition Age1 (I : inst) cs x : Prop := forall r, r < nunits I -> 1 <= A_row_sum I cs x r.
Definition Ale1 (I : inst) cs x : Prop := forall r, r < nunits I -> A_row_sum I cs x r <= 1.
(* chosen candidates: np.where(x.value > 0.9) *)
Definition sel (cs : list tuple) (x : list bool) : list tuple :=
  map (fun k => nth k cs []) (filter (fun k => nth k x false) (seq 0 (length cs))).

(* ----- well-formed tuples, partitions and covers at the (annotator, unit) level ----- *)
Definition wf_tupleb (s : list nat) (t : tuple) : bool :=
  (length t =? length s) &&
  forallb (fun a => nth a t 0 <=? nth a s 0) (seq 0 (length s)) &&
  existsb (fun a => nth a t 0 <? nth a s 0) (seq 0 (length s)).
Definition wf_tuple (s : list nat) (t : tuple) : Prop :=
  length t = length s /\ (forall a, a < length s -> nth a t 0 <= nth a s 0) /\
  (exists a, a < length s /\ nth a t 0 < nth a s 0).

Definition occ (a i : nat) (al : list tuple) : nat :=
  length (filter (fun t => nth a t 0 =? i) al).

Definition partition (s : list nat) (al : list tuple) : Prop :=
  Forall (wf_tuple s) al /\ forall a i, a < length s -> i < nth a s 0 -> occ a i al = 1.
Definition cover (s : list nat) (al : list tuple) : Prop :=
  Forall (wf_tuple s) al /\ forall a i, a < length s -> i < nth a s 0 -> 1 <= occ a i al.

Definition all_units_b (s : list nat) (p : nat -> nat -> bool) : bool :=
  forallb (fun a => forallb (fun i => p a i) (seq 0 (nth a s 0))) (seq 0 (length s)).
Definition is_partitionb (s : list nat) (al : list tuple) : bool :=
  forallb (wf_tupleb s) al && all_units_b s (fun a i => occ a i al =? 1).
Definition is_coverb (s : list nat) (al : list tuple) : bool :=
  forallb (wf_tupleb s) al && all_units_b s (fun a i => 1 <=? occ a i al).

Definition al_sum (I : inst) (al : list tuple) : Z := zsum (map (ua_sum I) al).

(* every real (non all-null) tuple *)
Definition real_tuples (I : inst) : list tuple := removelast (all_tuples (map S (sz I))).

(* verified optimum over a candidate list *)
Definition opt_partition (I : inst) (cs : list tuple) : option (Z * list cand) :=
  search (nunits I) (nunits I) (map (cand_of I) cs) [].
Definition opt_cover (I : inst) (cs : list tuple) : option (Z * list cand) :=
  search_c (nunits I) (nunits I) (map (cand_of I) cs) [].
(* certificate: no partition / cover made of cs costs strictly less than b *)
Definition no_better (part : bool) (I : inst) (cs : list tuple) (b : Z) : bool :=
  let cands := map (cand_of I) cs in
  let tbl := htable cands (nunits I) in
  admissibleb (hlookup tbl) cands (nunits I) &&
  negb (better part (nunits I) (nunits I) (hlookup tbl) cands [] b).

(* ----- merge walk deciding "lib is the candidate list" up to a gray zone around the cut -----
   lib: the library's (tuple, reported sum) list sorted in enumeration order.
   Result: None = accepted; Some k = first enumeration position at which it fails. *)
Fixpoint c07_walk (I : inst) (gray tol : Z) (enum : list tuple) (lib : list (tuple * Z)) (k : nat) : option nat :=
  match enum with
  | [] => match lib with [] => None | _ => Some k end
  | t :: enum' =>
    let s := ua_sum I t in
    let null := match enum' with [] => true | _ => false end in   (* the last tuple is the all-null one *)
    match lib with
    | (t', v) :: lib' =>
      if list_eq_dec Nat.eq_dec t t' then
        if negb null && (s <=? cut I + gray)%Z && (Z.abs (v - s) <=? tol)%Z
        then c07_walk I gray tol enum' lib' (S k) else Some k
      else if null || (cut I - gray <? s)%Z then c07_walk I gray tol enum' lib (S k) else Some k
    | [] => if null || (cut I - gray <? s)%Z then c07_walk I gray tol enum' lib (S k) else Some k
    end
  end.
Definition c07_check (I : inst) (gray tol : Z) (lib : list (tuple * Z)) : option nat :=
  c07_walk I gray tol (all_tuples (map S (sz I))) lib 0.
