(* Optimality of the verified searches at the tuple level (C02 / C11), the budgeted
   certificates, and soundness of the pruning of candidates above the cut (Mathet 2015, 5.1.1). *)
From Coq Require Import List Arith ZArith Lia Bool Permutation.
From PGA Require Import Align.Tuples Align.Cover Align.Inst Align.CoverProofs Align.PartProofs Align.CandProofs.
Import ListNotations.
Local Open Scope nat_scope.

(* ------------------------------------------------------------------ *)
(* sums                                                                *)
(* ------------------------------------------------------------------ *)

Lemma al_sum_nil I : al_sum I [] = 0%Z.
Proof. reflexivity. Qed.

Lemma al_sum_cons I t al : al_sum I (t :: al) = (ua_sum I t + al_sum I al)%Z.
Proof. reflexivity. Qed.

Lemma al_sum_app I l1 l2 : al_sum I (l1 ++ l2) = (al_sum I l1 + al_sum I l2)%Z.
Proof.
  induction l1 as [|t l1 IH]; [rewrite al_sum_nil; reflexivity|].
  change ((t :: l1) ++ l2) with (t :: (l1 ++ l2)). rewrite !al_sum_cons, IH. lia.
Qed.

Lemma total_map_cand I al : total (map (cand_of I) al) = al_sum I al.
Proof.
  induction al as [|t al IH]; [reflexivity|].
  cbn [map]. rewrite total_cons, al_sum_cons, IH. reflexivity.
Qed.

(* ------------------------------------------------------------------ *)
(* well-formed tuples = real tuples                                    *)
(* ------------------------------------------------------------------ *)

Lemma Forall2_le_nth (t s : list nat) :
  Forall2 (fun i s => i <= s) t s <->
  (length t = length s /\ forall a, a < length s -> nth a t 0 <= nth a s 0).
Proof.
  revert t. induction s as [|x s IH]; intros t; split.
  - intros H. inversion H; subst. split; [reflexivity|]. intros a Ha. cbn [length] in Ha. lia.
  - intros [Hl _]. destruct t; [constructor|discriminate].
  - intros H. inversion H as [|i x' t' s' Hi Ht]; subst. apply IH in Ht. destruct Ht as [Hl Hn].
    split; [cbn [length]; lia|]. intros [|a] Ha; cbn [nth]; [exact Hi|]. apply Hn. cbn [length] in Ha. lia.
  - intros [Hl Hn]. destruct t as [|i t]; [discriminate|]. constructor.
    + apply (Hn 0). cbn [length]. lia.
    + apply IH. split; [cbn [length] in Hl; lia|]. intros a Ha. apply (Hn (S a)). cbn [length]. lia.
Qed.

Lemma neq_exists_lt : forall (s t : list nat), length t = length s ->
  (forall a, a < length s -> nth a t 0 <= nth a s 0) -> t <> s ->
  exists a, a < length s /\ nth a t 0 < nth a s 0.
Proof.
  induction s as [|x s IH]; intros t Hl Hn Hne.
  - destruct t; [congruence|discriminate].
  - destruct t as [|i t]; [discriminate|].
    assert (Hi : i <= x) by (apply (Hn 0); cbn [length]; lia).
    destruct (Nat.eq_dec i x) as [->|Hix].
    + destruct (IH t) as (a & Ha & Hlt).
      * cbn [length] in Hl. lia.
      * intros a Ha. apply (Hn (S a)). cbn [length]. lia.
      * intros ->. apply Hne. reflexivity.
      * exists (S a). split; [cbn [length]; lia|exact Hlt].
    + exists 0. split; [cbn [length]; lia|]. cbn [nth]. lia.
Qed.

Lemma wf_tuple_real I t : wf_tuple (sz I) t <-> In t (real_tuples I).
Proof.
  rewrite real_tuples_spec, Forall2_le_nth. unfold wf_tuple. split.
  - intros (Hl & Hn & a & Ha & Hlt). split; [split; assumption|]. intros ->. lia.
  - intros ((Hl & Hn) & Hne). split; [exact Hl|]. split; [exact Hn|].
    apply neq_exists_lt; assumption.
Qed.

Lemma real_tuples_wf I : Forall (wf_tuple (sz I)) (real_tuples I).
Proof. apply Forall_forall. intros t Ht. apply wf_tuple_real. exact Ht. Qed.

Lemma candidates_wf I : (0 <= de I)%Z -> Forall (wf_tuple (sz I)) (candidates I).
Proof.
  intros Hde. rewrite (candidates_eq I Hde). apply Forall_forall. intros t Ht.
  apply filter_In in Ht. destruct Ht as [Ht _]. apply wf_tuple_real. exact Ht.
Qed.

Lemma wf_passes_candidate I t : (0 <= de I)%Z -> wf_tuple (sz I) t -> passes I t = true ->
  In t (candidates I).
Proof.
  intros Hde Hw Hp. rewrite (candidates_eq I Hde). apply filter_In. split; [|exact Hp].
  apply wf_tuple_real. exact Hw.
Qed.

Lemma candidates_incl_real I : (0 <= de I)%Z -> incl (candidates I) (real_tuples I).
Proof.
  intros Hde t Ht. rewrite (candidates_eq I Hde) in Ht. apply filter_In in Ht. exact (proj1 Ht).
Qed.

(* ------------------------------------------------------------------ *)
(* glue between tuple lists and cand lists                             *)
(* ------------------------------------------------------------------ *)

Lemma incl_wf s (al cs : list tuple) : Forall (wf_tuple s) cs -> incl al cs -> Forall (wf_tuple s) al.
Proof.
  intros Hw Hi. rewrite Forall_forall in *. intros t Ht. apply Hw. apply Hi. exact Ht.
Qed.

Lemma map_sub {A B} (f : A -> B) (al cs : list A) :
  incl al cs -> forall c, In c (map f al) -> In c (map f cs).
Proof.
  intros Hi c Hc. apply in_map_iff in Hc. destruct Hc as (t & <- & Ht).
  apply in_map. apply Hi. exact Ht.
Qed.

Lemma sub_map_inv {A B} (f : A -> B) (cs : list A) (l : list B) :
  (forall c, In c l -> In c (map f cs)) -> exists al, l = map f al /\ incl al cs.
Proof.
  induction l as [|c l IH]; intros H.
  - exists []. split; [reflexivity|]. intros x [].
  - destruct IH as (al & El & Hi); [intros c0 H0; apply H; right; exact H0|].
    assert (Hc : In c (map f cs)) by (apply H; left; reflexivity).
    apply in_map_iff in Hc. destruct Hc as (t & Et & Ht).
    exists (t :: al). split; [cbn [map]; rewrite Et, El; reflexivity|].
    intros x [<-|Hx]; [exact Ht|apply Hi; exact Hx].
Qed.

Lemma length_filter_le {A} (p : A -> bool) (l : list A) : length (filter p l) <= length l.
Proof.
  induction l as [|x l IH]; [apply le_n|]. cbn [filter]. destruct (p x); cbn [length]; lia.
Qed.

Lemma unc_count_nil_le N : unc_count N [] <= N.
Proof.
  unfold unc_count, uncovered.
  pose proof (length_filter_le (fun r => negb (memb r [])) (seq 0 N)) as H.
  rewrite seq_length in H. exact H.
Qed.

Lemma cands_rows_nonempty I cs : Forall (wf_tuple (sz I)) cs ->
  forall c, In c (map (cand_of I) cs) -> rows c <> [].
Proof.
  intros Hw c Hc. apply in_map_iff in Hc. destruct Hc as (t & <- & Ht).
  rewrite Forall_forall in Hw. cbn [rows cand_of]. apply rows_of_nonempty. apply Hw. exact Ht.
Qed.

Lemma cands_rows_ok I cs : Forall (wf_tuple (sz I)) cs ->
  forall c, In c (map (cand_of I) cs) -> NoDup (rows c) /\ forall r, In r (rows c) -> r < nunits I.
Proof.
  intros Hw c Hc. apply in_map_iff in Hc. destruct Hc as (t & <- & Ht).
  rewrite Forall_forall in Hw. cbn [rows cand_of]. split.
  - apply rows_of_NoDup. apply Hw. exact Ht.
  - intros r Hr. apply (rows_of_lt I t r (Hw t Ht) Hr).
Qed.

(* ------------------------------------------------------------------ *)
(* C02: exact cover optimum                                            *)
(* ------------------------------------------------------------------ *)

Theorem opt_partition_optimal I cs al :
  Forall (wf_tuple (sz I)) cs -> partition (sz I) al -> incl al cs ->
  exists v l, opt_partition I cs = Some (v, l) /\ (v <= al_sum I al)%Z.
Proof.
  intros Hw Hp Hi. unfold opt_partition. rewrite <- (total_map_cand I al).
  apply search_optimal.
  - apply cands_rows_nonempty. exact Hw.
  - apply unc_count_nil_le.
  - apply map_sub. exact Hi.
  - apply partition_completes; [apply (incl_wf _ al cs Hw Hi)|exact Hp].
Qed.

Theorem opt_partition_sound I cs v l :
  Forall (wf_tuple (sz I)) cs -> opt_partition I cs = Some (v, l) ->
  exists al, incl al cs /\ partition (sz I) al /\ l = map (cand_of I) al /\ v = al_sum I al.
Proof.
  intros Hw H. unfold opt_partition in H.
  apply search_sound in H; [|apply cands_rows_ok; exact Hw].
  destruct H as (Hsub & Hcomp & Hv).
  destruct (sub_map_inv (cand_of I) cs l Hsub) as (al & El & Hi).
  exists al. split; [exact Hi|]. subst l. split; [|split; [reflexivity|]].
  - apply partition_completes; [apply (incl_wf _ al cs Hw Hi)|exact Hcomp].
  - rewrite Hv. apply total_map_cand.
Qed.

(* ------------------------------------------------------------------ *)
(* C11: cover optimum                                                  *)
(* ------------------------------------------------------------------ *)

Definition nonneg_costs (I : inst) (cs : list tuple) : Prop := forall t, In t cs -> (0 <= ua_sum I t)%Z.

Theorem opt_cover_optimal I cs al :
  Forall (wf_tuple (sz I)) cs -> nonneg_costs I cs -> cover (sz I) al -> incl al cs ->
  exists v l, opt_cover I cs = Some (v, l) /\ (v <= al_sum I al)%Z.
Proof.
  intros Hw Hnn Hc Hi. unfold opt_cover. rewrite <- (total_map_cand I al).
  apply search_c_optimal.
  - intros c Hin. apply in_map_iff in Hin. destruct Hin as (t & <- & Ht).
    cbn [cost cand_of]. apply Hnn. exact Ht.
  - apply unc_count_nil_le.
  - apply map_sub. exact Hi.
  - apply cover_covers; [apply (incl_wf _ al cs Hw Hi)|exact Hc].
Qed.

Theorem opt_cover_sound I cs v l :
  Forall (wf_tuple (sz I)) cs -> opt_cover I cs = Some (v, l) ->
  exists al, incl al cs /\ cover (sz I) al /\ l = map (cand_of I) al /\ v = al_sum I al.
Proof.
  intros Hw H. unfold opt_cover in H.
  apply search_c_sound in H. destruct H as (Hsub & Hcov & Hv).
  destruct (sub_map_inv (cand_of I) cs l Hsub) as (al & El & Hi).
  exists al. split; [exact Hi|]. subst l. split; [|split; [reflexivity|]].
  - apply cover_covers; [apply (incl_wf _ al cs Hw Hi)|exact Hcov].
  - rewrite Hv. apply total_map_cand.
Qed.

(* ------------------------------------------------------------------ *)
(* certificates                                                        *)
(* ------------------------------------------------------------------ *)

Theorem no_better_partition I cs b : Forall (wf_tuple (sz I)) cs ->
  no_better true I cs b = true -> forall al, partition (sz I) al -> incl al cs -> (b <= al_sum I al)%Z.
Proof.
  intros Hw H al Hp Hi. unfold no_better in H. cbv zeta in H.
  apply andb_true_iff in H. destruct H as [Hadm Hnb]. apply negb_true_iff in Hnb.
  destruct (Z_lt_le_dec (al_sum I al) b) as [Hlt|Hle]; [|exact Hle].
  rewrite <- (total_map_cand I al) in Hlt.
  rewrite (better_partition_complete (nunits I) (nunits I) _ _ [] b (map (cand_of I) al) Hadm) in Hnb.
  - discriminate.
  - apply map_sub. exact Hi.
  - apply partition_completes; [apply (incl_wf _ al cs Hw Hi)|exact Hp].
  - exact Hlt.
Qed.

Theorem no_better_cover I cs b : Forall (wf_tuple (sz I)) cs ->
  no_better false I cs b = true -> forall al, cover (sz I) al -> incl al cs -> (b <= al_sum I al)%Z.
Proof.
  intros Hw H al Hc Hi. unfold no_better in H. cbv zeta in H.
  apply andb_true_iff in H. destruct H as [Hadm Hnb]. apply negb_true_iff in Hnb.
  destruct (Z_lt_le_dec (al_sum I al) b) as [Hlt|Hle]; [|exact Hle].
  rewrite <- (total_map_cand I al) in Hlt.
  rewrite (better_cover_complete (nunits I) (nunits I) _ _ [] b (map (cand_of I) al) Hadm) in Hnb.
  - discriminate.
  - apply map_sub. exact Hi.
  - apply cover_covers; [apply (incl_wf _ al cs Hw Hi)|exact Hc].
  - exact Hlt.
Qed.

Lemma partition_cover s al : partition s al -> cover s al.
Proof.
  intros [Hw H]. split; [exact Hw|]. intros a i Ha Hi. rewrite (H a i Ha Hi). lia.
Qed.

(* ------------------------------------------------------------------ *)
(* singletons                                                          *)
(* ------------------------------------------------------------------ *)

Definition singleton (I : inst) (a i : nat) : tuple :=
  map (fun b => if b =? a then i else size I b) (seq 0 (nann I)).

Lemma length_singleton I a i : length (singleton I a i) = nann I.
Proof. unfold singleton. rewrite map_length, seq_length. reflexivity. Qed.

Lemma nth_singleton I a i b : b < nann I ->
  nth b (singleton I a i) 0 = if b =? a then i else size I b.
Proof.
  intros Hb. unfold singleton.
  set (f := fun b0 => if b0 =? a then i else size I b0).
  rewrite (nth_indep _ 0 (f 0)) by (rewrite map_length, seq_length; exact Hb).
  rewrite map_nth, seq_nth by exact Hb. reflexivity.
Qed.

Lemma in_pairs n x y : In (x, y) (pairs n) -> y < x /\ x < n.
Proof.
  unfold pairs. intros H. apply in_flat_map in H. destruct H as (a & Ha & H).
  apply in_map_iff in H. destruct H as (b & E & Hb). inversion E; subst.
  apply in_seq in Ha. apply in_seq in Hb. lia.
Qed.

Lemma ua_sum_singleton I a i : a < nann I -> i < size I a ->
  ua_sum I (singleton I a i) = (Z.of_nat (c2n (nann I)) * de I)%Z.
Proof.
  intros Ha Hi. unfold ua_sum. rewrite (zsum_map_const _ _ (de I)).
  - rewrite length_pairs. reflexivity.
  - intros [x y] Hin. apply in_pairs in Hin. destruct Hin as [Hyx Hxn]. cbn [fst snd].
    unfold pair_cost. cbv zeta. rewrite !nth_singleton by lia.
    destruct (Nat.eqb_spec x a) as [Hx|Hx]; destruct (Nat.eqb_spec y a) as [Hy|Hy]; try lia;
      rewrite Nat.eqb_refl, ?orb_true_r; reflexivity.
Qed.

Lemma wf_singleton I a i : a < nann I -> i < size I a -> wf_tuple (sz I) (singleton I a i).
Proof.
  intros Ha Hi. unfold wf_tuple. split; [apply length_singleton|]. split.
  - intros b Hb. rewrite nth_singleton by exact Hb. unfold size in *.
    destruct (Nat.eqb_spec b a) as [->|Hne]; lia.
  - exists a. split; [exact Ha|]. rewrite nth_singleton by exact Ha. rewrite Nat.eqb_refl. exact Hi.
Qed.

Lemma c2n_de_le_cut I : (0 <= de I)%Z -> 1 <= nann I ->
  (Z.of_nat (c2n (nann I)) * de I <= cut I)%Z.
Proof.
  intros Hde Hn. unfold cut.
  assert (H0 : (0 <= Z.of_nat (c2n (nann I)) * de I)%Z) by (apply Z.mul_nonneg_nonneg; lia).
  assert (H1 : (1 <= Z.of_nat (nann I))%Z) by lia. nia.
Qed.

Lemma singleton_candidate I a i : (0 <= de I)%Z -> a < nann I -> i < size I a -> In (singleton I a i) (candidates I).
Proof.
  intros Hde Ha Hi. apply wf_passes_candidate; [exact Hde|apply wf_singleton; assumption|].
  unfold passes. rewrite (ua_sum_singleton I a i Ha Hi). apply Z.leb_le.
  apply c2n_de_le_cut; [exact Hde|lia].
Qed.

(* ------------------------------------------------------------------ *)
(* occurrences                                                         *)
(* ------------------------------------------------------------------ *)

Lemma occ_nil a i : occ a i [] = 0.
Proof. reflexivity. Qed.

Lemma occ_app a i l1 l2 : occ a i (l1 ++ l2) = occ a i l1 + occ a i l2.
Proof. unfold occ. rewrite filter_app, app_length. reflexivity. Qed.

Lemma occ_cons a i t l : occ a i (t :: l) = (if nth a t 0 =? i then 1 else 0) + occ a i l.
Proof. unfold occ. cbn [filter]. destruct (nth a t 0 =? i); reflexivity. Qed.

Lemma count_occ_seq n a : a < n -> count_occ Nat.eq_dec (seq 0 n) a = 1.
Proof.
  intros Ha. apply (proj1 (NoDup_count_occ' Nat.eq_dec (seq 0 n)) (seq_NoDup n 0)).
  apply in_seq. lia.
Qed.

(* ------------------------------------------------------------------ *)
(* pruning                                                             *)
(* ------------------------------------------------------------------ *)

Definition explode_at (I : inst) (t : tuple) (a : nat) : list tuple :=
  if nth a t 0 <? size I a then [singleton I a (nth a t 0)] else [].
Definition explode (I : inst) (t : tuple) : list tuple :=
  flat_map (explode_at I t) (seq 0 (nann I)).
Definition prune (I : inst) (al : list tuple) : list tuple :=
  flat_map (fun t => if passes I t then [t] else explode I t) al.

Lemma occ_explode_at I t a i b : a < nann I -> i < size I a -> b < nann I ->
  occ a i (explode_at I t b) = if (a =? b) && (nth a t 0 =? i) then 1 else 0.
Proof.
  intros Ha Hi Hb. unfold explode_at.
  destruct (Nat.ltb_spec (nth b t 0) (size I b)) as [Hlt|Hge].
  - rewrite occ_cons, occ_nil, nth_singleton by exact Ha.
    destruct (Nat.eqb_spec a b) as [->|Hne]; cbn [andb].
    + destruct (nth b t 0 =? i); reflexivity.
    + destruct (Nat.eqb_spec (size I a) i) as [He|_]; [lia|reflexivity].
  - rewrite occ_nil. destruct (Nat.eqb_spec a b) as [->|Hne]; cbn [andb]; [|reflexivity].
    destruct (Nat.eqb_spec (nth b t 0) i) as [He|_]; [lia|reflexivity].
Qed.

Lemma occ_explode_gen I t a i l : a < nann I -> i < size I a -> (forall b, In b l -> b < nann I) ->
  occ a i (flat_map (explode_at I t) l) =
  if nth a t 0 =? i then count_occ Nat.eq_dec l a else 0.
Proof.
  intros Ha Hi. induction l as [|b l IH]; intros Hl.
  - cbn [flat_map count_occ]. rewrite occ_nil. destruct (nth a t 0 =? i); reflexivity.
  - cbn [flat_map]. rewrite occ_app, IH by (intros b0 H0; apply Hl; right; exact H0).
    rewrite (occ_explode_at I t a i b Ha Hi) by (apply Hl; left; reflexivity).
    cbn [count_occ]. destruct (Nat.eq_dec b a) as [->|Hne].
    + rewrite Nat.eqb_refl. cbn [andb]. destruct (nth a t 0 =? i); reflexivity.
    + destruct (Nat.eqb_spec a b) as [->|_]; [congruence|]. cbn [andb]. reflexivity.
Qed.

Lemma occ_explode I t a i : a < nann I -> i < size I a ->
  occ a i (explode I t) = if nth a t 0 =? i then 1 else 0.
Proof.
  intros Ha Hi. unfold explode. rewrite (occ_explode_gen I t a i _ Ha Hi).
  - rewrite (count_occ_seq _ _ Ha). reflexivity.
  - intros b Hb. apply in_seq in Hb. lia.
Qed.

Lemma occ_prune I al a i : a < nann I -> i < size I a -> occ a i (prune I al) = occ a i al.
Proof.
  intros Ha Hi. induction al as [|t al IH]; [reflexivity|].
  unfold prune in *. cbn [flat_map]. rewrite occ_app, IH, occ_cons. f_equal.
  destruct (passes I t).
  - rewrite occ_cons, occ_nil. lia.
  - apply occ_explode; assumption.
Qed.

Lemma al_sum_explode_gen I t l : (0 <= de I)%Z -> (forall b, In b l -> b < nann I) ->
  (al_sum I (flat_map (explode_at I t) l) <= Z.of_nat (length l) * (Z.of_nat (c2n (nann I)) * de I))%Z.
Proof.
  intros Hde. induction l as [|b l IH]; intros Hl.
  - cbn [flat_map length]. rewrite al_sum_nil. lia.
  - cbn [flat_map]. rewrite al_sum_app.
    assert (IH' := IH (fun b0 H0 => Hl b0 (or_intror H0))).
    assert (Hb : b < nann I) by (apply Hl; left; reflexivity).
    assert (H0 : (0 <= Z.of_nat (c2n (nann I)) * de I)%Z) by (apply Z.mul_nonneg_nonneg; lia).
    change (length (b :: l)) with (S (length l)). rewrite Nat2Z.inj_succ.
    unfold explode_at at 1. destruct (Nat.ltb_spec (nth b t 0) (size I b)) as [Hlt|Hge].
    + rewrite al_sum_cons, al_sum_nil, (ua_sum_singleton I b _ Hb Hlt). lia.
    + rewrite al_sum_nil. lia.
Qed.

Lemma al_sum_explode I t : (0 <= de I)%Z -> (al_sum I (explode I t) <= cut I)%Z.
Proof.
  intros Hde. unfold explode.
  pose proof (al_sum_explode_gen I t (seq 0 (nann I)) Hde) as H.
  rewrite seq_length in H.
  replace (cut I) with (Z.of_nat (nann I) * (Z.of_nat (c2n (nann I)) * de I))%Z by (unfold cut; ring).
  apply H. intros b Hb. apply in_seq in Hb. lia.
Qed.

Lemma al_sum_prune I al : (0 <= de I)%Z -> (al_sum I (prune I al) <= al_sum I al)%Z.
Proof.
  intros Hde. induction al as [|t al IH]; [cbn [prune flat_map]; lia|].
  unfold prune in *. cbn [flat_map]. rewrite al_sum_app, al_sum_cons.
  destruct (passes I t) eqn:E.
  - rewrite al_sum_cons, al_sum_nil. lia.
  - unfold passes in E. apply Z.leb_gt in E. pose proof (al_sum_explode I t Hde). lia.
Qed.

Lemma explode_candidates I t : (0 <= de I)%Z -> incl (explode I t) (candidates I).
Proof.
  intros Hde t' Ht'. unfold explode in Ht'. apply in_flat_map in Ht'.
  destruct Ht' as (b & Hb & Hin). apply in_seq in Hb. unfold explode_at in Hin.
  destruct (Nat.ltb_spec (nth b t 0) (size I b)) as [Hlt|Hge]; [|destruct Hin].
  destruct Hin as [<-|[]]. apply singleton_candidate; [exact Hde|lia|exact Hlt].
Qed.

Lemma prune_candidates I al : (0 <= de I)%Z -> Forall (wf_tuple (sz I)) al ->
  incl (prune I al) (candidates I).
Proof.
  intros Hde Hw t' Ht'. unfold prune in Ht'. apply in_flat_map in Ht'.
  destruct Ht' as (t & Ht & Hin). rewrite Forall_forall in Hw.
  destruct (passes I t) eqn:E.
  - destruct Hin as [<-|[]]. apply wf_passes_candidate; [exact Hde|apply Hw; exact Ht|exact E].
  - apply (explode_candidates I t Hde). exact Hin.
Qed.

Theorem pruning_sound I al : (0 <= de I)%Z -> partition (sz I) al ->
  exists al', partition (sz I) al' /\ incl al' (candidates I) /\ (al_sum I al' <= al_sum I al)%Z.
Proof.
  intros Hde [Hw Hocc]. exists (prune I al).
  pose proof (prune_candidates I al Hde Hw) as Hi.
  split; [|split; [exact Hi|apply al_sum_prune; exact Hde]].
  split; [apply (incl_wf _ _ _ (candidates_wf I Hde) Hi)|].
  intros a i Ha Hi'. rewrite (occ_prune I al a i Ha Hi'). apply Hocc; assumption.
Qed.

Theorem pruning_sound_cover I al : (0 <= de I)%Z -> cover (sz I) al ->
  exists al', cover (sz I) al' /\ incl al' (candidates I) /\ (al_sum I al' <= al_sum I al)%Z.
Proof.
  intros Hde [Hw Hocc]. exists (prune I al).
  pose proof (prune_candidates I al Hde Hw) as Hi.
  split; [|split; [exact Hi|apply al_sum_prune; exact Hde]].
  split; [apply (incl_wf _ _ _ (candidates_wf I Hde) Hi)|].
  intros a i Ha Hi'. rewrite (occ_prune I al a i Ha Hi'). apply Hocc; assumption.
Qed.

(* ------------------------------------------------------------------ *)
(* feasibility: the all-singletons partition                           *)
(* ------------------------------------------------------------------ *)

Definition singles_of (I : inst) (a : nat) : list tuple := map (singleton I a) (seq 0 (size I a)).
Definition all_singles (I : inst) : list tuple := flat_map (singles_of I) (seq 0 (nann I)).

Lemma occ_map_singleton I a i b js : a < nann I -> i < size I a ->
  occ a i (map (singleton I b) js) = if a =? b then count_occ Nat.eq_dec js i else 0.
Proof.
  intros Ha Hi. induction js as [|j js IH].
  - cbn [map count_occ]. rewrite occ_nil. destruct (a =? b); reflexivity.
  - cbn [map]. rewrite occ_cons, IH, nth_singleton by exact Ha. cbn [count_occ].
    destruct (Nat.eqb_spec a b) as [->|Hne].
    + destruct (Nat.eq_dec j i) as [->|Hji].
      * rewrite Nat.eqb_refl. reflexivity.
      * destruct (Nat.eqb_spec j i) as [He|_]; [congruence|reflexivity].
    + destruct (Nat.eqb_spec (size I a) i) as [He|_]; [lia|reflexivity].
Qed.

Lemma occ_singles_gen I a i l : a < nann I -> i < size I a ->
  occ a i (flat_map (singles_of I) l) = count_occ Nat.eq_dec l a.
Proof.
  intros Ha Hi. induction l as [|b l IH]; [reflexivity|].
  cbn [flat_map]. rewrite occ_app, IH. unfold singles_of at 1.
  rewrite (occ_map_singleton I a i b _ Ha Hi). cbn [count_occ].
  destruct (Nat.eq_dec b a) as [->|Hne].
  - rewrite Nat.eqb_refl, (count_occ_seq _ _ Hi). reflexivity.
  - destruct (Nat.eqb_spec a b) as [->|_]; [congruence|reflexivity].
Qed.

Lemma all_singles_candidates I : (0 <= de I)%Z -> incl (all_singles I) (candidates I).
Proof.
  intros Hde t Ht. unfold all_singles in Ht. apply in_flat_map in Ht.
  destruct Ht as (a & Ha & Hin). apply in_seq in Ha. unfold singles_of in Hin.
  apply in_map_iff in Hin. destruct Hin as (i & <- & Hi). apply in_seq in Hi.
  apply singleton_candidate; [exact Hde|lia|lia].
Qed.

Theorem feasible I : (0 <= de I)%Z -> exists al, incl al (candidates I) /\ partition (sz I) al.
Proof.
  intros Hde. exists (all_singles I).
  pose proof (all_singles_candidates I Hde) as Hi. split; [exact Hi|].
  split; [apply (incl_wf _ _ _ (candidates_wf I Hde) Hi)|].
  intros a i Ha Hi'. unfold all_singles. rewrite (occ_singles_gen I a i _ Ha Hi').
  apply count_occ_seq. exact Ha.
Qed.

(* ------------------------------------------------------------------ *)
(* headlines                                                           *)
(* ------------------------------------------------------------------ *)

Theorem C02_certificate I b : (0 <= de I)%Z ->
  no_better true I (candidates I) b = true ->
  forall al, partition (sz I) al -> (b <= al_sum I al)%Z.
Proof.
  intros Hde Hnb al Hp.
  destruct (pruning_sound I al Hde Hp) as (al' & Hp' & Hi & Hle).
  pose proof (no_better_partition I (candidates I) b (candidates_wf I Hde) Hnb al' Hp' Hi). lia.
Qed.

Theorem C11_certificate I b : (0 <= de I)%Z ->
  no_better false I (candidates I) b = true ->
  forall al, cover (sz I) al -> (b <= al_sum I al)%Z.
Proof.
  intros Hde Hnb al Hc.
  destruct (pruning_sound_cover I al Hde Hc) as (al' & Hc' & Hi & Hle).
  pose proof (no_better_cover I (candidates I) b (candidates_wf I Hde) Hnb al' Hc' Hi). lia.
Qed.

Theorem opt_pruned_eq_opt_all I v l v' l' : (0 <= de I)%Z ->
  opt_partition I (candidates I) = Some (v, l) -> opt_partition I (real_tuples I) = Some (v', l') -> v = v'.
Proof.
  intros Hde Hc Hr.
  pose proof (candidates_wf I Hde) as Hwc. pose proof (real_tuples_wf I) as Hwr.
  assert (H1 : (v <= v')%Z).
  { destruct (opt_partition_sound I _ v' l' Hwr Hr) as (al & _ & Hp & _ & ->).
    destruct (pruning_sound I al Hde Hp) as (al' & Hp' & Hi' & Hle).
    destruct (opt_partition_optimal I _ al' Hwc Hp' Hi') as (v0 & l0 & E & Hv0).
    rewrite Hc in E. inversion E; subst. lia. }
  assert (H2 : (v' <= v)%Z).
  { destruct (opt_partition_sound I _ v l Hwc Hc) as (al & Hi & Hp & _ & ->).
    assert (Hi' : incl al (real_tuples I)).
    { intros t Ht. apply (candidates_incl_real I Hde). apply Hi. exact Ht. }
    destruct (opt_partition_optimal I _ al Hwr Hp Hi') as (v0 & l0 & E & Hv0).
    rewrite Hr in E. inversion E; subst. lia. }
  lia.
Qed.

Print Assumptions total_map_cand.
Print Assumptions wf_tuple_real.
Print Assumptions candidates_wf.
Print Assumptions opt_partition_optimal.
Print Assumptions opt_partition_sound.
Print Assumptions opt_cover_optimal.
Print Assumptions opt_cover_sound.
Print Assumptions no_better_partition.
Print Assumptions no_better_cover.
Print Assumptions partition_cover.
Print Assumptions ua_sum_singleton.
Print Assumptions singleton_candidate.
Print Assumptions pruning_sound.
Print Assumptions pruning_sound_cover.
Print Assumptions feasible.
Print Assumptions C02_certificate.
Print Assumptions C11_certificate.
Print Assumptions opt_pruned_eq_opt_all.
