(* Proofs about the candidate enumeration of the alignment core:
   the plain specification [candidates], its buffered implementation [candidates_buf]
   and the merge walk [c07_check] comparing the library's output with the model. *)
From Coq Require Import List Arith ZArith Lia Bool Permutation.
From PGA Require Import Align.Tuples Align.Cover Align.Inst.
Import ListNotations.

(* ------------------------------------------------------------------ *)
(* list glue                                                           *)
(* ------------------------------------------------------------------ *)

Lemma firstn_removelast {A} (l : list A) : firstn (length l - 1) l = removelast l.
Proof.
  induction l as [|a l IH]; [reflexivity|].
  destruct l as [|b l]; [reflexivity|].
  replace (length (a :: b :: l) - 1) with (S (length (b :: l) - 1)) by (cbn [length]; lia).
  rewrite firstn_cons, IH. reflexivity.
Qed.

Lemma In_removelast {A} (x : A) (l : list A) : In x (removelast l) -> In x l.
Proof.
  induction l as [|a l IH]; intros H; [exact H|].
  destruct l as [|b l]; [contradiction|].
  change (removelast (a :: b :: l)) with (a :: removelast (b :: l)) in H.
  destruct H as [H|H]; [left; exact H|right; apply IH; exact H].
Qed.

(* ------------------------------------------------------------------ *)
(* the all-null tuple                                                  *)
(* ------------------------------------------------------------------ *)

Lemma zsum_map_const {A} (l : list A) (f : A -> Z) (c : Z) :
  (forall x, In x l -> f x = c) -> zsum (map f l) = (Z.of_nat (length l) * c)%Z.
Proof.
  unfold zsum. induction l as [|x l IH]; intros Hc; [reflexivity|].
  cbn [map fold_right length]. rewrite Nat2Z.inj_succ.
  rewrite IH by (intros y Hy; apply Hc; right; exact Hy).
  rewrite (Hc x) by (left; reflexivity). ring.
Qed.

Lemma pairs_S n : pairs (S n) = pairs n ++ map (fun b => (n, b)) (seq 0 n).
Proof.
  unfold pairs. rewrite seq_S, flat_map_app. cbn [flat_map Nat.add]. rewrite app_nil_r. reflexivity.
Qed.

Lemma length_pairs2 n : 2 * length (pairs n) = n * (n - 1).
Proof.
  induction n as [|n IH]; [reflexivity|].
  rewrite pairs_S, app_length, map_length, seq_length.
  replace (S n - 1) with n by lia.
  destruct n as [|m]; [reflexivity|].
  replace (S m - 1) with m in IH by lia. nia.
Qed.

Lemma length_pairs n : length (pairs n) = c2n n.
Proof.
  unfold c2n. rewrite <- length_pairs2. rewrite Nat.mul_comm. symmetry. apply Nat.div_mul. lia.
Qed.

Lemma pair_cost_all_null I a b : pair_cost I a b (sz I) = de I.
Proof. unfold pair_cost, size. rewrite Nat.eqb_refl. reflexivity. Qed.

Lemma ua_sum_all_null I : ua_sum I (sz I) = (Z.of_nat (c2n (nann I)) * de I)%Z.
Proof.
  unfold ua_sum. rewrite (zsum_map_const _ _ (de I)).
  - rewrite length_pairs. reflexivity.
  - intros [a b] _. apply pair_cost_all_null.
Qed.

Lemma passes_all_null I : (0 <= de I)%Z -> passes I (sz I) = true.
Proof.
  intros Hde. unfold passes. rewrite ua_sum_all_null. apply Z.leb_le. unfold cut.
  destruct (nann I) as [|n].
  - change (c2n 0) with 0. lia.
  - pose proof (Nat2Z.is_nonneg (c2n (S n))) as H1.
    pose proof (Nat2Z.is_nonneg n) as H2. rewrite Nat2Z.inj_succ. nia.
Qed.

(* ------------------------------------------------------------------ *)
(* the enumeration: real tuples followed by the all-null tuple          *)
(* ------------------------------------------------------------------ *)

Lemma Forall2_lt_S (t s : list nat) :
  Forall2 lt t (map S s) <-> Forall2 (fun i s => i <= s) t s.
Proof.
  revert t. induction s as [|x s IH]; intros t; cbn [map]; split; intros H;
    inversion H; subst; constructor; try lia; apply IH; assumption.
Qed.

Lemma all_tuples_S_nonempty (sizes : list nat) : all_tuples (map S sizes) <> [].
Proof.
  apply all_tuples_nonempty. apply Forall_forall. intros s Hs.
  apply in_map_iff in Hs. destruct Hs as (x & <- & _). lia.
Qed.

Lemma all_split I : all_tuples (map S (sz I)) = real_tuples I ++ [sz I].
Proof.
  unfold real_tuples.
  pose proof (@app_removelast_last _ (all_tuples (map S (sz I))) [] (all_tuples_S_nonempty (sz I))) as E.
  rewrite all_tuples_S_last in E. exact E.
Qed.

Lemma real_tuples_NoDup I : NoDup (real_tuples I).
Proof.
  pose proof (all_tuples_NoDup (map S (sz I))) as ND. rewrite all_split in ND.
  apply NoDup_remove_1 in ND. rewrite app_nil_r in ND. exact ND.
Qed.

Lemma real_tuples_in I t :
  In t (real_tuples I) <-> In t (all_tuples (map S (sz I))) /\ t <> sz I.
Proof.
  pose proof (all_tuples_NoDup (map S (sz I))) as ND. rewrite all_split in ND.
  apply NoDup_remove_2 in ND. rewrite app_nil_r in ND.
  rewrite all_split. split.
  - intros H. split; [apply in_or_app; left; exact H|]. intros ->. contradiction.
  - intros [H Hne]. apply in_app_or in H. destruct H as [H|[H|[]]]; [exact H|]. congruence.
Qed.

Lemma real_tuples_spec I t :
  In t (real_tuples I) <-> (Forall2 (fun i s => i <= s) t (sz I) /\ t <> sz I).
Proof. rewrite real_tuples_in, all_tuples_complete, Forall2_lt_S. reflexivity. Qed.

(* ------------------------------------------------------------------ *)
(* specification of the candidate list                                  *)
(* ------------------------------------------------------------------ *)

Lemma candidates_eq I : (0 <= de I)%Z -> candidates I = filter (passes I) (real_tuples I).
Proof.
  intros Hde. unfold candidates. rewrite all_split, filter_app. cbn [filter].
  rewrite (passes_all_null I Hde). apply removelast_last.
Qed.

Theorem candidates_spec I : (0 <= de I)%Z ->
  NoDup (candidates I) /\
  forall t, In t (candidates I) <->
    (Forall2 (fun i s => i <= s) t (sz I) /\ t <> sz I /\ (ua_sum I t <= cut I)%Z).
Proof.
  intros Hde. rewrite (candidates_eq I Hde). split.
  - apply NoDup_filter. apply real_tuples_NoDup.
  - intros t. rewrite filter_In, real_tuples_spec. unfold passes. rewrite Z.leb_le. tauto.
Qed.

(* ------------------------------------------------------------------ *)
(* the buffered computation                                             *)
(* ------------------------------------------------------------------ *)

Lemma buf_push_ok c0 g (b : buf) (t : tuple) : 1 <= g -> 1 <= c0 / g ->
  length (items_rev b) < cap b -> c0 <= cap b ->
  exists b', buf_push g (Some b) t = Some b' /\ items_rev b' = t :: items_rev b /\
             length (items_rev b') < cap b' /\ c0 <= cap b'.
Proof.
  intros Hg Hc Hlt Hcap. unfold buf_push.
  destruct (Nat.ltb_spec (length (items_rev b)) (cap b)) as [_|Hge]; [|lia].
  assert (Hdiv : c0 / g <= cap b / g) by (apply Nat.div_le_mono; lia).
  destruct (Nat.eqb_spec (length (t :: items_rev b)) (cap b)) as [Heq|Hneq];
    eexists; (split; [reflexivity|]); cbn [items_rev cap length] in *;
    (split; [reflexivity|]); split; lia.
Qed.

Lemma fold_buf c0 g I : 1 <= g -> 1 <= c0 / g ->
  forall l b, length (items_rev b) < cap b -> c0 <= cap b ->
  exists b', fold_left (fun b t => if passes I t then buf_push g b t else b) l (Some b) = Some b' /\
             items_rev b' = rev (filter (passes I) l) ++ items_rev b /\
             length (items_rev b') < cap b' /\ c0 <= cap b'.
Proof.
  intros Hg Hc. induction l as [|t l IH]; intros b Hlt Hcap.
  - exists b. cbn [fold_left filter rev app]. auto.
  - cbn [fold_left filter]. destruct (passes I t) eqn:P.
    + destruct (buf_push_ok c0 g b t Hg Hc Hlt Hcap) as (b1 & E1 & Hi1 & Hlt1 & Hcap1).
      rewrite E1. destruct (IH b1 Hlt1 Hcap1) as (b' & E & Hi & Hlt' & Hcap').
      exists b'. split; [exact E|]. split; [|split; assumption].
      rewrite Hi, Hi1. cbn [rev]. rewrite <- app_assoc. reflexivity.
    + apply IH; assumption.
Qed.

Theorem candidates_buf_eq c0 g I : 1 <= g -> 1 <= c0 / g ->
  candidates_buf c0 g I = Some (candidates I).
Proof.
  intros Hg Hc.
  assert (Hc0 : 1 <= c0).
  { destruct c0 as [|c]; [|lia]. rewrite Nat.div_0_l in Hc by lia. lia. }
  unfold candidates_buf.
  destruct (fold_buf c0 g I Hg Hc (all_tuples (map S (sz I))) (mkBuf c0 [])) as (b' & E & Hi & _).
  - cbn [items_rev cap length]. lia.
  - cbn [cap]. lia.
  - rewrite E. cbv zeta. rewrite Hi. cbn [items_rev]. rewrite app_nil_r, rev_involutive.
    rewrite firstn_removelast. reflexivity.
Qed.

(* ------------------------------------------------------------------ *)
(* the merge walk                                                       *)
(* ------------------------------------------------------------------ *)

Lemma c07_walk_cons I gray tol t enum' lib k :
  c07_walk I gray tol (t :: enum') lib k =
    let s := ua_sum I t in
    let null := match enum' with [] => true | _ => false end in
    match lib with
    | (t', v) :: lib' =>
      if list_eq_dec Nat.eq_dec t t' then
        if negb null && (s <=? cut I + gray)%Z && (Z.abs (v - s) <=? tol)%Z
        then c07_walk I gray tol enum' lib' (S k) else Some k
      else if null || (cut I - gray <? s)%Z then c07_walk I gray tol enum' lib (S k) else Some k
    | [] => if null || (cut I - gray <? s)%Z then c07_walk I gray tol enum' lib (S k) else Some k
    end.
Proof. reflexivity. Qed.

Section Walk.
Variables (I : inst) (gray tol : Z).

Definition walk_ok (E : list tuple) (lib : list (tuple * Z)) : Prop :=
  NoDup (map fst lib) /\
  (forall t v, In (t, v) lib ->
     In t E /\ (ua_sum I t <= cut I + gray)%Z /\ (Z.abs (v - ua_sum I t) <= tol)%Z) /\
  (forall t, In t E -> (ua_sum I t <= cut I - gray)%Z -> In t (map fst lib)).

Lemma walk_ok_nil : walk_ok [] [].
Proof.
  split; [constructor|]. split; [intros t v []|intros t []].
Qed.

Lemma walk_ok_skip t E lib :
  walk_ok E lib -> (cut I - gray < ua_sum I t)%Z -> walk_ok (t :: E) lib.
Proof.
  intros (Hnd & Hin & Hcov) Hs. split; [exact Hnd|]. split.
  - intros t0 v0 H0. destruct (Hin _ _ H0) as (H1 & H2 & H3).
    split; [right; exact H1|split; assumption].
  - intros t0 [<-|H0] Hs0; [lia|apply Hcov; assumption].
Qed.

Lemma walk_ok_take t v E lib :
  walk_ok E lib -> ~ In t E ->
  (ua_sum I t <= cut I + gray)%Z -> (Z.abs (v - ua_sum I t) <= tol)%Z ->
  walk_ok (t :: E) ((t, v) :: lib).
Proof.
  intros (Hnd & Hin & Hcov) Hni Hs Hv. split; [|split].
  - cbn [map fst]. constructor; [|exact Hnd]. intro Hi. apply in_map_iff in Hi.
    destruct Hi as ([t0 v0] & Heq & Hi0). cbn [fst] in Heq. subst t0.
    destruct (Hin _ _ Hi0) as (H1 & _). contradiction.
  - intros t0 v0 [Heq|H0].
    + inversion Heq; subst. split; [left; reflexivity|split; assumption].
    + destruct (Hin _ _ H0) as (H1 & H2 & H3). split; [right; exact H1|split; assumption].
  - intros t0 [<-|H0] Hs0; cbn [map fst]; [left; reflexivity|right; apply Hcov; assumption].
Qed.

Lemma walk_sound : forall enum lib k, NoDup enum ->
  c07_walk I gray tol enum lib k = None -> walk_ok (removelast enum) lib.
Proof.
  induction enum as [|t enum' IH]; intros lib k Hnd Hw.
  - cbn [c07_walk] in Hw. destruct lib; [|discriminate]. apply walk_ok_nil.
  - inversion Hnd as [|? ? Hnotin Hnd']; subst.
    rewrite c07_walk_cons in Hw. cbv zeta in Hw.
    destruct enum' as [|t2 e2].
    + (* t is the final (all-null) entry *)
      cbn [removelast].
      destruct lib as [|[t' v] lib']; [apply walk_ok_nil|].
      destruct (list_eq_dec Nat.eq_dec t t') as [<-|Hne].
      * cbn [negb andb] in Hw. discriminate.
      * cbn [orb c07_walk] in Hw. discriminate.
    + change (removelast (t :: t2 :: e2)) with (t :: removelast (t2 :: e2)).
      assert (HnE : ~ In t (removelast (t2 :: e2))).
      { intro Hi. apply Hnotin. apply In_removelast. exact Hi. }
      cbn [negb andb orb] in Hw.
      destruct lib as [|[t' v] lib'].
      * match type of Hw with (if ?c then _ else _) = _ => destruct c eqn:Hc end; [|discriminate].
        apply Z.ltb_lt in Hc. apply walk_ok_skip; [|exact Hc]. exact (IH _ _ Hnd' Hw).
      * destruct (list_eq_dec Nat.eq_dec t t') as [<-|Hne].
        -- match type of Hw with (if ?c then _ else _) = _ => destruct c eqn:Hc end; [|discriminate].
           apply andb_true_iff in Hc. destruct Hc as [Hc1 Hc2].
           apply Z.leb_le in Hc1. apply Z.leb_le in Hc2.
           apply walk_ok_take; [|exact HnE|exact Hc1|exact Hc2]. exact (IH _ _ Hnd' Hw).
        -- match type of Hw with (if ?c then _ else _) = _ => destruct c eqn:Hc end; [|discriminate].
           apply Z.ltb_lt in Hc. apply walk_ok_skip; [|exact Hc]. exact (IH _ _ Hnd' Hw).
Qed.

End Walk.

Theorem c07_check_sound I gray tol lib : (0 <= gray)%Z -> c07_check I gray tol lib = None ->
  NoDup (map fst lib) /\
  (forall t v, In (t, v) lib -> In t (real_tuples I) /\ (ua_sum I t <= cut I + gray)%Z /\ (Z.abs (v - ua_sum I t) <= tol)%Z) /\
  (forall t, In t (real_tuples I) -> (ua_sum I t <= cut I - gray)%Z -> In t (map fst lib)).
Proof.
  intros _ Hw. unfold c07_check in Hw.
  apply walk_sound in Hw; [|apply all_tuples_NoDup]. exact Hw.
Qed.

(* exact version: empty gray zone, zero tolerance *)
Lemma walk_exact I : forall enum lib k,
  c07_walk I 0 0 enum lib k = None ->
  lib = map (fun t => (t, ua_sum I t)) (filter (passes I) (removelast enum)).
Proof.
  induction enum as [|t enum' IH]; intros lib k Hw.
  - cbn [c07_walk] in Hw. destruct lib; [reflexivity|discriminate].
  - rewrite c07_walk_cons in Hw. cbv zeta in Hw.
    destruct enum' as [|t2 e2].
    + cbn [removelast filter map].
      destruct lib as [|[t' v] lib']; [reflexivity|].
      destruct (list_eq_dec Nat.eq_dec t t') as [<-|Hne].
      * cbn [negb andb] in Hw. discriminate.
      * cbn [orb c07_walk] in Hw. discriminate.
    + change (removelast (t :: t2 :: e2)) with (t :: removelast (t2 :: e2)).
      cbn [negb andb orb] in Hw. cbn [filter]. unfold passes at 1.
      destruct lib as [|[t' v] lib'].
      * match type of Hw with (if ?c then _ else _) = _ => destruct c eqn:Hc end; [|discriminate].
        apply Z.ltb_lt in Hc.
        destruct (Z.leb_spec (ua_sum I t) (cut I)) as [Hle|_]; [lia|].
        exact (IH _ _ Hw).
      * destruct (list_eq_dec Nat.eq_dec t t') as [<-|Hne].
        -- match type of Hw with (if ?c then _ else _) = _ => destruct c eqn:Hc end; [|discriminate].
           apply andb_true_iff in Hc. destruct Hc as [Hc1 Hc2].
           apply Z.leb_le in Hc1. apply Z.leb_le in Hc2.
           destruct (Z.leb_spec (ua_sum I t) (cut I)) as [_|Hgt]; [|lia].
           cbn [map]. f_equal; [f_equal; lia|]. exact (IH _ _ Hw).
        -- match type of Hw with (if ?c then _ else _) = _ => destruct c eqn:Hc end; [|discriminate].
           apply Z.ltb_lt in Hc.
           destruct (Z.leb_spec (ua_sum I t) (cut I)) as [Hle|_]; [lia|].
           exact (IH _ _ Hw).
Qed.

Corollary c07_check_exact I lib : (0 <= de I)%Z -> c07_check I 0 0 lib = None ->
  lib = map (fun t => (t, ua_sum I t)) (candidates I).
Proof.
  intros Hde Hw. unfold c07_check in Hw. apply walk_exact in Hw.
  rewrite (candidates_eq I Hde). exact Hw.
Qed.

Print Assumptions candidates_spec.
Print Assumptions candidates_buf_eq.
Print Assumptions c07_check_sound.
Print Assumptions c07_check_exact.
