(* Proofs about the (annotator, unit) level notions of Inst.v: reflection of the boolean
   checkers, the flattening bijection used by build_A, and the bridge between partition /
   cover of index tuples, the flattened exact-cover notions of Cover.v and the 0/1 program
   A @ x == 1 (>= 1). *)
From Coq Require Import List Arith ZArith Lia Bool Permutation.
From PGA Require Import Align.Tuples Align.Cover Align.Inst.
Import ListNotations.

(* ---------- small generic helpers ---------- *)
Lemma memb_In r l : memb r l = true <-> In r l.
Proof.
  unfold memb. rewrite existsb_exists. split.
  - intros [y [Hy He]]. apply Nat.eqb_eq in He. subst y. exact Hy.
  - intros Hin. exists r. split; [exact Hin | apply Nat.eqb_refl].
Qed.

Lemma bool_eq_iff (b c : bool) : (b = true <-> c = true) -> b = c.
Proof.
  intros [H1 H2]. destruct b, c; try reflexivity.
  - symmetry. apply H1. reflexivity.
  - apply H2. reflexivity.
Qed.

Lemma length_filter_map {A B} (p : B -> bool) (f : A -> B) (l : list A) :
  length (filter p (map f l)) = length (filter (fun k => p (f k)) l).
Proof.
  induction l as [|k l IH]; simpl; [reflexivity|].
  destruct (p (f k)); simpl; rewrite IH; reflexivity.
Qed.

Lemma filter_filter {A} (p q : A -> bool) (l : list A) :
  filter p (filter q l) = filter (fun k => q k && p k) l.
Proof.
  induction l as [|k l IH]; simpl; [reflexivity|].
  destruct (q k); simpl; [destruct (p k)|]; rewrite IH; reflexivity.
Qed.

(* ---------- reflection of the checkers ---------- *)
Lemma wf_tupleb_spec s t : wf_tupleb s t = true <-> wf_tuple s t.
Proof.
  unfold wf_tupleb, wf_tuple.
  rewrite !andb_true_iff, Nat.eqb_eq, forallb_forall, existsb_exists.
  split.
  - intros [[Hl Hf] [a [Ha Hlt]]]. split; [exact Hl|]. split.
    + intros b Hb. apply Nat.leb_le. apply Hf. apply in_seq. lia.
    + exists a. apply in_seq in Ha. apply Nat.ltb_lt in Hlt. split; [lia | exact Hlt].
  - intros [Hl [Hf [a [Ha Hlt]]]]. split; [split; [exact Hl|]|].
    + intros b Hb. apply in_seq in Hb. apply Nat.leb_le. apply Hf. lia.
    + exists a. split; [apply in_seq; lia | apply Nat.ltb_lt; exact Hlt].
Qed.

Lemma all_units_b_spec s p :
  all_units_b s p = true <-> forall a i, a < length s -> i < nth a s 0 -> p a i = true.
Proof.
  unfold all_units_b. rewrite forallb_forall. split.
  - intros H a i Ha Hi.
    assert (Hin : In a (seq 0 (length s))) by (apply in_seq; lia).
    specialize (H a Hin). rewrite forallb_forall in H. apply H. apply in_seq. lia.
  - intros H a Ha. apply in_seq in Ha. apply forallb_forall. intros i Hi.
    apply in_seq in Hi. apply H; lia.
Qed.

Lemma forallb_wf_spec s al : forallb (wf_tupleb s) al = true <-> Forall (wf_tuple s) al.
Proof.
  rewrite forallb_forall, Forall_forall. split.
  - intros H t Ht. apply wf_tupleb_spec. apply H. exact Ht.
  - intros H t Ht. apply wf_tupleb_spec. apply H. exact Ht.
Qed.

Theorem is_partitionb_spec s al : is_partitionb s al = true <-> partition s al.
Proof.
  unfold is_partitionb, partition.
  rewrite andb_true_iff, forallb_wf_spec, all_units_b_spec. split.
  - intros [Hw H]. split; [exact Hw|]. intros a i Ha Hi. apply Nat.eqb_eq. apply H; assumption.
  - intros [Hw H]. split; [exact Hw|]. intros a i Ha Hi. apply Nat.eqb_eq. apply H; assumption.
Qed.

Theorem is_coverb_spec s al : is_coverb s al = true <-> cover s al.
Proof.
  unfold is_coverb, cover.
  rewrite andb_true_iff, forallb_wf_spec, all_units_b_spec. split.
  - intros [Hw H]. split; [exact Hw|]. intros a i Ha Hi. apply Nat.leb_le. apply H; assumption.
  - intros [Hw H]. split; [exact Hw|]. intros a i Ha Hi. apply Nat.leb_le. apply H; assumption.
Qed.

(* ---------- flattening ---------- *)
Definition offset (s : list nat) (a : nat) : nat := fold_right Nat.add 0 (firstn a s).

Lemma offset_0 s : offset s 0 = 0.
Proof. reflexivity. Qed.

Lemma offset_cons x s a : offset (x :: s) (S a) = x + offset s a.
Proof. reflexivity. Qed.

Lemma offset_lt s a i : a < length s -> i < nth a s 0 -> offset s a + i < fold_right Nat.add 0 s.
Proof.
  revert a. induction s as [|x s IH]; intros a Ha Hi; simpl in Ha; [lia|].
  destruct a as [|a].
  - rewrite offset_0. simpl in Hi. simpl. lia.
  - rewrite offset_cons. simpl in Hi. simpl.
    assert (H : offset s a + i < fold_right Nat.add 0 s) by (apply IH; [lia | exact Hi]).
    lia.
Qed.

Lemma flatten_inj s a i b j : a < length s -> b < length s -> i < nth a s 0 -> j < nth b s 0 ->
  offset s a + i = offset s b + j -> a = b /\ i = j.
Proof.
  revert a b. induction s as [|x s IH]; intros a b Ha Hb Hi Hj He; simpl in Ha, Hb; [lia|].
  destruct a as [|a]; destruct b as [|b].
  - rewrite !offset_0 in He. split; [reflexivity | lia].
  - rewrite offset_0, offset_cons in He. simpl in Hi. lia.
  - rewrite offset_0, offset_cons in He. simpl in Hj. lia.
  - rewrite !offset_cons in He. simpl in Hi, Hj.
    assert (H : a = b /\ i = j) by (apply IH; lia).
    destruct H as [H1 H2]. split; [f_equal; exact H1 | exact H2].
Qed.

Lemma flatten_surj s r : r < fold_right Nat.add 0 s ->
  exists a i, a < length s /\ i < nth a s 0 /\ r = offset s a + i.
Proof.
  revert r. induction s as [|x s IH]; intros r Hr; simpl in Hr; [lia|].
  destruct (lt_dec r x) as [Hlt|Hge].
  - exists 0, r. rewrite offset_0. simpl. repeat split; lia.
  - assert (Hr' : r - x < fold_right Nat.add 0 s) by lia.
    destruct (IH (r - x) Hr') as [a [i [Ha [Hi He]]]].
    exists (S a), i. rewrite offset_cons. simpl. repeat split; lia.
Qed.

(* ---------- rows of a tuple ---------- *)
Lemma rows_from_spec off s t r : length t = length s ->
  (In r (rows_from off s t) <->
   exists a, a < length s /\ nth a t 0 <> nth a s 0 /\ r = off + offset s a + nth a t 0).
Proof.
  revert off t. induction s as [|sa s IH]; intros off t Hl.
  - destruct t; simpl; split; try tauto; intros [a [Ha _]]; simpl in Ha; lia.
  - destruct t as [|i t]; simpl in Hl; [lia|].
    assert (Hl' : length t = length s) by lia.
    simpl rows_from. rewrite in_app_iff. rewrite (IH (off + sa) t Hl'). split.
    + intros [Hh | [a [Ha [Hne He]]]].
      * destruct (i =? sa) eqn:Eq; simpl in Hh; [tauto|].
        apply Nat.eqb_neq in Eq. exists 0. rewrite offset_0. simpl. repeat split; lia.
      * exists (S a). rewrite offset_cons. simpl. repeat split; first [lia | exact Hne].
    + intros [a [Ha [Hne He]]]. destruct a as [|a].
      * left. rewrite offset_0 in He. simpl in Hne, He.
        apply Nat.eqb_neq in Hne. rewrite Hne. simpl. lia.
      * right. exists a. rewrite offset_cons in He. simpl in Ha, Hne, He.
        repeat split; first [lia | exact Hne].
Qed.

Lemma rows_from_ge off s t r : In r (rows_from off s t) -> off <= r.
Proof.
  revert off t. induction s as [|sa s IH]; intros off t Hin.
  - destruct t; simpl in Hin; tauto.
  - destruct t as [|i t]; simpl in Hin; [tauto|].
    apply in_app_iff in Hin. destruct Hin as [Hh | Ht].
    + destruct (i =? sa); simpl in Hh; [tauto | lia].
    + apply IH in Ht. lia.
Qed.

Lemma rows_from_NoDup off s t : (forall a, a < length s -> nth a t 0 <= nth a s 0) ->
  NoDup (rows_from off s t).
Proof.
  revert off t. induction s as [|sa s IH]; intros off t Hle.
  - destruct t; simpl; constructor.
  - destruct t as [|i t]; simpl; [constructor|].
    assert (Hle' : forall a, a < length s -> nth a t 0 <= nth a s 0).
    { intros a Ha. apply (Hle (S a)). simpl. lia. }
    assert (Hi : i <= sa) by (apply (Hle 0); simpl; lia).
    destruct (i =? sa) eqn:Eq; simpl.
    + apply IH. exact Hle'.
    + apply Nat.eqb_neq in Eq. constructor.
      * intros Hin. apply rows_from_ge in Hin. lia.
      * apply IH. exact Hle'.
Qed.

Lemma rows_of_spec I t r : wf_tuple (sz I) t ->
  (In r (rows_of I t) <-> exists a, a < nann I /\ nth a t 0 < size I a /\ r = offset (sz I) a + nth a t 0).
Proof.
  intros [Hl [Hle _]]. unfold rows_of, nann, size. rewrite (rows_from_spec 0 (sz I) t r Hl). split.
  - intros [a [Ha [Hne He]]]. exists a. specialize (Hle a Ha). repeat split; lia.
  - intros [a [Ha [Hlt He]]]. exists a. repeat split; lia.
Qed.

Lemma rows_of_NoDup I t : wf_tuple (sz I) t -> NoDup (rows_of I t).
Proof.
  intros [_ [Hle _]]. unfold rows_of. apply rows_from_NoDup. exact Hle.
Qed.

Lemma rows_of_nonempty I t : wf_tuple (sz I) t -> rows_of I t <> [].
Proof.
  intros Hw Hnil. pose proof Hw as [_ [_ [a [Ha Hlt]]]].
  assert (Hin : In (offset (sz I) a + nth a t 0) (rows_of I t)).
  { apply (rows_of_spec I t _ Hw). exists a. repeat split; assumption. }
  rewrite Hnil in Hin. exact Hin.
Qed.

Lemma rows_of_lt I t r : wf_tuple (sz I) t -> In r (rows_of I t) -> r < nunits I.
Proof.
  intros Hw Hin. apply (rows_of_spec I t r Hw) in Hin. destruct Hin as [a [Ha [Hlt He]]].
  subst r. unfold nunits. apply offset_lt; assumption.
Qed.

(* row (a, i) belongs to the rows of t iff t holds unit i of annotator a *)
Lemma In_rows_of_iff I t a i : wf_tuple (sz I) t -> a < nann I -> i < size I a ->
  (In (offset (sz I) a + i) (rows_of I t) <-> nth a t 0 = i).
Proof.
  intros Hw Ha Hi. rewrite (rows_of_spec I t _ Hw). split.
  - intros [b [Hb [Hlt He]]].
    destruct (flatten_inj (sz I) a i b (nth b t 0) Ha Hb Hi Hlt He) as [Hab Hij].
    subst b. symmetry. exact Hij.
  - intros He. exists a. subst i. repeat split; assumption.
Qed.

Lemma memb_rows_of I t a i : wf_tuple (sz I) t -> a < nann I -> i < size I a ->
  memb (offset (sz I) a + i) (rows_of I t) = (nth a t 0 =? i).
Proof.
  intros Hw Ha Hi. apply bool_eq_iff.
  rewrite memb_In, Nat.eqb_eq. apply In_rows_of_iff; assumption.
Qed.

Lemma count_rows_of I t a i : wf_tuple (sz I) t -> a < nann I -> i < size I a ->
  count_occ Nat.eq_dec (rows_of I t) (offset (sz I) a + i) = if nth a t 0 =? i then 1 else 0.
Proof.
  intros Hw Ha Hi.
  pose proof (In_rows_of_iff I t a i Hw Ha Hi) as Hiff.
  pose proof (proj1 (NoDup_count_occ Nat.eq_dec (rows_of I t)) (rows_of_NoDup I t Hw)
                    (offset (sz I) a + i)) as Hle.
  destruct (nth a t 0 =? i) eqn:Eq.
  - apply Nat.eqb_eq in Eq. apply Hiff in Eq.
    apply (count_occ_In Nat.eq_dec) in Eq. lia.
  - apply Nat.eqb_neq in Eq. apply (count_occ_not_In Nat.eq_dec). intros Hin. apply Eq.
    apply Hiff. exact Hin.
Qed.

Lemma count_rows_occ I al a i : Forall (wf_tuple (sz I)) al -> a < nann I -> i < size I a ->
  count_occ Nat.eq_dec (all_rows (map (cand_of I) al)) (offset (sz I) a + i) = occ a i al.
Proof.
  intros Hw Ha Hi. induction Hw as [|t al Ht Hal IH].
  - reflexivity.
  - unfold all_rows, occ in *. simpl map. simpl flat_map. rewrite count_occ_app, IH.
    rewrite (count_rows_of I t a i Ht Ha Hi). simpl filter.
    destruct (nth a t 0 =? i); simpl; lia.
Qed.

(* ---------- bridge with the flattened exact-cover level ---------- *)
Lemma all_rows_lt I al r : Forall (wf_tuple (sz I)) al ->
  In r (all_rows (map (cand_of I) al)) -> r < nunits I.
Proof.
  intros Hw Hin. unfold all_rows in Hin. apply in_flat_map in Hin.
  destruct Hin as [c [Hc Hr]]. apply in_map_iff in Hc. destruct Hc as [t [Hct Ht]].
  subst c. simpl in Hr. rewrite Forall_forall in Hw. apply (rows_of_lt I t r (Hw t Ht) Hr).
Qed.

Theorem partition_completes I al : Forall (wf_tuple (sz I)) al ->
  (partition (sz I) al <-> completes (nunits I) [] (map (cand_of I) al)).
Proof.
  intros Hw. unfold partition, completes. split.
  - intros [_ Hocc]. split; [|split].
    + apply (NoDup_count_occ Nat.eq_dec). intros r.
      destruct (lt_dec r (nunits I)) as [Hr|Hr].
      * destruct (flatten_surj (sz I) r Hr) as [a [i [Ha [Hi He]]]]. subst r.
        rewrite (count_rows_occ I al a i Hw Ha Hi). rewrite (Hocc a i Ha Hi). lia.
      * assert (Hnin : ~ In r (all_rows (map (cand_of I) al))).
        { intros Hin. apply Hr. apply (all_rows_lt I al r Hw Hin). }
        apply (count_occ_not_In Nat.eq_dec) in Hnin. lia.
    + intros r Hin. split; [intros Hf; exact Hf | apply (all_rows_lt I al r Hw Hin)].
    + intros r Hr. right.
      destruct (flatten_surj (sz I) r Hr) as [a [i [Ha [Hi He]]]]. subst r.
      apply (count_occ_In Nat.eq_dec).
      rewrite (count_rows_occ I al a i Hw Ha Hi). rewrite (Hocc a i Ha Hi). lia.
  - intros [Hnd [_ Hcov]]. split; [exact Hw|]. intros a i Ha Hi.
    rewrite <- (count_rows_occ I al a i Hw Ha Hi).
    pose proof (proj1 (NoDup_count_occ Nat.eq_dec _) Hnd (offset (sz I) a + i)) as Hle.
    assert (Hr : offset (sz I) a + i < nunits I) by (apply offset_lt; assumption).
    destruct (Hcov _ Hr) as [Hf | Hin]; [destruct Hf|].
    apply (count_occ_In Nat.eq_dec) in Hin. lia.
Qed.

Theorem cover_covers I al : Forall (wf_tuple (sz I)) al ->
  (cover (sz I) al <-> covers (nunits I) [] (map (cand_of I) al)).
Proof.
  intros Hw. unfold cover, covers. split.
  - intros [_ Hocc] r Hr. right.
    destruct (flatten_surj (sz I) r Hr) as [a [i [Ha [Hi He]]]]. subst r.
    apply (count_occ_In Nat.eq_dec).
    rewrite (count_rows_occ I al a i Hw Ha Hi). specialize (Hocc a i Ha Hi). lia.
  - intros Hcov. split; [exact Hw|]. intros a i Ha Hi.
    rewrite <- (count_rows_occ I al a i Hw Ha Hi).
    assert (Hr : offset (sz I) a + i < nunits I) by (apply offset_lt; assumption).
    destruct (Hcov _ Hr) as [Hf | Hin]; [destruct Hf|].
    apply (count_occ_In Nat.eq_dec) in Hin. lia.
Qed.

(* ---------- the 0/1 program ---------- *)
Lemma sel_incl cs x : incl (sel cs x) cs.
Proof.
  intros t Ht. unfold sel in Ht. apply in_map_iff in Ht. destruct Ht as [k [Hk Hin]].
  apply filter_In in Hin. destruct Hin as [Hin _]. apply in_seq in Hin.
  subst t. apply nth_In. lia.
Qed.

Lemma sel_wf s cs x : Forall (wf_tuple s) cs -> Forall (wf_tuple s) (sel cs x).
Proof.
  intros Hw. rewrite Forall_forall in *. intros t Ht. apply Hw. apply (sel_incl cs x t Ht).
Qed.

Lemma A_row_sum_occ I cs x a i : length x = length cs -> Forall (wf_tuple (sz I)) cs ->
  a < nann I -> i < size I a ->
  A_row_sum I cs x (offset (sz I) a + i) = occ a i (sel cs x).
Proof.
  intros _ Hw Ha Hi. unfold A_row_sum, occ, sel, A_entry.
  rewrite length_filter_map, filter_filter. f_equal.
  apply filter_ext_in. intros k Hk. apply in_seq in Hk.
  assert (Hin : In (nth k cs []) cs) by (apply nth_In; lia).
  rewrite Forall_forall in Hw.
  rewrite (memb_rows_of I (nth k cs []) a i (Hw _ Hin) Ha Hi). reflexivity.
Qed.

Theorem Aeq1_iff_partition I cs x : length x = length cs -> Forall (wf_tuple (sz I)) cs ->
  (Aeq1 I cs x <-> partition (sz I) (sel cs x)).
Proof.
  intros Hl Hw. unfold Aeq1, partition. split.
  - intros H. split; [apply sel_wf; exact Hw|]. intros a i Ha Hi.
    rewrite <- (A_row_sum_occ I cs x a i Hl Hw Ha Hi). apply H.
    apply offset_lt; assumption.
  - intros [_ H] r Hr.
    destruct (flatten_surj (sz I) r Hr) as [a [i [Ha [Hi He]]]]. subst r.
    rewrite (A_row_sum_occ I cs x a i Hl Hw Ha Hi). apply H; assumption.
Qed.

Theorem Age1_iff_cover I cs x : length x = length cs -> Forall (wf_tuple (sz I)) cs ->
  (Age1 I cs x <-> cover (sz I) (sel cs x)).
Proof.
  intros Hl Hw. unfold Age1, cover. split.
  - intros H. split; [apply sel_wf; exact Hw|]. intros a i Ha Hi.
    rewrite <- (A_row_sum_occ I cs x a i Hl Hw Ha Hi). apply H.
    apply offset_lt; assumption.
  - intros [_ H] r Hr.
    destruct (flatten_surj (sz I) r Hr) as [a [i [Ha [Hi He]]]]. subst r.
    rewrite (A_row_sum_occ I cs x a i Hl Hw Ha Hi). apply H; assumption.
Qed.

Theorem formulations_equiv I cs x : Aeq1 I cs x <-> (Ale1 I cs x /\ Age1 I cs x).
Proof.
  unfold Aeq1, Ale1, Age1. split.
  - intros H. split; intros r Hr; specialize (H r Hr); lia.
  - intros [H1 H2] r Hr. specialize (H1 r Hr). specialize (H2 r Hr). lia.
Qed.

Print Assumptions wf_tupleb_spec.
Print Assumptions is_partitionb_spec.
Print Assumptions is_coverb_spec.
Print Assumptions flatten_inj.
Print Assumptions flatten_surj.
Print Assumptions rows_of_spec.
Print Assumptions rows_of_NoDup.
Print Assumptions rows_of_nonempty.
Print Assumptions rows_of_lt.
Print Assumptions count_rows_occ.
Print Assumptions partition_completes.
Print Assumptions cover_covers.
Print Assumptions A_row_sum_occ.
Print Assumptions Aeq1_iff_partition.
Print Assumptions Age1_iff_cover.
Print Assumptions formulations_equiv.
Print Assumptions sel_incl.
