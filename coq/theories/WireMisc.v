(* Wire functions for the alignment checks (C17) and the gamma-k disorder (C12). *)
From Coq Require Import List Arith ZArith QArith Lia Bool.
From PGA Require Import Wire Check.Model Gamma.GammaK.
Import ListNotations.
Local Open Scope Z_scope.

Definition getQ : P Q := fun s =>
  match s with
  | n :: d :: r => match d with Zpos p => Some (Qmake n p, r) | _ => None end
  | _ => None
  end.
Definition putQ (q : Q) : list Z := let r := Qred q in [Qnum r; Zpos (Qden r)].

Definition getPairZ : P (Z * Z) := getPair getZ getZ.
Definition getNtuple : P ntuple := getList (getPair getZ (getOpt getZ)).
Definition putRes (r : res) : list Z := match r with ROk => [0] | RPartition => [1] | RLength => [2] | RKey => [3] end.

Definition getUA : P ua := s <- getList (getOpt getZ) ;; pv <- getList (getPair getQ getQ) ;; ret (mkUA s pv).

Definition run_misc (fn : nat) : list Z -> list Z :=
  match fn with
  | 0%nat => finish (c <- getList getPairZ ;; al <- getList getNtuple ;; ret (c, al))
                    (fun '(c, al) => putRes (check_align c al) ++ putRes (check_soft c al))
  | 10%nat => finish (alpha <- getQ ;; de <- getQ ;; cat <- getOpt getZ ;; al <- getList getUA ;; ret (alpha, de, cat, al))
                     (fun '(alpha, de, cat, al) =>
                        putQ (gk_loop alpha de cat al) ++
                        putBool (has_real (contribs alpha de cat al)))
  | 11%nat => finish (obs <- getQ ;; ch <- getList getQ ;; ret (obs, ch))
                     (fun '(obs, ch) => putQ (gamma_of obs ch) ++ putQ (gamma_cat_of obs ch))
  | _ => fun _ => [-2]
  end.
