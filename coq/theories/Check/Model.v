(* Model of Alignment.check / SoftAlignment.check (alignment.py:300-359, 383-425) - C17.
   A continuum is the list of its (annotator, unit) pairs (each distinct (annotator, unit) is numbered by the harness);
   an alignment is a list of n-tuples of (annotator, unit-or-None). Definitions only. *)
From Coq Require Import List Arith ZArith Lia Bool.
Import ListNotations.

Definition pair_ := (Z * Z)%type.
Definition ntuple := list (Z * option Z).

Definition pair_eqb (p q : pair_) : bool := (fst p =? fst q)%Z && (snd p =? snd q)%Z.
Definition memp (p : pair_) (l : list pair_) : bool := existsb (pair_eqb p) l.
Definition countp (p : pair_) (l : list pair_) : nat := length (filter (pair_eqb p) l).

(* real (non-empty) pairs of an alignment, in reading order *)
Definition tuple_pairs (t : ntuple) : list pair_ :=
  flat_map (fun s => match snd s with Some u => [(fst s, u)] | None => [] end) t.
Definition al_pairs (al : list ntuple) : list pair_ := flat_map tuple_pairs al.

Inductive res := ROk | RPartition | RLength | RKey.

(* "verify that all unitary alignments have the same length" (vacuous on the empty alignment, after the fix) *)
Definition lengths_ok (al : list ntuple) : bool :=
  match al with
  | [] => true
  | t0 :: _ => forallb (fun t => length t =? length t0) al
  end.

(* Alignment.check: missing tuples first, then repeated ones; both raise SetPartitionError *)
Definition check_align (cont : list pair_) (al : list ntuple) : res :=
  if negb (lengths_ok al) then RLength
  else if existsb (fun p => negb (memp p (al_pairs al))) cont then RPartition
  else if existsb (fun p => 2 <=? countp p (al_pairs al)) (al_pairs al) then RPartition
  else ROk.

(* SoftAlignment.check: occurrences are counted in a table indexed by the continuum's pairs (a foreign pair is a KeyError),
   then every continuum pair must have been seen at least once *)
Definition check_soft (cont : list pair_) (al : list ntuple) : res :=
  if negb (lengths_ok al) then RLength
  else if existsb (fun p => negb (memp p cont)) (al_pairs al) then RKey
  else if existsb (fun p => negb (memp p (al_pairs al))) cont then RPartition
  else ROk.
