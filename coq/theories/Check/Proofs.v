From Coq Require Import List Arith ZArith Lia Bool Permutation.
From PGA Require Import Check.Model.
Import ListNotations.
(* Proofs about the model of Alignment.check / SoftAlignment.check (C17). *)

(* ------------------------------------------------------------------ *)
(* pair equality, membership, counting                                 *)
(* ------------------------------------------------------------------ *)

Lemma pair_eqb_eq p q : pair_eqb p q = true <-> p = q.
Proof.
  destruct p as [a b], q as [c d]; unfold pair_eqb; simpl.
  rewrite andb_true_iff, !Z.eqb_eq. split.
  - intros [H1 H2]; subst; reflexivity.
  - intros H; inversion H; subst; split; reflexivity.
Qed.

Lemma pair_eqb_refl p : pair_eqb p p = true.
Proof. apply pair_eqb_eq; reflexivity. Qed.

Lemma memp_In p l : memp p l = true <-> In p l.
Proof.
  unfold memp. rewrite existsb_exists. split.
  - intros [x [Hin Heq]]. apply pair_eqb_eq in Heq. subst x. exact Hin.
  - intros Hin. exists p. split; [exact Hin | apply pair_eqb_refl].
Qed.

Lemma memp_false p l : memp p l = false <-> ~ In p l.
Proof.
  rewrite <- memp_In. destruct (memp p l); split; intros H.
  - discriminate H.
  - exfalso; apply H; reflexivity.
  - intros H'; discriminate H'.
  - reflexivity.
Qed.

Lemma countp_cons p q l :
  countp p (q :: l) = (if pair_eqb p q then 1 else 0) + countp p l.
Proof. unfold countp; simpl. destruct (pair_eqb p q); reflexivity. Qed.

Lemma countp_pos_iff p l : 1 <= countp p l <-> In p l.
Proof.
  induction l as [|q l IH].
  - unfold countp; simpl. split; [lia | tauto].
  - rewrite countp_cons. destruct (pair_eqb p q) eqn:E.
    + apply pair_eqb_eq in E. subst q.
      split; [intros _; left; reflexivity | intros _; lia].
    + split.
      * intros H. right. apply IH. lia.
      * intros [H | H].
        { subst q. rewrite pair_eqb_refl in E. discriminate E. }
        apply IH in H. lia.
Qed.

Lemma NoDup_countp_le1 l : NoDup l <-> (forall p, In p l -> countp p l <= 1).
Proof.
  induction l as [|a l IH].
  - split; [intros _ p [] | intros _; constructor].
  - split.
    + intros H p Hp. inversion H as [|x xs Hnotin Hnd]; subst.
      rewrite countp_cons. destruct (pair_eqb p a) eqn:E.
      * apply pair_eqb_eq in E. subst p.
        assert (countp a l = 0) as H0.
        { destruct (countp a l) eqn:C; [reflexivity|].
          exfalso. apply Hnotin. apply countp_pos_iff. lia. }
        lia.
      * destruct Hp as [Hp|Hp].
        { subst p. rewrite pair_eqb_refl in E. discriminate E. }
        pose proof (proj1 IH Hnd p Hp) as H1. lia.
    + intros H. constructor.
      * intros Hin. apply countp_pos_iff in Hin.
        pose proof (H a (or_introl eq_refl)) as Ha.
        rewrite countp_cons, pair_eqb_refl in Ha. lia.
      * apply IH. intros p Hp. pose proof (H p (or_intror Hp)) as H1.
        rewrite countp_cons in H1. destruct (pair_eqb p a); lia.
Qed.

Lemma countp_ge2_iff_dup l : (exists p, In p l /\ 2 <= countp p l) <-> ~ NoDup l.
Proof.
  split.
  - intros [p [Hin Hc]] Hnd.
    pose proof (proj1 (NoDup_countp_le1 l) Hnd p Hin) as H1. lia.
  - induction l as [|a l IH]; intros H.
    + exfalso. apply H. constructor.
    + destruct (memp a l) eqn:E.
      * apply memp_In in E. exists a. split; [left; reflexivity|].
        rewrite countp_cons, pair_eqb_refl. apply countp_pos_iff in E. lia.
      * apply memp_false in E. destruct IH as [p [Hp Hc]].
        { intros Hnd. apply H. constructor; assumption. }
        exists p. split; [right; exact Hp|].
        rewrite countp_cons. destruct (pair_eqb p a); lia.
Qed.

Lemma countp_perm p l l' : Permutation l l' -> countp p l = countp p l'.
Proof.
  intros H. induction H as [|x l l' H IH|x y l|l l' l'' H1 IH1 H2 IH2].
  - reflexivity.
  - rewrite !countp_cons, IH. reflexivity.
  - rewrite !countp_cons. lia.
  - congruence.
Qed.

(* ------------------------------------------------------------------ *)
(* the three boolean tests                                             *)
(* ------------------------------------------------------------------ *)

Definition uniform (al : list ntuple) : Prop :=
  forall t t', In t al -> In t' al -> length t = length t'.

Lemma lengths_ok_spec al : lengths_ok al = true <-> uniform al.
Proof.
  destruct al as [|t0 r].
  - simpl. split; [intros _ t t' [] | reflexivity].
  - unfold lengths_ok. rewrite forallb_forall. split.
    + intros H t t' Ht Ht'.
      apply H in Ht. apply H in Ht'.
      apply Nat.eqb_eq in Ht. apply Nat.eqb_eq in Ht'. congruence.
    + intros H t Ht. apply Nat.eqb_eq. apply H; [exact Ht | left; reflexivity].
Qed.

Lemma missing_spec cont L :
  existsb (fun p => negb (memp p L)) cont = true <-> exists p, In p cont /\ ~ In p L.
Proof.
  rewrite existsb_exists. split; intros [p [H1 H2]]; exists p; split; try exact H1.
  - apply memp_false. apply negb_true_iff. exact H2.
  - apply negb_true_iff. apply memp_false. exact H2.
Qed.

Lemma missing_false cont L :
  existsb (fun p => negb (memp p L)) cont = false <-> forall p, In p cont -> In p L.
Proof.
  split.
  - intros H p Hp. destruct (memp p L) eqn:E; [apply memp_In; exact E|].
    exfalso.
    assert (existsb (fun p => negb (memp p L)) cont = true) as Ht.
    { apply existsb_exists. exists p. split; [exact Hp | rewrite E; reflexivity]. }
    congruence.
  - intros H. destruct (existsb (fun p => negb (memp p L)) cont) eqn:E; [|reflexivity].
    apply missing_spec in E. destruct E as [p [H1 H2]].
    exfalso. apply H2. apply H. exact H1.
Qed.

Lemma dup_spec L : existsb (fun p => 2 <=? countp p L) L = true <-> ~ NoDup L.
Proof.
  rewrite <- countp_ge2_iff_dup, existsb_exists.
  split; intros [p [H1 H2]]; exists p; split; try exact H1.
  - apply Nat.leb_le. exact H2.
  - apply Nat.leb_le. exact H2.
Qed.

Lemma dup_false L : existsb (fun p => 2 <=? countp p L) L = false <-> NoDup L.
Proof.
  split.
  - intros H. apply NoDup_countp_le1. intros p Hp.
    destruct (2 <=? countp p L) eqn:E.
    + exfalso.
      assert (existsb (fun p => 2 <=? countp p L) L = true) as Ht.
      { apply existsb_exists. exists p. split; assumption. }
      congruence.
    + apply Nat.leb_gt in E. lia.
  - intros H. destruct (existsb (fun p => 2 <=? countp p L) L) eqn:E; [|reflexivity].
    apply dup_spec in E. contradiction.
Qed.

(* ------------------------------------------------------------------ *)
(* exhaustive and exclusive classification of the outcomes             *)
(* ------------------------------------------------------------------ *)

Lemma check_align_cases cont al :
  (~ uniform al /\ check_align cont al = RLength) \/
  (uniform al /\
   ((exists p, In p cont /\ ~ In p (al_pairs al)) \/ ~ NoDup (al_pairs al)) /\
   check_align cont al = RPartition) \/
  (uniform al /\ (forall p, In p cont -> In p (al_pairs al)) /\
   NoDup (al_pairs al) /\ check_align cont al = ROk).
Proof.
  unfold check_align. destruct (lengths_ok al) eqn:HL; cbn [negb].
  - apply lengths_ok_spec in HL.
    destruct (existsb (fun p => negb (memp p (al_pairs al))) cont) eqn:HM.
    + right; left. apply missing_spec in HM. auto.
    + pose proof (proj1 (missing_false _ _) HM) as HM'; clear HM; rename HM' into HM.
      destruct (existsb (fun p => 2 <=? countp p (al_pairs al)) (al_pairs al)) eqn:HD.
      * apply dup_spec in HD. right; left. auto.
      * apply dup_false in HD. right; right. auto.
  - left. split; [|reflexivity]. intros Hu. apply lengths_ok_spec in Hu. congruence.
Qed.

Lemma check_soft_cases cont al :
  (~ uniform al /\ check_soft cont al = RLength) \/
  (uniform al /\ (exists p, In p (al_pairs al) /\ ~ In p cont) /\
   check_soft cont al = RKey) \/
  (uniform al /\ incl (al_pairs al) cont /\
   (exists p, In p cont /\ ~ In p (al_pairs al)) /\ check_soft cont al = RPartition) \/
  (uniform al /\ incl (al_pairs al) cont /\
   (forall p, In p cont -> In p (al_pairs al)) /\ check_soft cont al = ROk).
Proof.
  unfold check_soft. destruct (lengths_ok al) eqn:HL; cbn [negb].
  - apply lengths_ok_spec in HL.
    destruct (existsb (fun p => negb (memp p cont)) (al_pairs al)) eqn:HK.
    + right; left. apply missing_spec in HK. auto.
    + pose proof (proj1 (missing_false _ _) HK) as HK'; clear HK; rename HK' into HK.
      destruct (existsb (fun p => negb (memp p (al_pairs al))) cont) eqn:HM.
      * apply missing_spec in HM. right; right; left. auto.
      * pose proof (proj1 (missing_false _ _) HM) as HM'; clear HM; rename HM' into HM. right; right; right. auto.
  - left. split; [|reflexivity]. intros Hu. apply lengths_ok_spec in Hu. congruence.
Qed.

(* ------------------------------------------------------------------ *)
(* Alignment.check                                                     *)
(* ------------------------------------------------------------------ *)

Theorem check_align_ok cont al :
  check_align cont al = ROk <->
  (uniform al /\ (forall p, In p cont -> In p (al_pairs al)) /\ NoDup (al_pairs al)).
Proof.
  destruct (check_align_cases cont al)
    as [[H1 H2]|[[H1 [H2 H3]]|[H1 [H2 [H3 H4]]]]]; split.
  - intros H; congruence.
  - intros [Hu _]; contradiction.
  - intros H; congruence.
  - intros [_ [Hall Hnd]]. exfalso. destruct H2 as [[p [Hp Hn]]|Hn].
    + apply Hn, Hall, Hp.
    + apply Hn, Hnd.
  - intros _; auto.
  - intros _; exact H4.
Qed.

Theorem check_align_partition_error cont al :
  check_align cont al = RPartition <->
  (uniform al /\
   ((exists p, In p cont /\ ~ In p (al_pairs al)) \/ ~ NoDup (al_pairs al))).
Proof.
  destruct (check_align_cases cont al)
    as [[H1 H2]|[[H1 [H2 H3]]|[H1 [H2 [H3 H4]]]]]; split.
  - intros H; congruence.
  - intros [Hu _]; contradiction.
  - intros _; auto.
  - intros _; exact H3.
  - intros H; congruence.
  - intros [_ [[p [Hp Hn]]|Hn]]; exfalso.
    + apply Hn, H2, Hp.
    + apply Hn, H3.
Qed.

Theorem check_align_length_error cont al :
  check_align cont al = RLength <-> ~ uniform al.
Proof.
  destruct (check_align_cases cont al)
    as [[H1 H2]|[[H1 [H2 H3]]|[H1 [H2 [H3 H4]]]]]; split.
  - intros _; exact H1.
  - intros _; exact H2.
  - intros H; congruence.
  - intros Hn; contradiction.
  - intros H; congruence.
  - intros Hn; contradiction.
Qed.

Theorem check_align_never_key cont al : check_align cont al <> RKey.
Proof.
  destruct (check_align_cases cont al)
    as [[H1 H2]|[[H1 [H2 H3]]|[H1 [H2 [H3 H4]]]]]; congruence.
Qed.

Theorem check_align_exactly_once cont al :
  NoDup cont -> incl (al_pairs al) cont -> uniform al ->
  (check_align cont al = ROk <-> forall p, In p cont -> countp p (al_pairs al) = 1).
Proof.
  intros _ Hincl Hu. rewrite check_align_ok. split.
  - intros [_ [Hall Hnd]] p Hp.
    pose proof (Hall p Hp) as Hin.
    pose proof (proj1 (NoDup_countp_le1 _) Hnd p Hin) as Hle.
    apply countp_pos_iff in Hin. lia.
  - intros H. split; [exact Hu|]. split.
    + intros p Hp. apply countp_pos_iff. rewrite (H p Hp). lia.
    + apply NoDup_countp_le1. intros p Hp. rewrite (H p (Hincl p Hp)). lia.
Qed.

(* ------------------------------------------------------------------ *)
(* SoftAlignment.check                                                 *)
(* ------------------------------------------------------------------ *)

Theorem check_soft_ok cont al :
  check_soft cont al = ROk <->
  (uniform al /\ incl (al_pairs al) cont /\ forall p, In p cont -> In p (al_pairs al)).
Proof.
  destruct (check_soft_cases cont al)
    as [[H1 H2]|[[H1 [H2 H3]]|[[H1 [H2 [H3 H4]]]|[H1 [H2 [H3 H4]]]]]]; split.
  - intros H; congruence.
  - intros [Hu _]; contradiction.
  - intros H; congruence.
  - intros [_ [Hincl _]]. destruct H2 as [p [Hp Hn]]. exfalso. apply Hn, Hincl, Hp.
  - intros H; congruence.
  - intros [_ [_ Hall]]. destruct H3 as [p [Hp Hn]]. exfalso. apply Hn, Hall, Hp.
  - intros _; auto.
  - intros _; exact H4.
Qed.

Theorem check_soft_partition_error cont al :
  check_soft cont al = RPartition <->
  (uniform al /\ incl (al_pairs al) cont /\ exists p, In p cont /\ ~ In p (al_pairs al)).
Proof.
  destruct (check_soft_cases cont al)
    as [[H1 H2]|[[H1 [H2 H3]]|[[H1 [H2 [H3 H4]]]|[H1 [H2 [H3 H4]]]]]]; split.
  - intros H; congruence.
  - intros [Hu _]; contradiction.
  - intros H; congruence.
  - intros [_ [Hincl _]]. destruct H2 as [p [Hp Hn]]. exfalso. apply Hn, Hincl, Hp.
  - intros _; auto.
  - intros _; exact H4.
  - intros H; congruence.
  - intros [_ [_ [p [Hp Hn]]]]. exfalso. apply Hn, H3, Hp.
Qed.

Theorem check_soft_key_error cont al :
  check_soft cont al = RKey <->
  (uniform al /\ exists p, In p (al_pairs al) /\ ~ In p cont).
Proof.
  destruct (check_soft_cases cont al)
    as [[H1 H2]|[[H1 [H2 H3]]|[[H1 [H2 [H3 H4]]]|[H1 [H2 [H3 H4]]]]]]; split.
  - intros H; congruence.
  - intros [Hu _]; contradiction.
  - intros _; auto.
  - intros _; exact H3.
  - intros H; congruence.
  - intros [_ [p [Hp Hn]]]. exfalso. apply Hn, H2, Hp.
  - intros H; congruence.
  - intros [_ [p [Hp Hn]]]. exfalso. apply Hn, H2, Hp.
Qed.

Theorem check_soft_length_error cont al :
  check_soft cont al = RLength <-> ~ uniform al.
Proof.
  destruct (check_soft_cases cont al)
    as [[H1 H2]|[[H1 [H2 H3]]|[[H1 [H2 [H3 H4]]]|[H1 [H2 [H3 H4]]]]]]; split.
  - intros _; exact H1.
  - intros _; exact H2.
  - intros H; congruence.
  - intros Hn; contradiction.
  - intros H; congruence.
  - intros Hn; contradiction.
  - intros H; congruence.
  - intros Hn; contradiction.
Qed.

Theorem check_soft_at_least_once cont al :
  incl (al_pairs al) cont -> uniform al ->
  (check_soft cont al = ROk <-> forall p, In p cont -> 1 <= countp p (al_pairs al)).
Proof.
  intros Hincl Hu. rewrite check_soft_ok. split.
  - intros [_ [_ Hall]] p Hp. apply countp_pos_iff. apply Hall. exact Hp.
  - intros H. split; [exact Hu|]. split; [exact Hincl|].
    intros p Hp. apply countp_pos_iff. apply H. exact Hp.
Qed.

Theorem align_ok_soft_ok cont al :
  incl (al_pairs al) cont -> check_align cont al = ROk -> check_soft cont al = ROk.
Proof.
  intros Hincl H. apply check_align_ok in H. destruct H as [Hu [Hall _]].
  apply check_soft_ok. auto.
Qed.

(* ------------------------------------------------------------------ *)
(* the outcome only depends on uniformity, the members of the          *)
(* continuum and the multiset of real pairs                            *)
(* ------------------------------------------------------------------ *)

Lemma bool_eq_iff (b b' : bool) : (b = true <-> b' = true) -> b = b'.
Proof.
  intros [H1 H2]. destruct b, b'; try reflexivity.
  - symmetry. apply H1. reflexivity.
  - apply H2. reflexivity.
Qed.

Lemma missing_ext c c' L L' :
  (forall p, In p c <-> In p c') -> (forall p, In p L <-> In p L') ->
  existsb (fun p => negb (memp p L)) c = existsb (fun p => negb (memp p L')) c'.
Proof.
  intros Hc HL. apply bool_eq_iff. rewrite !missing_spec.
  split; intros [p [H1 H2]]; exists p; split.
  - apply Hc; exact H1.
  - intros H. apply H2. apply HL. exact H.
  - apply Hc; exact H1.
  - intros H. apply H2. apply HL. exact H.
Qed.

Lemma check_align_ext cont cont' al al' :
  (uniform al <-> uniform al') -> (forall p, In p cont <-> In p cont') ->
  Permutation (al_pairs al) (al_pairs al') ->
  check_align cont al = check_align cont' al'.
Proof.
  intros Hu Hc Hp. unfold check_align.
  assert (forall p, In p (al_pairs al) <-> In p (al_pairs al')) as HL.
  { intros p. split; apply Permutation_in; [exact Hp | apply Permutation_sym; exact Hp]. }
  assert (lengths_ok al = lengths_ok al') as E1.
  { apply bool_eq_iff. rewrite !lengths_ok_spec. exact Hu. }
  assert (existsb (fun p => 2 <=? countp p (al_pairs al)) (al_pairs al) =
          existsb (fun p => 2 <=? countp p (al_pairs al')) (al_pairs al')) as E3.
  { apply bool_eq_iff. rewrite !dup_spec. split; intros H Hn; apply H.
    - apply Permutation_NoDup with (l := al_pairs al'); [apply Permutation_sym|]; assumption.
    - apply Permutation_NoDup with (l := al_pairs al); assumption. }
  rewrite E1, E3, (missing_ext cont cont' _ _ Hc HL). reflexivity.
Qed.

Lemma check_soft_ext cont cont' al al' :
  (uniform al <-> uniform al') -> (forall p, In p cont <-> In p cont') ->
  (forall p, In p (al_pairs al) <-> In p (al_pairs al')) ->
  check_soft cont al = check_soft cont' al'.
Proof.
  intros Hu Hc HL. unfold check_soft.
  assert (lengths_ok al = lengths_ok al') as E1.
  { apply bool_eq_iff. rewrite !lengths_ok_spec. exact Hu. }
  rewrite E1, (missing_ext cont cont' _ _ Hc HL), (missing_ext _ _ cont cont' HL Hc).
  reflexivity.
Qed.

(* ------------------------------------------------------------------ *)
(* transport along permutations                                        *)
(* ------------------------------------------------------------------ *)

Lemma perm_In_iff (A : Type) (l l' : list A) :
  Permutation l l' -> forall x, In x l <-> In x l'.
Proof.
  intros H x. split; apply Permutation_in; [exact H | apply Permutation_sym; exact H].
Qed.

Lemma uniform_perm al al' : Permutation al al' -> uniform al -> uniform al'.
Proof.
  intros Hp Hu t t' Ht Ht'. apply Hu.
  - apply Permutation_in with (l := al'); [apply Permutation_sym; exact Hp | exact Ht].
  - apply Permutation_in with (l := al'); [apply Permutation_sym; exact Hp | exact Ht'].
Qed.

Lemma al_pairs_perm al al' : Permutation al al' -> Permutation (al_pairs al) (al_pairs al').
Proof. intros H. unfold al_pairs. apply Permutation_flat_map. exact H. Qed.

Lemma Forall2_In_r (A B : Type) (R : A -> B -> Prop) l l' :
  Forall2 R l l' -> forall y, In y l' -> exists x, In x l /\ R x y.
Proof.
  intros H. induction H as [|a b l l' Hab H IH]; intros y Hy.
  - destruct Hy.
  - destruct Hy as [Hy|Hy].
    + subst y. exists a. split; [left; reflexivity | exact Hab].
    + destruct (IH y Hy) as [x [Hx HR]]. exists x. split; [right; exact Hx | exact HR].
Qed.

Lemma Forall2_perm_sym (al al' : list ntuple) :
  Forall2 (@Permutation _) al al' -> Forall2 (@Permutation _) al' al.
Proof.
  intros H. induction H as [|a b l l' Hab H IH]; constructor.
  - apply Permutation_sym. exact Hab.
  - exact IH.
Qed.

Lemma uniform_slot_perm (al al' : list ntuple) :
  Forall2 (@Permutation _) al al' -> uniform al -> uniform al'.
Proof.
  intros HF Hu t t' Ht Ht'.
  destruct (Forall2_In_r _ _ _ _ _ HF t Ht) as [s [Hs Hst]].
  destruct (Forall2_In_r _ _ _ _ _ HF t' Ht') as [s' [Hs' Hst']].
  rewrite <- (Permutation_length Hst), <- (Permutation_length Hst').
  apply Hu; assumption.
Qed.

Lemma al_pairs_slot_perm (al al' : list ntuple) :
  Forall2 (@Permutation _) al al' -> Permutation (al_pairs al) (al_pairs al').
Proof.
  intros H. induction H as [|a b l l' Hab H IH].
  - apply Permutation_refl.
  - unfold al_pairs in *. simpl. apply Permutation_app.
    + unfold tuple_pairs. apply Permutation_flat_map. exact Hab.
    + exact IH.
Qed.

Theorem check_align_perm cont cont' al al' :
  Permutation cont cont' -> Permutation al al' ->
  check_align cont al = check_align cont' al'.
Proof.
  intros Hc Ha. apply check_align_ext.
  - split; apply uniform_perm; [exact Ha | apply Permutation_sym; exact Ha].
  - apply perm_In_iff. exact Hc.
  - apply al_pairs_perm. exact Ha.
Qed.

Theorem check_soft_perm cont cont' al al' :
  Permutation cont cont' -> Permutation al al' ->
  check_soft cont al = check_soft cont' al'.
Proof.
  intros Hc Ha. apply check_soft_ext.
  - split; apply uniform_perm; [exact Ha | apply Permutation_sym; exact Ha].
  - apply perm_In_iff. exact Hc.
  - apply perm_In_iff. apply al_pairs_perm. exact Ha.
Qed.

Theorem check_align_slot_perm cont al al' :
  Forall2 (@Permutation _) al al' -> check_align cont al = check_align cont al'.
Proof.
  intros HF. apply check_align_ext.
  - split; apply uniform_slot_perm; [exact HF | apply Forall2_perm_sym; exact HF].
  - intros p; tauto.
  - apply al_pairs_slot_perm. exact HF.
Qed.

Theorem check_soft_slot_perm cont al al' :
  Forall2 (@Permutation _) al al' -> check_soft cont al = check_soft cont al'.
Proof.
  intros HF. apply check_soft_ext.
  - split; apply uniform_slot_perm; [exact HF | apply Forall2_perm_sym; exact HF].
  - intros p; tauto.
  - apply perm_In_iff. apply al_pairs_slot_perm. exact HF.
Qed.

Print Assumptions check_align_ok.
Print Assumptions check_align_partition_error.
Print Assumptions check_align_length_error.
Print Assumptions check_align_exactly_once.
Print Assumptions check_soft_ok.
Print Assumptions check_soft_at_least_once.
Print Assumptions check_soft_partition_error.
Print Assumptions check_align_perm.
Print Assumptions check_soft_perm.
Print Assumptions check_align_slot_perm.
Print Assumptions check_soft_slot_perm.
Print Assumptions align_ok_soft_ok.
Print Assumptions check_align_never_key.
Print Assumptions check_soft_key_error.
Print Assumptions check_soft_length_error.
