(* Wire format: every case and every verdict is a flat list of integers.  Lists are length-prefixed;
   a malformed stream yields the explicit verdict [-1], never a default value.  The same integer
   list is what coqc evaluates in the extraction cross-check. *)
From Coq Require Import List Arith ZArith Lia Bool.
From PGA Require Import Align.Tuples Align.Cover Align.Inst.
Import ListNotations.
Local Open Scope Z_scope.

Definition P (A : Type) := list Z -> option (A * list Z).
Definition ret {A} (a : A) : P A := fun s => Some (a, s).
Definition bind {A B} (p : P A) (f : A -> P B) : P B :=
  fun s => match p s with Some (a, s') => f a s' | None => None end.
Notation "x <- p ;; q" := (bind p (fun x => q)) (at level 61, p at next level, right associativity).

Definition getZ : P Z := fun s => match s with z :: r => Some (z, r) | [] => None end.
Definition getNat : P nat := fun s =>
  match s with z :: r => if z <? 0 then None else Some (Z.to_nat z, r) | [] => None end.
Definition getBool : P bool := fun s =>
  match s with 0 :: r => Some (false, r) | 1 :: r => Some (true, r) | _ => None end.
Fixpoint getN {A} (p : P A) (n : nat) : P (list A) :=
  match n with
  | O => ret []
  | S n' => x <- p ;; xs <- getN p n' ;; ret (x :: xs)
  end.
Definition getList {A} (p : P A) : P (list A) := n <- getNat ;; getN p n.
Definition getPair {A B} (p : P A) (q : P B) : P (A * B) := a <- p ;; b <- q ;; ret (a, b).
Definition getOpt {A} (p : P A) : P (option A) :=
  b <- getBool ;; if b then (a <- p ;; ret (Some a)) else ret None.

Definition putNat (n : nat) : list Z := [Z.of_nat n].
Definition putList {A} (f : A -> list Z) (l : list A) : list Z :=
  Z.of_nat (length l) :: flat_map f l.
Definition putBool (b : bool) : list Z := [if b then 1 else 0].
Definition putTuple (t : list nat) : list Z := putList putNat t.

Definition getTuple : P tuple := getList getNat.
Definition getInst : P inst :=
  s <- getList getNat ;; d <- getZ ;;
  m <- getList (getList (getList (getList getZ))) ;;
  ret (mkInst s m d).

Definition finish {A} (p : P A) (k : A -> list Z) : list Z -> list Z :=
  fun s => match p s with Some (a, []) => k a | _ => [-1] end.

(* which candidate list a search uses: 0 = the model's candidates, 1 = every real tuple, 2 = supplied *)
Definition getCs (I : inst) : P (list tuple) :=
  m <- getNat ;;
  match m with
  | O => ret (candidates I)
  | S O => ret (real_tuples I)
  | _ => getList getTuple
  end.

Definition putCands (I : inst) (l : list cand) (cs : list tuple) : list Z :=
  (* the chosen candidates are reported by their rows *)
  putList (fun c => putList putNat (rows c)) l.

Definition run_align (fn : nat) : list Z -> list Z :=
  match fn with
  | 1%nat => (* C07: merge walk against the library's candidate list *)
    finish (J <- getInst ;; g <- getZ ;; tol <- getZ ;; lib <- getList (getPair getTuple getZ) ;; ret (J, g, tol, lib))
           (fun '(J, g, tol, lib) => match c07_check J g tol lib with None => [0] | Some k => [1; Z.of_nat k] end)
  | 2%nat => (* the model's candidate list with sums *)
    finish getInst (fun J => putList (fun t => putTuple t ++ [ua_sum J t]) (candidates J))
  | 3%nat => finish (s <- getList getNat ;; al <- getList getTuple ;; ret (s, al))
                    (fun '(s, al) => putBool (is_partitionb s al))
  | 4%nat => finish (s <- getList getNat ;; al <- getList getTuple ;; ret (s, al))
                    (fun '(s, al) => putBool (is_coverb s al))
  | 5%nat => (* verified optimum: partition (1) or cover (0) *)
    finish (J <- getInst ;; part <- getBool ;; cs <- getCs J ;; ret (J, part, cs))
           (fun '(J, part, cs) =>
              match (if part then opt_partition J cs else opt_cover J cs) with
              | Some (v, l) => [1; v] ++ putCands J l cs
              | None => [0]
              end)
  | 6%nat => (* certificate that nothing is strictly cheaper than b *)
    finish (J <- getInst ;; part <- getBool ;; cs <- getCs J ;; b <- getZ ;; ret (J, part, cs, b))
           (fun '(J, part, cs, b) => putBool (no_better part J cs b))
  | 7%nat => (* rows of each tuple: the columns of build_A *)
    finish (J <- getInst ;; cs <- getList getTuple ;; ret (J, cs))
           (fun '(J, cs) => putList (fun t => putList putNat (rows_of J t)) cs)
  | 8%nat => (* sum of an alignment and of each of its tuples *)
    finish (J <- getInst ;; al <- getList getTuple ;; ret (J, al))
           (fun '(J, al) => al_sum J al :: putList (fun t => [ua_sum J t]) al)
  | 9%nat => (* buffered candidate computation equals the plain one *)
    finish (J <- getInst ;; c0 <- getNat ;; g <- getNat ;; ret (J, c0, g))
           (fun '(J, c0, g) => match candidates_buf c0 g J with
                               | Some l => putBool (if list_eq_dec (list_eq_dec Nat.eq_dec) l (candidates J) then true else false)
                               | None => [2] end)
  | _ => fun _ => [-2]
  end.
