(* Proofs about the model of the fast alignment loop (Fast/Model.v) - C10. *)
From Coq Require Import List Arith ZArith Lia Bool Permutation.
From PGA Require Import Fast.Model.
Import ListNotations.
Local Open Scope Z_scope.

(* ------------------------------------------------------------------ *)
(* generic helpers                                                     *)
(* ------------------------------------------------------------------ *)

Definition suffix {A : Type} (l' l : list A) : Prop := exists p, l = p ++ l'.

Lemma Forall2_weaken {A B : Type} (P Q : A -> B -> Prop) l1 l2 :
  (forall a b, P a b -> Q a b) -> Forall2 P l1 l2 -> Forall2 Q l1 l2.
Proof.
  intros HPQ H. induction H as [|a b l1 l2 Hab Hl IH]; constructor; auto.
Qed.

Lemma Forall2_comp {A : Type} (P Q R : A -> A -> Prop) l1 l2 l3 :
  (forall a b c, P a b -> Q b c -> R a c) -> Forall2 P l1 l2 -> Forall2 Q l2 l3 -> Forall2 R l1 l3.
Proof.
  intros HT H. revert l3. induction H as [|a b l1 l2 Hab Hl IH]; intros l3 H3.
  - inversion H3; subst. constructor.
  - inversion H3 as [|b' c l2' l3' Hbc Hl3]; subst. constructor; [eapply HT; eauto | apply IH; exact Hl3].
Qed.

Lemma Forall2_in_r {A B : Type} (R : A -> B -> Prop) l1 l2 b :
  Forall2 R l1 l2 -> In b l2 -> exists a, In a l1 /\ R a b.
Proof.
  intros H. induction H as [|a b' l1 l2 Hab Hl IH]; intros Hin.
  - destruct Hin.
  - destruct Hin as [->|Hin].
    + exists a. split; [left; reflexivity | exact Hab].
    + destruct (IH Hin) as (a' & Ha' & HR). exists a'. split; [right; exact Ha' | exact HR].
Qed.

Lemma Forall2_refl_on {A : Type} (R : A -> A -> Prop) l : (forall a, R a a) -> Forall2 R l l.
Proof. intros HR. induction l; constructor; auto. Qed.

Lemma NoDup_app_l {A : Type} (l1 l2 : list A) : NoDup (l1 ++ l2) -> NoDup l1.
Proof.
  induction l1 as [|a l1 IH]; intros H; [constructor|].
  cbn in H. inversion H as [|a' l' Hn Hd]; subst. constructor.
  - intros Hin. apply Hn. apply in_or_app. left; exact Hin.
  - apply IH; exact Hd.
Qed.

Lemma NoDup_app_r {A : Type} (l1 l2 : list A) : NoDup (l1 ++ l2) -> NoDup l2.
Proof.
  induction l1 as [|a l1 IH]; intros H; [exact H|].
  cbn in H. inversion H; subst. apply IH; assumption.
Qed.

Lemma NoDup_app_intro {A : Type} (l1 l2 : list A) :
  NoDup l1 -> NoDup l2 -> (forall x, In x l1 -> ~ In x l2) -> NoDup (l1 ++ l2).
Proof.
  intros H1 H2 Hd. induction H1 as [|a l1 Hn H1 IH]; [exact H2|].
  cbn. constructor.
  - intros Hin. apply in_app_or in Hin. destruct Hin as [Hin|Hin]; [exact (Hn Hin)|].
    apply (Hd a); [left; reflexivity | exact Hin].
  - apply IH. intros x Hx. apply Hd. right; exact Hx.
Qed.

Lemma total_units_cons l (st : fstate) : total_units (l :: st) = (length l + total_units st)%nat.
Proof. reflexivity. Qed.

Lemma ids_of_cons l (st : fstate) : ids_of (l :: st) = map fid l ++ ids_of st.
Proof. reflexivity. Qed.

(* ------------------------------------------------------------------ *)
(* windows are made of units of the state                              *)
(* ------------------------------------------------------------------ *)

Lemma take_round_spec xl rem rm rem' win rm' k : take_round xl rem rm = (rem', win, rm', k) ->
  length rem' = length rem /\ k = length win /\
  Forall2 (fun l l' => l = l' \/ exists u, l = u :: l' /\ In u win) rem rem' /\
  (forall u, In u win -> exists l, In l rem /\ In u l) /\
  total_units rem = (total_units rem' + k)%nat.
Proof.
  revert rm rem' win rm' k.
  induction rem as [|l rest IH]; intros rm rem' win rm' k H.
  - cbn in H. inversion H; subst. repeat split; auto. intros u [].
  - cbn [take_round] in H. destruct l as [|u l'].
    + destruct (take_round xl rest rm) as [[[r1 w1] m1] k1] eqn:E.
      inversion H; subst; clear H.
      destruct (IH _ _ _ _ _ E) as (A & B & C & D & F).
      split; [cbn [length]; lia|]. split; [exact B|]. split; [constructor; auto|].
      split.
      * intros u Hu. destruct (D u Hu) as (l & Hl & Hul). exists l. split; [right; exact Hl | exact Hul].
      * rewrite !total_units_cons. cbn [length]. lia.
    + destruct (fe u <=? xl) eqn:Ele.
      * destruct (take_round xl rest (rmax u rm)) as [[[r1 w1] m1] k1] eqn:E.
        inversion H; subst; clear H.
        destruct (IH _ _ _ _ _ E) as (A & B & C & D & F).
        split; [cbn [length]; lia|]. split; [cbn [length]; lia|].
        split; [|split].
        -- constructor.
           ++ right. exists u. split; [reflexivity | left; reflexivity].
           ++ eapply Forall2_weaken; [|exact C].
              intros a b [Hab|(v & Hv & Hin)]; [left; exact Hab|].
              right. exists v. split; [exact Hv | right; exact Hin].
        -- intros v Hv. destruct Hv as [<-|Hv].
           ++ exists (u :: l'). split; left; reflexivity.
           ++ destruct (D v Hv) as (l & Hl & Hvl). exists l. split; [right; exact Hl | exact Hvl].
        -- rewrite !total_units_cons. cbn [length]. lia.
      * destruct (take_round xl rest rm) as [[[r1 w1] m1] k1] eqn:E.
        inversion H; subst; clear H.
        destruct (IH _ _ _ _ _ E) as (A & B & C & D & F).
        split; [cbn [length]; lia|]. split; [exact B|]. split; [constructor; auto|].
        split.
        -- intros v Hv. destruct (D v Hv) as (l & Hl & Hvl). exists l. split; [right; exact Hl | exact Hvl].
        -- rewrite !total_units_cons. cbn [length]. lia.
Qed.

Lemma suffix_in {A : Type} (l' l : list A) u : suffix l' l -> In u l' -> In u l.
Proof. intros [p ->] Hin. apply in_or_app. right; exact Hin. Qed.

Lemma head_rounds_spec fuel tt taken rem win rm rem' win' rm' :
  head_rounds fuel tt taken rem win rm = (rem', win', rm') ->
  Forall2 (fun l l' => suffix l' l) rem rem' /\
  (forall u, In u win' -> In u win \/ exists l, In l rem /\ In u l).
Proof.
  assert (Hrefl : forall r : fstate, Forall2 (fun l l' => suffix l' l) r r).
  { intros r. apply Forall2_refl_on. intros a. exists []. reflexivity. }
  revert taken rem win rm rem' win' rm'.
  induction fuel as [|f IH]; intros taken rem win rm rem' win' rm' H.
  - cbn [head_rounds] in H. destruct (tt <=? taken)%nat; inversion H; subst; (split; [apply Hrefl | auto]).
  - cbn [head_rounds] in H. destruct (tt <=? taken)%nat.
    + inversion H; subst. split; [apply Hrefl | auto].
    + destruct (min_head_end rem) as [xl|] eqn:M.
      * destruct (take_round xl rem rm) as [[[r1 w1] m1] k1] eqn:E.
        apply IH in H. destruct H as [H1 H2].
        destruct (take_round_spec _ _ _ _ _ _ _ E) as (A & B & C & D & F).
        split.
        -- eapply Forall2_comp; [|exact C|exact H1].
           intros a b c Hab Hbc. cbn beta in *. destruct Hbc as [p Hp].
           destruct Hab as [Hab|(u & Hu & _)].
           ++ exists p. rewrite Hab. exact Hp.
           ++ exists (u :: p). rewrite Hu, Hp. reflexivity.
        -- intros u Hu. destruct (H2 u Hu) as [Hin|(l & Hl & Hul)].
           ++ apply in_app_or in Hin. destruct Hin as [Hin|Hin]; [left; exact Hin | right; apply D; exact Hin].
           ++ right. destruct (Forall2_in_r _ _ _ _ C Hl) as (l0 & Hl0 & HR).
              exists l0. split; [exact Hl0|].
              destruct HR as [->|(v & -> & _)]; [exact Hul | right; exact Hul].
      * inversion H; subst. split; [apply Hrefl | auto].
Qed.

Lemma reach_one_incl dtab thr rm l : incl (reach_one dtab thr rm l) l.
Proof.
  induction l as [|u l IH]; intros x Hx; cbn [reach_one] in Hx.
  - destruct Hx.
  - destruct rm as [r|]; [|destruct Hx].
    destruct (thr <? dtab (fid r) (fid u)); [destruct Hx|].
    destruct Hx as [<-|Hx]; [left; reflexivity | right; apply IH; exact Hx].
Qed.

Theorem first_window_incl dtab thr w st win xl : first_window dtab thr w st = (win, xl) ->
  forall u, In u win -> exists l, In l st /\ In u l.
Proof.
  unfold first_window. intros H u Hu.
  destruct (head_rounds (S (total_units st)) (Nat.min (total_units st) (w * length st)) 0 st [] None)
    as [[rem head] rm] eqn:E.
  inversion H; subst; clear H.
  destruct (head_rounds_spec _ _ _ _ _ _ _ _ _ E) as [H1 H2].
  apply in_app_or in Hu. destruct Hu as [Hu|Hu].
  - destruct (H2 u Hu) as [[]|Hex]. exact Hex.
  - apply in_flat_map in Hu. destruct Hu as (l' & Hl' & Hul').
    apply reach_one_incl in Hul'.
    destruct (Forall2_in_r _ _ _ _ H1 Hl') as (l & Hl & Hsuf).
    exists l. split; [exact Hl | eapply suffix_in; eauto].
Qed.

Lemma zmax0_nonneg l : 0 <= zmax0 l.
Proof.
  unfold zmax0. induction l as [|a l IH]; cbn [fold_right]; [lia|].
  apply Z.le_trans with (1 := IH). apply Z.le_max_r.
Qed.

Theorem first_window_limit dtab thr w st win xl : first_window dtab thr w st = (win, xl) -> 0 <= xl.
Proof.
  unfold first_window. intros H.
  destruct (head_rounds (S (total_units st)) (Nat.min (total_units st) (w * length st)) 0 st [] None)
    as [[rem head] rm] eqn:E.
  inversion H; subst. apply zmax0_nonneg.
Qed.

(* ------------------------------------------------------------------ *)
(* the chosen tuples                                                   *)
(* ------------------------------------------------------------------ *)

Lemma insert_by_perm t l : Permutation (insert_by t l) (t :: l).
Proof.
  induction l as [|h r IH]; cbn [insert_by]; [apply Permutation_refl|].
  destruct (ble (tbound h) (tbound t)); [|apply Permutation_refl].
  apply Permutation_trans with (h :: t :: r); [constructor; exact IH | apply perm_swap].
Qed.

Lemma fold_insert_perm al acc :
  Permutation (fold_left (fun acc t => insert_by t acc) al acc) (al ++ acc).
Proof.
  revert acc. induction al as [|t al IH]; intros acc; cbn [fold_left app]; [apply Permutation_refl|].
  apply Permutation_trans with (1 := IH (insert_by t acc)).
  apply Permutation_trans with (al ++ t :: acc).
  - apply Permutation_app_head. apply insert_by_perm.
  - apply Permutation_sym. apply Permutation_middle.
Qed.

Lemma sort_by_bound_perm al : Permutation (sort_by_bound al) al.
Proof.
  unfold sort_by_bound. apply Permutation_trans with (1 := fold_insert_perm al []).
  rewrite app_nil_r. apply Permutation_refl.
Qed.

Lemma take_while_le_prefix xl l : exists r, l = take_while_le xl l ++ r.
Proof.
  induction l as [|t l IH]; cbn [take_while_le]; [exists []; reflexivity|].
  destruct (ble (tbound t) (Some xl)).
  - destruct IH as [r Hr]. exists r. cbn [app]. rewrite <- Hr. reflexivity.
  - exists (t :: l). reflexivity.
Qed.

Lemma take_while_le_all xl l : (forall t, In t l -> ble (tbound t) (Some xl) = true) -> take_while_le xl l = l.
Proof.
  induction l as [|t l IH]; intros H; cbn [take_while_le]; [reflexivity|].
  rewrite (H t (or_introl eq_refl)). rewrite IH; [reflexivity|].
  intros t' Ht'. apply H. right; exact Ht'.
Qed.

Lemma first_min_in al t : first_min al = Some t -> In t al.
Proof.
  revert t. induction al as [|h r IH]; intros t H; cbn [first_min] in H; [discriminate|].
  destruct (first_min r) as [m|] eqn:E.
  - destruct (ble (tbound h) (tbound m)); inversion H; subst; [left; reflexivity | right; apply IH; reflexivity].
  - inversion H; subst. left; reflexivity.
Qed.

Lemma first_min_some al : al <> [] -> exists t, first_min al = Some t.
Proof.
  destruct al as [|h r]; intros H; [contradiction|].
  cbn [first_min]. destruct (first_min r) as [m|]; [destruct (ble (tbound h) (tbound m))|]; eauto.
Qed.

Lemma take_until_limit_split al xl : exists r, Permutation al (take_until_limit al xl ++ r).
Proof.
  unfold take_until_limit. destruct (take_while_le_prefix xl (sort_by_bound al)) as [r Hr].
  exists r. rewrite <- Hr. apply Permutation_sym. apply sort_by_bound_perm.
Qed.

(* the chosen tuples are a sub-multiset of the alignment *)
Lemma chosen_split repaired al xl : exists r, Permutation al (chosen repaired al xl ++ r).
Proof.
  unfold chosen. destruct (take_until_limit al xl) as [|t0 l0] eqn:E.
  - destruct repaired; [|exists al; apply Permutation_refl].
    destruct (first_min al) as [t|] eqn:F; [|exists al; apply Permutation_refl].
    apply first_min_in in F. apply in_split in F. destruct F as (l1 & l2 & ->).
    exists (l1 ++ l2). cbn [app]. apply Permutation_sym. apply Permutation_middle.
  - rewrite <- E. apply take_until_limit_split.
Qed.

Theorem chosen_incl repaired al xl : incl (chosen repaired al xl) al.
Proof.
  destruct (chosen_split repaired al xl) as [r Hr]. intros x Hx.
  apply Permutation_in with (1 := Permutation_sym Hr). apply in_or_app. left; exact Hx.
Qed.

Theorem chosen_repaired_nonempty al xl : al <> [] -> chosen true al xl <> [].
Proof.
  intros H. unfold chosen. destruct (take_until_limit al xl) as [|t0 l0]; [|discriminate].
  destruct (first_min_some al H) as [t ->]. discriminate.
Qed.

Theorem chosen_NoDup repaired al xl : NoDup al -> NoDup (chosen repaired al xl).
Proof.
  intros H. destruct (chosen_split repaired al xl) as [r Hr].
  apply Permutation_NoDup with (1 := Hr) in H. eapply NoDup_app_l; exact H.
Qed.

Theorem chosen_all repaired al xl : (forall t, In t al -> ble (tbound t) (Some xl) = true) -> Permutation (chosen repaired al xl) al.
Proof.
  intros H. unfold chosen, take_until_limit.
  rewrite take_while_le_all.
  2:{ intros t Ht. apply H. apply Permutation_in with (1 := sort_by_bound_perm al). exact Ht. }
  destruct (sort_by_bound al) as [|t0 l0] eqn:E.
  - pose proof (sort_by_bound_perm al) as P. rewrite E in P. apply Permutation_nil in P. subst al.
    destruct repaired; cbn; constructor.
  - rewrite <- E. apply sort_by_bound_perm.
Qed.

(* ------------------------------------------------------------------ *)
(* removal                                                             *)
(* ------------------------------------------------------------------ *)

Definition keep_id (ids : list nat) (i : nat) : bool := negb (existsb (Nat.eqb i) ids).

Lemma keep_id_spec ids i : keep_id ids i = true <-> ~ In i ids.
Proof.
  unfold keep_id. rewrite negb_true_iff. split.
  - intros H Hin. assert (existsb (Nat.eqb i) ids = true) as Ht.
    { apply existsb_exists. exists i. split; [exact Hin | apply Nat.eqb_refl]. }
    rewrite Ht in H. discriminate.
  - intros H. destruct (existsb (Nat.eqb i) ids) eqn:Ex; [|reflexivity].
    exfalso. apply H. apply existsb_exists in Ex. destruct Ex as (x & Hx & Heq).
    apply Nat.eqb_eq in Heq. subst x. exact Hx.
Qed.

Lemma map_fid_filter ids l :
  map fid (filter (fun u => negb (existsb (Nat.eqb (fid u)) ids)) l) = filter (keep_id ids) (map fid l).
Proof.
  induction l as [|u l IH]; cbn [filter map]; [reflexivity|].
  unfold keep_id at 1. destruct (negb (existsb (Nat.eqb (fid u)) ids)); cbn [map]; rewrite IH; reflexivity.
Qed.

Lemma ids_of_remove ids st : ids_of (remove_ids ids st) = filter (keep_id ids) (ids_of st).
Proof.
  induction st as [|l st IH]; [reflexivity|].
  unfold remove_ids in *. cbn [map]. rewrite !ids_of_cons, filter_app, map_fid_filter, IH. reflexivity.
Qed.

Lemma ids_remove ids st : forall i, In i (ids_of (remove_ids ids st)) <-> (In i (ids_of st) /\ ~ In i ids).
Proof.
  intros i. rewrite ids_of_remove, filter_In, keep_id_spec. tauto.
Qed.

Lemma NoDup_ids_remove ids st : NoDup (ids_of st) -> NoDup (ids_of (remove_ids ids st)).
Proof. intros H. rewrite ids_of_remove. apply NoDup_filter. exact H. Qed.

Lemma total_units_ids st : total_units st = length (ids_of st).
Proof.
  induction st as [|l st IH]; [reflexivity|].
  rewrite total_units_cons, ids_of_cons, app_length, map_length, IH. reflexivity.
Qed.

(* ------------------------------------------------------------------ *)
(* one step                                                            *)
(* ------------------------------------------------------------------ *)

Definition al_ids (al : list ftuple) : list nat := flat_map tuple_ids al.
Definition acceptable (st : fstate) (al : list ftuple) : Prop :=
  NoDup (al_ids al) /\ incl (al_ids al) (ids_of st) /\ (forall t, In t al -> tuple_ids t <> []) /\ NoDup al.

Lemma al_ids_app a b : al_ids (a ++ b) = al_ids a ++ al_ids b.
Proof. unfold al_ids. apply flat_map_app. Qed.

Lemma al_ids_split al ch r : Permutation al (ch ++ r) -> Permutation (al_ids al) (al_ids ch ++ al_ids r).
Proof.
  intros H. rewrite <- al_ids_app. unfold al_ids. apply Permutation_flat_map. exact H.
Qed.

Lemma chosen_ids_NoDup repaired al xl : NoDup (al_ids al) -> NoDup (al_ids (chosen repaired al xl)).
Proof.
  intros H. destruct (chosen_split repaired al xl) as [r Hr].
  apply al_ids_split in Hr. apply Permutation_NoDup with (1 := Hr) in H. eapply NoDup_app_l; exact H.
Qed.

Lemma chosen_ids_incl repaired al xl : incl (al_ids (chosen repaired al xl)) (al_ids al).
Proof.
  destruct (chosen_split repaired al xl) as [r Hr]. apply al_ids_split in Hr.
  intros x Hx. apply Permutation_in with (1 := Permutation_sym Hr). apply in_or_app. left; exact Hx.
Qed.

Theorem fast_step_partition repaired dtab thr w st al ch st' :
  NoDup (ids_of st) -> acceptable st al -> fast_step repaired dtab thr w st al = (ch, st') ->
  NoDup (ids_of st') /\ NoDup (al_ids ch) /\
  (forall i, In i (ids_of st) <-> (In i (al_ids ch) \/ In i (ids_of st'))) /\
  (forall i, In i (al_ids ch) -> ~ In i (ids_of st')).
Proof.
  intros Hnd (Hnd_al & Hincl & Hne & Hnd_t) H.
  unfold fast_step in H. destruct (first_window dtab thr w st) as [win xl].
  inversion H; subst; clear H.
  fold (al_ids (chosen repaired al xl)).
  split; [apply NoDup_ids_remove; exact Hnd|].
  split; [apply chosen_ids_NoDup; exact Hnd_al|].
  split.
  - intros i. rewrite ids_remove. split.
    + intros Hi. destruct (in_dec Nat.eq_dec i (al_ids (chosen repaired al xl))) as [Hin|Hnin]; [left; exact Hin | right; split; assumption].
    + intros [Hi|[Hi _]]; [|exact Hi]. apply Hincl. apply (chosen_ids_incl repaired al xl). exact Hi.
  - intros i Hi. rewrite ids_remove. tauto.
Qed.

Theorem fast_step_progress dtab thr w st al ch st' :
  NoDup (ids_of st) -> acceptable st al -> al <> [] -> fast_step true dtab thr w st al = (ch, st') ->
  (total_units st' < total_units st)%nat.
Proof.
  intros Hnd Hacc Hne H.
  destruct (fast_step_partition _ _ _ _ _ _ _ _ Hnd Hacc H) as (Hnd' & Hndch & Hiff & Hdisj).
  assert (Hch : ch <> []).
  { unfold fast_step in H. destruct (first_window dtab thr w st) as [win xl].
    inversion H; subst. apply chosen_repaired_nonempty. exact Hne. }
  assert (Hchal : incl ch al).
  { unfold fast_step in H. destruct (first_window dtab thr w st) as [win xl].
    inversion H; subst. apply chosen_incl. }
  destruct ch as [|t ch0]; [contradiction|].
  destruct Hacc as (_ & _ & Hnet & _).
  assert (Ht : tuple_ids t <> []) by (apply Hnet; apply Hchal; left; reflexivity).
  destruct (tuple_ids t) as [|i ti] eqn:Eti; [contradiction|].
  assert (Hi : In i (al_ids (t :: ch0))).
  { unfold al_ids. cbn [flat_map]. rewrite Eti. left; reflexivity. }
  rewrite !total_units_ids.
  assert (Hle : (length (i :: ids_of st') <= length (ids_of st))%nat).
  { apply NoDup_incl_length.
    - constructor; [apply Hdisj; exact Hi | exact Hnd'].
    - intros x [<-|Hx]; apply Hiff; [left; exact Hi | right; exact Hx]. }
  cbn [length] in Hle. lia.
Qed.

(* ------------------------------------------------------------------ *)
(* the whole run                                                       *)
(* ------------------------------------------------------------------ *)

Fixpoint all_acceptable (repaired : bool) (dtab : nat -> nat -> Z) (thr : Z) (w : nat) (st : fstate) (oracle : list (list ftuple)) : Prop :=
  match total_units st with
  | O => True
  | _ => match oracle with
         | [] => True
         | al :: rest => acceptable st al /\ al <> [] /\ all_acceptable repaired dtab thr w (snd (fast_step repaired dtab thr w st al)) rest
         end
  end.

Theorem fast_run_partition repaired dtab thr w st oracle res final :
  NoDup (ids_of st) -> all_acceptable repaired dtab thr w st oracle ->
  fast_run repaired dtab thr w st oracle = (res, final) ->
  NoDup (al_ids res) /\ NoDup (ids_of final) /\
  (forall i, In i (ids_of st) <-> (In i (al_ids res) \/ In i (ids_of final))) /\
  (forall i, In i (al_ids res) -> ~ In i (ids_of final)).
Proof.
  assert (Hbase : forall st0 : fstate, NoDup (ids_of st0) ->
            NoDup (al_ids []) /\ NoDup (ids_of st0) /\
            (forall i, In i (ids_of st0) <-> (In i (al_ids []) \/ In i (ids_of st0))) /\
            (forall i, In i (al_ids []) -> ~ In i (ids_of st0))).
  { intros st0 H0. cbn. split; [constructor|]. split; [exact H0|]. split; [intros i; tauto | intros i []]. }
  revert st res final. induction oracle as [|al rest IH]; intros st res final Hnd Hacc H.
  - cbn [fast_run] in H. destruct (total_units st); inversion H; subst; apply Hbase; exact Hnd.
  - cbn [fast_run all_acceptable] in H, Hacc. destruct (total_units st) as [|n] eqn:T.
    + inversion H; subst. apply Hbase; exact Hnd.
    + destruct Hacc as (Ha & Hne & Hrest).
      destruct (fast_step repaired dtab thr w st al) as [ch st'] eqn:E.
      cbn [snd] in Hrest.
      destruct (fast_run repaired dtab thr w st' rest) as [more fin] eqn:E2.
      inversion H; subst; clear H.
      destruct (fast_step_partition _ _ _ _ _ _ _ _ Hnd Ha E) as (Hnd' & Hndch & Hiff & Hdisj).
      destruct (IH _ _ _ Hnd' Hrest E2) as (Hndm & Hndf & Hiff2 & Hdisj2).
      rewrite al_ids_app.
      split.
      { apply NoDup_app_intro; [exact Hndch | exact Hndm|].
        intros x Hx Hx2. apply (Hdisj x Hx). apply Hiff2. left; exact Hx2. }
      split; [exact Hndf|].
      split.
      * intros i. rewrite in_app_iff, Hiff, Hiff2. tauto.
      * intros i Hi Hf. apply in_app_or in Hi. destruct Hi as [Hi|Hi].
        -- apply (Hdisj i Hi). apply Hiff2. right; exact Hf.
        -- exact (Hdisj2 i Hi Hf).
Qed.

Theorem fast_run_terminates dtab thr w st oracle res final :
  NoDup (ids_of st) -> all_acceptable true dtab thr w st oracle -> (total_units st <= length oracle)%nat ->
  fast_run true dtab thr w st oracle = (res, final) -> total_units final = 0%nat.
Proof.
  revert st res final. induction oracle as [|al rest IH]; intros st res final Hnd Hacc Hlen H.
  - cbn [fast_run] in H. cbn [length] in Hlen.
    destruct (total_units st) eqn:T; inversion H; subst; [exact T | lia].
  - cbn [fast_run all_acceptable] in H, Hacc. cbn [length] in Hlen.
    destruct (total_units st) as [|n] eqn:T.
    + inversion H; subst. exact T.
    + destruct Hacc as (Ha & Hne & Hrest).
      destruct (fast_step true dtab thr w st al) as [ch st'] eqn:E.
      cbn [snd] in Hrest.
      destruct (fast_run true dtab thr w st' rest) as [more fin] eqn:E2.
      inversion H; subst; clear H.
      destruct (fast_step_partition _ _ _ _ _ _ _ _ Hnd Ha E) as (Hnd' & _).
      pose proof (fast_step_progress _ _ _ _ _ _ _ Hnd Ha Hne E) as Hlt.
      rewrite T in Hlt.
      apply (IH st' more final Hnd' Hrest); [lia | exact E2].
Qed.

(* ------------------------------------------------------------------ *)
(* refutation of the unrepaired step                                   *)
(* ------------------------------------------------------------------ *)

(* a: [0,1], [2,3] ; b: [0,50], [2.1,3.1] (times x10); window size 1: the head of the first window is {a0, a1}, limit 30;
   every tuple of the alignment {a0 b0}, {a1 b1} ends after the limit: nothing is taken. *)
Definition wit_st : fstate := [[mkFU 0 0 10 0; mkFU 1 20 30 2]; [mkFU 2 0 500 1; mkFU 3 21 31 3]].
Definition wit_dtab : nat -> nat -> Z := fun _ _ => 0.
Definition wit_al : list ftuple :=
  [[Some (mkFU 0 0 10 0); Some (mkFU 2 0 500 1)]; [Some (mkFU 1 20 30 2); Some (mkFU 3 21 31 3)]].

Eval vm_compute in (first_window wit_dtab 1 1 wit_st).
Eval vm_compute in (fast_step false wit_dtab 1 1 wit_st wit_al).
Eval vm_compute in (fast_step true wit_dtab 1 1 wit_st wit_al).

Theorem unrepaired_step_can_stall :
  exists dtab thr w st al, NoDup (ids_of st) /\ acceptable st al /\ al <> [] /\ (0 < total_units st)%nat /\
    fast_step false dtab thr w st al = ([], st).
Proof.
  exists wit_dtab, 1, 1%nat, wit_st, wit_al.
  assert (Hids : NoDup [0; 1; 2; 3]%nat).
  { repeat constructor; cbn; intuition discriminate. }
  split; [exact Hids|].
  split.
  { unfold acceptable. split; [|split; [|split]].
    - change (NoDup [0; 2; 1; 3]%nat). repeat constructor; cbn; intuition discriminate.
    - change (incl [0; 2; 1; 3]%nat [0; 1; 2; 3]%nat). intros x Hx. cbn in *. intuition.
    - intros t Ht. cbn in Ht. destruct Ht as [<-|[<-|[]]]; cbn; discriminate.
    - unfold wit_al. repeat constructor; cbn; intuition discriminate. }
  split; [discriminate|].
  split; [cbn; lia|].
  vm_compute. reflexivity.
Qed.

Print Assumptions first_window_incl.
Print Assumptions first_window_limit.
Print Assumptions chosen_incl.
Print Assumptions chosen_repaired_nonempty.
Print Assumptions chosen_NoDup.
Print Assumptions chosen_all.
Print Assumptions fast_step_partition.
Print Assumptions fast_step_progress.
Print Assumptions fast_run_partition.
Print Assumptions fast_run_terminates.
Print Assumptions unrepaired_step_can_stall.
Print Assumptions take_round_spec.
Print Assumptions sort_by_bound_perm.
Print Assumptions ids_remove.
Print Assumptions NoDup_ids_remove.
Print Assumptions total_units_ids.
