(* Model of the choice Continuum.measure_best_window_size makes (continuum.py) and of the dispatch of _compute_fast_alignment_job - C10.
   The cost estimate itself (floating-point, log2) is NOT modelled: it enters as the index of its minimum and the outcome of the
   "advantageous" test.  What is modelled is which window sizes can ever reach get_fast_alignment. *)
From Coq Require Import List Arith ZArith Lia.
Import ListNotations.
Local Open Scope Z_scope.

(* np.arange(lo, hi) on integers *)
Definition arange (lo hi : Z) : list Z := map (fun k => lo + Z.of_nat k) (seq 0 (Z.to_nat (hi - lo))).

(* best_window_size after the call: None stands for np.inf (the attribute is left as it was initialised) *)
Definition measured_window (lo hi : Z) (min_index : nat) (advantageous : bool) : option Z :=
  if advantageous then nth_error (arange lo hi) min_index else None.

(* _compute_fast_alignment_job: the exact route when the size is np.inf, the windowed route with that size otherwise *)
Inductive route := Exact | Windowed (w : Z).
Definition fast_job_route (best_window_size : option Z) : route :=
  match best_window_size with None => Exact | Some w => Windowed w end.

Lemma arange_length lo hi : length (arange lo hi) = Z.to_nat (hi - lo).
Proof. unfold arange. rewrite map_length, seq_length. reflexivity. Qed.

Lemma arange_nth lo hi i w : nth_error (arange lo hi) i = Some w -> w = lo + Z.of_nat i /\ (i < Z.to_nat (hi - lo))%nat.
Proof.
  unfold arange. intros H.
  assert (Hlt : (i < Z.to_nat (hi - lo))%nat).
  { assert (Hn : nth_error (map (fun k => lo + Z.of_nat k) (seq 0 (Z.to_nat (hi - lo)))) i <> None) by (rewrite H; discriminate).
    apply nth_error_Some in Hn. rewrite map_length, seq_length in Hn. exact Hn. }
  split; [|exact Hlt].
  rewrite nth_error_map in H.
  rewrite (nth_error_nth' _ 0%nat) in H by (rewrite seq_length; exact Hlt).
  cbn [option_map] in H. rewrite seq_nth in H by exact Hlt. injection H as <-. reflexivity.
Qed.

(* the sizes offered are never empty (np.argmin is defined) and every measured size is a whole number in [1, max(2, M) - 1] *)
Theorem window_sizes_nonempty M : arange 1 (Z.max 2 M) <> [].
Proof. intros H. apply (f_equal (@length Z)) in H. rewrite arange_length in H. simpl in H. lia. Qed.

Theorem measured_window_in_range M i b w : measured_window 1 (Z.max 2 M) i b = Some w -> 1 <= w <= Z.max 2 M - 1.
Proof.
  unfold measured_window. destruct b; [|discriminate]. intros H. apply arange_nth in H. destruct H as [-> Hlt]. lia.
Qed.

Theorem argmin_index_is_served M i : (i < length (arange 1 (Z.max 2 M)))%nat -> exists w, measured_window 1 (Z.max 2 M) i true = Some w.
Proof.
  intros Hlt. unfold measured_window. destruct (nth_error (arange 1 (Z.max 2 M)) i) as [w|] eqn:E; [exists w; reflexivity|].
  apply nth_error_None in E. lia.
Qed.

(* the windowed route is only ever entered with a size >= 1 *)
Theorem fast_job_window_positive M i b w : fast_job_route (measured_window 1 (Z.max 2 M) i b) = Windowed w -> 1 <= w.
Proof.
  destruct (measured_window 1 (Z.max 2 M) i b) as [w'|] eqn:E; cbn [fast_job_route]; [|discriminate].
  intros H. injection H as <-. apply measured_window_in_range in E. lia.
Qed.
Theorem fast_job_exact_iff_unmeasured bws : fast_job_route bws = Exact <-> bws = None.
Proof. destruct bws; cbn; split; congruence. Qed.

Print Assumptions window_sizes_nonempty.
Print Assumptions measured_window_in_range.
Print Assumptions argmin_index_is_served.
Print Assumptions fast_job_window_positive.
Print Assumptions fast_job_exact_iff_unmeasured.
