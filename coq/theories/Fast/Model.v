(* Model of the fast alignment (continuum.py:627-705, alignment.py:183-187) - C10.
   Units carry an identifier, their annotator, integer-scaled start / end and their rank in the Unit order.  The best alignment of
   each window is an ORACLE: the list of alignments actually returned by the library is an input of the model; theorems assume of it
   only what is stated (a partition of the window).  Definitions only. *)
From Coq Require Import List Arith ZArith Lia Bool.
Import ListNotations.
Local Open Scope Z_scope.

Record funit := mkFU { fid : nat; fs : Z; fe : Z; frank : Z }.
Definition fstate := list (list funit).              (* one list per annotator, in the continuum's order *)
Definition ftuple := list (option funit).            (* one slot per annotator *)

Definition total_units (st : fstate) : nat := fold_right (fun l acc => (length l + acc)%nat) 0%nat st.
Definition ids_of (st : fstate) : list nat := flat_map (map fid) st.
Definition tuple_ids (t : ftuple) : list nat := flat_map (fun s => match s with Some u => [fid u] | None => [] end) t.

(* rightmost_unit = max(unit, rightmost_unit) in the Unit order; None is the "-infinity" unit *)
Definition rmax (u : funit) (rm : option funit) : option funit :=
  match rm with
  | None => Some u
  | Some r => if frank r <=? frank u then Some u else Some r     (* max(a, b) returns a unless b > a *)
  end.

(* smallest end among the units at the current index of each annotator *)
Definition min_head_end (rem : fstate) : option Z :=
  fold_right (fun l acc => match l with
                           | [] => acc
                           | u :: _ => match acc with None => Some (fe u) | Some m => Some (Z.min (fe u) m) end
                           end) None rem.

(* one round: every annotator whose current unit ends at or before x_limit gives it to the window *)
Fixpoint take_round (xl : Z) (rem : fstate) (rm : option funit) : fstate * list funit * option funit * nat :=
  match rem with
  | [] => ([], [], rm, 0%nat)
  | l :: rest =>
    match l with
    | u :: l' =>
      if fe u <=? xl then
        let '(rest', win, rm', k) := take_round xl rest (rmax u rm) in (l' :: rest', u :: win, rm', S k)
      else
        let '(rest', win, rm', k) := take_round xl rest rm in (l :: rest', win, rm', k)
    | [] => let '(rest', win, rm', k) := take_round xl rest rm in ([] :: rest', win, rm', k)
    end
  end.

Fixpoint head_rounds (fuel : nat) (to_take taken : nat) (rem : fstate) (win : list funit) (rm : option funit)
  : fstate * list funit * option funit :=
  if (to_take <=? taken)%nat then (rem, win, rm)
  else match fuel with
       | O => (rem, win, rm)
       | S f =>
         match min_head_end rem with
         | None => (rem, win, rm)
         | Some xl => let '(rem', w', rm', k) := take_round xl rem rm in
                      head_rounds f to_take (taken + k)%nat rem' (win ++ w') rm'
         end
       end.

(* reachable units: while d(rightmost, unit) <= delta_empty * n *)
Fixpoint reach_one (dtab : nat -> nat -> Z) (thr : Z) (rm : option funit) (l : list funit) : list funit :=
  match l with
  | [] => []
  | u :: l' =>
    match rm with
    | None => []                                   (* cannot happen on a non-empty continuum *)
    | Some r => if thr <? dtab (fid r) (fid u) then [] else u :: reach_one dtab thr rm l'
    end
  end.

Definition zmax0 (l : list Z) : Z := fold_right Z.max 0 l.

(* get_first_window: window units and x_limit = window.bound_sup (a fresh continuum starts with bounds (0, 0)) *)
Definition first_window (dtab : nat -> nat -> Z) (thr : Z) (w : nat) (st : fstate) : list funit * Z :=
  let n := length st in
  let total := total_units st in
  let to_take := Nat.min total (w * n) in
  let '(rem, head, rm) := head_rounds (S total) to_take 0 st [] None in
  let xl := zmax0 (map fe head) in
  (head ++ flat_map (reach_one dtab thr rm) rem, xl).

(* take_until_limit: stable sort by the rightmost end of the real units, keep while <= x_limit *)
Definition tbound (t : ftuple) : option Z :=
  fold_right (fun s acc => match s with
                           | Some u => match acc with None => Some (fe u) | Some m => Some (Z.max (fe u) m) end
                           | None => acc end) None t.
(* an all-empty tuple has bound -infinity in the code; it cannot occur in a best alignment *)
Definition ble (a b : option Z) : bool :=
  match a, b with None, _ => true | Some _, None => false | Some x, Some y => x <=? y end.
Fixpoint insert_by (t : ftuple) (l : list ftuple) : list ftuple :=
  match l with
  | [] => [t]
  | h :: r => if ble (tbound h) (tbound t) then h :: insert_by t r else t :: l     (* stable: after equal keys *)
  end.
Definition sort_by_bound (al : list ftuple) : list ftuple := fold_left (fun acc t => insert_by t acc) al [].
Fixpoint take_while_le (xl : Z) (l : list ftuple) : list ftuple :=
  match l with
  | [] => []
  | t :: r => if ble (tbound t) (Some xl) then t :: take_while_le xl r else []
  end.
Definition take_until_limit (al : list ftuple) (xl : Z) : list ftuple := take_while_le xl (sort_by_bound al).

(* the repaired choice: when nothing ends before the limit, the unitary alignment ending first (first minimal in list order) *)
Fixpoint first_min (al : list ftuple) : option ftuple :=
  match al with
  | [] => None
  | t :: r => match first_min r with
              | None => Some t
              | Some m => if ble (tbound t) (tbound m) then Some t else Some m
              end
  end.
Definition chosen (repaired : bool) (al : list ftuple) (xl : Z) : list ftuple :=
  match take_until_limit al xl with
  | [] => if repaired then match first_min al with Some t => [t] | None => [] end else []
  | l => l
  end.

Definition remove_ids (ids : list nat) (st : fstate) : fstate :=
  map (filter (fun u => negb (existsb (Nat.eqb (fid u)) ids))) st.

(* one iteration of the loop, given the oracle's alignment of the window *)
Definition fast_step (repaired : bool) (dtab : nat -> nat -> Z) (thr : Z) (w : nat) (st : fstate) (oracle_al : list ftuple)
  : list ftuple * fstate :=
  let '(win, xl) := first_window dtab thr w st in
  let ch := chosen repaired oracle_al xl in
  (ch, remove_ids (flat_map tuple_ids ch) st).

(* the whole loop over the recorded oracle answers; stops when the continuum is empty or the answers run out *)
Fixpoint fast_run (repaired : bool) (dtab : nat -> nat -> Z) (thr : Z) (w : nat) (st : fstate) (oracle : list (list ftuple))
  : list ftuple * fstate :=
  match total_units st with
  | O => ([], st)
  | _ => match oracle with
         | [] => ([], st)
         | al :: rest => let '(ch, st') := fast_step repaired dtab thr w st al in
                         let '(more, final) := fast_run repaired dtab thr w st' rest in (ch ++ more, final)
         end
  end.
