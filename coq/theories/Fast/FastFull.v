From Coq Require Import List Arith ZArith Lia Bool Permutation.
From PGA Require Import Fast.Model Fast.Proofs.
Import ListNotations.
Local Open Scope Z_scope.

(* Full window (C10): when the window size covers the whole continuum, one step of the fast loop takes the oracle's whole
   alignment and empties the continuum. *)

(* ------------------------------------------------------------------ *)
(* min_head_end                                                        *)
(* ------------------------------------------------------------------ *)

Lemma mhe_cons_nil rest : min_head_end ([] :: rest) = min_head_end rest.
Proof. reflexivity. Qed.

Lemma mhe_cons_cons u l rest :
  min_head_end ((u :: l) :: rest) =
  match min_head_end rest with None => Some (fe u) | Some m => Some (Z.min (fe u) m) end.
Proof. reflexivity. Qed.

Lemma mhe_none_total rem : min_head_end rem = None -> total_units rem = 0%nat.
Proof.
  induction rem as [|l rest IH]; intros H; [reflexivity|].
  destruct l as [|u l'].
  - rewrite mhe_cons_nil in H. rewrite total_units_cons. cbn [length]. rewrite (IH H). reflexivity.
  - rewrite mhe_cons_cons in H. destruct (min_head_end rest); discriminate.
Qed.

(* the minimum is attained by the current unit of some annotator, and is below every current unit *)
Lemma mhe_attained rem xl : min_head_end rem = Some xl -> exists l u r, In l rem /\ l = u :: r /\ fe u = xl.
Proof.
  revert xl. induction rem as [|l rest IH]; intros xl H; [discriminate|].
  destruct l as [|u l'].
  - rewrite mhe_cons_nil in H. destruct (IH _ H) as (l & v & r & Hl & Hv & Hfe).
    exists l, v, r. split; [right; exact Hl | split; assumption].
  - rewrite mhe_cons_cons in H. destruct (min_head_end rest) as [m|] eqn:M.
    + inversion H as [Hxl]; clear H. destruct (Z.le_gt_cases (fe u) m) as [Hle|Hgt].
      * exists (u :: l'), u, l'. split; [left; reflexivity | split; [reflexivity | lia]].
      * destruct (IH _ eq_refl) as (l & v & r & Hl & Hv & Hfe).
        exists l, v, r. split; [right; exact Hl | split; [exact Hv | lia]].
    + inversion H; subst. exists (u :: l'), u, l'. split; [left; reflexivity | split; reflexivity].
Qed.

Lemma total0_all_nil (rem : fstate) : total_units rem = 0%nat -> forall l, In l rem -> l = [].
Proof.
  induction rem as [|a rest IH]; intros H l Hin; [destruct Hin|].
  rewrite total_units_cons in H. destruct Hin as [<-|Hin].
  - destruct a as [|x a']; [reflexivity | cbn [length] in H; lia].
  - apply IH; [lia | exact Hin].
Qed.

Lemma mhe_lower rem xl : min_head_end rem = Some xl -> forall l u r, In l rem -> l = u :: r -> xl <= fe u.
Proof.
  revert xl. induction rem as [|l0 rest IH]; intros xl H l u r Hin Hl; [destruct Hin|].
  destruct l0 as [|u0 l0'].
  - rewrite mhe_cons_nil in H. destruct Hin as [<-|Hin]; [discriminate|]. eapply IH; eauto.
  - rewrite mhe_cons_cons in H. destruct (min_head_end rest) as [m|] eqn:M.
    + inversion H as [Hxl]; clear H. destruct Hin as [<-|Hin].
      * inversion Hl; subst. lia.
      * pose proof (IH _ eq_refl _ _ _ Hin Hl) as Hm. lia.
    + inversion H as [Hxl]; clear H. destruct Hin as [<-|Hin].
      * inversion Hl; subst. lia.
      * apply mhe_none_total in M. pose proof (total0_all_nil _ M _ Hin) as Hn. congruence.
Qed.

(* ------------------------------------------------------------------ *)
(* take_round                                                          *)
(* ------------------------------------------------------------------ *)

Lemma take_round_progress_gen xl rem : forall m rm rem' win rm' k,
  min_head_end rem = Some m -> m <= xl -> take_round xl rem rm = (rem', win, rm', k) -> (1 <= k)%nat.
Proof.
  induction rem as [|l rest IH]; intros m rm rem' win rm' k M Hle H; [discriminate|].
  cbn [take_round] in H. destruct l as [|u l'].
  - rewrite mhe_cons_nil in M.
    destruct (take_round xl rest rm) as [[[r1 w1] m1] k1] eqn:E.
    inversion H; subst; clear H. eapply IH; eauto.
  - destruct (fe u <=? xl) eqn:Ele.
    + destruct (take_round xl rest (rmax u rm)) as [[[r1 w1] m1] k1] eqn:E.
      inversion H; subst; clear H. lia.
    + apply Z.leb_gt in Ele.
      destruct (take_round xl rest rm) as [[[r1 w1] m1] k1] eqn:E.
      inversion H; subst; clear H.
      rewrite mhe_cons_cons in M. destruct (min_head_end rest) as [m'|] eqn:M'.
      * inversion M as [Hm]; clear M. eapply IH; [reflexivity | | exact E]. lia.
      * inversion M; subst. lia.
Qed.

(* each round makes progress: some annotator's current unit has the smallest end *)
Lemma take_round_progress xl rem rm rem' win rm' k :
  min_head_end rem = Some xl -> take_round xl rem rm = (rem', win, rm', k) -> (1 <= k)%nat.
Proof.
  intros M H. eapply take_round_progress_gen; [exact M | apply Z.le_refl | exact H].
Qed.

(* a round moves units from the lists to the window *)
Lemma take_round_perm xl rem : forall rm rem' win rm' k,
  take_round xl rem rm = (rem', win, rm', k) -> Permutation (win ++ concat rem') (concat rem).
Proof.
  induction rem as [|l rest IH]; intros rm rem' win rm' k H.
  - cbn in H. inversion H; subst. apply Permutation_refl.
  - cbn [take_round] in H. destruct l as [|u l'].
    + destruct (take_round xl rest rm) as [[[r1 w1] m1] k1] eqn:E.
      inversion H; subst; clear H. cbn [concat app]. eapply IH; exact E.
    + destruct (fe u <=? xl) eqn:Ele.
      * destruct (take_round xl rest (rmax u rm)) as [[[r1 w1] m1] k1] eqn:E.
        inversion H; subst; clear H. cbn [concat app]. constructor.
        eapply Permutation_trans.
        -- apply Permutation_app_swap_app.
        -- apply Permutation_app_head. eapply IH; exact E.
      * destruct (take_round xl rest rm) as [[[r1 w1] m1] k1] eqn:E.
        inversion H; subst; clear H. cbn [concat].
        eapply Permutation_trans.
        -- apply Permutation_app_swap_app.
        -- apply Permutation_app_head. eapply IH; exact E.
Qed.

(* ------------------------------------------------------------------ *)
(* head_rounds                                                         *)
(* ------------------------------------------------------------------ *)

Lemma head_rounds_takes_strong fuel to_take : forall taken rem win rm rem' win' rm',
  (total_units rem <= fuel)%nat -> (to_take <= taken + total_units rem)%nat ->
  head_rounds fuel to_take taken rem win rm = (rem', win', rm') ->
  (total_units rem' <= total_units rem)%nat /\
  (to_take <= taken + (total_units rem - total_units rem'))%nat /\
  length win' = (length win + (total_units rem - total_units rem'))%nat /\
  Permutation (win' ++ concat rem') (win ++ concat rem).
Proof.
  assert (Hstop : forall taken (rem : fstate) (win : list funit), (to_take <= taken)%nat ->
            (total_units rem <= total_units rem)%nat /\
            (to_take <= taken + (total_units rem - total_units rem))%nat /\
            length win = (length win + (total_units rem - total_units rem))%nat /\
            Permutation (win ++ concat rem) (win ++ concat rem)).
  { intros taken rem win Hle. split; [lia|]. split; [lia|]. split; [lia | apply Permutation_refl]. }
  induction fuel as [|f IH]; intros taken rem win rm rem' win' rm' Hfuel Htt H.
  - cbn [head_rounds] in H. destruct (to_take <=? taken)%nat eqn:Et.
    + apply Nat.leb_le in Et. inversion H; subst. apply Hstop; exact Et.
    + inversion H; subst. apply Hstop. lia.
  - cbn [head_rounds] in H. destruct (to_take <=? taken)%nat eqn:Et.
    + apply Nat.leb_le in Et. inversion H; subst. apply Hstop; exact Et.
    + apply Nat.leb_gt in Et. destruct (min_head_end rem) as [xl|] eqn:M.
      * destruct (take_round xl rem rm) as [[[r1 w1] m1] k1] eqn:E.
        pose proof (take_round_progress _ _ _ _ _ _ _ M E) as Hk.
        destruct (take_round_spec _ _ _ _ _ _ _ E) as (A & B & C & D & F).
        pose proof (take_round_perm _ _ _ _ _ _ _ E) as P.
        apply IH in H; [|lia|lia].
        destruct H as (H1 & H2 & H3 & H4).
        split; [lia|]. split; [lia|]. split; [rewrite app_length in H3; lia|].
        apply Permutation_trans with (1 := H4). rewrite <- app_assoc.
        apply Permutation_app_head. exact P.
      * apply mhe_none_total in M. inversion H; subst. apply Hstop. lia.
Qed.

(* with enough fuel the head rounds take at least to_take units (or everything) *)
Lemma head_rounds_takes fuel to_take taken rem win rm rem' win' rm' :
  (total_units rem + taken <= fuel + taken)%nat -> (to_take <= taken + total_units rem)%nat ->
  head_rounds fuel to_take taken rem win rm = (rem', win', rm') ->
  (to_take <= taken + (total_units rem - total_units rem'))%nat /\
  length win' = (length win + (total_units rem - total_units rem'))%nat.
Proof.
  intros Hfuel Htt H.
  assert (Hf : (total_units rem <= fuel)%nat) by lia.
  destruct (head_rounds_takes_strong _ _ _ _ _ _ _ _ _ Hf Htt H) as (_ & H2 & H3 & _).
  split; assumption.
Qed.

(* ------------------------------------------------------------------ *)
(* the full window                                                     *)
(* ------------------------------------------------------------------ *)

Lemma total0_concat (rem : fstate) : total_units rem = 0%nat -> concat rem = [].
Proof.
  induction rem as [|a rest IH]; intros H; [reflexivity|].
  rewrite total_units_cons in H. destruct a as [|x a']; [|cbn [length] in H; lia].
  cbn [concat app]. apply IH. cbn [length] in H. lia.
Qed.

Lemma total0_flat_map {B : Type} (f : list funit -> list B) (rem : fstate) :
  f [] = [] -> total_units rem = 0%nat -> flat_map f rem = [].
Proof.
  intros Hf. induction rem as [|a rest IH]; intros H; [reflexivity|].
  rewrite total_units_cons in H. destruct a as [|x a']; [|cbn [length] in H; lia].
  cbn [flat_map]. rewrite Hf. cbn [app]. apply IH. cbn [length] in H. lia.
Qed.

Lemma ids_of_concat (st : fstate) : ids_of st = map fid (concat st).
Proof.
  induction st as [|l st IH]; [reflexivity|].
  rewrite ids_of_cons. cbn [concat]. rewrite map_app, IH. reflexivity.
Qed.

Lemma in_concat_state (st : fstate) l u : In l st -> In u l -> In u (concat st).
Proof. intros Hl Hu. apply in_concat. exists l. split; assumption. Qed.

Lemma zmax0_upper l x : In x l -> x <= zmax0 l.
Proof.
  unfold zmax0. induction l as [|a l IH]; intros Hin; [destruct Hin|].
  cbn [fold_right]. destruct Hin as [->|Hin]; [apply Z.le_max_l|].
  apply Z.le_trans with (1 := IH Hin). apply Z.le_max_r.
Qed.

(* the window is exactly the units of the state, and the limit is the largest end (at least 0) *)
Lemma first_window_full_units dtab thr w st win xl :
  (total_units st <= w * length st)%nat -> first_window dtab thr w st = (win, xl) ->
  Permutation win (concat st) /\ xl = zmax0 (map fe win).
Proof.
  intros Hw H. unfold first_window in H.
  rewrite (Nat.min_l _ _ Hw) in H.
  destruct (head_rounds (S (total_units st)) (total_units st) 0 st [] None) as [[rem head] rm] eqn:E.
  inversion H; subst; clear H.
  assert (Hf : (total_units st <= S (total_units st))%nat) by lia.
  assert (Ht : (total_units st <= 0 + total_units st)%nat) by lia.
  destruct (head_rounds_takes_strong _ _ _ _ _ _ _ _ _ Hf Ht E) as (A & B & C & D).
  assert (Hz : total_units rem = 0%nat) by lia.
  rewrite (total0_flat_map _ _ eq_refl Hz), app_nil_r.
  rewrite (total0_concat _ Hz), app_nil_r in D. cbn [app] in D.
  split; [exact D | reflexivity].
Qed.

(* FULL WINDOW: if w * (number of annotators) >= number of units, the window is the whole state and the limit is at least
   every end *)
Theorem first_window_full dtab thr w st win xl :
  (total_units st <= w * length st)%nat -> first_window dtab thr w st = (win, xl) ->
  Permutation (map fid win) (ids_of st) /\ (forall u, In u win -> fe u <= xl).
Proof.
  intros Hw H. destruct (first_window_full_units _ _ _ _ _ _ Hw H) as [P Hxl].
  split.
  - rewrite ids_of_concat. apply Permutation_map. exact P.
  - intros u Hu. subst xl. apply zmax0_upper. apply in_map. exact Hu.
Qed.

(* ------------------------------------------------------------------ *)
(* bounds of tuples                                                    *)
(* ------------------------------------------------------------------ *)

Lemma tbound_nil : tbound [] = None.
Proof. reflexivity. Qed.

Lemma tbound_cons_none t : tbound (None :: t) = tbound t.
Proof. reflexivity. Qed.

Lemma tbound_cons_some u t :
  tbound (Some u :: t) = match tbound t with None => Some (fe u) | Some m => Some (Z.max (fe u) m) end.
Proof. reflexivity. Qed.

Lemma tbound_some_upper t m : tbound t = Some m -> forall u, In (Some u) t -> fe u <= m.
Proof.
  revert m. induction t as [|s t IH]; intros m H u Hin; [destruct Hin|].
  destruct s as [v|].
  - rewrite tbound_cons_some in H. destruct (tbound t) as [m'|] eqn:T.
    + inversion H as [Hm]; clear H. destruct Hin as [Heq|Hin].
      * inversion Heq; subst. apply Z.le_max_l.
      * pose proof (IH _ eq_refl _ Hin) as Hle. lia.
    + inversion H; subst. destruct Hin as [Heq|Hin]; [inversion Heq; subst; lia|].
      exfalso. clear IH. induction t as [|s' t' IHt]; [destruct Hin|].
      destruct s' as [v'|].
      * rewrite tbound_cons_some in T. destruct (tbound t'); discriminate.
      * rewrite tbound_cons_none in T. destruct Hin as [Heq|Hin]; [discriminate | exact (IHt T Hin)].
  - rewrite tbound_cons_none in H. destruct Hin as [Heq|Hin]; [discriminate|]. eapply IH; eauto.
Qed.

Lemma tbound_none_no_unit t : tbound t = None -> forall u, ~ In (Some u) t.
Proof.
  induction t as [|s t IH]; intros H u Hin; [destruct Hin|].
  destruct s as [v|].
  - rewrite tbound_cons_some in H. destruct (tbound t); discriminate.
  - rewrite tbound_cons_none in H. destruct Hin as [Heq|Hin]; [discriminate | exact (IH H u Hin)].
Qed.

Lemma tbound_le t xl : (forall u, In (Some u) t -> fe u <= xl) -> ble (tbound t) (Some xl) = true.
Proof.
  induction t as [|s t IH]; intros H; [reflexivity|].
  assert (IH' : ble (tbound t) (Some xl) = true).
  { apply IH. intros u Hu. apply H. right; exact Hu. }
  destruct s as [v|].
  - rewrite tbound_cons_some. pose proof (H v (or_introl eq_refl)) as Hv.
    destruct (tbound t) as [m|]; cbn [ble] in *.
    + apply Z.leb_le in IH'. apply Z.leb_le. lia.
    + apply Z.leb_le. exact Hv.
  - rewrite tbound_cons_none. exact IH'.
Qed.

(* ------------------------------------------------------------------ *)
(* one step with a full window                                         *)
(* ------------------------------------------------------------------ *)

(* hence one step of the loop takes the whole alignment the oracle returns for that window and empties the continuum *)
Theorem fast_step_full_window repaired dtab thr w st al ch st' :
  (total_units st <= w * length st)%nat -> NoDup (ids_of st) -> acceptable st al ->
  (forall i, In i (ids_of st) -> In i (al_ids al)) ->
  (forall t u, In t al -> In (Some u) t -> exists l, In l st /\ In u l) ->
  fast_step repaired dtab thr w st al = (ch, st') ->
  Permutation ch al /\ total_units st' = 0%nat.
Proof.
  intros Hw Hnd Hacc Hcover Hunits H.
  unfold fast_step in H. destruct (first_window dtab thr w st) as [win xl] eqn:FW.
  inversion H; subst; clear H.
  destruct (first_window_full_units _ _ _ _ _ _ Hw FW) as [P Hxl].
  assert (Hall : forall t, In t al -> ble (tbound t) (Some xl) = true).
  { intros t Ht. apply tbound_le. intros u Hu.
    destruct (Hunits t u Ht Hu) as (l & Hl & Hul).
    assert (Hin : In u win).
    { apply Permutation_in with (1 := Permutation_sym P). eapply in_concat_state; eauto. }
    rewrite Hxl. apply zmax0_upper. apply in_map. exact Hin. }
  pose proof (chosen_all repaired al xl Hall) as Pch.
  split; [exact Pch|].
  rewrite total_units_ids.
  destruct (ids_of (remove_ids (flat_map tuple_ids (chosen repaired al xl)) st)) as [|i r] eqn:Eids; [reflexivity|].
  exfalso.
  assert (Hi : In i (ids_of (remove_ids (flat_map tuple_ids (chosen repaired al xl)) st))).
  { rewrite Eids. left; reflexivity. }
  apply ids_remove in Hi. destruct Hi as [Hi Hni]. apply Hni.
  apply Hcover in Hi. unfold al_ids in Hi.
  apply Permutation_in with (2 := Hi). apply Permutation_flat_map. apply Permutation_sym. exact Pch.
Qed.

Print Assumptions take_round_progress.
Print Assumptions head_rounds_takes.
Print Assumptions first_window_full.
Print Assumptions fast_step_full_window.
