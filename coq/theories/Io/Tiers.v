(* Model of the tier-based importers Continuum.add_textgrid / add_elan (continuum.py:389-457) and of from_csv's row handling - C18.
   The parsed file is data: tiers of intervals (min, max, text); the third-party parsers are oracles.  Texts are code-point lists.
   Definitions and proofs (they are short). *)
From Coq Require Import List Arith ZArith QArith Lia Bool.
Import ListNotations.
Local Close Scope Q_scope.
Local Open Scope nat_scope.

Definition text := list nat.
Record interval := mkIv { imin : Q; imax : Q; mark : text }.
Record tier := mkTier { tname : text; ivs : list interval }.
Definition text_eqb (a b : text) : bool := if list_eq_dec Nat.eq_dec a b then true else false.
Definition selected (sel : option (list text)) (name : text) : bool :=
  match sel with None => true | Some l => existsb (text_eqb name) l end.
(* one add = (start, end, label) under the requested annotator *)
Definition add_ := (Q * Q * text)%type.
Definition label_of (use_tier : bool) (t : tier) (iv : interval) : text := if use_tier then tname t else mark iv.

(* TextGrid: intervals with an empty mark are silence and are skipped *)
Definition nonempty (iv : interval) : bool := match mark iv with [] => false | _ => true end.
Definition textgrid_adds (tiers : list tier) (sel : option (list text)) (use_tier : bool) : list add_ :=
  flat_map (fun t => if selected sel (tname t)
                     then map (fun iv => (imin iv, imax iv, label_of use_tier t iv)) (filter nonempty (ivs t))
                     else []) tiers.
(* ELAN: every annotation of a selected tier counts, whatever its text *)
Definition elan_adds (tiers : list tier) (sel : option (list text)) (use_tier : bool) : list add_ :=
  flat_map (fun t => if selected sel (tname t)
                     then map (fun iv => (imin iv, imax iv, label_of use_tier t iv)) (ivs t)
                     else []) tiers.

(* exactly one add per non-empty interval of the selected tiers *)
Definition count_textgrid (tiers : list tier) (sel : option (list text)) : nat :=
  fold_right (fun t acc => (if selected sel (tname t) then length (filter nonempty (ivs t)) else 0) + acc) 0 tiers.
Lemma length_flat_map {A B} (f : A -> list B) (l : list A) :
  length (flat_map f l) = fold_right (fun x acc => length (f x) + acc) 0 l.
Proof. induction l as [|x r IH]; [reflexivity|]. cbn [flat_map fold_right]. rewrite app_length, IH. reflexivity. Qed.
Lemma fold_right_ext {A} (g h : A -> nat -> nat) (l : list A) : (forall x acc, g x acc = h x acc) -> fold_right g 0 l = fold_right h 0 l.
Proof. intros E. induction l as [|x r IH]; [reflexivity|]. cbn [fold_right]. rewrite IH. apply E. Qed.
Lemma textgrid_count tiers sel use_tier : length (textgrid_adds tiers sel use_tier) = count_textgrid tiers sel.
Proof.
  unfold textgrid_adds, count_textgrid. rewrite length_flat_map. apply fold_right_ext. intros t acc.
  destruct (selected sel (tname t)); [rewrite map_length|]; reflexivity.
Qed.
Definition count_elan (tiers : list tier) (sel : option (list text)) : nat :=
  fold_right (fun t acc => (if selected sel (tname t) then length (ivs t) else 0) + acc) 0 tiers.
Lemma elan_count tiers sel use_tier : length (elan_adds tiers sel use_tier) = count_elan tiers sel.
Proof.
  unfold elan_adds, count_elan. rewrite length_flat_map. apply fold_right_ext. intros t acc.
  destruct (selected sel (tname t)); [rewrite map_length|]; reflexivity.
Qed.
(* every add carries the file's exact times and the requested label of a non-empty interval of a selected tier, and conversely *)
Lemma textgrid_adds_spec tiers sel use_tier a :
  In a (textgrid_adds tiers sel use_tier) <->
  exists t iv, In t tiers /\ selected sel (tname t) = true /\ In iv (ivs t) /\ mark iv <> [] /\
               a = (imin iv, imax iv, label_of use_tier t iv).
Proof.
  unfold textgrid_adds. rewrite in_flat_map. split.
  - intros (t & Ht & Ha). destruct (selected sel (tname t)) eqn:E; [|destruct Ha].
    apply in_map_iff in Ha. destruct Ha as (iv & <- & Hiv). apply filter_In in Hiv. destruct Hiv as [Hiv Hne].
    exists t, iv. repeat split; try assumption. unfold nonempty in Hne. destruct (mark iv); [discriminate|discriminate].
  - intros (t & iv & Ht & Hs & Hiv & Hne & ->). exists t. split; [exact Ht|]. rewrite Hs.
    apply in_map_iff. exists iv. split; [reflexivity|]. apply filter_In. split; [exact Hiv|].
    unfold nonempty. destruct (mark iv); [congruence|reflexivity].
Qed.
Lemma elan_adds_spec tiers sel use_tier a :
  In a (elan_adds tiers sel use_tier) <->
  exists t iv, In t tiers /\ selected sel (tname t) = true /\ In iv (ivs t) /\ a = (imin iv, imax iv, label_of use_tier t iv).
Proof.
  unfold elan_adds. rewrite in_flat_map. split.
  - intros (t & Ht & Ha). destruct (selected sel (tname t)) eqn:E; [|destruct Ha].
    apply in_map_iff in Ha. destruct Ha as (iv & <- & Hiv). exists t, iv. repeat split; assumption.
  - intros (t & iv & Ht & Hs & Hiv & ->). exists t. split; [exact Ht|]. rewrite Hs. apply in_map_iff. exists iv. split; [reflexivity|exact Hiv].
Qed.

(* from_csv row handling: a row (annotator, label, start, end) is added unless its duration is not above the precision; then it is
   discarded or the load is rejected, as requested *)
Inductive csv_result := Loaded (adds : list (text * text * Q * Q)) | Rejected.
Fixpoint csv_rows (prec : Q) (discard : bool) (rows : list (text * text * Q * Q)) : csv_result :=
  match rows with
  | [] => Loaded []
  | ((a, l, s, e) as r) :: rest =>
    if Qle_bool (e - s)%Q prec then
      (if discard then csv_rows prec discard rest else Rejected)
    else match csv_rows prec discard rest with
         | Loaded l' => Loaded (r :: l')
         | Rejected => Rejected
         end
  end.
Lemma csv_rows_discard prec rows : exists l, csv_rows prec true rows = Loaded l /\
  l = filter (fun r => negb (Qle_bool (snd r - snd (fst r))%Q prec)) rows.
Proof.
  induction rows as [|[[[a l] s] e] rest [l' [E ->]]]; simpl; [eexists; split; reflexivity|].
  destruct (Qle_bool (e - s)%Q prec) eqn:Q; simpl.
  - eexists; split; [exact E|reflexivity].
  - rewrite E. eexists; split; reflexivity.
Qed.
Lemma csv_rows_reject prec rows : csv_rows prec false rows = Rejected <->
  exists r, In r rows /\ Qle_bool (snd r - snd (fst r))%Q prec = true.
Proof.
  induction rows as [|[[[a l] s] e] rest IH]; simpl.
  - split; [discriminate|intros (r & [] & _)].
  - destruct (Qle_bool (e - s)%Q prec) eqn:Q.
    + split; [intros _; exists (a, l, s, e); split; [left; reflexivity|exact Q] | reflexivity].
    + destruct (csv_rows prec false rest) eqn:E.
      * split; [discriminate|]. intros (r & [<-|Hr] & Hq); [simpl in Hq; congruence|].
        assert (H : Loaded adds = Rejected) by (apply IH; exists r; split; assumption). discriminate.
      * split; [intros _|reflexivity]. destruct (proj1 IH eq_refl) as (r & Hr & Hq). exists r. split; [right; exact Hr|exact Hq].
Qed.
