(* Model of the CSV layer used by Continuum.to_csv / from_csv (continuum.py:131-174, 918-925) - C18: Python's csv module with the
   excel dialect (QUOTE_MINIMAL, doubled quotes, CRLF terminator) as a writer and a character-level reader state machine.
   Characters are code points (nat).  Definitions only. *)
From Coq Require Import List Arith Lia Bool.
Import ListNotations.

Definition QUOTE := 34.
Definition CR := 13.
Definition LF := 10.

(* ---------- writer ---------- *)
Definition special (delim c : nat) : bool := (c =? delim) || (c =? QUOTE) || (c =? CR) || (c =? LF).
Definition needs_quote (delim : nat) (f : list nat) : bool := existsb (special delim) f.
Definition esc (f : list nat) : list nat := flat_map (fun c => if c =? QUOTE then [QUOTE; QUOTE] else [c]) f.
Definition wfield (delim : nat) (f : list nat) : list nat :=
  if needs_quote delim f then QUOTE :: esc f ++ [QUOTE] else f.
Fixpoint wfields (delim : nat) (fs : list (list nat)) : list nat :=
  match fs with
  | [] => []
  | [f] => wfield delim f
  | f :: rest => wfield delim f ++ delim :: wfields delim rest
  end.
Definition wrow (delim : nat) (fs : list (list nat)) : list nat := wfields delim fs ++ [CR; LF].
Definition wfile (delim : nat) (rows : list (list (list nat))) : list nat := flat_map (wrow delim) rows.

(* ---------- reader ---------- *)
Inductive rstate := StartRecord | StartField | InField | InQuoted | QuoteInQuoted | EatCRNL.
Record ps := mkPS { state : rstate; cur : list nat; row : list (list nat); out : list (list (list nat)) }.
(* cur, row, out are kept reversed *)
Definition push_field (p : ps) : ps := mkPS StartField [] (rev (cur p) :: row p) (out p).
(* a row ends at CR (then an immediately following LF belongs to the same line end) or at LF *)
Definition end_row (c : nat) (p : ps) : ps :=
  mkPS (if c =? CR then EatCRNL else StartRecord) [] [] (rev (rev (cur p) :: row p) :: out p).
Definition is_nl (c : nat) : bool := (c =? CR) || (c =? LF).

Definition step_start_field (delim : nat) (p : ps) (c : nat) : ps :=
  if c =? QUOTE then mkPS InQuoted [] (row p) (out p)
  else if c =? delim then push_field p
  else if is_nl c then end_row c p
  else mkPS InField [c] (row p) (out p).

Definition step (delim : nat) (p : ps) (c : nat) : ps :=
  match state p with
  | StartRecord =>
      if is_nl c then mkPS (if c =? CR then EatCRNL else StartRecord) [] [] ([] :: out p)   (* a blank line yields an empty row *)
      else step_start_field delim (mkPS StartField [] [] (out p)) c
  | StartField => step_start_field delim p c
  | InField => if c =? delim then push_field p
               else if is_nl c then end_row c p
               else mkPS InField (c :: cur p) (row p) (out p)
  | InQuoted => if c =? QUOTE then mkPS QuoteInQuoted (cur p) (row p) (out p)
                else mkPS InQuoted (c :: cur p) (row p) (out p)
  | QuoteInQuoted => if c =? QUOTE then mkPS InQuoted (QUOTE :: cur p) (row p) (out p)
                     else if c =? delim then push_field p
                     else if is_nl c then end_row c p
                     else mkPS InField (c :: cur p) (row p) (out p)
  | EatCRNL => if c =? LF then mkPS StartRecord [] [] (out p)     (* CR LF is one line end *)
               else if c =? CR then mkPS EatCRNL [] [] ([] :: out p)   (* CR CR: a blank line in between *)
               else step_start_field delim (mkPS StartField [] [] (out p)) c
  end.
Definition run (delim : nat) (p : ps) (t : list nat) : ps := fold_left (step delim) t p.
Definition init : ps := mkPS StartRecord [] [] [].
(* end of input: a pending field / row is flushed *)
Definition finish_ps (p : ps) : list (list (list nat)) :=
  match state p with
  | StartRecord | EatCRNL => rev (out p)
  | _ => rev (rev (rev (cur p) :: row p) :: out p)
  end.
Definition read (delim : nat) (t : list nat) : list (list (list nat)) := finish_ps (run delim init t).

(* ---------- text layer of open(path) WITHOUT newline='' (the original code): universal newlines on input ---------- *)
Fixpoint translate_in (t : list nat) : list nat :=
  match t with
  | [] => []
  | c :: r => if c =? CR then LF :: (match r with d :: r' => if d =? LF then translate_in r' else translate_in r | [] => [] end)
              else c :: translate_in r
  end.
