From Coq Require Import List Arith Lia Bool.
From PGA Require Import Io.Csv.
Import ListNotations.

(* C18: round trip of the CSV layer (excel-dialect writer, character-level reader). *)

Definition delim_ok (d : nat) : Prop := d <> QUOTE /\ d <> CR /\ d <> LF.

(* ---------- run ---------- *)
Lemma run_app d p a b : run d p (a ++ b) = run d (run d p a) b.
Proof. unfold run. apply fold_left_app. Qed.
Lemma run_cons d p c t : run d p (c :: t) = run d (step d p c) t.
Proof. reflexivity. Qed.
Lemma run_nil d p : run d p [] = p.
Proof. reflexivity. Qed.

(* ---------- character classes ---------- *)
Lemma special_false d c : special d c = false ->
  (c =? d) = false /\ (c =? QUOTE) = false /\ is_nl c = false.
Proof.
  unfold special, is_nl. intros H.
  apply orb_false_iff in H. destruct H as [H H4].
  apply orb_false_iff in H. destruct H as [H H3].
  apply orb_false_iff in H. destruct H as [H1 H2].
  split; [exact H1|]. split; [exact H2|]. rewrite H3, H4. reflexivity.
Qed.

Lemma delim_not_q d : delim_ok d -> (d =? QUOTE) = false.
Proof. intros Hd. apply Nat.eqb_neq. apply Hd. Qed.
Lemma delim_not_nl d : delim_ok d -> is_nl d = false.
Proof. intros Hd. unfold is_nl. apply orb_false_iff. split; apply Nat.eqb_neq; apply Hd. Qed.
Lemma quote_not_nl : is_nl QUOTE = false.
Proof. reflexivity. Qed.

Lemma nl_props d c : delim_ok d -> is_nl c = true -> (c =? QUOTE) = false /\ (c =? d) = false.
Proof.
  intros (Hq & Hcr & Hlf) H. unfold is_nl in H. apply orb_true_iff in H.
  destruct H as [H | H]; apply Nat.eqb_eq in H; subst c.
  - split; [reflexivity|]. apply Nat.eqb_neq. intro E. apply Hcr. symmetry. exact E.
  - split; [reflexivity|]. apply Nat.eqb_neq. intro E. apply Hlf. symmetry. exact E.
Qed.
Lemma is_nl_CR : is_nl CR = true.
Proof. reflexivity. Qed.
Lemma is_nl_LF : is_nl LF = true.
Proof. reflexivity. Qed.
Lemma not_nl_props c : is_nl c = false -> (c =? CR) = false /\ (c =? LF) = false.
Proof. unfold is_nl. intros H. apply orb_false_iff in H. exact H. Qed.

(* state after a row-ending character: CR waits for a possible LF of the same line end, LF starts the next record *)
Definition nl_state (c : nat) : rstate := if c =? CR then EatCRNL else StartRecord.
Lemma nl_state_CR : nl_state CR = EatCRNL.
Proof. reflexivity. Qed.
Lemma nl_state_LF : nl_state LF = StartRecord.
Proof. reflexivity. Qed.

(* ---------- one-step lemmas ---------- *)
Ltac stp := unfold step, step_start_field, push_field, end_row; cbn [state cur row out].

Lemma step_IF_plain d acc r o c : special d c = false ->
  step d (mkPS InField acc r o) c = mkPS InField (c :: acc) r o.
Proof. intros H. apply special_false in H. destruct H as (H1 & H2 & H3). stp. rewrite H1, H3. reflexivity. Qed.
Lemma step_IF_delim d acc r o : step d (mkPS InField acc r o) d = mkPS StartField [] (rev acc :: r) o.
Proof. stp. rewrite Nat.eqb_refl. reflexivity. Qed.
Lemma step_IF_nl d acc r o c : delim_ok d -> is_nl c = true ->
  step d (mkPS InField acc r o) c = mkPS (nl_state c) [] [] (rev (rev acc :: r) :: o).
Proof. intros Hd H. destruct (nl_props d c Hd H) as [H1 H2]. stp. rewrite H2, H. reflexivity. Qed.

Lemma step_SF_plain d r o c : special d c = false ->
  step d (mkPS StartField [] r o) c = mkPS InField [c] r o.
Proof. intros H. apply special_false in H. destruct H as (H1 & H2 & H3). stp. rewrite H2, H1, H3. reflexivity. Qed.
Lemma step_SF_delim d r o : delim_ok d -> step d (mkPS StartField [] r o) d = mkPS StartField [] ([] :: r) o.
Proof. intros Hd. stp. rewrite (delim_not_q d Hd), Nat.eqb_refl. reflexivity. Qed.
Lemma step_SF_quote d r o : step d (mkPS StartField [] r o) QUOTE = mkPS InQuoted [] r o.
Proof. stp. rewrite Nat.eqb_refl. reflexivity. Qed.
Lemma step_SF_nl d r o c : delim_ok d -> is_nl c = true ->
  step d (mkPS StartField [] r o) c = mkPS (nl_state c) [] [] (rev ([] :: r) :: o).
Proof. intros Hd H. destruct (nl_props d c Hd H) as [H1 H2]. stp. rewrite H1, H2, H. reflexivity. Qed.

Lemma step_IQ_quote d acc r o : step d (mkPS InQuoted acc r o) QUOTE = mkPS QuoteInQuoted acc r o.
Proof. stp. rewrite Nat.eqb_refl. reflexivity. Qed.
Lemma step_IQ_other d acc r o c : (c =? QUOTE) = false ->
  step d (mkPS InQuoted acc r o) c = mkPS InQuoted (c :: acc) r o.
Proof. intros H. stp. rewrite H. reflexivity. Qed.
Lemma step_QQ_quote d acc r o : step d (mkPS QuoteInQuoted acc r o) QUOTE = mkPS InQuoted (QUOTE :: acc) r o.
Proof. stp. rewrite Nat.eqb_refl. reflexivity. Qed.
Lemma step_QQ_delim d acc r o : delim_ok d ->
  step d (mkPS QuoteInQuoted acc r o) d = mkPS StartField [] (rev acc :: r) o.
Proof. intros Hd. stp. rewrite (delim_not_q d Hd), Nat.eqb_refl. reflexivity. Qed.
Lemma step_QQ_nl d acc r o c : delim_ok d -> is_nl c = true ->
  step d (mkPS QuoteInQuoted acc r o) c = mkPS (nl_state c) [] [] (rev (rev acc :: r) :: o).
Proof. intros Hd H. destruct (nl_props d c Hd H) as [H1 H2]. stp. rewrite H1, H2, H. reflexivity. Qed.

Lemma step_Eat_lf d o : step d (mkPS EatCRNL [] [] o) LF = mkPS StartRecord [] [] o.
Proof. stp. rewrite Nat.eqb_refl. reflexivity. Qed.
Lemma step_SR_nonnl d o c : is_nl c = false ->
  step d (mkPS StartRecord [] [] o) c = step d (mkPS StartField [] [] o) c.
Proof. intros H. stp. rewrite H. reflexivity. Qed.
Lemma step_Eat_nonnl d o c : is_nl c = false ->
  step d (mkPS EatCRNL [] [] o) c = step d (mkPS StartField [] [] o) c.
Proof. intros H. destruct (not_nl_props c H) as [H1 H2]. stp. rewrite H1, H2. reflexivity. Qed.

(* ---------- field bodies ---------- *)
Lemma run_plain_IF : forall d f acc r o,
  existsb (special d) f = false ->
  run d (mkPS InField acc r o) f = mkPS InField (rev f ++ acc) r o.
Proof.
  intros d. induction f as [|c f IH]; intros acc r o H; [reflexivity|].
  cbn [existsb] in H. apply orb_false_iff in H. destruct H as [Hc Hf].
  rewrite run_cons, step_IF_plain by exact Hc. rewrite IH by exact Hf.
  cbn [rev]. rewrite <- app_assoc. reflexivity.
Qed.

Lemma esc_cons c f : esc (c :: f) = (if c =? QUOTE then [QUOTE; QUOTE] else [c]) ++ esc f.
Proof. reflexivity. Qed.

Lemma run_esc_IQ : forall d f acc r o,
  run d (mkPS InQuoted acc r o) (esc f) = mkPS InQuoted (rev f ++ acc) r o.
Proof.
  intros d. induction f as [|c f IH]; intros acc r o; [reflexivity|].
  rewrite esc_cons. destruct (c =? QUOTE) eqn:E.
  - apply Nat.eqb_eq in E. subst c. cbn [app]. rewrite !run_cons, step_IQ_quote, step_QQ_quote, IH.
    cbn [rev]. rewrite <- app_assoc. reflexivity.
  - cbn [app]. rewrite run_cons, step_IQ_other by exact E. rewrite IH.
    cbn [rev]. rewrite <- app_assoc. reflexivity.
Qed.

(* ---------- one written field ---------- *)
(* a written field followed by the delimiter pushes exactly that field *)
Lemma field_then_delim d f r o : delim_ok d ->
  run d (mkPS StartField [] r o) (wfield d f ++ [d]) = mkPS StartField [] (f :: r) o.
Proof.
  intros Hd. unfold wfield. destruct (needs_quote d f) eqn:N.
  - cbn [app]. rewrite run_cons, step_SF_quote. rewrite <- app_assoc, run_app, run_esc_IQ.
    cbn [app]. rewrite !run_cons, step_IQ_quote, step_QQ_delim by exact Hd. rewrite run_nil.
    rewrite app_nil_r, rev_involutive. reflexivity.
  - destruct f as [|c f].
    + cbn [app]. rewrite run_cons, step_SF_delim by exact Hd. reflexivity.
    + unfold needs_quote in N. cbn [existsb] in N. apply orb_false_iff in N. destruct N as [Hc Hf].
      cbn [app]. rewrite run_cons, step_SF_plain by exact Hc.
      rewrite run_app, run_plain_IF by exact Hf. rewrite run_cons, step_IF_delim, run_nil.
      rewrite rev_app_distr, rev_involutive. reflexivity.
Qed.

(* a written field followed by a line-end character (CR or LF) ends the row *)
Lemma field_then_nl d f r o c : delim_ok d -> is_nl c = true ->
  run d (mkPS StartField [] r o) (wfield d f ++ [c]) = mkPS (nl_state c) [] [] (rev (f :: r) :: o).
Proof.
  intros Hd Hc. unfold wfield. destruct (needs_quote d f) eqn:N.
  - cbn [app]. rewrite run_cons, step_SF_quote. rewrite <- app_assoc, run_app, run_esc_IQ.
    cbn [app]. rewrite !run_cons, step_IQ_quote. rewrite (step_QQ_nl d _ _ _ c Hd Hc), run_nil.
    rewrite app_nil_r, rev_involutive. reflexivity.
  - destruct f as [|a f].
    + cbn [app]. rewrite run_cons, (step_SF_nl d _ _ c Hd Hc). reflexivity.
    + unfold needs_quote in N. cbn [existsb] in N. apply orb_false_iff in N. destruct N as [Ha Hf].
      cbn [app]. rewrite run_cons, step_SF_plain by exact Ha.
      rewrite run_app, run_plain_IF by exact Hf. rewrite run_cons, (step_IF_nl d _ _ _ c Hd Hc), run_nil.
      rewrite rev_app_distr, rev_involutive. reflexivity.
Qed.

(* a written field followed by CR LF ends the row *)
Lemma field_then_crlf d f r o : delim_ok d ->
  run d (mkPS StartField [] r o) (wfield d f ++ [CR; LF]) = mkPS StartRecord [] [] (rev (f :: r) :: o).
Proof.
  intros Hd. change [CR; LF] with ([CR] ++ [LF]). rewrite app_assoc, run_app.
  rewrite (field_then_nl d f r o CR Hd is_nl_CR), nl_state_CR. rewrite run_cons, step_Eat_lf. reflexivity.
Qed.

(* ---------- one written row ---------- *)
Lemma wfields_cons2 d f g rest : wfields d (f :: g :: rest) = wfield d f ++ d :: wfields d (g :: rest).
Proof. reflexivity. Qed.
Lemma wfields_one d f : wfields d [f] = wfield d f.
Proof. reflexivity. Qed.

(* the fields of a row followed by a line-end character *)
Lemma fields_then_nl d c : delim_ok d -> is_nl c = true -> forall fs r o, fs <> [] ->
  run d (mkPS StartField [] r o) (wfields d fs ++ [c]) = mkPS (nl_state c) [] [] ((rev r ++ fs) :: o).
Proof.
  intros Hd Hc. induction fs as [|f fs IH]; intros r o Hne; [congruence|].
  destruct fs as [|g rest].
  - rewrite wfields_one, (field_then_nl d f r o c Hd Hc). reflexivity.
  - rewrite wfields_cons2.
    replace ((wfield d f ++ d :: wfields d (g :: rest)) ++ [c])
      with ((wfield d f ++ [d]) ++ wfields d (g :: rest) ++ [c])
      by (rewrite <- !app_assoc; reflexivity).
    rewrite run_app, (field_then_delim d f r o Hd). rewrite IH by discriminate.
    cbn [rev]. rewrite <- app_assoc. reflexivity.
Qed.

Lemma wrow_split d fs : wrow d fs = (wfields d fs ++ [CR]) ++ [LF].
Proof. unfold wrow. rewrite <- app_assoc. reflexivity. Qed.

Lemma wrow_cons2 d f g rest : wrow d (f :: g :: rest) = (wfield d f ++ [d]) ++ wrow d (g :: rest).
Proof. unfold wrow. rewrite wfields_cons2. rewrite <- !app_assoc. reflexivity. Qed.

(* a whole written row, read from the start of a field with already-read fields r *)
Lemma row_from_field d fs r o : delim_ok d -> fs <> [] ->
  run d (mkPS StartField [] r o) (wrow d fs) = mkPS StartRecord [] [] ((rev r ++ fs) :: o).
Proof.
  intros Hd Hne. rewrite wrow_split, run_app.
  rewrite (fields_then_nl d CR Hd is_nl_CR fs r o Hne), nl_state_CR. rewrite run_cons, step_Eat_lf. reflexivity.
Qed.

(* the first character of a written field followed by the delimiter is not a line end *)
Lemma wfield_delim_head d f : delim_ok d -> exists c t, wfield d f ++ [d] = c :: t /\ is_nl c = false.
Proof.
  intros Hd. unfold wfield. destruct (needs_quote d f) eqn:N.
  - exists QUOTE, ((esc f ++ [QUOTE]) ++ [d]). split; [reflexivity | exact quote_not_nl].
  - destruct f as [|a f].
    + exists d, []. split; [reflexivity | exact (delim_not_nl d Hd)].
    + unfold needs_quote in N. cbn [existsb] in N. apply orb_false_iff in N. destruct N as [Ha Hf].
      exists a, (f ++ [d]). split; [reflexivity|]. apply (special_false d a Ha).
Qed.

Lemma wfields_head d fs s : delim_ok d -> (2 <= length fs)%nat ->
  exists c t, wfields d fs ++ s = c :: t /\ is_nl c = false.
Proof.
  intros Hd Hlen. destruct fs as [|f [|g rest]]; cbn [length] in Hlen; try lia.
  destruct (wfield_delim_head d f Hd) as (c & t & E1 & E2).
  exists c, (t ++ wfields d (g :: rest) ++ s). split; [|exact E2].
  rewrite wfields_cons2.
  replace ((wfield d f ++ d :: wfields d (g :: rest)) ++ s)
    with ((wfield d f ++ [d]) ++ wfields d (g :: rest) ++ s)
    by (rewrite <- !app_assoc; reflexivity).
  rewrite E1. reflexivity.
Qed.

(* ... and from the start of a record, for rows of at least two fields *)
Lemma row_from_record d fs o : delim_ok d -> (2 <= length fs)%nat ->
  run d (mkPS StartRecord [] [] o) (wrow d fs) = mkPS StartRecord [] [] (fs :: o).
Proof.
  intros Hd Hlen.
  assert (E : run d (mkPS StartRecord [] [] o) (wrow d fs) = run d (mkPS StartField [] [] o) (wrow d fs)).
  { unfold wrow. destruct (wfields_head d fs [CR; LF] Hd Hlen) as (c & t & E1 & E2).
    rewrite E1. rewrite !run_cons, step_SR_nonnl by exact E2. reflexivity. }
  rewrite E. rewrite row_from_field; [reflexivity | exact Hd |].
  destruct fs; [cbn [length] in Hlen; lia | discriminate].
Qed.

(* ---------- whole file ---------- *)
Lemma wfile_cons d fs rows : wfile d (fs :: rows) = wrow d fs ++ wfile d rows.
Proof. reflexivity. Qed.

Lemma run_wfile d : delim_ok d -> forall rows o, Forall (fun fs => (2 <= length fs)%nat) rows ->
  run d (mkPS StartRecord [] [] o) (wfile d rows) = mkPS StartRecord [] [] (rev rows ++ o).
Proof.
  intros Hd. induction rows as [|fs rows IH]; intros o HF; [reflexivity|].
  inversion HF as [|x l Hfs Hrows]; subst.
  rewrite wfile_cons, run_app, (row_from_record d fs o Hd Hfs), (IH _ Hrows).
  cbn [rev]. rewrite <- app_assoc. reflexivity.
Qed.

(* FULL round trip at the CSV layer: for every delimiter other than quote / CR / LF and ALL field texts *)
Theorem csv_roundtrip d rows : delim_ok d -> Forall (fun fs => (2 <= length fs)%nat) rows ->
  read d (wfile d rows) = rows.
Proof.
  intros Hd HF. unfold read, init. rewrite (run_wfile d Hd rows [] HF).
  unfold finish_ps. cbn [state out]. rewrite app_nil_r, rev_involutive. reflexivity.
Qed.

(* the ORIGINAL code opened the files in text mode with newline translation: a field containing a carriage
   return does not survive *)
Theorem csv_roundtrip_text_refuted :
  exists d rows, delim_ok d /\ Forall (fun fs => (2 <= length fs)%nat) rows /\
                 read d (translate_in (wfile d rows)) <> rows.
Proof.
  exists 44, [[[97; 13; 98]; [99]]]. split; [|split].
  - unfold delim_ok, QUOTE, CR, LF. lia.
  - constructor; [cbn [length]; lia | constructor].
  - vm_compute. intro H. discriminate H.
Qed.

(* ---------- text layer, fields without a carriage return ---------- *)
Definition nocr (t : list nat) : Prop := Forall (fun c => c <> CR) t.

Lemma translate_nocr_crlf : forall a b, nocr a -> translate_in (a ++ CR :: LF :: b) = a ++ LF :: translate_in b.
Proof.
  induction a as [|c a IH]; intros b H; [reflexivity|].
  inversion H as [|x l Hc Ha]; subst.
  cbn [app translate_in]. apply Nat.eqb_neq in Hc. rewrite Hc. f_equal. apply IH. exact Ha.
Qed.

Lemma nocr_esc f : nocr f -> nocr (esc f).
Proof.
  induction f as [|c f IH]; intros H; [constructor|].
  inversion H as [|x l Hc Hf]; subst. rewrite esc_cons. apply Forall_app. split; [|exact (IH Hf)].
  destruct (c =? QUOTE); repeat constructor; try exact Hc; unfold QUOTE, CR; lia.
Qed.

Lemma nocr_wfield d f : nocr f -> nocr (wfield d f).
Proof.
  intros H. unfold wfield. destruct (needs_quote d f); [|exact H].
  constructor; [unfold QUOTE, CR; lia|]. apply Forall_app. split; [exact (nocr_esc f H)|].
  constructor; [unfold QUOTE, CR; lia | constructor].
Qed.

Lemma nocr_wfields d fs : delim_ok d -> Forall nocr fs -> nocr (wfields d fs).
Proof.
  intros Hd. induction fs as [|f fs IH]; intros H; [constructor|].
  inversion H as [|x l Hf Hfs]; subst. destruct fs as [|g rest].
  - rewrite wfields_one. exact (nocr_wfield d f Hf).
  - rewrite wfields_cons2. apply Forall_app. split; [exact (nocr_wfield d f Hf)|].
    constructor; [apply Hd | exact (IH Hfs)].
Qed.

(* what the reader sees through the text layer: each row ends with a single LF *)
Definition wfile_lf (d : nat) (rows : list (list (list nat))) : list nat :=
  flat_map (fun fs => wfields d fs ++ [LF]) rows.
Lemma wfile_lf_cons d fs rows : wfile_lf d (fs :: rows) = (wfields d fs ++ [LF]) ++ wfile_lf d rows.
Proof. reflexivity. Qed.

Lemma translate_wfile d rows : delim_ok d -> Forall (Forall nocr) rows ->
  translate_in (wfile d rows) = wfile_lf d rows.
Proof.
  intros Hd. induction rows as [|fs rows IH]; intros H; [reflexivity|].
  inversion H as [|x l Hfs Hrows]; subst.
  rewrite wfile_cons, wfile_lf_cons. unfold wrow. rewrite <- !app_assoc. cbn [app].
  rewrite (translate_nocr_crlf _ _ (nocr_wfields d fs Hd Hfs)). rewrite (IH Hrows). reflexivity.
Qed.

(* a row terminated by a bare LF, read from the start of a record *)
Lemma row_lf_from_record d fs o : delim_ok d -> (2 <= length fs)%nat ->
  run d (mkPS StartRecord [] [] o) (wfields d fs ++ [LF]) = mkPS StartRecord [] [] (fs :: o).
Proof.
  intros Hd Hlen.
  assert (E : run d (mkPS StartRecord [] [] o) (wfields d fs ++ [LF])
              = run d (mkPS StartField [] [] o) (wfields d fs ++ [LF])).
  { destruct (wfields_head d fs [LF] Hd Hlen) as (c & t & E1 & E2). rewrite E1.
    rewrite !run_cons, step_SR_nonnl by exact E2. reflexivity. }
  rewrite E. rewrite (fields_then_nl d LF Hd is_nl_LF fs [] o), nl_state_LF; [reflexivity|].
  destruct fs; [cbn [length] in Hlen; lia | discriminate].
Qed.

Lemma run_wfile_lf d : delim_ok d -> forall rows o, Forall (fun fs => (2 <= length fs)%nat) rows ->
  run d (mkPS StartRecord [] [] o) (wfile_lf d rows) = mkPS StartRecord [] [] (rev rows ++ o).
Proof.
  intros Hd. induction rows as [|fs rows IH]; intros o HF; [reflexivity|].
  inversion HF as [|x l Hfs Hrows]; subst.
  rewrite wfile_lf_cons, run_app, (row_lf_from_record d fs o Hd Hfs), (IH _ Hrows).
  cbn [rev]. rewrite <- app_assoc. reflexivity.
Qed.

(* fields without a carriage return survive even the newline-translating text layer (line feeds are harmless) *)
Theorem csv_roundtrip_text_nocr d rows : delim_ok d -> Forall (fun fs => (2 <= length fs)%nat) rows ->
  Forall (Forall (fun f => ~ In CR f)) rows ->
  read d (translate_in (wfile d rows)) = rows.
Proof.
  intros Hd HF HN.
  assert (HN' : Forall (Forall nocr) rows).
  { eapply Forall_impl; [|exact HN]. intros fs Hfs. eapply Forall_impl; [|exact Hfs].
    intros f Hf. unfold nocr. apply Forall_forall. intros c Hin E. subst c. exact (Hf Hin). }
  rewrite (translate_wfile d rows Hd HN'). unfold read, init.
  rewrite (run_wfile_lf d Hd rows [] HF).
  unfold finish_ps. cbn [state out]. rewrite app_nil_r, rev_involutive. reflexivity.
Qed.

(* the special case asked for: fields containing neither CR nor LF *)
Theorem csv_roundtrip_text_plain d rows : delim_ok d -> Forall (fun fs => (2 <= length fs)%nat) rows ->
  Forall (Forall (fun f => ~ In CR f /\ ~ In LF f)) rows ->
  read d (translate_in (wfile d rows)) = rows.
Proof.
  intros Hd HF HN. apply csv_roundtrip_text_nocr; [exact Hd | exact HF |].
  eapply Forall_impl; [|exact HN]. intros fs Hfs. eapply Forall_impl; [|exact Hfs].
  intros f Hf. exact (proj1 Hf).
Qed.

(* concrete non-vacuity example: quotes, delimiter, CR, LF, empty field *)
Example csv_example :
  read 44 (wfile 44 [[[34; 97]; []; [44; 10]; [13]]; [[120]; [121]]]) = [[[34; 97]; []; [44; 10]; [13]]; [[120]; [121]]].
Proof. vm_compute. reflexivity. Qed.

Print Assumptions field_then_delim.
Print Assumptions field_then_crlf.
Print Assumptions row_from_field.
Print Assumptions row_from_record.
Print Assumptions csv_roundtrip.
Print Assumptions csv_roundtrip_text_refuted.
Print Assumptions csv_roundtrip_text_nocr.
Print Assumptions csv_roundtrip_text_plain.
Print Assumptions csv_example.
