From Coq Require Import List Arith ZArith QArith Qabs Lia Lqa Bool Permutation Setoid.
From PGA Require Import Dissim.Model.
Import ListNotations.
Local Open Scope Q_scope.

(* ------------------------------------------------------------------ *)
(* small facts on Q                                                    *)
(* ------------------------------------------------------------------ *)
Lemma Qsq_nonneg r : 0 <= r * r.
Proof.
  destruct (Qlt_le_dec r 0) as [Hneg | Hpos].
  - setoid_replace (r * r) with ((- r) * (- r)) by ring.
    apply Qmult_le_0_compat; lra.
  - apply Qmult_le_0_compat; lra.
Qed.

Lemma Qinv_0 : / 0 == 0.
Proof. reflexivity. Qed.

Lemma Qdiv_scale n d c : 0 < c -> (c * n) / (d * c) == n / d.
Proof.
  intros Hc.
  destruct (Qeq_dec d 0) as [Hd | Hd].
  - rewrite Hd. setoid_replace (0 * c) with 0 by ring.
    unfold Qdiv. rewrite Qinv_0. ring.
  - field. split; [exact Hd | lra].
Qed.

Lemma Qabs_scale a b c : 0 < c -> Qabs (a * c - b * c) == c * Qabs (a - b).
Proof.
  intros Hc.
  setoid_replace (a * c - b * c) with ((a - b) * c) by ring.
  rewrite Qabs_Qmult.
  assert (Habs : Qabs c == c) by (apply Qabs_pos; lra).
  rewrite Habs. ring.
Qed.

(* ------------------------------------------------------------------ *)
(* positional                                                          *)
(* ------------------------------------------------------------------ *)
Theorem dpos_sym de u v : dpos de u v == dpos de v u.
Proof.
  unfold dpos. cbv zeta.
  rewrite (Qabs_Qminus (qs u) (qs v)), (Qabs_Qminus (qe u) (qe v)).
  setoid_replace (dur u + dur v) with (dur v + dur u) by ring.
  reflexivity.
Qed.

Theorem dpos_nonneg de u v : 0 <= de -> 0 <= dpos de u v.
Proof.
  intros Hde. unfold dpos. cbv zeta.
  apply Qmult_le_0_compat; [apply Qsq_nonneg | exact Hde].
Qed.

Theorem dpos_zero_on_eq de u : dpos de u u == 0.
Proof.
  unfold dpos. cbv zeta.
  setoid_replace (qs u - qs u) with 0 by ring.
  setoid_replace (qe u - qe u) with 0 by ring.
  change (Qabs 0) with 0.
  unfold Qdiv. ring.
Qed.

Theorem dpos_shift de c u v : dpos de (shift_u c u) (shift_u c v) == dpos de u v.
Proof.
  unfold dpos, dur, shift_u. cbn [qs qe qc]. cbv zeta.
  setoid_replace (qs u + c - (qs v + c)) with (qs u - qs v) by ring.
  setoid_replace (qe u + c - (qe v + c)) with (qe u - qe v) by ring.
  setoid_replace (qe u + c - (qs u + c) + (qe v + c - (qs v + c)))
    with (qe u - qs u + (qe v - qs v)) by ring.
  reflexivity.
Qed.

Theorem dpos_scale de c u v : 0 < c -> dpos de (scale_u c u) (scale_u c v) == dpos de u v.
Proof.
  intros Hc.
  unfold dpos, dur, scale_u. cbn [qs qe qc]. cbv zeta.
  rewrite (Qabs_scale (qs u) (qs v) c Hc), (Qabs_scale (qe u) (qe v) c Hc).
  setoid_replace (c * Qabs (qs u - qs v) + c * Qabs (qe u - qe v))
    with (c * (Qabs (qs u - qs v) + Qabs (qe u - qe v))) by ring.
  setoid_replace (qe u * c - qs u * c + (qe v * c - qs v * c))
    with ((qe u - qs u + (qe v - qs v)) * c) by ring.
  rewrite (Qdiv_scale _ _ c Hc).
  reflexivity.
Qed.

Theorem dpos_linear_de de k u v : dpos (k * de) u v == k * dpos de u v.
Proof. unfold dpos. cbv zeta. ring. Qed.

(* ------------------------------------------------------------------ *)
(* absolute categorical                                                *)
(* ------------------------------------------------------------------ *)
Lemma cat_eqb_sym a b : cat_eqb a b = cat_eqb b a.
Proof. destruct a as [x|], b as [y|]; simpl; try reflexivity. apply Z.eqb_sym. Qed.

Lemma cat_eqb_refl a : cat_eqb a a = true.
Proof. destruct a as [x|]; simpl; [apply Z.eqb_refl | reflexivity]. Qed.

Theorem dabs_sym de u v : dabs de u v == dabs de v u.
Proof. unfold dabs. rewrite (cat_eqb_sym (qc u) (qc v)). reflexivity. Qed.

Theorem dabs_nonneg de u v : 0 <= de -> 0 <= dabs de u v.
Proof. intros Hde. unfold dabs. destruct (cat_eqb (qc u) (qc v)); [apply Qle_refl | exact Hde]. Qed.

Theorem dabs_zero_on_eq de u : dabs de u u == 0.
Proof. unfold dabs. rewrite cat_eqb_refl. reflexivity. Qed.

Lemma index_of_lt x l : In x l -> (index_of x l < length l)%nat.
Proof.
  induction l as [|y r IH]; intros Hin; simpl in *.
  - contradiction.
  - destruct (x =? y)%Z eqn:E.
    + lia.
    + apply Z.eqb_neq in E. destruct Hin as [Heq | Hin]; [congruence|].
      specialize (IH Hin). lia.
Qed.

Lemma index_of_inj x y l : In x l -> In y l -> index_of x l = index_of y l -> x = y.
Proof.
  induction l as [|z r IH]; intros Hx Hy Heq; simpl in *.
  - contradiction.
  - destruct (x =? z)%Z eqn:Ex; destruct (y =? z)%Z eqn:Ey.
    + apply Z.eqb_eq in Ex. apply Z.eqb_eq in Ey. congruence.
    + discriminate.
    + discriminate.
    + apply Z.eqb_neq in Ex. apply Z.eqb_neq in Ey.
      destruct Hx as [Hx | Hx]; [congruence|].
      destruct Hy as [Hy | Hy]; [congruence|].
      apply IH; auto.
Qed.

Theorem dabs_arr_eq cats de u v :
  (forall x, qc u = Some x -> In x cats) -> (forall x, qc v = Some x -> In x cats) ->
  dabs_arr cats de u v = dabs de u v.
Proof.
  intros Hu Hv. unfold dabs_arr, dabs.
  destruct (qc u) as [x|] eqn:Eu; destruct (qc v) as [y|] eqn:Ev; simpl.
  - pose proof (Hu x eq_refl) as Hx. pose proof (Hv y eq_refl) as Hy.
    destruct (x =? y)%Z eqn:E.
    + apply Z.eqb_eq in E. subst y. rewrite Nat.eqb_refl. reflexivity.
    + apply Z.eqb_neq in E.
      destruct (index_of x cats =? index_of y cats)%nat eqn:E2; [|reflexivity].
      apply Nat.eqb_eq in E2. exfalso. apply E. eapply index_of_inj; eauto.
  - pose proof (index_of_lt x cats (Hu x eq_refl)) as Hlt.
    destruct (index_of x cats =? length cats)%nat eqn:E2; [|reflexivity].
    apply Nat.eqb_eq in E2. lia.
  - pose proof (index_of_lt y cats (Hv y eq_refl)) as Hlt.
    destruct (length cats =? index_of y cats)%nat eqn:E2; [|reflexivity].
    apply Nat.eqb_eq in E2. lia.
  - rewrite Nat.eqb_refl. reflexivity.
Qed.

Theorem dabs_rename f de u v : (forall x y, f x = f y -> x = y) -> dabs de (rename_u f u) (rename_u f v) = dabs de u v.
Proof.
  intros Hinj. unfold dabs, rename_u. cbn [qc].
  destruct (qc u) as [x|]; destruct (qc v) as [y|]; simpl; try reflexivity.
  destruct (x =? y)%Z eqn:E.
  - apply Z.eqb_eq in E. subst y. rewrite Z.eqb_refl. reflexivity.
  - apply Z.eqb_neq in E.
    destruct (f x =? f y)%Z eqn:E2; [|reflexivity].
    apply Z.eqb_eq in E2. apply Hinj in E2. contradiction.
Qed.

(* ------------------------------------------------------------------ *)
(* Levenshtein                                                         *)
(* ------------------------------------------------------------------ *)
Lemma lev_nil_l b : lev [] b = length b.
Proof. destruct b; reflexivity. Qed.

Lemma lev_nil_r a : lev a [] = length a.
Proof. destruct a; reflexivity. Qed.

Lemma lev_cons x a y b : lev (x :: a) (y :: b) = min3 (lev a (y :: b) + 1) (lev (x :: a) b + 1) (lev a b + (if (x =? y)%nat then 0 else 1)).
Proof. reflexivity. Qed.

Theorem lev_sym a b : lev a b = lev b a.
Proof.
  revert b. induction a as [|x a IHa]; intros b.
  - rewrite lev_nil_l, lev_nil_r. reflexivity.
  - induction b as [|y b IHb].
    + rewrite lev_nil_l, lev_nil_r. reflexivity.
    + rewrite !lev_cons. rewrite (IHa (y :: b)), IHb, (IHa b), (Nat.eqb_sym x y).
      unfold min3. lia.
Qed.

Theorem lev_refl a : lev a a = 0%nat.
Proof.
  induction a as [|x a IH].
  - reflexivity.
  - rewrite lev_cons, IH, Nat.eqb_refl. unfold min3. lia.
Qed.

Theorem lev_le_max a b : (lev a b <= Nat.max (length a) (length b))%nat.
Proof.
  revert b. induction a as [|x a IHa]; intros b.
  - rewrite lev_nil_l. simpl. lia.
  - induction b as [|y b IHb].
    + rewrite lev_nil_r. lia.
    + rewrite lev_cons. specialize (IHa b). unfold min3. simpl length.
      destruct (x =? y)%nat; lia.
Qed.

Lemma inject_Z_div_lt_1 a b : (0 <= a < b)%Z -> inject_Z a / inject_Z b < 1.
Proof.
  intros Hab.
  apply Qlt_shift_div_r.
  - change 0 with (inject_Z 0). rewrite <- Zlt_Qlt. lia.
  - rewrite Qmult_1_l, <- Zlt_Qlt. lia.
Qed.

Theorem levq_lt_1 a b : levq a b < 1.
Proof.
  unfold levq. apply inject_Z_div_lt_1.
  pose proof (lev_le_max a b) as Hle. lia.
Qed.

Theorem levq_nonneg a b : 0 <= levq a b.
Proof.
  unfold levq.
  apply Qle_shift_div_l.
  - change 0 with (inject_Z 0). rewrite <- Zlt_Qlt. lia.
  - rewrite Qmult_0_l. change 0 with (inject_Z 0). rewrite <- Zle_Qle. lia.
Qed.

(* ------------------------------------------------------------------ *)
(* the double max-fold                                                 *)
(* ------------------------------------------------------------------ *)
Lemma qmax_ge_l a b : a <= qmax a b.
Proof.
  unfold qmax. destruct (Qle_bool a b) eqn:E.
  - apply Qle_bool_iff in E. exact E.
  - apply Qle_refl.
Qed.

Lemma qmax_ge_r a b : b <= qmax a b.
Proof.
  unfold qmax. destruct (Qle_bool a b) eqn:E.
  - apply Qle_refl.
  - assert (Hn : ~ a <= b) by (intro H; apply Qle_bool_iff in H; congruence).
    lra.
Qed.

Lemma qmax_lub a b m : a <= m -> b <= m -> qmax a b <= m.
Proof. intros Ha Hb. unfold qmax. destruct (Qle_bool a b); assumption. Qed.

Section Folds.
  Variables A B : Type.

  Definition inner (g : B -> Q) (acc : Q) (l : list B) : Q :=
    fold_right (fun b acc' => qmax (g b) acc') acc l.
  Definition outer (f : A -> B -> Q) (l1 : list A) (l2 : list B) (init : Q) : Q :=
    fold_right (fun a acc => inner (f a) acc l2) init l1.

  Lemma inner_ge_acc g acc l : acc <= inner g acc l.
  Proof.
    induction l as [|b l IH]; simpl.
    - apply Qle_refl.
    - eapply Qle_trans; [exact IH | apply qmax_ge_r].
  Qed.

  Lemma inner_ge_in g acc l b : In b l -> g b <= inner g acc l.
  Proof.
    induction l as [|b' l IH]; simpl; intros Hin.
    - contradiction.
    - destruct Hin as [Heq | Hin].
      + subst b'. apply qmax_ge_l.
      + eapply Qle_trans; [exact (IH Hin) | apply qmax_ge_r].
  Qed.

  Lemma inner_lub g acc l m : acc <= m -> (forall b, In b l -> g b <= m) -> inner g acc l <= m.
  Proof.
    intros Hacc. induction l as [|b l IH]; simpl; intros Hall.
    - exact Hacc.
    - apply qmax_lub.
      + apply Hall. left. reflexivity.
      + apply IH. intros b' Hb'. apply Hall. right. exact Hb'.
  Qed.

  Lemma outer_ge_init f l1 l2 init : init <= outer f l1 l2 init.
  Proof.
    induction l1 as [|a l1 IH]; simpl.
    - apply Qle_refl.
    - eapply Qle_trans; [exact IH | apply inner_ge_acc].
  Qed.

  Lemma outer_ge_in f l1 l2 init a b : In a l1 -> In b l2 -> f a b <= outer f l1 l2 init.
  Proof.
    induction l1 as [|a' l1 IH]; simpl; intros Ha Hb.
    - contradiction.
    - destruct Ha as [Heq | Ha].
      + subst a'. apply inner_ge_in. exact Hb.
      + eapply Qle_trans; [exact (IH Ha Hb) | apply inner_ge_acc].
  Qed.

  Lemma outer_lub f l1 l2 init m :
    init <= m -> (forall a b, In a l1 -> In b l2 -> f a b <= m) -> outer f l1 l2 init <= m.
  Proof.
    intros Hinit. induction l1 as [|a l1 IH]; simpl; intros Hall.
    - exact Hinit.
    - apply inner_lub.
      + apply IH. intros a' b Ha' Hb. apply Hall; [right; exact Ha' | exact Hb].
      + intros b Hb. apply Hall; [left; reflexivity | exact Hb].
  Qed.
End Folds.

Lemma max_entry_outer f labels : max_entry f labels = outer _ _ f labels labels 1.
Proof. reflexivity. Qed.

Lemma spread_outer lp : spread lp = outer _ _ (fun a b : Z * Q => Qabs (snd a - snd b)) lp lp 1.
Proof. reflexivity. Qed.

Lemma max_entry_le_1 f labels : (forall a b, f a b <= 1) -> max_entry f labels == 1.
Proof.
  intros Hf. rewrite max_entry_outer. apply Qle_antisym.
  - apply outer_lub; [apply Qle_refl | intros a b _ _; apply Hf].
  - apply outer_ge_init.
Qed.

Theorem max_entry_levq labels : max_entry levq labels == 1.
Proof. apply max_entry_le_1. intros a b. apply Qlt_le_weak. apply levq_lt_1. Qed.

Theorem dlev_independent_of_labels labels labels' de a b : dlev labels de a b == dlev labels' de a b.
Proof. unfold dlev. rewrite (max_entry_levq labels), (max_entry_levq labels'). reflexivity. Qed.

Lemma levq_sym a b : levq a b = levq b a.
Proof. unfold levq. rewrite (lev_sym a b), (Nat.max_comm (length a + 1) (length b + 1)). reflexivity. Qed.

Theorem dlev_sym labels de a b : dlev labels de a b == dlev labels de b a.
Proof. unfold dlev. rewrite (levq_sym a b). reflexivity. Qed.

Theorem dlev_zero_on_eq labels de a : dlev labels de a a == 0.
Proof.
  unfold dlev, levq. rewrite lev_refl. simpl Z.of_nat.
  unfold Qdiv. change (inject_Z 0) with 0. ring.
Qed.

Theorem dlev_nonneg labels de a b : 0 <= de -> 0 <= dlev labels de a b.
Proof.
  intros Hde. unfold dlev. rewrite (max_entry_levq labels).
  apply Qmult_le_0_compat; [|exact Hde].
  unfold Qdiv. change (/ 1) with 1. rewrite Qmult_1_r. apply levq_nonneg.
Qed.

(* ------------------------------------------------------------------ *)
(* ordinal / numerical                                                 *)
(* ------------------------------------------------------------------ *)
Theorem spread_ge_1 lp : 1 <= spread lp.
Proof. rewrite spread_outer. apply outer_ge_init. Qed.

Theorem spread_bounds lp a b : In a lp -> In b lp -> Qabs (snd a - snd b) <= spread lp.
Proof.
  intros Ha Hb. rewrite spread_outer.
  apply (outer_ge_in _ _ (fun a b : Z * Q => Qabs (snd a - snd b)) lp lp 1 a b Ha Hb).
Qed.

Lemma spread_lub lp m :
  1 <= m -> (forall a b, In a lp -> In b lp -> Qabs (snd a - snd b) <= m) -> spread lp <= m.
Proof. intros H1 Hall. rewrite spread_outer. apply outer_lub; assumption. Qed.

Theorem dord_sym lp de x y : dord lp de x y == dord lp de y x.
Proof. unfold dord. rewrite (Qabs_Qminus (pos_of x lp) (pos_of y lp)). reflexivity. Qed.

Theorem dord_zero_on_eq lp de x : dord lp de x x == 0.
Proof.
  unfold dord. setoid_replace (pos_of x lp - pos_of x lp) with 0 by ring.
  change (Qabs 0) with 0. unfold Qdiv. ring.
Qed.

Lemma dord_ratio_nonneg lp x y : 0 <= Qabs (pos_of x lp - pos_of y lp) / spread lp.
Proof.
  pose proof (spread_ge_1 lp) as Hs.
  apply Qle_shift_div_l; [lra|].
  rewrite Qmult_0_l. apply Qabs_nonneg.
Qed.

Theorem dord_nonneg lp de x y : 0 <= de -> 0 <= dord lp de x y.
Proof.
  intros Hde. unfold dord.
  apply Qmult_le_0_compat; [apply dord_ratio_nonneg | exact Hde].
Qed.

Lemma pos_of_in x lp : In x (map fst lp) -> In (x, pos_of x lp) lp.
Proof.
  induction lp as [|[k p] r IH]; simpl; intros Hin.
  - contradiction.
  - destruct (x =? k)%Z eqn:E.
    + apply Z.eqb_eq in E. subst k. left. reflexivity.
    + apply Z.eqb_neq in E. destruct Hin as [Heq | Hin]; [congruence|].
      right. apply IH. exact Hin.
Qed.

Theorem dord_le_de lp de x y : 0 <= de -> In x (map fst lp) -> In y (map fst lp) -> dord lp de x y <= de.
Proof.
  intros Hde Hx Hy. unfold dord.
  pose proof (spread_ge_1 lp) as Hs.
  pose proof (spread_bounds lp _ _ (pos_of_in x lp Hx) (pos_of_in y lp Hy)) as Hb.
  simpl in Hb.
  assert (Hr : Qabs (pos_of x lp - pos_of y lp) / spread lp <= 1).
  { apply Qle_shift_div_r; [lra|]. rewrite Qmult_1_l. exact Hb. }
  pose proof (dord_ratio_nonneg lp x y) as Hr0.
  set (r := Qabs (pos_of x lp - pos_of y lp) / spread lp) in *.
  assert (Hdiff : 0 <= (1 - r) * de) by (apply Qmult_le_0_compat; lra).
  lra.
Qed.

Theorem spread_perm lp lp' : Permutation lp lp' -> spread lp == spread lp'.
Proof.
  intros Hp. apply Qle_antisym.
  - apply spread_lub; [apply spread_ge_1|].
    intros a b Ha Hb. apply spread_bounds; eapply Permutation_in; eauto.
  - apply spread_lub; [apply spread_ge_1|].
    intros a b Ha Hb. apply Permutation_sym in Hp.
    apply spread_bounds; eapply Permutation_in; eauto.
Qed.

Theorem pos_of_perm lp lp' x : NoDup (map fst lp) -> Permutation lp lp' -> pos_of x lp = pos_of x lp'.
Proof.
  intros Hnd Hp. induction Hp as [| [k p] l l' Hp IH | [k1 p1] [k2 p2] l | l l' l'' Hp1 IH1 Hp2 IH2].
  - reflexivity.
  - simpl. destruct (x =? k)%Z; [reflexivity|].
    apply IH. simpl in Hnd. inversion Hnd; assumption.
  - simpl. destruct (x =? k1)%Z eqn:E1; destruct (x =? k2)%Z eqn:E2; try reflexivity.
    apply Z.eqb_eq in E1. apply Z.eqb_eq in E2. subst k1 k2.
    simpl in Hnd. inversion Hnd as [|? ? Hnotin Hnd']. exfalso. apply Hnotin. left. reflexivity.
  - rewrite IH1 by exact Hnd. apply IH2.
    eapply Permutation_NoDup; [|exact Hnd]. apply Permutation_map. exact Hp1.
Qed.

Theorem dord_perm lp lp' de x y : NoDup (map fst lp) -> Permutation lp lp' -> dord lp de x y == dord lp' de x y.
Proof.
  intros Hnd Hp. unfold dord.
  rewrite (pos_of_perm lp lp' x Hnd Hp), (pos_of_perm lp lp' y Hnd Hp), (spread_perm lp lp' Hp).
  reflexivity.
Qed.

(* ------------------------------------------------------------------ *)
(* table                                                               *)
(* ------------------------------------------------------------------ *)
Theorem dtable_sym cats m de u v : (forall i j, mget m i j == mget m j i) -> dtable cats m de u v == dtable cats m de v u.
Proof. intros Hsym. unfold dtable. rewrite (Hsym (cat_index cats (qc u)) (cat_index cats (qc v))). reflexivity. Qed.

Theorem dtable_zero_on_eq cats m de u : (forall i, mget m i i == 0) -> dtable cats m de u u == 0.
Proof. intros Hz. unfold dtable. rewrite Hz. ring. Qed.

(* ------------------------------------------------------------------ *)
(* combined                                                            *)
(* ------------------------------------------------------------------ *)
Theorem dcomb_sym alpha beta dp dc u v : dp u v == dp v u -> dc u v == dc v u -> dcomb alpha beta dp dc u v == dcomb alpha beta dp dc v u.
Proof. intros Hp Hc. unfold dcomb. rewrite Hp, Hc. reflexivity. Qed.

Theorem dcomb_nonneg alpha beta dp dc u v : 0 <= alpha -> 0 <= beta -> 0 <= dp u v -> 0 <= dc u v -> 0 <= dcomb alpha beta dp dc u v.
Proof.
  intros Ha Hb Hp Hc. unfold dcomb.
  pose proof (Qmult_le_0_compat _ _ Ha Hp) as H1.
  pose proof (Qmult_le_0_compat _ _ Hb Hc) as H2.
  lra.
Qed.

Theorem dcomb_zero_on_eq alpha beta dp dc u : dp u u == 0 -> dc u u == 0 -> dcomb alpha beta dp dc u u == 0.
Proof. intros Hp Hc. unfold dcomb. rewrite Hp, Hc. ring. Qed.

Lemma dabs_linear_de de k u v : dabs (k * de) u v == k * dabs de u v.
Proof. unfold dabs. destruct (cat_eqb (qc u) (qc v)); ring. Qed.

Theorem dcomb_pos_abs_linear_de alpha beta de k u v :
  dcomb alpha beta (dpos (k * de)) (dabs (k * de)) u v == k * dcomb alpha beta (dpos de) (dabs de) u v.
Proof. unfold dcomb. rewrite dpos_linear_de, dabs_linear_de. ring. Qed.

(* ------------------------------------------------------------------ *)
Print Assumptions dpos_sym.
Print Assumptions dpos_nonneg.
Print Assumptions dpos_zero_on_eq.
Print Assumptions dpos_shift.
Print Assumptions dpos_scale.
Print Assumptions dpos_linear_de.
Print Assumptions dabs_sym.
Print Assumptions dabs_nonneg.
Print Assumptions dabs_zero_on_eq.
Print Assumptions index_of_lt.
Print Assumptions index_of_inj.
Print Assumptions dabs_arr_eq.
Print Assumptions dabs_rename.
Print Assumptions lev_nil_l.
Print Assumptions lev_nil_r.
Print Assumptions lev_cons.
Print Assumptions lev_sym.
Print Assumptions lev_refl.
Print Assumptions lev_le_max.
Print Assumptions levq_lt_1.
Print Assumptions levq_nonneg.
Print Assumptions max_entry_levq.
Print Assumptions dlev_independent_of_labels.
Print Assumptions dlev_sym.
Print Assumptions dlev_zero_on_eq.
Print Assumptions dlev_nonneg.
Print Assumptions spread_ge_1.
Print Assumptions spread_bounds.
Print Assumptions dord_sym.
Print Assumptions dord_zero_on_eq.
Print Assumptions dord_nonneg.
Print Assumptions dord_le_de.
Print Assumptions spread_perm.
Print Assumptions pos_of_perm.
Print Assumptions dord_perm.
Print Assumptions dtable_sym.
Print Assumptions dtable_zero_on_eq.
Print Assumptions dcomb_sym.
Print Assumptions dcomb_nonneg.
Print Assumptions dcomb_zero_on_eq.
Print Assumptions dcomb_pos_abs_linear_de.
