(* Model of the built-in dissimilarities (dissimilarity.py) in exact rationals - C04 (and the invariances used by C09).
   A unit is (start, end, category); categories are numbers (order-preserving ranks of the label strings chosen by the
   harness) except for the Levenshtein dissimilarity, whose labels are code-point lists.  Definitions only. *)
From Coq Require Import List Arith ZArith QArith Qabs Lia Bool.
Import ListNotations.
Local Open Scope Q_scope.

Record unitq := mkUQ { qs : Q; qe : Q; qc : option Z }.
Definition dur (u : unitq) : Q := qe u - qs u.

(* positional-sporadic: ((|ds| + |de|) / (sum of durations))^2 * delta_empty   (dissimilarity.py:295-308) *)
Definition dpos (de : Q) (u v : unitq) : Q :=
  let r := (Qabs (qs u - qs v) + Qabs (qe u - qe v)) / (dur u + dur v) in r * r * de.

Definition cat_eqb (a b : option Z) : bool :=
  match a, b with None, None => true | Some x, Some y => (x =? y)%Z | _, _ => false end.
(* absolute categorical: 0 when the categories are identical, delta_empty otherwise (324-333) *)
Definition dabs (de : Q) (u v : unitq) : Q := if cat_eqb (qc u) (qc v) then 0 else de.

(* --- array form of the absolute dissimilarity: categories replaced by their index in the sorted category list,
       unlabelled units by an index no category uses (the length of the list) --- *)
Fixpoint index_of (x : Z) (l : list Z) : nat :=
  match l with [] => 0 | y :: r => if (x =? y)%Z then 0 else S (index_of x r) end.
Definition cat_index (cats : list Z) (c : option Z) : nat :=
  match c with Some x => index_of x cats | None => length cats end.
Definition dabs_arr (cats : list Z) (de : Q) (u v : unitq) : Q :=
  if (cat_index cats (qc u) =? cat_index cats (qc v))%nat then 0 else de.

(* precomputed table: matrix entry of the two categories' ranks times delta_empty (347-358) *)
Definition mget (m : list (list Q)) (i j : nat) : Q := nth j (nth i m []) 0.
Definition dtable (cats : list Z) (m : list (list Q)) (de : Q) (u v : unitq) : Q :=
  mget m (cat_index cats (qc u)) (cat_index cats (qc v)) * de.

(* --- Levenshtein on code-point lists (the usual recursion) --- *)
Definition min3 (a b c : nat) : nat := Nat.min a (Nat.min b c).
Fixpoint lev (a : list nat) : list nat -> nat :=
  fix lev_a (b : list nat) : nat :=
    match a, b with
    | [], _ => length b
    | _, [] => length a
    | x :: a', y :: b' =>
        min3 (lev a' b + 1) (lev_a b' + 1) (lev a' b' + (if (x =? y)%nat then 0 else 1))
    end.
(* the library's normalised value: lev / max(len1 + 1, len2 + 1)   (410) *)
Definition levq (a b : list nat) : Q :=
  inject_Z (Z.of_nat (lev a b)) / inject_Z (Z.of_nat (Nat.max (length a + 1) (length b + 1))).
(* LambdaCategoricalDissimilarity divides the whole matrix by max(1, largest entry) (370-377) *)
Definition qmax (a b : Q) : Q := if Qle_bool a b then b else a.
Definition max_entry (f : list nat -> list nat -> Q) (labels : list (list nat)) : Q :=
  fold_right (fun a acc => fold_right (fun b acc' => qmax (f a b) acc') acc labels) 1 labels.
Definition dlev (labels : list (list nat)) (de : Q) (a b : list nat) : Q :=
  levq a b / max_entry levq labels * de.

(* --- ordinal / numerical: labels with positions; entry = |p_i - p_j| / max(1, largest difference) (443-452, after the fix) --- *)
Fixpoint pos_of (x : Z) (lp : list (Z * Q)) : Q :=
  match lp with [] => 0 | (y, p) :: r => if (x =? y)%Z then p else pos_of x r end.
Definition spread (lp : list (Z * Q)) : Q :=
  fold_right (fun a acc => fold_right (fun b acc' => qmax (Qabs (snd a - snd b)) acc') acc lp) 1 lp.
Definition dord (lp : list (Z * Q)) (de : Q) (x y : Z) : Q :=
  Qabs (pos_of x lp - pos_of y lp) / spread lp * de.

(* combined: alpha * positional + beta * categorical, both with the combined dissimilarity's delta_empty (493-520) *)
Definition dcomb (alpha beta : Q) (dp dc : unitq -> unitq -> Q) (u v : unitq) : Q := alpha * dp u v + beta * dc u v.

(* transformations of C09 *)
Definition shift_u (c : Q) (u : unitq) : unitq := mkUQ (qs u + c) (qe u + c) (qc u).
Definition scale_u (c : Q) (u : unitq) : unitq := mkUQ (qs u * c) (qe u * c) (qc u).
Definition rename_u (f : Z -> Z) (u : unitq) : unitq :=
  mkUQ (qs u) (qe u) (match qc u with Some x => Some (f x) | None => None end).
