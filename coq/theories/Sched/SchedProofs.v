From Coq Require Import List Arith Lia Bool Permutation.
From PGA Require Import Sched.Sched.
Import ListNotations.

(* C06: schedule independence of the thread-pool section (model in Sched.v). *)

Section P.
Variables (A R St : Type) (draw : St -> A * St) (job : A -> R).

Lemma set_slot_length i r (slots : list (option R)) : length (set_slot R i r slots) = length slots.
Proof.
  revert i. induction slots as [|h t IH]; intros i; simpl.
  - destruct i; reflexivity.
  - destruct i as [|i']; simpl.
    + reflexivity.
    + rewrite IH. reflexivity.
Qed.

Lemma nth_set_slot_same i r (slots : list (option R)) : i < length slots -> nth i (set_slot R i r slots) None = Some r.
Proof.
  revert i. induction slots as [|h t IH]; intros i Hlt; simpl in *.
  - lia.
  - destruct i as [|i']; simpl.
    + reflexivity.
    + apply IH. lia.
Qed.

Lemma nth_set_slot_other i j r (slots : list (option R)) : i <> j -> nth j (set_slot R i r slots) None = nth j slots None.
Proof.
  revert i j. induction slots as [|h t IH]; intros i j Hne; simpl.
  - destruct i; reflexivity.
  - destruct i as [|i']; destruct j as [|j']; simpl.
    + congruence.
    + reflexivity.
    + reflexivity.
    + apply IH. lia.
Qed.

(* the step function of run_tasks *)
Definition step (args : list A) (d : A) : list (option R) -> nat -> list (option R) :=
  fun slots i => set_slot R i (job (nth i args d)) slots.

Lemma fold_step_length args d sigma slots0 :
  length (fold_left (step args d) sigma slots0) = length slots0.
Proof.
  revert slots0. induction sigma as [|i rest IH]; intros slots0; simpl.
  - reflexivity.
  - rewrite IH. unfold step. apply set_slot_length.
Qed.

(* slots whose task is not run are untouched *)
Lemma fold_step_notin args d sigma slots0 j :
  ~ In j sigma -> nth j (fold_left (step args d) sigma slots0) None = nth j slots0 None.
Proof.
  revert slots0. induction sigma as [|i rest IH]; intros slots0 Hnin; simpl.
  - reflexivity.
  - rewrite IH.
    + unfold step. apply nth_set_slot_other. intros Heq. apply Hnin. left. exact Heq.
    + intros Hin. apply Hnin. right. exact Hin.
Qed.

(* slots whose task is run (once or several times) hold that task's result *)
Lemma fold_step_in args d sigma slots0 j :
  In j sigma -> j < length slots0 ->
  nth j (fold_left (step args d) sigma slots0) None = Some (job (nth j args d)).
Proof.
  revert slots0. induction sigma as [|i rest IH]; intros slots0 Hin Hlt; simpl.
  - destruct Hin.
  - destruct (in_dec Nat.eq_dec j rest) as [Hrest|Hnrest].
    + apply IH.
      * exact Hrest.
      * unfold step. rewrite set_slot_length. exact Hlt.
    + destruct Hin as [Heq|Hin'].
      * subst i. rewrite fold_step_notin by exact Hnrest.
        unfold step. apply nth_set_slot_same. exact Hlt.
      * contradiction.
Qed.

Lemma nth_repeat_None (X : Type) n j : nth j (repeat (@None X) n) None = None.
Proof.
  revert j. induction n as [|n IH]; intros j; simpl.
  - destruct j; reflexivity.
  - destruct j as [|j'].
    + reflexivity.
    + apply IH.
Qed.

Lemma nth_map_Some_job (args : list A) d j :
  j < length args -> nth j (map (fun a => Some (job a)) args) None = Some (job (nth j args d)).
Proof.
  revert j. induction args as [|a t IH]; intros j Hlt; simpl in *.
  - lia.
  - destruct j as [|j'].
    + reflexivity.
    + apply IH. lia.
Qed.

(* duplicates in the execution order are harmless too (a task re-run gives the same value): only coverage matters *)
Theorem run_tasks_covering sigma (args : list A) d :
  (forall i, i < length args -> In i sigma) -> (forall i, In i sigma -> i < length args) ->
  run_tasks A R job sigma args d = map (fun a => Some (job a)) args.
Proof.
  intros Hcov _.
  unfold run_tasks. change (fun slots i => set_slot R i (job (nth i args d)) slots) with (step args d).
  apply nth_ext with (d := None) (d' := None).
  - rewrite fold_step_length, repeat_length, map_length. reflexivity.
  - intros j Hj. rewrite fold_step_length, repeat_length in Hj.
    rewrite fold_step_in.
    + symmetry. apply nth_map_Some_job. exact Hj.
    + apply Hcov. exact Hj.
    + rewrite repeat_length. exact Hj.
Qed.

Theorem run_tasks_any_order sigma (args : list A) d :
  Permutation sigma (seq 0 (length args)) -> run_tasks A R job sigma args d = map (fun a => Some (job a)) args.
Proof.
  intros Hperm. apply run_tasks_covering.
  - intros i Hi. apply Permutation_in with (l := seq 0 (length args)).
    + apply Permutation_sym. exact Hperm.
    + apply in_seq. lia.
  - intros i Hin. apply (Permutation_in _ Hperm) in Hin. apply in_seq in Hin. lia.
Qed.

Lemma draws_length n s : length (fst (draws A St draw n s)) = n.
Proof.
  revert s. induction n as [|n IH]; intros s; simpl.
  - reflexivity.
  - destruct (draw s) as [a s1]. specialize (IH s1).
    destruct (draws A St draw n s1) as [l s2]. simpl in *. rewrite IH. reflexivity.
Qed.

Theorem schedule_independent sigma n arg0 s :
  Permutation sigma (seq 0 (S n)) ->
  pooled A R St draw job sigma n arg0 s =
  (map Some (fst (sequential A R St draw job n arg0 s)), snd (sequential A R St draw job n arg0 s)).
Proof.
  intros Hperm. unfold pooled, sequential.
  pose proof (draws_length n s) as Hlen.
  destruct (draws A St draw n s) as [args s'] eqn:E. simpl in Hlen. cbn [fst snd].
  f_equal.
  rewrite run_tasks_any_order.
  - rewrite map_map. reflexivity.
  - simpl length. rewrite Hlen. exact Hperm.
Qed.

Corollary two_schedules_agree sigma1 sigma2 n arg0 s :
  Permutation sigma1 (seq 0 (S n)) -> Permutation sigma2 (seq 0 (S n)) ->
  pooled A R St draw job sigma1 n arg0 s = pooled A R St draw job sigma2 n arg0 s.
Proof.
  intros H1 H2. rewrite (schedule_independent sigma1 n arg0 s H1).
  rewrite (schedule_independent sigma2 n arg0 s H2). reflexivity.
Qed.
End P.

(* SENSITIVITY: in the variant where the draw happens inside the task, two schedules can give different results *)
Theorem draws_in_worker_schedule_dependent :
  exists sigma1 sigma2,
    Permutation sigma1 (seq 0 2) /\ Permutation sigma2 (seq 0 2) /\
    fst (run_tasks_drawing nat nat nat (fun s => (s, S s)) (fun a => a) sigma1 2 0) <>
    fst (run_tasks_drawing nat nat nat (fun s => (s, S s)) (fun a => a) sigma2 2 0).
Proof.
  exists [0; 1], [1; 0]. split; [|split].
  - simpl. apply Permutation_refl.
  - simpl. apply perm_swap.
  - vm_compute. discriminate.
Qed.

(* the shared-cell variant.  The cell written before any draw (what compute_gamma does: measure_best_window_size on the main thread, before the
   pool exists) leaves nothing to the schedule; a write by a worker is harmless exactly when the draws do not read the cell *)
Theorem write_first_is_sequential (A St C : Type) (draw : C -> St -> A * St) (write : C -> C) n c s :
  fst (interleaved A St C draw write (EWrite :: repeat EDraw n) c s) = fst (draws A St (draw (write c)) n s).
Proof.
  cbn [interleaved]. generalize (write c) as c'. intros c'. revert s.
  induction n as [|n IH]; intros s; cbn [repeat interleaved draws]; [reflexivity|].
  destruct (draw c' s) as [a s1]. specialize (IH s1).
  destruct (interleaved A St C draw write (repeat EDraw n) c' s1) as [l r].
  destruct (draws A St (draw c') n s1) as [l' s2]. cbn [fst] in *. rewrite IH. reflexivity.
Qed.

Theorem unread_write_is_harmless (A St C : Type) (draw : C -> St -> A * St) (write : C -> C) :
  (forall c c' s, draw c s = draw c' s) ->
  forall evs c s, fst (interleaved A St C draw write evs c s) = fst (interleaved A St C draw write (filter is_draw evs) c s).
Proof.
  intros Hig evs. induction evs as [|e evs IH]; intros c s; [reflexivity|].
  destruct e; cbn [filter is_draw interleaved].
  - destruct (draw c s) as [a s1]. specialize (IH c s1).
    destruct (interleaved A St C draw write evs c s1) as [l r].
    destruct (interleaved A St C draw write (filter is_draw evs) c s1) as [l' r']. cbn [fst] in *. rewrite IH. reflexivity.
  - rewrite IH. clear IH. generalize (filter is_draw evs) as ds. intros ds. revert s.
    induction ds as [|d ds IHd]; intros s; [reflexivity|].
    destruct d; cbn [interleaved].
    + rewrite (Hig (write c) c s). destruct (draw c s) as [a s1]. specialize (IHd s1).
      destruct (interleaved A St C draw write ds (write c) s1) as [l r].
      destruct (interleaved A St C draw write ds c s1) as [l' r']. cbn [fst] in *. rewrite IHd. reflexivity.
    + (* a second write: both sides step to written cells; draws ignore the cell *)
      clear IHd. revert s. generalize (write (write c)) as c1. generalize (write c) as c2.
      induction ds as [|d ds IHd]; intros c2 c1 s; [reflexivity|].
      destruct d; cbn [interleaved].
      * rewrite (Hig c1 c2 s). destruct (draw c2 s) as [a s1]. specialize (IHd c2 c1 s1).
        destruct (interleaved A St C draw write ds c1 s1) as [l r].
        destruct (interleaved A St C draw write ds c2 s1) as [l' r']. cbn [fst] in *. rewrite IHd. reflexivity.
      * apply IHd.
Qed.

(* SENSITIVITY: a job that writes the cell while samples that copy it are being drawn makes the samples depend on when the worker ran *)
Theorem shared_write_in_worker_schedule_dependent :
  exists evs1 evs2,
    filter is_draw evs1 = filter is_draw evs2 /\
    fst (interleaved nat nat nat (fun c s => (c + s, S s)) (fun _ => 7) evs1 0 0) <>
    fst (interleaved nat nat nat (fun c s => (c + s, S s)) (fun _ => 7) evs2 0 0).
Proof. exists [EWrite; EDraw; EDraw], [EDraw; EWrite; EDraw]. split; [reflexivity|]. vm_compute. discriminate. Qed.

Print Assumptions set_slot_length.
Print Assumptions nth_set_slot_same.
Print Assumptions nth_set_slot_other.
Print Assumptions run_tasks_covering.
Print Assumptions run_tasks_any_order.
Print Assumptions draws_length.
Print Assumptions schedule_independent.
Print Assumptions two_schedules_agree.
Print Assumptions draws_in_worker_schedule_dependent.
Print Assumptions write_first_is_sequential.
Print Assumptions unread_write_is_harmless.
Print Assumptions shared_write_in_worker_schedule_dependent.
