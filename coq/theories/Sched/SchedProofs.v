From Coq Require Import List Arith Lia Bool Permutation.
From PGA Require Import Sched.Sched.
Import ListNotations.

(* C06: schedule independence of the thread-pool section (model in Sched.v). *)

Section P.
Variables (A R St : Type) (draw : St -> A * St) (job : A -> R).

Lemma set_slot_length i r (slots : list (option R)) : length (set_slot R i r slots) = length slots.
Proof.
  revert i. induction slots as [|h t IH]; intros i; simpl.
  - destruct i; reflexivity.
  - destruct i as [|i']; simpl.
    + reflexivity.
    + rewrite IH. reflexivity.
Qed.

Lemma nth_set_slot_same i r (slots : list (option R)) : i < length slots -> nth i (set_slot R i r slots) None = Some r.
Proof.
  revert i. induction slots as [|h t IH]; intros i Hlt; simpl in *.
  - lia.
  - destruct i as [|i']; simpl.
    + reflexivity.
    + apply IH. lia.
Qed.

Lemma nth_set_slot_other i j r (slots : list (option R)) : i <> j -> nth j (set_slot R i r slots) None = nth j slots None.
Proof.
  revert i j. induction slots as [|h t IH]; intros i j Hne; simpl.
  - destruct i; reflexivity.
  - destruct i as [|i']; destruct j as [|j']; simpl.
    + congruence.
    + reflexivity.
    + reflexivity.
    + apply IH. lia.
Qed.

(* the step function of run_tasks *)
Definition step (args : list A) (d : A) : list (option R) -> nat -> list (option R) :=
  fun slots i => set_slot R i (job (nth i args d)) slots.

Lemma fold_step_length args d sigma slots0 :
  length (fold_left (step args d) sigma slots0) = length slots0.
Proof.
  revert slots0. induction sigma as [|i rest IH]; intros slots0; simpl.
  - reflexivity.
  - rewrite IH. unfold step. apply set_slot_length.
Qed.

(* slots whose task is not run are untouched *)
Lemma fold_step_notin args d sigma slots0 j :
  ~ In j sigma -> nth j (fold_left (step args d) sigma slots0) None = nth j slots0 None.
Proof.
  revert slots0. induction sigma as [|i rest IH]; intros slots0 Hnin; simpl.
  - reflexivity.
  - rewrite IH.
    + unfold step. apply nth_set_slot_other. intros Heq. apply Hnin. left. exact Heq.
    + intros Hin. apply Hnin. right. exact Hin.
Qed.

(* slots whose task is run (once or several times) hold that task's result *)
Lemma fold_step_in args d sigma slots0 j :
  In j sigma -> j < length slots0 ->
  nth j (fold_left (step args d) sigma slots0) None = Some (job (nth j args d)).
Proof.
  revert slots0. induction sigma as [|i rest IH]; intros slots0 Hin Hlt; simpl.
  - destruct Hin.
  - destruct (in_dec Nat.eq_dec j rest) as [Hrest|Hnrest].
    + apply IH.
      * exact Hrest.
      * unfold step. rewrite set_slot_length. exact Hlt.
    + destruct Hin as [Heq|Hin'].
      * subst i. rewrite fold_step_notin by exact Hnrest.
        unfold step. apply nth_set_slot_same. exact Hlt.
      * contradiction.
Qed.

Lemma nth_repeat_None (X : Type) n j : nth j (repeat (@None X) n) None = None.
Proof.
  revert j. induction n as [|n IH]; intros j; simpl.
  - destruct j; reflexivity.
  - destruct j as [|j'].
    + reflexivity.
    + apply IH.
Qed.

Lemma nth_map_Some_job (args : list A) d j :
  j < length args -> nth j (map (fun a => Some (job a)) args) None = Some (job (nth j args d)).
Proof.
  revert j. induction args as [|a t IH]; intros j Hlt; simpl in *.
  - lia.
  - destruct j as [|j'].
    + reflexivity.
    + apply IH. lia.
Qed.

(* duplicates in the execution order are harmless too (a task re-run gives the same value): only coverage matters *)
Theorem run_tasks_covering sigma (args : list A) d :
  (forall i, i < length args -> In i sigma) -> (forall i, In i sigma -> i < length args) ->
  run_tasks A R job sigma args d = map (fun a => Some (job a)) args.
Proof.
  intros Hcov _.
  unfold run_tasks. change (fun slots i => set_slot R i (job (nth i args d)) slots) with (step args d).
  apply nth_ext with (d := None) (d' := None).
  - rewrite fold_step_length, repeat_length, map_length. reflexivity.
  - intros j Hj. rewrite fold_step_length, repeat_length in Hj.
    rewrite fold_step_in.
    + symmetry. apply nth_map_Some_job. exact Hj.
    + apply Hcov. exact Hj.
    + rewrite repeat_length. exact Hj.
Qed.

Theorem run_tasks_any_order sigma (args : list A) d :
  Permutation sigma (seq 0 (length args)) -> run_tasks A R job sigma args d = map (fun a => Some (job a)) args.
Proof.
  intros Hperm. apply run_tasks_covering.
  - intros i Hi. apply Permutation_in with (l := seq 0 (length args)).
    + apply Permutation_sym. exact Hperm.
    + apply in_seq. lia.
  - intros i Hin. apply (Permutation_in _ Hperm) in Hin. apply in_seq in Hin. lia.
Qed.

Lemma draws_length n s : length (fst (draws A St draw n s)) = n.
Proof.
  revert s. induction n as [|n IH]; intros s; simpl.
  - reflexivity.
  - destruct (draw s) as [a s1]. specialize (IH s1).
    destruct (draws A St draw n s1) as [l s2]. simpl in *. rewrite IH. reflexivity.
Qed.

Theorem schedule_independent sigma n arg0 s :
  Permutation sigma (seq 0 (S n)) ->
  pooled A R St draw job sigma n arg0 s =
  (map Some (fst (sequential A R St draw job n arg0 s)), snd (sequential A R St draw job n arg0 s)).
Proof.
  intros Hperm. unfold pooled, sequential.
  pose proof (draws_length n s) as Hlen.
  destruct (draws A St draw n s) as [args s'] eqn:E. simpl in Hlen. cbn [fst snd].
  f_equal.
  rewrite run_tasks_any_order.
  - rewrite map_map. reflexivity.
  - simpl length. rewrite Hlen. exact Hperm.
Qed.

Corollary two_schedules_agree sigma1 sigma2 n arg0 s :
  Permutation sigma1 (seq 0 (S n)) -> Permutation sigma2 (seq 0 (S n)) ->
  pooled A R St draw job sigma1 n arg0 s = pooled A R St draw job sigma2 n arg0 s.
Proof.
  intros H1 H2. rewrite (schedule_independent sigma1 n arg0 s H1).
  rewrite (schedule_independent sigma2 n arg0 s H2). reflexivity.
Qed.
End P.

(* SENSITIVITY: in the variant where the draw happens inside the task, two schedules can give different results *)
Theorem draws_in_worker_schedule_dependent :
  exists sigma1 sigma2,
    Permutation sigma1 (seq 0 2) /\ Permutation sigma2 (seq 0 2) /\
    fst (run_tasks_drawing nat nat nat (fun s => (s, S s)) (fun a => a) sigma1 2 0) <>
    fst (run_tasks_drawing nat nat nat (fun s => (s, S s)) (fun a => a) sigma2 2 0).
Proof.
  exists [0; 1], [1; 0]. split; [|split].
  - simpl. apply Permutation_refl.
  - simpl. apply perm_swap.
  - vm_compute. discriminate.
Qed.

Print Assumptions set_slot_length.
Print Assumptions nth_set_slot_same.
Print Assumptions nth_set_slot_other.
Print Assumptions run_tasks_covering.
Print Assumptions run_tasks_any_order.
Print Assumptions draws_length.
Print Assumptions schedule_independent.
Print Assumptions two_schedules_agree.
Print Assumptions draws_in_worker_schedule_dependent.
