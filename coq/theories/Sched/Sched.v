(* Model of the thread-pool section of compute_gamma / gamma_cat / gamma_k (continuum.py:863-909, 996-1030) - C06.
   The main thread submits the job of the input, then, for each sample, DRAWS the sample (threading the random state) and submits its job;
   results are collected in submission order.  Jobs are pure functions of their argument.  A schedule is any order in which the submitted
   jobs are executed by the workers (jobs do not interact, so any interleaving is equivalent to such an order).  Definitions only. *)
From Coq Require Import List Arith Lia Bool Permutation.
Import ListNotations.

Section Sched.
Variables (A R St : Type).
Variable draw : St -> A * St.          (* sampler.sample_from_continuum: consumes random state on the submitting thread *)
Variable job : A -> R.               (* the alignment job: a pure function of its argument *)

(* the main thread: n draws, in order *)
Fixpoint draws (n : nat) (s : St) : list A * St :=
  match n with
  | O => ([], s)
  | S n' => let (a, s1) := draw s in let (l, s2) := draws n' s1 in (a :: l, s2)
  end.

(* sequential semantics: what a single-threaded run computes *)
Definition sequential (n : nat) (arg0 : A) (s : St) : list R * St :=
  let (args, s') := draws n s in (map job (arg0 :: args), s').

(* execution under a schedule: sigma lists task identifiers in the order the workers run them; each result is stored in its task's slot *)
Fixpoint set_slot (i : nat) (r : R) (slots : list (option R)) : list (option R) :=
  match slots, i with
  | [], _ => []
  | _ :: t, O => Some r :: t
  | h :: t, S i' => h :: set_slot i' r t
  end.
Definition run_tasks (sigma : list nat) (args : list A) (d : A) : list (option R) :=
  fold_left (fun slots i => set_slot i (job (nth i args d)) slots) sigma (repeat None (length args)).
(* the pooled run: draws happen on the main thread before the tasks they feed; collection reads the slots in submission order *)
Definition pooled (sigma : list nat) (n : nat) (arg0 : A) (s : St) : list (option R) * St :=
  let (args, s') := draws n s in (run_tasks sigma (arg0 :: args) arg0, s').

(* VARIANT (what the property fears): the sample is drawn inside the task, from a random state shared by the workers *)
Definition run_tasks_drawing (sigma : list nat) (n : nat) (s : St) : list (option R) * St :=
  fold_left (fun (st : list (option R) * St) i => let (slots, s0) := st in let (a, s1) := draw s0 in (set_slot i (job a) slots, s1))
            sigma (repeat None n, s).
End Sched.

(* SECOND VARIANT: a shared cell (Continuum.best_window_size, which copy_flush copies into every sample) is WRITTEN by a job while the main thread
   is still drawing samples that READ it.  An execution is an interleaving of the main thread's draws and the worker's write. *)
Section SharedCell.
Variables (A St C : Type).
Variable draw : C -> St -> A * St.     (* the sample reads the cell *)
Variable write : C -> C.              (* what the job stores in it *)
Inductive ev := EDraw | EWrite.
Fixpoint interleaved (evs : list ev) (c : C) (s : St) : list A * (C * St) :=
  match evs with
  | [] => ([], (c, s))
  | EDraw :: t => let (a, s1) := draw c s in let (l, r) := interleaved t c s1 in (a :: l, r)
  | EWrite :: t => interleaved t (write c) s
  end.
Definition is_draw (e : ev) : bool := match e with EDraw => true | EWrite => false end.
End SharedCell.

