(* Wire functions of the sampler models (C16, C15, C19). *)
From Coq Require Import List Arith ZArith QArith Qabs Lia Bool.
From PGA Require Import Wire WireMisc.
From PGA Require Import Sampler.Shuffle Sampler.ShuffleRetry Sampler.Stat Sampler.Cst.
Import ListNotations.
Local Open Scope Z_scope.

Definition getDraw : P draw :=
  k <- getNat ;;
  match k with
  | 0%nat => i <- getNat ;; ret (Choice i)
  | 1%nat => x <- getQ ;; ret (Uniform x)
  | _ => fun _ => None
  end.
Definition getUnitS : P unitS := s <- getQ ;; e <- getQ ;; l <- getZ ;; ret (mkUS s e l).
Definition putSeg (sg : seg) : list Z := putQ (fst sg) ++ putQ (snd sg).
Definition putUnitS (u : unitS) : list Z := putQ (ss u) ++ putQ (se u) ++ [sl u].

(* one pass with, for every sampled annotator: the available segments before its pivot was drawn, the pivot, its flag, the chosen annotator, the shifted units *)
Fixpoint sample_trace (repaired int_mode : bool) (dist binf bsup : Q) (gt : list (list unitS)) (k : nat)
         (avail : list seg) (st : list draw) : list Z :=
  match k with
  | O => [2] ++ [Z.of_nat (length st)]
  | S k' =>
    match draw_pivot repaired int_mode dist binf bsup avail st with
    | Some (p, avail', Choice a :: st') =>
      [1] ++ putList putSeg avail ++ putQ p ++ putBool (match avail with [] => false | _ => true end) ++ [Z.of_nat a] ++
      putList putUnitS (map (shift_unit p binf bsup) (nth a gt [])) ++
      sample_trace repaired int_mode dist binf bsup gt k' avail' st'
    | _ => [0]
    end
  end.

(* ---- statistical sampler ---- *)
Definition getSDraw : P sdraw :=
  k <- getNat ;;
  match k with
  | 0%nat => i <- getNat ;; ret (SChoice i)
  | 1%nat => x <- getQ ;; ret (SNormal x)
  | _ => fun _ => None
  end.
(* role of every consumed draw: 0 = normal(number of units), 1 = normal(gap), 2 = normal(duration), 3 = choice(category) *)
Fixpoint roles_end (prec start : Q) (st : list sdraw) : list Z :=
  match st with
  | SNormal d :: st' => 2 :: (if Qltb (start + Qabs d - start) prec then roles_end prec start st' else [])
  | _ => []
  end.
Fixpoint roles_units (prec : Q) (ncat k : nat) (last : Q) (st : list sdraw) : list Z :=
  match k with
  | O => []
  | S k' =>
    match st with
    | SNormal gap :: st1 =>
      let start := (last + gap)%Q in
      1 :: roles_end prec start st1 ++
      match draw_end prec start st1 with
      | Some (e, SChoice c :: st2) => 3 :: roles_units prec ncat k' e st2
      | _ => []
      end
    | _ => []
    end
  end.
Fixpoint roles_annotators (prec : Q) (ncat nann : nat) (empty_so_far : bool) (st : list sdraw) : list Z :=
  match nann with
  | O => []
  | S n' =>
    match st with
    | SNormal x :: st1 =>
      let nb := abs_int x in
      let nb := if empty_so_far then Nat.max 1 nb else nb in
      0 :: roles_units prec ncat nb 0%Q st1 ++
      match draw_units prec ncat nb 0%Q st1 with
      | Some (us, st2) => roles_annotators prec ncat n' (empty_so_far && match us with [] => true | _ => false end) st2
      | None => []
      end
    | _ => []
    end
  end.
Definition putSUnit (u : sunit) : list Z := putQ (su_s u) ++ putQ (su_e u) ++ [Z.of_nat (su_cat u)].
Definition getRUnit : P runit := s <- getQ ;; e <- getQ ;; c <- getNat ;; ret (mkRU s e c).

(* ---- corpus shuffling tool ---- *)
Definition getCDraw : P cdraw :=
  k <- getNat ;;
  match k with
  | 0%nat => x <- getQ ;; ret (CUniform x)
  | 1%nat => x <- getQ ;; ret (CNormal x)
  | 2%nat => x <- getQ ;; ret (CRandom x)
  | 3%nat => i <- getNat ;; ret (CChoice i)
  | 4%nat => i <- getNat ;; ret (CRandint i)
  | _ => fun _ => None
  end.
Definition getCUnit : P cunit := s <- getQ ;; e <- getQ ;; c <- getNat ;; ret (mkCU s e c).
Definition putCUnit (u : cunit) : list Z := putQ (cs u) ++ putQ (ce u) ++ [Z.of_nat (cc u)].
(* int(x) for x >= 0 *)
Definition trunc_nat (x : Q) : nat := Z.to_nat (Qround.Qfloor x).

Definition run_sampler (fn : nat) : list Z -> list Z :=
  match fn with
  | 0%nat =>
    finish (rp <- getBool ;; im <- getBool ;; dist <- getQ ;; binf <- getQ ;; bsup <- getQ ;;
            gt <- getList (getList getUnitS) ;; k <- getNat ;; st <- getList getDraw ;; ret (rp, im, dist, binf, bsup, gt, k, st))
           (fun '(rp, im, dist, binf, bsup, gt, k, st) => sample_trace rp im dist binf bsup gt k [(binf, bsup)] st)
  | 1%nat => (* _remove_pivot_segment alone *)
    finish (rp <- getBool ;; p <- getQ ;; dist <- getQ ;; segs <- getList (getPair getQ getQ) ;; ret (rp, p, dist, segs))
           (fun '(rp, p, dist, segs) => putList putSeg (remove_pivot rp p dist segs))
  | 2%nat => (* the retry loop: number of discarded (empty) passes and length of the stream left when the kept pass starts; k = fuel *)
    finish (rp <- getBool ;; im <- getBool ;; dist <- getQ ;; binf <- getQ ;; bsup <- getQ ;;
            gt <- getList (getList getUnitS) ;; k <- getNat ;; st <- getList getDraw ;; ret (rp, im, dist, binf, bsup, gt, k, st))
           (fun '(rp, im, dist, binf, bsup, gt, k, st) =>
              match retry_skip k rp im dist binf bsup gt st with
              | Some (d, s) => [1; Z.of_nat d; Z.of_nat (length s)]
              | None => [0]
              end)
  | 10%nat => (* statistical sampler: replay of a recorded stream *)
    finish (prec <- getQ ;; ncat <- getNat ;; nann <- getNat ;; st <- getList getSDraw ;; ret (prec, ncat, nann, st))
           (fun '(prec, ncat, nann, st) =>
              match stat_sample prec ncat nann st with
              | Some (anns, st') => [1; Z.of_nat (length st')] ++ putList (putList putSUnit) anns ++
                                    putList (fun r => [r]) (roles_annotators prec ncat nann true st)
              | None => [0]
              end)
  | 11%nat => (* parameters measured on a reference *)
    finish (ref <- getList (getList getRUnit) ;; ncat <- getNat ;; ret (ref, ncat))
           (fun '(ref, ncat) =>
              putQ (Stat.qmean (all_counts ref)) ++ putQ (Stat.qvar (all_counts ref)) ++
              putQ (Stat.qmean (all_gaps ref)) ++ putQ (Stat.qvar (all_gaps ref)) ++
              putQ (Stat.qmean (all_durations ref)) ++ putQ (Stat.qvar (all_durations ref)) ++
              putList (fun c => putQ (cat_weight ref c)) (seq 0 ncat))
  | 20%nat => (* corpus_shuffle: the iteration counts and shift_max are derived here from the magnitude, the class constants and the reference's statistics *)
    finish (prec <- getQ ;; m <- getQ ;; shf <- getQ ;; spf <- getQ ;; fpf <- getQ ;;
            rnann <- getNat ;; rnunits <- getNat ;; ravg <- getQ ;;
            o1 <- getBool ;; o2 <- getBool ;; o3 <- getBool ;; o4 <- getBool ;; o5 <- getBool ;;
            corpus <- getList (getList getCUnit) ;; st <- getList getCDraw ;;
            ret (prec, m, shf, spf, fpf, rnann, rnunits, ravg, mkOpts o1 o2 o3 o4 o5, corpus, st))
           (fun '(prec, m, shf, spf, fpf, rnann, rnunits, ravg, o, corpus, st) =>
              let shift_max := (m * shf * ravg)%Q in
              let kpos := trunc_nat (m * fpf * inject_Z (Z.of_nat rnann))%Q in
              let ksplit := trunc_nat (m * spf * (inject_Z (Z.of_nat rnunits) / inject_Z (Z.of_nat rnann)))%Q in
              match cst_run prec m shift_max kpos ksplit o corpus st with
              | Some (c, st') => [1; Z.of_nat (length st'); Z.of_nat kpos; Z.of_nat ksplit] ++ putList (putList putCUnit) c
              | None => [0; Z.of_nat kpos; Z.of_nat ksplit]
              end)
  | _ => fun _ => [-2]
  end.
