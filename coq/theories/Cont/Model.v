(* Model of pygamma_agreement.continuum.Unit / Continuum as a container (C13).
   Times are integers (the harness scales the dyadic float times by a common power of two), annotator names and labels
   are integers that preserve the order of the strings (rank in the sorted list of all names used by a history).
   Definitions only; proofs in Cont/Proofs.v. *)
From Coq Require Import List Arith ZArith Lia Bool.
Import ListNotations.
Local Open Scope Z_scope.

Record unit_ := mkU { us : Z; ue : Z; ul : option Z }.

Definition lab_eqb (a b : option Z) : bool :=
  match a, b with None, None => true | Some x, Some y => x =? y | _, _ => false end.
Definition unit_eqb (u v : unit_) : bool := (us u =? us v) && (ue u =? ue v) && lab_eqb (ul u) (ul v).

(* Unit.__lt__ (continuum.py:88-97, after the strictness fix): same segment -> by label, None first; else by segment *)
Definition unit_ltb (u v : unit_) : bool :=
  if (us u =? us v) && (ue u =? ue v) then
    match ul u, ul v with
    | None, None => false
    | None, Some _ => true
    | Some _, None => false
    | Some x, Some y => x <? y
    end
  else (us u <? us v) || ((us u =? us v) && (ue u <? ue v)).
Definition unit_lt (u v : unit_) : Prop := unit_ltb u v = true.

(* SortedSet.add *)
Fixpoint ins (u : unit_) (l : list unit_) : list unit_ :=
  match l with
  | [] => [u]
  | v :: r => if unit_eqb u v then l else if unit_ltb u v then u :: l else v :: ins u r
  end.
Fixpoint del (u : unit_) (l : list unit_) : list unit_ :=
  match l with
  | [] => []
  | v :: r => if unit_eqb u v then r else v :: del u r
  end.
Definition memu (u : unit_) (l : list unit_) : bool := existsb (unit_eqb u) l.

(* sorted set of integers (categories) *)
Fixpoint zins (x : Z) (l : list Z) : list Z :=
  match l with
  | [] => [x]
  | y :: r => if x =? y then l else if x <? y then x :: l else y :: zins x r
  end.

(* SortedDict annotator -> units *)
Definition amap := list (Z * list unit_).
Fixpoint aget (a : Z) (m : amap) : option (list unit_) :=
  match m with
  | [] => None
  | (b, l) :: r => if a =? b then Some l else aget a r
  end.
(* apply f to the units of annotator a, creating the annotator (with no unit) first if needed *)
Fixpoint aupd (a : Z) (f : list unit_ -> list unit_) (m : amap) : amap :=
  match m with
  | [] => [(a, f [])]
  | (b, l) :: r => if a =? b then (b, f l) :: r else if a <? b then (a, f []) :: m else (b, l) :: aupd a f r
  end.

Record cont := mkC { anns : amap; cats : list Z; binf : Z; bsup : Z }.
Definition empty_cont : cont := mkC [] [] 0 0.

Inductive outcome := Ok | ErrZeroLength | ErrKey.

(* Continuum.add (continuum.py:325-347); prec = pyannote's SEGMENT_PRECISION in the scaled unit *)
Definition add (prec : Z) (c : cont) (a : Z) (u : unit_) : cont * outcome :=
  if ue u - us u <=? prec then (c, ErrZeroLength)
  else (mkC (aupd a (ins u) (anns c))
            (match ul u with Some l => zins l (cats c) | None => cats c end)
            (Z.min (binf c) (us u)) (Z.max (bsup c) (ue u)), Ok).
Definition add_annotator (c : cont) (a : Z) : cont :=
  mkC (aupd a (fun l => l) (anns c)) (cats c) (binf c) (bsup c).
(* Continuum.remove: KeyError when the annotator or the unit is absent; bounds and categories are kept *)
Definition remove (c : cont) (a : Z) (u : unit_) : cont * outcome :=
  match aget a (anns c) with
  | None => (c, ErrKey)
  | Some l => if memu u l then (mkC (aupd a (del u) (anns c)) (cats c) (binf c) (bsup c), Ok) else (c, ErrKey)
  end.
Definition copy (c : cont) : cont := c.
Definition copy_flush (c : cont) : cont := mkC [] [] (binf c) (bsup c).
Definition all_pairs (c : cont) : list (Z * unit_) :=
  flat_map (fun al => map (fun u => (fst al, u)) (snd al)) (anns c).
(* Continuum.merge: add every annotator of d, then add every unit of d *)
Definition merge (prec : Z) (c d : cont) : cont :=
  fold_left (fun acc au => fst (add prec acc (fst au) (snd au))) (all_pairs d)
            (fold_left (fun acc al => add_annotator acc (fst al)) (anns d) c).
(* Continuum.reset_bounds (after the fix): leftmost start / rightmost end of all units, 0 when there is none *)
Definition zmin_list (l : list Z) : Z := match l with [] => 0 | x :: r => fold_left Z.min r x end.
Definition zmax_list (l : list Z) : Z := match l with [] => 0 | x :: r => fold_left Z.max r x end.
Definition reset_bounds (c : cont) : cont :=
  mkC (anns c) (cats c)
      (zmin_list (flat_map (fun al => match snd al with [] => [] | u :: _ => [us u] end) (anns c)))
      (zmax_list (map (fun au => ue (snd au)) (all_pairs c))).

Definition cont_eqb (c d : cont) : bool :=
  (* annotators equal, same number of units, same (annotator, unit) sequence *)
  if list_eq_dec Z.eq_dec (map fst (anns c)) (map fst (anns d)) then
    (length (all_pairs c) =? length (all_pairs d))%nat &&
    forallb (fun p => (fst (fst p) =? fst (snd p)) && unit_eqb (snd (fst p)) (snd (snd p)))
            (combine (all_pairs c) (all_pairs d))
  else false.
Definition cont_bool (c : cont) : bool := existsb (fun al => match snd al with [] => false | _ => true end) (anns c).

(* ----- histories over a register file ----- *)
Inductive op :=
| OAdd (r : nat) (a : Z) (u : unit_)
| OAddAnnotator (r : nat) (a : Z)
| ORemove (r : nat) (a : Z) (u : unit_)
| OMergeInPlace (r s : nat)
| OMergeNew (dst r s : nat)
| OCopy (dst r : nat)
| OCopyFlush (dst r : nat)
| OResetBounds (r : nat).

Definition regs := list cont.
Definition rget (rs : regs) (r : nat) : cont := nth r rs empty_cont.
Fixpoint rset (rs : regs) (r : nat) (c : cont) : regs :=
  match rs, r with
  | [], _ => []
  | _ :: t, O => c :: t
  | h :: t, S r' => h :: rset t r' c
  end.

Definition step (prec : Z) (rs : regs) (o : op) : regs * outcome :=
  match o with
  | OAdd r a u => let (c, out) := add prec (rget rs r) a u in (rset rs r c, out)
  | OAddAnnotator r a => (rset rs r (add_annotator (rget rs r) a), Ok)
  | ORemove r a u => let (c, out) := remove (rget rs r) a u in (rset rs r c, out)
  | OMergeInPlace r s => (rset rs r (merge prec (rget rs r) (rget rs s)), Ok)
  | OMergeNew dst r s => (rset rs dst (merge prec (copy (rget rs r)) (rget rs s)), Ok)
  | OCopy dst r => (rset rs dst (copy (rget rs r)), Ok)
  | OCopyFlush dst r => (rset rs dst (copy_flush (rget rs r)), Ok)
  | OResetBounds r => (rset rs r (reset_bounds (rget rs r)), Ok)
  end.
Definition run_ops (prec : Z) (rs : regs) (ops : list op) : regs :=
  fold_left (fun s o => fst (step prec s o)) ops rs.
